#!/usr/bin/env python3
# Renders the self-test kill matrix (mutant -> rule obligations that reported it) from evidence/*.json
# produced by thorough runs, plus the seeded changes' results (seeded/*/result.json).
import json,glob,os
rows=[]
for f in sorted(glob.glob('evidence/C*.json')):
    e=json.load(open(f))
    st=e['coverage'].get('selftest_mutants')
    if not st: continue
    for r in st['results']:
        by=sorted({k.split('|')[0] for k in r.get('by',[])})
        note=''
        mf='mutants/%s.json'%r['id']
        if os.path.exists(mf): note=json.load(open(mf)).get('note','')
        rows.append((r['id'],e['property_id'],r['status'],', '.join(by),note))
print('| mutant | property | status | reported by | edit |')
print('|---|---|---|---|---|')
for r in rows: print('| %s | %s | %s | %s | %s |'%r)
