#!/bin/sh
# validates MANIFEST.json and every evidence file against the harness schemas
cd "$(dirname "$0")"
python3-vt - <<'PY'
import json,jsonschema,glob,sys
m=json.load(open('MANIFEST.json')); jsonschema.validate(m,json.load(open('/root/.vp/MANIFEST.schema.json')))
print('MANIFEST ok: %d checks, %d not_applicable'%(len(m['checks']),len(m.get('not_applicable',[]))))
s=json.load(open('/root/.vp/EVIDENCE.schema.json'))
for f in sorted(glob.glob('evidence/C*.json')):
    jsonschema.validate(json.load(open(f)),s)
print('evidence ok:',len(glob.glob('evidence/C*.json')))
PY
