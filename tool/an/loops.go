package an

import (
	"go/token"

	"golang.org/x/tools/go/ssa"
)

// Loop is a natural loop.
type Loop struct {
	Header *ssa.BasicBlock
	Blocks map[*ssa.BasicBlock]bool // includes header
}

// NaturalLoops returns the natural loops of fn keyed by header.
func NaturalLoops(fn *ssa.Function) map[*ssa.BasicBlock]*Loop {
	out := map[*ssa.BasicBlock]*Loop{}
	for _, b := range fn.Blocks {
		for _, s := range b.Succs {
			if !s.Dominates(b) {
				continue
			}
			l := out[s]
			if l == nil {
				l = &Loop{Header: s, Blocks: map[*ssa.BasicBlock]bool{s: true}}
				out[s] = l
			}
			// add all blocks that reach b without passing header
			stack := []*ssa.BasicBlock{b}
			for len(stack) > 0 {
				x := stack[len(stack)-1]
				stack = stack[:len(stack)-1]
				if l.Blocks[x] {
					continue
				}
				l.Blocks[x] = true
				stack = append(stack, x.Preds...)
			}
		}
	}
	return out
}

// ExitEdges returns the edges leaving the loop.
func (l *Loop) ExitEdges() []Edge {
	var out []Edge
	for b := range l.Blocks {
		for _, s := range b.Succs {
			if !l.Blocks[s] {
				out = append(out, Edge{b, s})
			}
		}
	}
	return out
}

// IndexLoop is a loop of the shape `for i := range S` / `for i := 0; i < len(S); i++`
// (or a map/range-iterator loop, where Iter != nil).
type IndexLoop struct {
	*Loop
	Idx     ssa.Value // the index value used in the body (i)
	Slice   ssa.Value // S (the value whose len bounds the loop), nil for iterator loops
	Iter    *ssa.Range
	Next    *ssa.Next
	Body    *ssa.BasicBlock // first body block
	Done    *ssa.BasicBlock // exit target of the header
	Start   int64           // first index
	WholeOK bool            // bounds are exactly [0, len(S))
}

func lenArg(v ssa.Value) ssa.Value {
	if c, ok := v.(*ssa.Call); ok {
		if bi, ok := c.Call.Value.(*ssa.Builtin); ok && bi.Name() == "len" && len(c.Call.Args) == 1 {
			return c.Call.Args[0]
		}
	}
	return nil
}

// AsIndexLoop recognises range-style loops. ok=false if the loop has another shape.
func AsIndexLoop(l *Loop) (*IndexLoop, bool) {
	h := l.Header
	ifi, ok := h.Instrs[len(h.Instrs)-1].(*ssa.If)
	if !ok {
		return nil, false
	}
	il := &IndexLoop{Loop: l}
	if l.Blocks[h.Succs[0]] && !l.Blocks[h.Succs[1]] {
		il.Body, il.Done = h.Succs[0], h.Succs[1]
	} else {
		return nil, false
	}
	// iterator loop: cond = extract (next iter) #0
	if ex, ok := ifi.Cond.(*ssa.Extract); ok && ex.Index == 0 {
		if nx, ok := ex.Tuple.(*ssa.Next); ok {
			if rg, ok := nx.Iter.(*ssa.Range); ok {
				il.Iter, il.Next = rg, nx
				il.WholeOK = true
				return il, true
			}
		}
	}
	cmp, ok := ifi.Cond.(*ssa.BinOp)
	if !ok || cmp.Op != token.LSS {
		return nil, false
	}
	s := lenArg(cmp.Y)
	if s == nil {
		return nil, false
	}
	il.Slice = s
	// shape A (range): cmp.X = phi+1, phi = [-1 from outside, cmp.X from back edges]
	if inc, ok := cmp.X.(*ssa.BinOp); ok && inc.Op == token.ADD {
		if phi, ok := inc.X.(*ssa.Phi); ok && phi.Block() == h {
			if k, isC := ConstInt(inc.Y); isC && k == 1 {
				good := true
				for i, e := range phi.Edges {
					if l.Blocks[h.Preds[i]] {
						if e != inc {
							good = false
						}
					} else if c, isC := ConstInt(e); !isC {
						good = false
					} else {
						il.Start = c + 1
					}
				}
				if good {
					il.Idx = inc
					il.WholeOK = il.Start == 0
					return il, true
				}
			}
		}
	}
	// shape B (classic for): cmp.X = phi, phi = [k from outside, phi+1 from back edges]
	if phi, ok := cmp.X.(*ssa.Phi); ok && phi.Block() == h {
		good := true
		for i, e := range phi.Edges {
			if l.Blocks[h.Preds[i]] {
				inc, ok := e.(*ssa.BinOp)
				if !ok || inc.Op != token.ADD || inc.X != phi {
					good = false
				} else if k, isC := ConstInt(inc.Y); !isC || k != 1 {
					good = false
				}
			} else if c, isC := ConstInt(e); !isC {
				good = false
			} else {
				il.Start = c
			}
		}
		if good {
			il.Idx = phi
			il.WholeOK = il.Start == 0
			return il, true
		}
	}
	return nil, false
}

// OnlyExhaustionExit reports whether the only edge leaving the loop is header->Done
// (no break / return / goto out of the body). Panics (blocks without successors) are ignored.
func (il *IndexLoop) OnlyExhaustionExit() (bool, []Edge) {
	var bad []Edge
	for _, e := range il.ExitEdges() {
		if e.From == il.Header && e.To == il.Done {
			continue
		}
		bad = append(bad, e)
	}
	// returns inside the loop also leave it
	for b := range il.Blocks {
		if len(b.Succs) == 0 {
			if _, isRet := b.Instrs[len(b.Instrs)-1].(*ssa.Return); isRet {
				bad = append(bad, Edge{b, nil})
			}
		}
	}
	return len(bad) == 0, bad
}

// Elem returns the values that denote "the element of this iteration": loads of &S[idx] /
// Index(S, idx) for index loops, Extract #2 (value) or #1 (key) of Next for iterator loops.
func (il *IndexLoop) Elems() []ssa.Value {
	var out []ssa.Value
	if il.Next != nil {
		for _, r := range Referrers(il.Next) {
			if ex, ok := r.(*ssa.Extract); ok && ex.Index >= 1 {
				out = append(out, ex)
			}
		}
		return out
	}
	for _, r := range Referrers(il.Idx) {
		switch x := r.(type) {
		case *ssa.IndexAddr:
			if x.Index == il.Idx && SameValue(x.X, il.Slice) {
				for _, rr := range Referrers(x) {
					if u, ok := rr.(*ssa.UnOp); ok && u.Op == token.MUL {
						out = append(out, u)
					}
				}
			}
		case *ssa.Index:
			if x.Index == il.Idx && SameValue(x.X, il.Slice) {
				out = append(out, x)
			}
		}
	}
	return out
}

// LoopContaining returns the innermost natural loop containing block b.
func LoopContaining(loops map[*ssa.BasicBlock]*Loop, b *ssa.BasicBlock) *Loop {
	var best *Loop
	for _, l := range loops {
		if l.Blocks[b] && (best == nil || len(l.Blocks) < len(best.Blocks)) {
			best = l
		}
	}
	return best
}
