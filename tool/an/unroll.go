package an

import (
	"bytes"
	"fmt"
	"go/ast"
	"go/parser"
	"go/printer"
	"go/token"
	"go/types"

	"golang.org/x/tools/go/packages"
)

// unrollTables rewrites a local table of function literals that is only ranged over,
//
//	steps := []func() error{f0, f1, f2}
//	for _, step := range steps { body }
//
// into one copy of the body per element with `step := fi` in front (the next round inlines the literal as a local closure
// used only as a callee). The order of calls and of every effect is that of the loop; `continue` ends the copy, and a body
// with an unlabelled `break` of the loop, labels, or a literal capturing the loop variable is left alone.
func (nz *normalizer) unrollTables(p *packages.Package, f *ast.File, fd *ast.FuncDecl) {
	if p.TypesInfo == nil {
		return
	}
	ast.Inspect(fd.Body, func(n ast.Node) bool {
		var list *[]ast.Stmt
		switch x := n.(type) {
		case *ast.BlockStmt:
			list = &x.List
		case *ast.CaseClause:
			list = &x.Body
		case *ast.CommClause:
			list = &x.Body
		}
		if list == nil {
			return true
		}
		for i := 0; i < len(*list); i++ {
			as, ok := (*list)[i].(*ast.AssignStmt)
			if !ok || as.Tok != token.DEFINE || len(as.Lhs) != 1 || len(as.Rhs) != 1 {
				continue
			}
			id, ok := as.Lhs[0].(*ast.Ident)
			cl, ok2 := ast.Unparen(as.Rhs[0]).(*ast.CompositeLit)
			if !ok || !ok2 || len(cl.Elts) == 0 {
				continue
			}
			obj := p.TypesInfo.Defs[id]
			if obj == nil {
				continue
			}
			var elem types.Type
			switch t := p.TypesInfo.TypeOf(cl).Underlying().(type) {
			case *types.Slice:
				elem = t.Elem()
			case *types.Array:
				elem = t.Elem()
			}
			if elem == nil {
				continue
			}
			if _, isSig := elem.Underlying().(*types.Signature); !isSig {
				continue
			}
			// elements: function literals, or method values / function names whose receiver is never reassigned
			var lits []ast.Expr
			for _, e := range cl.Elts {
				switch x := ast.Unparen(e).(type) {
				case *ast.FuncLit:
					lits = append(lits, x)
				case *ast.Ident:
					if _, isFn := p.TypesInfo.Uses[x].(*types.Func); isFn {
						lits = append(lits, x)
					}
				case *ast.SelectorExpr:
					if _, isFn := p.TypesInfo.Uses[x.Sel].(*types.Func); isFn {
						if id, ok := x.X.(*ast.Ident); ok {
							if _, isPkg := p.TypesInfo.Uses[id].(*types.PkgName); isPkg || nz.neverReassigned(p.TypesInfo, fd, p.TypesInfo.Uses[id]) {
								lits = append(lits, x)
							}
						}
					}
				}
			}
			if len(lits) != len(cl.Elts) {
				continue
			}
			// the only use: `for _, v := range id` later in this list
			uses := 0
			ast.Inspect(fd.Body, func(m ast.Node) bool {
				if u, ok := m.(*ast.Ident); ok && p.TypesInfo.Uses[u] == obj {
					uses++
				}
				return true
			})
			if uses != 1 {
				continue
			}
			ri := -1
			var rs *ast.RangeStmt
			for j := i + 1; j < len(*list); j++ {
				if r, ok := (*list)[j].(*ast.RangeStmt); ok {
					if u, ok := r.X.(*ast.Ident); ok && p.TypesInfo.Uses[u] == obj {
						ri, rs = j, r
					}
				}
			}
			if rs == nil || rs.Tok != token.DEFINE || rs.Value == nil {
				continue
			}
			if k, ok := rs.Key.(*ast.Ident); rs.Key != nil && (!ok || k.Name != "_") {
				continue
			}
			v, ok := rs.Value.(*ast.Ident)
			if !ok || v.Name == "_" {
				continue
			}
			vobj := p.TypesInfo.Defs[v]
			hasContinue, okBody := false, true
			var scan func(n ast.Node, inLoop, inBreakable bool)
			scan = func(n ast.Node, inLoop, inBreakable bool) {
				ast.Inspect(n, func(m ast.Node) bool {
					if m == n {
						return true
					}
					switch x := m.(type) {
					case *ast.FuncLit:
						ast.Inspect(x, func(k ast.Node) bool {
							if u, ok := k.(*ast.Ident); ok && vobj != nil && p.TypesInfo.Uses[u] == vobj {
								okBody = false
							}
							return true
						})
						return false
					case *ast.LabeledStmt:
						okBody = false
					case *ast.GoStmt, *ast.DeferStmt:
						okBody = false
					case *ast.ForStmt, *ast.RangeStmt:
						scan(x, true, true)
						return false
					case *ast.SwitchStmt, *ast.TypeSwitchStmt, *ast.SelectStmt:
						scan(x, inLoop, true)
						return false
					case *ast.BranchStmt:
						if x.Label != nil || x.Tok == token.GOTO {
							okBody = false
						}
						if x.Tok == token.BREAK && !inBreakable {
							okBody = false
						}
						if x.Tok == token.CONTINUE && !inLoop {
							hasContinue = true
						}
					}
					return true
				})
			}
			scan(rs.Body, false, false)
			if !okBody {
				nlog("table %s in %s not unrolled: body breaks out of the loop, uses labels/go/defer, or captures the loop variable", id.Name, fd.Name.Name)
				continue
			}
			var bodySrc bytes.Buffer
			if err := printer.Fprint(&bodySrc, p.Fset, rs.Body); err != nil {
				continue
			}
			var copies []ast.Stmt
			failed := false
			for k, lit := range lits {
				inlineSeq++
				label := fmt.Sprintf("unr%d", inlineSeq)
				file, err := parser.ParseFile(token.NewFileSet(), "u.go", "package p\nfunc _() "+bodySrc.String(), 0)
				if err != nil {
					failed = true
					break
				}
				body := file.Decls[0].(*ast.FuncDecl).Body
				if hasContinue {
					var rewrite func(n ast.Node, inLoop bool)
					rewrite = func(n ast.Node, inLoop bool) {
						ast.Inspect(n, func(m ast.Node) bool {
							if m == n {
								return true
							}
							switch x := m.(type) {
							case *ast.FuncLit:
								return false
							case *ast.ForStmt, *ast.RangeStmt:
								return false // a continue in there is the inner loop's
							case *ast.BranchStmt:
								if x.Tok == token.CONTINUE && !inLoop {
									x.Tok = token.BREAK
									x.Label = ast.NewIdent(label)
								}
							}
							return true
						})
					}
					rewrite(body, false)
				}
				var stmts []ast.Stmt
				if _, isLit := lit.(*ast.FuncLit); isLit {
					stmts = append([]ast.Stmt{&ast.AssignStmt{Lhs: []ast.Expr{ast.NewIdent(v.Name)}, Tok: token.DEFINE, Rhs: []ast.Expr{lit}}}, body.List...)
				} else {
					// a named function or method value: the copy calls it by name (the variable must be used as a callee only)
					calleeSrc := bytes.Buffer{}
					printer.Fprint(&calleeSrc, p.Fset, lit)
					okUse := true
					callees := map[*ast.Ident]bool{}
					ast.Inspect(body, func(m ast.Node) bool {
						if c, ok := m.(*ast.CallExpr); ok {
							if id, ok := c.Fun.(*ast.Ident); ok && id.Name == v.Name {
								callees[id] = true
							}
						}
						return true
					})
					ast.Inspect(body, func(m ast.Node) bool {
						if id, ok := m.(*ast.Ident); ok && id.Name == v.Name && !callees[id] {
							okUse = false
						}
						return true
					})
					if !okUse || len(callees) == 0 {
						failed = true
						break
					}
					ast.Inspect(body, func(m ast.Node) bool {
						if c, ok := m.(*ast.CallExpr); ok {
							if id, ok := c.Fun.(*ast.Ident); ok && callees[id] {
								if e, err := parser.ParseExpr(calleeSrc.String()); err == nil {
									c.Fun = e
								} else {
									failed = true
								}
							}
						}
						return true
					})
					stmts = body.List
				}
				_ = k
				if hasContinue {
					copies = append(copies, &ast.LabeledStmt{Label: ast.NewIdent(label), Stmt: &ast.SwitchStmt{Body: &ast.BlockStmt{List: []ast.Stmt{&ast.CaseClause{Body: stmts}}}}})
				} else {
					copies = append(copies, &ast.BlockStmt{List: stmts})
				}
			}
			if failed {
				continue
			}
			nl := append([]ast.Stmt{}, (*list)[:i]...)
			nl = append(nl, (*list)[i+1:ri]...)
			nl = append(nl, &ast.BlockStmt{List: copies})
			nl = append(nl, (*list)[ri+1:]...)
			*list = nl
			nz.changed[f] = p
			nz.unrolled++
			nlog("unrolled table %s (%d function literals) in %s", id.Name, len(lits), fd.Name.Name)
			i--
		}
		return true
	})
}

// loopHeaderCalls rewrites `for x := h(a); cond; x = h(a) { body }` (the same helper call in the init and the post
// statement) into `for { x := h(a); if !(cond) { break }; body }`: the call runs before every test of cond, a `continue`
// reaches it again, and a `break` leaves as before. Only for calls of helpers the normaliser inlines.
func (nz *normalizer) loopHeaderCalls(p *packages.Package, f *ast.File, fd *ast.FuncDecl) {
	if p.TypesInfo == nil {
		return
	}
	render := func(n ast.Node) string {
		var b bytes.Buffer
		printer.Fprint(&b, p.Fset, n)
		return b.String()
	}
	ast.Inspect(fd.Body, func(n ast.Node) bool {
		fs, ok := n.(*ast.ForStmt)
		if ok && fs.Post == nil && fs.Cond != nil {
			// `for cond-with-helper-call { body }` → `for { if !(cond) { break }; body }` (a continue re-evaluates cond as before)
			hasHelper := false
			ast.Inspect(fs.Cond, func(m ast.Node) bool {
				if _, isLit := m.(*ast.FuncLit); isLit {
					return false
				}
				if c, ok := m.(*ast.CallExpr); ok {
					if h, _ := nz.calleeOf(p, c); h != nil {
						hasHelper = true
					}
				}
				return true
			})
			if hasHelper {
				guard := &ast.IfStmt{Cond: &ast.UnaryExpr{Op: token.NOT, X: &ast.ParenExpr{X: fs.Cond}}, Body: &ast.BlockStmt{List: []ast.Stmt{&ast.BranchStmt{Tok: token.BREAK}}}}
				fs.Body.List = append([]ast.Stmt{guard}, fs.Body.List...)
				fs.Cond = nil
				nz.changed[f] = p
				nz.unrolled++
				nlog("helper call in the condition of a loop in %s moved into the body", fd.Name.Name)
			}
			return true
		}
		if !ok || fs.Init == nil || fs.Post == nil || fs.Cond == nil {
			return true
		}
		ini, ok1 := fs.Init.(*ast.AssignStmt)
		post, ok2 := fs.Post.(*ast.AssignStmt)
		if !ok1 || !ok2 || ini.Tok != token.DEFINE || post.Tok != token.ASSIGN || len(ini.Rhs) != 1 || len(post.Rhs) != 1 || len(ini.Lhs) != len(post.Lhs) {
			return true
		}
		call, ok := ini.Rhs[0].(*ast.CallExpr)
		if !ok {
			return true
		}
		if h, _ := nz.calleeOf(p, call); h == nil {
			return true
		}
		if render(ini.Rhs[0]) != render(post.Rhs[0]) {
			return true
		}
		for i := range ini.Lhs {
			a, ok1 := ini.Lhs[i].(*ast.Ident)
			b, ok2 := post.Lhs[i].(*ast.Ident)
			if !ok1 || !ok2 || a.Name != b.Name {
				return true
			}
		}
		// a labelled continue/break naming this loop from inside is fine (the label stays on the statement); a closure
		// capturing the loop variables would see one variable per iteration instead of one per loop: leave those alone
		captured := false
		ast.Inspect(fs.Body, func(m ast.Node) bool {
			if lit, ok := m.(*ast.FuncLit); ok {
				ast.Inspect(lit, func(k ast.Node) bool {
					if id, ok := k.(*ast.Ident); ok {
						for _, l := range ini.Lhs {
							if p.TypesInfo.Uses[id] != nil && p.TypesInfo.Uses[id] == p.TypesInfo.Defs[l.(*ast.Ident)] {
								captured = true
							}
						}
					}
					return true
				})
				return false
			}
			return true
		})
		if captured {
			return true
		}
		guard := &ast.IfStmt{Cond: &ast.UnaryExpr{Op: token.NOT, X: &ast.ParenExpr{X: fs.Cond}}, Body: &ast.BlockStmt{List: []ast.Stmt{&ast.BranchStmt{Tok: token.BREAK}}}}
		fs.Body.List = append([]ast.Stmt{ini, guard}, fs.Body.List...)
		fs.Init, fs.Cond, fs.Post = nil, nil, nil
		nz.changed[f] = p
		nz.unrolled++
		nlog("helper call in the header of a loop in %s moved into the body", fd.Name.Name)
		return true
	})
}
