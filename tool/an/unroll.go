package an

import (
	"bytes"
	"fmt"
	"go/ast"
	"go/parser"
	"go/printer"
	"go/token"
	"go/types"

	"golang.org/x/tools/go/packages"
)

// unrollTables rewrites a local table of function literals that is only ranged over,
//
//	steps := []func() error{f0, f1, f2}
//	for _, step := range steps { body }
//
// into one copy of the body per element with `step := fi` in front (the next round inlines the literal as a local closure
// used only as a callee). The order of calls and of every effect is that of the loop; `continue` ends the copy, and a body
// with an unlabelled `break` of the loop, labels, or a literal capturing the loop variable is left alone.
func (nz *normalizer) unrollTables(p *packages.Package, f *ast.File, fd *ast.FuncDecl) {
	if p.TypesInfo == nil {
		return
	}
	ast.Inspect(fd.Body, func(n ast.Node) bool {
		var list *[]ast.Stmt
		switch x := n.(type) {
		case *ast.BlockStmt:
			list = &x.List
		case *ast.CaseClause:
			list = &x.Body
		case *ast.CommClause:
			list = &x.Body
		}
		if list == nil {
			return true
		}
		for i := 0; i < len(*list); i++ {
			as, ok := (*list)[i].(*ast.AssignStmt)
			if !ok || as.Tok != token.DEFINE || len(as.Lhs) != 1 || len(as.Rhs) != 1 {
				continue
			}
			id, ok := as.Lhs[0].(*ast.Ident)
			cl, ok2 := ast.Unparen(as.Rhs[0]).(*ast.CompositeLit)
			if !ok || !ok2 || len(cl.Elts) == 0 {
				continue
			}
			obj := p.TypesInfo.Defs[id]
			if obj == nil {
				continue
			}
			var elem types.Type
			switch t := p.TypesInfo.TypeOf(cl).Underlying().(type) {
			case *types.Slice:
				elem = t.Elem()
			case *types.Array:
				elem = t.Elem()
			}
			if elem == nil {
				continue
			}
			if _, isSig := elem.Underlying().(*types.Signature); !isSig {
				continue
			}
			var lits []*ast.FuncLit
			for _, e := range cl.Elts {
				if lit, ok := ast.Unparen(e).(*ast.FuncLit); ok {
					lits = append(lits, lit)
				}
			}
			if len(lits) != len(cl.Elts) {
				continue
			}
			// the only use: `for _, v := range id` later in this list
			uses := 0
			ast.Inspect(fd.Body, func(m ast.Node) bool {
				if u, ok := m.(*ast.Ident); ok && p.TypesInfo.Uses[u] == obj {
					uses++
				}
				return true
			})
			if uses != 1 {
				continue
			}
			ri := -1
			var rs *ast.RangeStmt
			for j := i + 1; j < len(*list); j++ {
				if r, ok := (*list)[j].(*ast.RangeStmt); ok {
					if u, ok := r.X.(*ast.Ident); ok && p.TypesInfo.Uses[u] == obj {
						ri, rs = j, r
					}
				}
			}
			if rs == nil || rs.Tok != token.DEFINE || rs.Value == nil {
				continue
			}
			if k, ok := rs.Key.(*ast.Ident); rs.Key != nil && (!ok || k.Name != "_") {
				continue
			}
			v, ok := rs.Value.(*ast.Ident)
			if !ok || v.Name == "_" {
				continue
			}
			vobj := p.TypesInfo.Defs[v]
			hasContinue, okBody := false, true
			var scan func(n ast.Node, inLoop, inBreakable bool)
			scan = func(n ast.Node, inLoop, inBreakable bool) {
				ast.Inspect(n, func(m ast.Node) bool {
					if m == n {
						return true
					}
					switch x := m.(type) {
					case *ast.FuncLit:
						ast.Inspect(x, func(k ast.Node) bool {
							if u, ok := k.(*ast.Ident); ok && vobj != nil && p.TypesInfo.Uses[u] == vobj {
								okBody = false
							}
							return true
						})
						return false
					case *ast.LabeledStmt:
						okBody = false
					case *ast.GoStmt, *ast.DeferStmt:
						okBody = false
					case *ast.ForStmt, *ast.RangeStmt:
						scan(x, true, true)
						return false
					case *ast.SwitchStmt, *ast.TypeSwitchStmt, *ast.SelectStmt:
						scan(x, inLoop, true)
						return false
					case *ast.BranchStmt:
						if x.Label != nil || x.Tok == token.GOTO {
							okBody = false
						}
						if x.Tok == token.BREAK && !inBreakable {
							okBody = false
						}
						if x.Tok == token.CONTINUE && !inLoop {
							hasContinue = true
						}
					}
					return true
				})
			}
			scan(rs.Body, false, false)
			if !okBody {
				nlog("table %s in %s not unrolled: body breaks out of the loop, uses labels/go/defer, or captures the loop variable", id.Name, fd.Name.Name)
				continue
			}
			var bodySrc bytes.Buffer
			if err := printer.Fprint(&bodySrc, p.Fset, rs.Body); err != nil {
				continue
			}
			var copies []ast.Stmt
			failed := false
			for k, lit := range lits {
				inlineSeq++
				label := fmt.Sprintf("unr%d", inlineSeq)
				file, err := parser.ParseFile(token.NewFileSet(), "u.go", "package p\nfunc _() "+bodySrc.String(), 0)
				if err != nil {
					failed = true
					break
				}
				body := file.Decls[0].(*ast.FuncDecl).Body
				if hasContinue {
					var rewrite func(n ast.Node, inLoop bool)
					rewrite = func(n ast.Node, inLoop bool) {
						ast.Inspect(n, func(m ast.Node) bool {
							if m == n {
								return true
							}
							switch x := m.(type) {
							case *ast.FuncLit:
								return false
							case *ast.ForStmt, *ast.RangeStmt:
								return false // a continue in there is the inner loop's
							case *ast.BranchStmt:
								if x.Tok == token.CONTINUE && !inLoop {
									x.Tok = token.BREAK
									x.Label = ast.NewIdent(label)
								}
							}
							return true
						})
					}
					rewrite(body, false)
				}
				stmts := append([]ast.Stmt{&ast.AssignStmt{Lhs: []ast.Expr{ast.NewIdent(v.Name)}, Tok: token.DEFINE, Rhs: []ast.Expr{lit}}}, body.List...)
				_ = k
				if hasContinue {
					copies = append(copies, &ast.LabeledStmt{Label: ast.NewIdent(label), Stmt: &ast.SwitchStmt{Body: &ast.BlockStmt{List: []ast.Stmt{&ast.CaseClause{Body: stmts}}}}})
				} else {
					copies = append(copies, &ast.BlockStmt{List: stmts})
				}
			}
			if failed {
				continue
			}
			nl := append([]ast.Stmt{}, (*list)[:i]...)
			nl = append(nl, (*list)[i+1:ri]...)
			nl = append(nl, &ast.BlockStmt{List: copies})
			nl = append(nl, (*list)[ri+1:]...)
			*list = nl
			nz.changed[f] = p
			nz.unrolled++
			nlog("unrolled table %s (%d function literals) in %s", id.Name, len(lits), fd.Name.Name)
			i--
		}
		return true
	})
}
