package an

import (
	"go/ast"
	"go/types"
	"sort"
	"strconv"
	"strings"

	"golang.org/x/tools/go/packages"
	"golang.org/x/tools/go/ssa"
)

// Rename resolution. The rules name the functions they look at ("(*Channel).put"), and the who-may-call, who-may-write and
// dropped-error baselines name functions of the pinned tree. A change that renames one of those functions, or turns a
// function into a method (or back), has changed no behaviour. baseline_funcs.txt therefore records, for every top-level
// function of the pinned tree, its package, its flattened signature (receiver first) and its display name; on every load
// a function the baseline does not know is matched against the baseline functions that have disappeared from the same
// package, and when exactly one of each has a given signature the new function IS the old one under a new name: it is not
// inlined, Prog.Func finds it under the old name, and FnName prints the old name. Anything less clear-cut (two candidates,
// a changed signature) is left alone – the rule then reports that its anchor is gone, which is the truth.
type baselineEntry struct{ pkg, sig, display string }

var (
	baselineInfo = map[string]baselineEntry{} // key -> entry (top-level functions only)
	// Renamed maps the key of a function of the loaded tree to the key of the baseline function it replaces; oldToNew is
	// the reverse. Recomputed on every load.
	Renamed  = map[string]string{}
	oldToNew = map[string]string{}
	// display names: new FnName prefix -> baseline FnName
	renamedDisplay = map[string]string{}
)

// InBaseline: the function (or closure key "<func>$name") belongs to the pinned tree, possibly under another name.
func InBaseline(key string) bool {
	if Baseline[key] {
		return true
	}
	root, rest := key, ""
	if i := strings.Index(key, "$"); i >= 0 {
		root, rest = key[:i], key[i:]
	}
	if old, ok := Renamed[root]; ok {
		return rest == "" || Baseline[old+rest]
	}
	return false
}

// FlatSig is the flattened signature of a declared function: receiver (if any) and parameters, then results, with fully
// qualified type names.
func FlatSig(f *types.Func) string {
	sig, ok := f.Type().(*types.Signature)
	if !ok {
		return ""
	}
	q := func(p *types.Package) string { return p.Path() }
	var in []string
	if r := sig.Recv(); r != nil {
		in = append(in, types.TypeString(r.Type(), q))
	}
	for i := 0; i < sig.Params().Len(); i++ {
		t := types.TypeString(sig.Params().At(i).Type(), q)
		if sig.Variadic() && i == sig.Params().Len()-1 {
			t = "..." + t
		}
		in = append(in, t)
	}
	var out []string
	for i := 0; i < sig.Results().Len(); i++ {
		out = append(out, types.TypeString(sig.Results().At(i).Type(), q))
	}
	return "(" + strings.Join(in, ", ") + ") -> (" + strings.Join(out, ", ") + ")"
}

func displayOf(f *types.Func) string {
	sig := f.Type().(*types.Signature)
	pkg := strings.TrimPrefix(f.Pkg().Path(), ModPath+"/")
	if r := sig.Recv(); r != nil {
		t := r.Type()
		star := ""
		if pt, ok := t.(*types.Pointer); ok {
			t, star = pt.Elem(), "*"
		}
		if nt, ok := t.(*types.Named); ok {
			if star != "" {
				return "(*" + pkg + "." + nt.Obj().Name() + ")." + f.Name()
			}
			return "(" + pkg + "." + nt.Obj().Name() + ")." + f.Name()
		}
	}
	return pkg + "." + f.Name()
}

// BaselineLines lists "key\tpkg\tsig\tdisplay" for the top-level functions of the loaded module packages (-genbaseline).
func BaselineLines(pkgs []*packages.Package) map[string]string {
	out := map[string]string{}
	packages.Visit(pkgs, nil, func(p *packages.Package) {
		if !strings.HasPrefix(p.PkgPath, ModPath) || p.TypesInfo == nil {
			return
		}
		for _, f := range p.Syntax {
			for _, d := range f.Decls {
				fd, ok := d.(*ast.FuncDecl)
				if !ok {
					continue
				}
				obj, _ := p.TypesInfo.Defs[fd.Name].(*types.Func)
				if obj == nil || fd.Name.Name == "init" || fd.Name.Name == "_" {
					continue
				}
				out[FuncKey(p.PkgPath, fd)] = p.PkgPath + "\t" + FlatSig(obj) + "\t" + displayOf(obj)
			}
		}
	})
	return out
}

// resolveRenames recomputes Renamed from the loaded packages.
func resolveRenames(pkgs []*packages.Package) {
	Renamed, oldToNew, renamedDisplay = map[string]string{}, map[string]string{}, map[string]string{}
	renamedNatural = map[string]bool{}
	if Baseline == nil || len(baselineInfo) == 0 {
		return
	}
	type cand struct{ key, display string }
	cur := map[string]bool{}
	fresh := map[string][]cand{} // pkg|sig -> functions the baseline does not know
	loaded := map[string]bool{}
	packages.Visit(pkgs, nil, func(p *packages.Package) {
		if !strings.HasPrefix(p.PkgPath, ModPath) || p.TypesInfo == nil || len(p.Syntax) == 0 {
			return
		}
		loaded[p.PkgPath] = true
		for _, f := range p.Syntax {
			for _, d := range f.Decls {
				fd, ok := d.(*ast.FuncDecl)
				if !ok {
					continue
				}
				key := FuncKey(p.PkgPath, fd)
				cur[key] = true
				if Baseline[key] {
					continue
				}
				obj, _ := p.TypesInfo.Defs[fd.Name].(*types.Func)
				if obj == nil || fd.Body == nil {
					continue
				}
				g := p.PkgPath + "|" + FlatSig(obj)
				fresh[g] = append(fresh[g], cand{key, displayOf(obj)})
			}
		}
	})
	gone := map[string][]string{} // pkg|sig -> baseline functions that are no longer declared
	for key, e := range baselineInfo {
		if loaded[e.pkg] && !cur[key] {
			g := e.pkg + "|" + e.sig
			gone[g] = append(gone[g], key)
		}
	}
	var groups []string
	for g := range gone {
		groups = append(groups, g)
	}
	sort.Strings(groups)
	for _, g := range groups {
		if len(gone[g]) != 1 || len(fresh[g]) != 1 {
			continue
		}
		old, nw := gone[g][0], fresh[g][0]
		Renamed[nw.key] = old
		oldToNew[old] = nw.key
		renamedDisplay[nw.display] = baselineInfo[old].display
		nlog("rename: %s is %s of the pinned tree", nw.key, old)
	}
	// second pass: the same bare name in the same package – a method that became a function (its unused receiver dropped)
	// or a function that became a method, with the rest of the signature unchanged
	bare := func(key string) string { return key[strings.LastIndex(key, ".")+1:] }
	goneByName, freshByName := map[string][]string{}, map[string][]cand{}
	freshSig := map[string]string{}
	for g, ks := range gone {
		for _, k := range ks {
			if _, done := oldToNew[k]; !done {
				n := g[:strings.Index(g, "|")] + "|" + bare(k)
				goneByName[n] = append(goneByName[n], k)
			}
		}
	}
	for g, cs := range fresh {
		for _, cd := range cs {
			if _, done := Renamed[cd.key]; !done {
				n := g[:strings.Index(g, "|")] + "|" + bare(cd.key)
				freshByName[n] = append(freshByName[n], cd)
				freshSig[cd.key] = g[strings.Index(g, "|")+1:]
			}
		}
	}
	for n, olds := range goneByName {
		if len(olds) != 1 || len(freshByName[n]) != 1 {
			continue
		}
		old, nw := olds[0], freshByName[n][0]
		// signatures equal once the first (receiver) parameter of the longer one is dropped
		a, b := baselineInfo[old].sig, freshSig[nw.key]
		if dropFirstParam(a) != b && dropFirstParam(b) != a {
			continue
		}
		Renamed[nw.key] = old
		oldToNew[old] = nw.key
		renamedDisplay[nw.display] = baselineInfo[old].display
		renamedNatural[nw.key] = true
		nlog("rename: %s is %s of the pinned tree (receiver dropped or added)", nw.key, old)
	}
}

// renamedNatural: matched by name; the argument lists differ by the receiver, so call sites are read as they stand.
var renamedNatural = map[string]bool{}

func dropFirstParam(sig string) string {
	if !strings.HasPrefix(sig, "(") {
		return sig
	}
	i := strings.Index(sig, ") -> (")
	if i < 0 {
		return sig
	}
	params := sig[1:i]
	depth := 0
	for j, r := range params {
		switch r {
		case '(', '[', '{':
			depth++
		case ')', ']', '}':
			depth--
		case ',':
			if depth == 0 {
				return "(" + strings.TrimSpace(params[j+1:]) + sig[i:]
			}
		}
	}
	return "(" + sig[i:]
}

// renamedFunc looks a vanished baseline function up under its new name.
func (p *Prog) renamedFunc(pkg, name string) *ssa.Function {
	full := p.fullPath(pkg)
	n := strings.NewReplacer("(", "", ")", "", "*", "").Replace(name)
	nw, ok := oldToNew[full+"."+n]
	if !ok {
		return nil
	}
	rest := strings.TrimPrefix(nw, full+".")
	if rest == nw {
		return nil
	}
	oldToNewGuard := oldToNew
	oldToNew = nil // no second indirection
	defer func() { oldToNew = oldToNewGuard }()
	return p.Func(pkg, rest)
}

// RenamedHadRecv: fn is a function of the pinned tree under a new name; had tells whether the pinned declaration had a
// receiver (rules that count arguments past the receiver keep counting the way the pinned signature did).
func RenamedHadRecv(fn *ssa.Function) (had, renamed bool) {
	if fn == nil || fn.Pkg == nil || len(Renamed) == 0 {
		return false, false
	}
	key := fn.Pkg.Pkg.Path() + "."
	if recv := fn.Signature.Recv(); recv != nil {
		t := recv.Type()
		if pt, ok := t.(*types.Pointer); ok {
			t = pt.Elem()
		}
		if nt, ok := t.(*types.Named); ok {
			key += nt.Obj().Name() + "."
		}
	}
	old, ok := Renamed[key+fn.Name()]
	if !ok || renamedNatural[key+fn.Name()] {
		return false, false
	}
	return strings.HasPrefix(baselineInfo[old].display, "("), true
}

func isRenamed(fn *ssa.Function) bool {
	if fn == nil || fn.Pkg == nil || len(Renamed) == 0 {
		return false
	}
	key := fn.Pkg.Pkg.Path() + "."
	if recv := fn.Signature.Recv(); recv != nil {
		t := recv.Type()
		if pt, ok := t.(*types.Pointer); ok {
			t = pt.Elem()
		}
		if nt, ok := t.(*types.Named); ok {
			key += nt.Obj().Name() + "."
		}
	}
	_, ok := Renamed[key+fn.Name()]
	return ok
}

// BaseName is fn.Name(), or the name the function had on the pinned tree when it was renamed.
func BaseName(fn *ssa.Function) string {
	if fn == nil {
		return ""
	}
	if isRenamed(fn) {
		d := FnName(fn)
		return d[strings.LastIndex(d, ".")+1:]
	}
	return fn.Name()
}

// ---- struct fields ------------------------------------------------------------------------------------------------
//
// The same for the fields of the module's struct types: baseline_funcs.txt lists "field\t<pkgpath>.<Type>.<name>\t<type>";
// a field the rules ask for that is gone is found again when exactly one field of the struct is new and exactly one pinned
// field of that struct with the same type is missing.

var baselineFields = map[string]map[string]string{} // "<pkgpath>.<Type>" -> field -> type string
var baselineFieldPos = map[string]map[string]int{}  // "<pkgpath>.<Type>" -> field -> position in the struct

// BaselineFieldLines lists the field lines for -genbaseline.
func BaselineFieldLines(pkgs []*packages.Package) []string {
	var out []string
	packages.Visit(pkgs, nil, func(p *packages.Package) {
		if !strings.HasPrefix(p.PkgPath, ModPath) || p.Types == nil {
			return
		}
		sc := p.Types.Scope()
		for _, name := range sc.Names() {
			tn, ok := sc.Lookup(name).(*types.TypeName)
			if !ok {
				continue
			}
			st, ok := tn.Type().Underlying().(*types.Struct)
			if !ok {
				continue
			}
			for i := 0; i < st.NumFields(); i++ {
				f := st.Field(i)
				out = append(out, "field\t"+p.PkgPath+"."+name+"."+f.Name()+"\t"+types.TypeString(f.Type(), func(q *types.Package) string { return q.Path() })+"\t"+strconv.Itoa(i))
			}
		}
	})
	sort.Strings(out)
	return out
}

// BaseFieldName: the name the field had on the pinned tree (its own name unless it was renamed).
func BaseFieldName(owner *types.Named, f *types.Var) string {
	if owner == nil || owner.Obj().Pkg() == nil {
		return f.Name()
	}
	if old := fieldRenames(owner)[f.Name()]; old != "" {
		return old
	}
	return f.Name()
}

var fieldRenameCache = map[*types.Named]map[string]string{}

// fieldRenames: new field name -> pinned field name for the struct type.
func fieldRenames(owner *types.Named) map[string]string {
	if m, ok := fieldRenameCache[owner]; ok {
		return m
	}
	m := map[string]string{}
	fieldRenameCache[owner] = m
	base := baselineFields[owner.Obj().Pkg().Path()+"."+owner.Obj().Name()]
	st, ok := owner.Underlying().(*types.Struct)
	if base == nil || !ok {
		return m
	}
	q := func(p *types.Package) string { return p.Path() }
	cur := map[string]string{}
	for i := 0; i < st.NumFields(); i++ {
		cur[st.Field(i).Name()] = types.TypeString(st.Field(i).Type(), q)
	}
	gone := map[string][]string{} // type -> pinned fields that are missing
	for name, t := range base {
		if _, ok := cur[name]; !ok {
			gone[t] = append(gone[t], name)
		}
	}
	fresh := map[string][]string{}
	for name, t := range cur {
		if _, ok := base[name]; !ok {
			fresh[t] = append(fresh[t], name)
		}
	}
	pos := baselineFieldPos[owner.Obj().Pkg().Path()+"."+owner.Obj().Name()]
	curPos := map[string]int{}
	for i := 0; i < st.NumFields(); i++ {
		curPos[st.Field(i).Name()] = i
	}
	for t, g := range gone {
		f := fresh[t]
		if len(g) != len(f) || len(g) == 0 {
			continue
		}
		if len(g) > 1 {
			// several fields of one type renamed together: pair them in declaration order
			if pos == nil {
				continue
			}
			sort.Slice(g, func(i, j int) bool { return pos[g[i]] < pos[g[j]] })
			sort.Slice(f, func(i, j int) bool { return curPos[f[i]] < curPos[f[j]] })
		}
		for i := range g {
			m[f[i]] = g[i]
			nlog("rename: field %s.%s is %s of the pinned tree", owner.Obj().Name(), f[i], g[i])
		}
	}
	return m
}

var fieldBase = map[*types.Var]string{}

// indexFieldRenames records, for every field of the module's struct types that was renamed since the pinned tree, the
// pinned name (FName).
func indexFieldRenames(pkgs []*packages.Package) {
	fieldBase = map[*types.Var]string{}
	if len(baselineFields) == 0 {
		return
	}
	packages.Visit(pkgs, nil, func(p *packages.Package) {
		if !strings.HasPrefix(p.PkgPath, ModPath) || p.Types == nil {
			return
		}
		sc := p.Types.Scope()
		for _, name := range sc.Names() {
			tn, ok := sc.Lookup(name).(*types.TypeName)
			if !ok {
				continue
			}
			nt, ok := tn.Type().(*types.Named)
			if !ok {
				continue
			}
			st, ok := nt.Underlying().(*types.Struct)
			if !ok {
				continue
			}
			ren := fieldRenames(nt)
			if len(ren) == 0 {
				continue
			}
			for i := 0; i < st.NumFields(); i++ {
				if old := ren[st.Field(i).Name()]; old != "" {
					fieldBase[st.Field(i)] = old
				}
			}
		}
	})
}

// FName is the field's name on the pinned tree.
func FName(f *types.Var) string {
	if f == nil {
		return ""
	}
	if old, ok := fieldBase[f]; ok {
		return old
	}
	return f.Name()
}

// renamedStruct: the pinned struct type pkg.name is gone; the one struct type of the package that the pinned tree does not
// know and that has exactly the pinned type's fields (names and types, the type's own name aside) is that type renamed.
func renamedStruct(tp *types.Package, name string) *types.Named {
	base := baselineFields[tp.Path()+"."+name]
	if base == nil {
		return nil
	}
	q := func(p *types.Package) string { return p.Path() }
	var found *types.Named
	for _, cand := range tp.Scope().Names() {
		if baselineFields[tp.Path()+"."+cand] != nil {
			continue
		}
		tn, ok := tp.Scope().Lookup(cand).(*types.TypeName)
		if !ok {
			continue
		}
		nt, ok := tn.Type().(*types.Named)
		if !ok {
			continue
		}
		st, ok := nt.Underlying().(*types.Struct)
		if !ok || st.NumFields() != len(base) {
			continue
		}
		same := true
		for i := 0; i < st.NumFields(); i++ {
			t := strings.ReplaceAll(types.TypeString(st.Field(i).Type(), q), tp.Path()+"."+cand, tp.Path()+"."+name)
			if bt, ok := base[st.Field(i).Name()]; !ok || bt != t {
				same = false
			}
		}
		if same {
			if found != nil {
				return nil
			}
			found = nt
		}
	}
	return found
}
