package an

import (
	"go/ast"
	"go/types"
	"sort"
	"strings"

	"golang.org/x/tools/go/packages"
	"golang.org/x/tools/go/ssa"
)

// Rename resolution. The rules name the functions they look at ("(*Channel).put"), and the who-may-call, who-may-write and
// dropped-error baselines name functions of the pinned tree. A change that renames one of those functions, or turns a
// function into a method (or back), has changed no behaviour. baseline_funcs.txt therefore records, for every top-level
// function of the pinned tree, its package, its flattened signature (receiver first) and its display name; on every load
// a function the baseline does not know is matched against the baseline functions that have disappeared from the same
// package, and when exactly one of each has a given signature the new function IS the old one under a new name: it is not
// inlined, Prog.Func finds it under the old name, and FnName prints the old name. Anything less clear-cut (two candidates,
// a changed signature) is left alone – the rule then reports that its anchor is gone, which is the truth.
type baselineEntry struct{ pkg, sig, display string }

var (
	baselineInfo = map[string]baselineEntry{} // key -> entry (top-level functions only)
	// Renamed maps the key of a function of the loaded tree to the key of the baseline function it replaces; oldToNew is
	// the reverse. Recomputed on every load.
	Renamed  = map[string]string{}
	oldToNew = map[string]string{}
	// display names: new FnName prefix -> baseline FnName
	renamedDisplay = map[string]string{}
)

// InBaseline: the function (or closure key "<func>$name") belongs to the pinned tree, possibly under another name.
func InBaseline(key string) bool {
	if Baseline[key] {
		return true
	}
	root, rest := key, ""
	if i := strings.Index(key, "$"); i >= 0 {
		root, rest = key[:i], key[i:]
	}
	if old, ok := Renamed[root]; ok {
		return rest == "" || Baseline[old+rest]
	}
	return false
}

// FlatSig is the flattened signature of a declared function: receiver (if any) and parameters, then results, with fully
// qualified type names.
func FlatSig(f *types.Func) string {
	sig, ok := f.Type().(*types.Signature)
	if !ok {
		return ""
	}
	q := func(p *types.Package) string { return p.Path() }
	var in []string
	if r := sig.Recv(); r != nil {
		in = append(in, types.TypeString(r.Type(), q))
	}
	for i := 0; i < sig.Params().Len(); i++ {
		t := types.TypeString(sig.Params().At(i).Type(), q)
		if sig.Variadic() && i == sig.Params().Len()-1 {
			t = "..." + t
		}
		in = append(in, t)
	}
	var out []string
	for i := 0; i < sig.Results().Len(); i++ {
		out = append(out, types.TypeString(sig.Results().At(i).Type(), q))
	}
	return "(" + strings.Join(in, ", ") + ") -> (" + strings.Join(out, ", ") + ")"
}

func displayOf(f *types.Func) string {
	sig := f.Type().(*types.Signature)
	pkg := strings.TrimPrefix(f.Pkg().Path(), ModPath+"/")
	if r := sig.Recv(); r != nil {
		t := r.Type()
		star := ""
		if pt, ok := t.(*types.Pointer); ok {
			t, star = pt.Elem(), "*"
		}
		if nt, ok := t.(*types.Named); ok {
			if star != "" {
				return "(*" + pkg + "." + nt.Obj().Name() + ")." + f.Name()
			}
			return "(" + pkg + "." + nt.Obj().Name() + ")." + f.Name()
		}
	}
	return pkg + "." + f.Name()
}

// BaselineLines lists "key\tpkg\tsig\tdisplay" for the top-level functions of the loaded module packages (-genbaseline).
func BaselineLines(pkgs []*packages.Package) map[string]string {
	out := map[string]string{}
	packages.Visit(pkgs, nil, func(p *packages.Package) {
		if !strings.HasPrefix(p.PkgPath, ModPath) || p.TypesInfo == nil {
			return
		}
		for _, f := range p.Syntax {
			for _, d := range f.Decls {
				fd, ok := d.(*ast.FuncDecl)
				if !ok {
					continue
				}
				obj, _ := p.TypesInfo.Defs[fd.Name].(*types.Func)
				if obj == nil || fd.Name.Name == "init" || fd.Name.Name == "_" {
					continue
				}
				out[FuncKey(p.PkgPath, fd)] = p.PkgPath + "\t" + FlatSig(obj) + "\t" + displayOf(obj)
			}
		}
	})
	return out
}

// resolveRenames recomputes Renamed from the loaded packages.
func resolveRenames(pkgs []*packages.Package) {
	Renamed, oldToNew, renamedDisplay = map[string]string{}, map[string]string{}, map[string]string{}
	if Baseline == nil || len(baselineInfo) == 0 {
		return
	}
	type cand struct{ key, display string }
	cur := map[string]bool{}
	fresh := map[string][]cand{} // pkg|sig -> functions the baseline does not know
	loaded := map[string]bool{}
	packages.Visit(pkgs, nil, func(p *packages.Package) {
		if !strings.HasPrefix(p.PkgPath, ModPath) || p.TypesInfo == nil || len(p.Syntax) == 0 {
			return
		}
		loaded[p.PkgPath] = true
		for _, f := range p.Syntax {
			for _, d := range f.Decls {
				fd, ok := d.(*ast.FuncDecl)
				if !ok {
					continue
				}
				key := FuncKey(p.PkgPath, fd)
				cur[key] = true
				if Baseline[key] {
					continue
				}
				obj, _ := p.TypesInfo.Defs[fd.Name].(*types.Func)
				if obj == nil || fd.Body == nil {
					continue
				}
				g := p.PkgPath + "|" + FlatSig(obj)
				fresh[g] = append(fresh[g], cand{key, displayOf(obj)})
			}
		}
	})
	gone := map[string][]string{} // pkg|sig -> baseline functions that are no longer declared
	for key, e := range baselineInfo {
		if loaded[e.pkg] && !cur[key] {
			g := e.pkg + "|" + e.sig
			gone[g] = append(gone[g], key)
		}
	}
	var groups []string
	for g := range gone {
		groups = append(groups, g)
	}
	sort.Strings(groups)
	for _, g := range groups {
		if len(gone[g]) != 1 || len(fresh[g]) != 1 {
			continue
		}
		old, nw := gone[g][0], fresh[g][0]
		Renamed[nw.key] = old
		oldToNew[old] = nw.key
		renamedDisplay[nw.display] = baselineInfo[old].display
		nlog("rename: %s is %s of the pinned tree", nw.key, old)
	}
}

// renamedFunc looks a vanished baseline function up under its new name.
func (p *Prog) renamedFunc(pkg, name string) *ssa.Function {
	full := p.fullPath(pkg)
	n := strings.NewReplacer("(", "", ")", "", "*", "").Replace(name)
	nw, ok := oldToNew[full+"."+n]
	if !ok {
		return nil
	}
	rest := strings.TrimPrefix(nw, full+".")
	if rest == nw {
		return nil
	}
	oldToNewGuard := oldToNew
	oldToNew = nil // no second indirection
	defer func() { oldToNew = oldToNewGuard }()
	return p.Func(pkg, rest)
}
