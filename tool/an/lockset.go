package an

import (
	"fmt"
	"go/token"
	"go/types"
	"sort"
	"strings"

	"golang.org/x/tools/go/callgraph"
	"golang.org/x/tools/go/ssa"
)

// AccessPath canonicalises an address/value expression so that two loads of the same field of the
// same base denote the same path (go/ssa does no CSE).
func AccessPath(v ssa.Value) string {
	return accessPath(v, 0)
}

func accessPath(v ssa.Value, d int) string {
	if d > 12 {
		return "v:" + v.Name()
	}
	switch x := v.(type) {
	case *ssa.Parameter:
		for i, p := range x.Parent().Params {
			if p == x {
				return fmt.Sprintf("p%d", i)
			}
		}
	case *ssa.FreeVar:
		return "fv:" + x.Name()
	case *ssa.Global:
		return "g:" + x.Pkg.Pkg.Path() + "." + x.Name()
	case *ssa.Alloc:
		return fmt.Sprintf("local:%s#%d", x.Comment, x.Pos())
	case *ssa.FieldAddr:
		f := FieldOf(x)
		return accessPath(x.X, d+1) + "." + FName(f)
	case *ssa.Field:
		f := FieldOf(x)
		return accessPath(x.X, d+1) + "." + FName(f)
	case *ssa.UnOp:
		if x.Op == token.MUL {
			// load: the path of the loaded value is the path of the address
			switch x.X.(type) {
			case *ssa.FieldAddr, *ssa.Global, *ssa.FreeVar:
				return accessPath(x.X, d+1)
			case *ssa.Alloc:
				if sv := LastStoreBefore(x, x.X.(*ssa.Alloc)); sv != nil {
					return accessPath(sv, d+1)
				}
				if sv := SingleStore(x.X.(*ssa.Alloc)); sv != nil {
					return accessPath(sv, d+1)
				}
				return accessPath(x.X, d+1)
			}
		}
	case *ssa.ChangeType:
		return accessPath(x.X, d+1)
	case *ssa.Convert:
		return accessPath(x.X, d+1)
	case *ssa.MakeInterface:
		return accessPath(x.X, d+1)
	}
	return "v:" + v.Name() + "@" + fmt.Sprint(v.Pos())
}

// LockOp is a mutex operation.
type LockOp struct {
	Class    string // "Channel.inFlightMutex", "Topic.RWMutex", "local:lock"
	Base     string // access path of the object owning the mutex
	Acquire  bool
	Write    bool // Lock/Unlock (vs RLock/RUnlock)
	Deferred bool
	Try      bool // TryLock/TryRLock: acquired only on the edge where the call returned true
	Instr    ssa.Instruction
}

func (o LockOp) Key() string { return o.Class + "@" + o.Base }

// lockOpOf recognises sync.Mutex / sync.RWMutex operations.
func lockOpOf(in ssa.Instruction) *LockOp {
	ci, ok := in.(ssa.CallInstruction)
	if !ok {
		return nil
	}
	if _, isGo := in.(*ssa.Go); isGo {
		return nil
	}
	f := StaticCallee(ci)
	if f == nil || f.Pkg == nil || f.Pkg.Pkg.Path() != "sync" || f.Signature.Recv() == nil {
		return nil
	}
	rt := f.Signature.Recv().Type()
	if p, ok := rt.(*types.Pointer); ok {
		rt = p.Elem()
	}
	n, ok := rt.(*types.Named)
	if !ok || (n.Obj().Name() != "Mutex" && n.Obj().Name() != "RWMutex") {
		return nil
	}
	op := &LockOp{Instr: in}
	switch f.Name() {
	case "Lock":
		op.Acquire, op.Write = true, true
	case "RLock":
		op.Acquire = true
	case "Unlock":
		op.Write = true
	case "RUnlock":
	case "TryLock":
		op.Acquire, op.Write, op.Try = true, true, true
	case "TryRLock":
		op.Acquire, op.Try = true, true
	default:
		return nil
	}
	_, op.Deferred = in.(*ssa.Defer)
	recv := ci.Common().Args[0]
	op.Class, op.Base = lockClass(recv)
	return op
}

// lockClass names the mutex addressed by v (a *sync.Mutex / *sync.RWMutex value).
func lockClass(v ssa.Value) (class, base string) {
	switch x := v.(type) {
	case *ssa.FieldAddr:
		f := FieldOf(x)
		owner := "?"
		t := x.X.Type()
		if p, ok := t.Underlying().(*types.Pointer); ok {
			t = p.Elem()
		}
		if n, ok := t.(*types.Named); ok {
			owner = n.Obj().Name()
		}
		return owner + "." + FName(f), AccessPath(x.X)
	case *ssa.Alloc:
		return "local:" + x.Comment, AccessPath(x)
	case *ssa.FreeVar:
		return "local:" + x.Name(), "fv:" + x.Name()
	case *ssa.Global:
		return "global:" + x.Name(), "g"
	case *ssa.UnOp:
		if x.Op == token.MUL {
			return lockClass(x.X)
		}
	}
	return "unknown:" + v.Name(), AccessPath(v)
}

// Lockset maps lock key -> mode (1 = read, 2 = write).
type Lockset map[string]int

func (l Lockset) clone() Lockset {
	n := Lockset{}
	for k, v := range l {
		n[k] = v
	}
	return n
}

func (l Lockset) String() string {
	var ks []string
	for k, m := range l {
		if m == 2 {
			ks = append(ks, k+"(W)")
		} else {
			ks = append(ks, k+"(R)")
		}
	}
	sort.Strings(ks)
	return "{" + strings.Join(ks, ", ") + "}"
}

// HoldsClass reports whether some lock of the class is held with at least the mode (on base, if base != "").
func (l Lockset) Holds(class, base string, write bool) bool {
	for k, m := range l {
		i := strings.Index(k, "@")
		if k[:i] != class {
			continue
		}
		if base != "" && k[i+1:] != base {
			continue
		}
		if write && m < 2 {
			continue
		}
		return true
	}
	return false
}

// Classes returns the lock classes in the set.
func (l Lockset) Classes() []string {
	m := map[string]bool{}
	for k := range l {
		m[k[:strings.Index(k, "@")]] = true
	}
	var out []string
	for c := range m {
		out = append(out, c)
	}
	sort.Strings(out)
	return out
}

// FnLocks is the per-function lockset solution.
type FnLocks struct {
	Fn      *ssa.Function
	mustIn  map[*ssa.BasicBlock]Lockset
	mayIn   map[*ssa.BasicBlock]Lockset
	Entry   Lockset // held on entry by every caller (must)
	Ops     []*LockOp
	ExitBad []string // returns whose lockset differs from the entry lockset
}

// LockAnalysis is the whole-program solution.
type LockAnalysis struct {
	P         *Prog
	Fns       map[*ssa.Function]*FnLocks
	acquires  map[*ssa.Function]map[string]bool // transitive may-acquire classes
	blocks    map[*ssa.Function][]string        // transitive blocking operations (descriptions)
	cg        *callgraph.Graph
	direct    map[*ssa.Function]map[string]bool
	directBlk map[*ssa.Function][]string
}

// tryEdge: the TryLock whose success is implied by taking the edge p->b, if any.
func tryEdge(p, b *ssa.BasicBlock) *LockOp {
	if len(p.Instrs) == 0 || len(p.Succs) != 2 || p.Succs[0] == p.Succs[1] {
		return nil
	}
	ifi, ok := p.Instrs[len(p.Instrs)-1].(*ssa.If)
	if !ok {
		return nil
	}
	cond, neg := ifi.Cond, false
	for {
		u, ok := cond.(*ssa.UnOp)
		if !ok || u.Op != token.NOT {
			break
		}
		cond, neg = u.X, !neg
	}
	call, ok := cond.(*ssa.Call)
	if !ok {
		return nil
	}
	op := lockOpOf(call)
	if op == nil || !op.Try {
		return nil
	}
	idx := 0
	if neg {
		idx = 1
	}
	if p.Succs[idx] != b {
		return nil
	}
	acq := *op
	acq.Try = false
	return &acq
}

func transfer(ls Lockset, op *LockOp, may bool) {
	if op.Deferred || op.Try {
		return // deferred: runs at function exit; try: acquired on the success edge only (see tryEdge)
	}
	k := op.Key()
	if op.Acquire {
		m := 1
		if op.Write {
			m = 2
		}
		if ls[k] < m {
			ls[k] = m
		}
	} else {
		delete(ls, k)
	}
}

func meetMust(a, b Lockset) Lockset {
	if a == nil {
		return b.clone()
	}
	out := Lockset{}
	for k, m := range a {
		if m2, ok := b[k]; ok {
			if m2 < m {
				m = m2
			}
			out[k] = m
		}
	}
	return out
}

func joinMay(a, b Lockset) Lockset {
	out := a.clone()
	for k, m := range b {
		if out[k] < m {
			out[k] = m
		}
	}
	return out
}

func eqLS(a, b Lockset) bool {
	if len(a) != len(b) {
		return false
	}
	for k, m := range a {
		if b[k] != m {
			return false
		}
	}
	return true
}

func (fl *FnLocks) solve() {
	fn := fl.Fn
	opAt := map[ssa.Instruction]*LockOp{}
	for _, o := range fl.Ops {
		opAt[o.Instr] = o
	}
	fl.mustIn = map[*ssa.BasicBlock]Lockset{}
	fl.mayIn = map[*ssa.BasicBlock]Lockset{}
	if len(fn.Blocks) == 0 {
		return
	}
	fl.mustIn[fn.Blocks[0]] = fl.Entry.clone()
	fl.mayIn[fn.Blocks[0]] = fl.Entry.clone()
	mustOut := map[*ssa.BasicBlock]Lockset{}
	mayOut := map[*ssa.BasicBlock]Lockset{}
	changed := true
	for iter := 0; changed && iter < 100; iter++ {
		changed = false
		for _, b := range fn.Blocks {
			if b != fn.Blocks[0] {
				var must Lockset
				may := Lockset{}
				seenPred := false
				for _, p := range b.Preds {
					if o, ok := mustOut[p]; ok {
						mo, yo := o, mayOut[p]
						if t := tryEdge(p, b); t != nil {
							mo, yo = mo.clone(), yo.clone()
							transfer(mo, t, false)
							transfer(yo, t, true)
						}
						must = meetMust(must, mo)
						may = joinMay(may, yo)
						seenPred = true
					}
				}
				if !seenPred {
					continue
				}
				fl.mustIn[b] = must
				fl.mayIn[b] = may
			}
			must := fl.mustIn[b].clone()
			may := fl.mayIn[b].clone()
			for _, in := range b.Instrs {
				if o := opAt[in]; o != nil {
					transfer(must, o, false)
					transfer(may, o, true)
				}
			}
			if old, ok := mustOut[b]; !ok || !eqLS(old, must) {
				mustOut[b] = must
				changed = true
			}
			if old, ok := mayOut[b]; !ok || !eqLS(old, may) {
				mayOut[b] = may
				changed = true
			}
		}
	}
}

// At returns the must- and may-locksets holding just before instruction in.
func (fl *FnLocks) At(in ssa.Instruction) (must, may Lockset) {
	b := in.Block()
	mi, ok := fl.mustIn[b]
	if !ok {
		return Lockset{}, Lockset{}
	}
	must, may = mi.clone(), fl.mayIn[b].clone()
	for _, x := range b.Instrs {
		if x == in {
			break
		}
		if o := lockOpOf(x); o != nil {
			transfer(must, o, false)
			transfer(may, o, true)
		}
	}
	return
}

// SingleThreadedCallers lists functions that run before any other goroutine can touch the daemon's
// state (start-up); their call sites do not constrain callee entry locksets. name -> reason.
var SingleThreadedCallers = map[string]string{
	"(*apps/nsqd.program).Start": "svc start-up: runs before Main() starts listeners, lookupLoop and scan loop",
}

// Locks builds (once) the whole-program lock analysis over the repo's functions.
func (p *Prog) Locks() *LockAnalysis {
	if p.locks != nil {
		return p.locks
	}
	la := &LockAnalysis{P: p, Fns: map[*ssa.Function]*FnLocks{}, cg: p.CallGraph(),
		direct: map[*ssa.Function]map[string]bool{}, directBlk: map[*ssa.Function][]string{}}
	fns := p.RepoFuncs()
	for _, fn := range fns {
		fl := &FnLocks{Fn: fn, Entry: Lockset{}}
		Instrs(fn, func(in ssa.Instruction) {
			if o := lockOpOf(in); o != nil {
				fl.Ops = append(fl.Ops, o)
			}
		})
		la.Fns[fn] = fl
	}
	// entry locksets: greatest fixed point of "held by every caller"
	type site struct {
		caller *ssa.Function
		instr  ssa.CallInstruction
	}
	callers := map[*ssa.Function][]site{}
	unknownCaller := map[*ssa.Function]bool{}
	for _, fn := range fns {
		node := la.cg.Nodes[fn]
		if node == nil || len(node.In) == 0 {
			unknownCaller[fn] = true
			continue
		}
		for _, e := range node.In {
			if e.Site == nil || e.Caller.Func == nil {
				unknownCaller[fn] = true
				continue
			}
			if la.Fns[e.Caller.Func] == nil {
				// called from outside the repo (std lib callback, go-nsq, httprouter): nothing held
				unknownCaller[fn] = true
				continue
			}
			callers[fn] = append(callers[fn], site{e.Caller.Func, e.Site})
		}
		// exported functions / methods may be called from anywhere, but within this closed program
		// the call graph lists every caller; anonymous functions stored as values are handled by VTA.
	}
	top := map[*ssa.Function]bool{}
	for _, fn := range fns {
		if !unknownCaller[fn] && len(callers[fn]) > 0 {
			top[fn] = true // Entry = TOP until first computed
		}
	}
	for _, fl := range la.Fns {
		fl.solve()
	}
	for iter := 0; iter < 12; iter++ {
		changed := false
		for _, fn := range fns {
			if unknownCaller[fn] || len(callers[fn]) == 0 {
				continue
			}
			var entry Lockset
			first := true
			for _, s := range callers[fn] {
				var at Lockset
				if SingleThreadedCallers[FnName(s.caller)] != "" {
					continue // documented single-threaded start-up code: holds "everything"
				}
				if _, isGo := s.instr.(*ssa.Go); isGo {
					at = Lockset{}
				} else if _, isDefer := s.instr.(*ssa.Defer); isDefer {
					at = Lockset{}
				} else if top[s.caller] {
					continue // caller not yet known: TOP contributes nothing to the meet
				} else {
					must, _ := la.Fns[s.caller].At(s.instr)
					at = translate(must, s.instr, fn)
				}
				if first {
					entry = at.clone()
					first = false
				} else {
					entry = meetMust(entry, at)
				}
			}
			if first {
				continue
			}
			if top[fn] || !eqLS(entry, la.Fns[fn].Entry) {
				delete(top, fn)
				la.Fns[fn].Entry = entry
				la.Fns[fn].solve()
				changed = true
			}
		}
		if !changed {
			break
		}
	}
	for fn := range top { // never resolved (mutual recursion): nothing held
		la.Fns[fn].Entry = Lockset{}
		la.Fns[fn].solve()
	}
	// direct acquires / blocking ops
	for _, fn := range fns {
		acq := map[string]bool{}
		for _, o := range la.Fns[fn].Ops {
			if o.Acquire {
				acq[o.Class] = true
			}
		}
		la.direct[fn] = acq
		la.directBlk[fn] = blockingOps(p, fn)
	}
	p.locks = la
	return la
}

// translate maps the caller's lock keys onto the callee's parameters.
func translate(held Lockset, site ssa.CallInstruction, callee *ssa.Function) Lockset {
	out := Lockset{}
	args := site.Common().Args
	if site.Common().IsInvoke() {
		args = append([]ssa.Value{site.Common().Value}, args...)
	}
	// closures: free variables are bound at MakeClosure
	var bindings []ssa.Value
	if mc, ok := site.Common().Value.(*ssa.MakeClosure); ok {
		bindings = mc.Bindings
	}
	for k, m := range held {
		i := strings.Index(k, "@")
		class, base := k[:i], k[i+1:]
		for ai, a := range args {
			if ai >= len(callee.Params) {
				break
			}
			ap := AccessPath(a)
			if base == ap || strings.HasPrefix(base, ap+".") {
				out[class+"@"+fmt.Sprintf("p%d", ai)+base[len(ap):]] = m
			}
		}
		for bi, b := range bindings {
			if bi >= len(callee.FreeVars) {
				break
			}
			bp := AccessPath(b)
			if base == bp || strings.HasPrefix(base, bp+".") {
				out[class+"@fv:"+callee.FreeVars[bi].Name()+base[len(bp):]] = m
			}
		}
		if strings.HasPrefix(base, "g:") {
			out[k] = m
		}
		// a lock whose owner is not passed to the callee is still held while the callee runs:
		// keep it under an opaque base so that class-level queries see it
		kept := false
		for k2 := range out {
			if strings.HasPrefix(k2, class+"@") {
				kept = true
			}
		}
		if !kept {
			out[class+"@outer:"+base] = m
		}
	}
	return out
}

// blockingOps lists the potentially blocking channel / WaitGroup operations directly in fn.
func blockingOps(p *Prog, fn *ssa.Function) []string {
	var out []string
	Instrs(fn, func(in ssa.Instruction) {
		switch x := in.(type) {
		case *ssa.Send:
			out = append(out, "send at "+p.Pos(InstrPos(in)))
		case *ssa.UnOp:
			if x.Op == token.ARROW {
				out = append(out, "receive at "+p.Pos(InstrPos(in)))
			}
		case *ssa.Select:
			if x.Blocking {
				out = append(out, "blocking select at "+p.Pos(InstrPos(in)))
			}
		case *ssa.Call:
			if StdCallee(x, "sync", "(*WaitGroup).Wait") {
				out = append(out, "WaitGroup.Wait at "+p.Pos(InstrPos(in)))
			}
		}
	})
	return out
}

// callees returns the repo-internal callees of a call site (static or via the call graph), excluding go statements.
func (la *LockAnalysis) Callees(site ssa.CallInstruction) []*ssa.Function {
	if _, isGo := site.(*ssa.Go); isGo {
		return nil
	}
	var out []*ssa.Function
	if f := StaticCallee(site); f != nil {
		out = []*ssa.Function{f}
		if la.Fns[f] == nil {
			// library function: function-valued arguments may be called back synchronously
			// (sync.Once.Do, sync.Map.Range, sort.Slice, ...)
			for _, a := range site.Common().Args {
				switch x := a.(type) {
				case *ssa.MakeClosure:
					if cf, ok := x.Fn.(*ssa.Function); ok {
						out = append(out, cf)
					}
				case *ssa.Function:
					out = append(out, x)
				}
			}
		}
		return out
	}
	node := la.cg.Nodes[site.Parent()]
	if node == nil {
		return nil
	}
	for _, e := range node.Out {
		if e.Site == site && e.Callee.Func != nil {
			out = append(out, e.Callee.Func)
		}
	}
	return out
}

// Acquires returns the lock classes fn may acquire, directly or through callees (not through go statements).
func (la *LockAnalysis) Acquires(fn *ssa.Function) map[string]bool {
	if la.acquires == nil {
		la.acquires = map[*ssa.Function]map[string]bool{}
	}
	if r, ok := la.acquires[fn]; ok {
		return r
	}
	res := map[string]bool{}
	la.acquires[fn] = res // cycle guard (result may be partial inside an SCC; a second pass fixes it)
	visited := map[*ssa.Function]bool{}
	var walk func(f *ssa.Function)
	walk = func(f *ssa.Function) {
		if visited[f] {
			return
		}
		visited[f] = true
		for c := range la.direct[f] {
			res[c] = true
		}
		if la.Fns[f] == nil {
			return
		}
		Instrs(f, func(in ssa.Instruction) {
			if ci, ok := in.(ssa.CallInstruction); ok {
				for _, cal := range la.Callees(ci) {
					if la.Fns[cal] != nil {
						walk(cal)
					}
				}
			}
		})
	}
	walk(fn)
	return res
}

// Blocking returns descriptions of blocking operations reachable from fn (not through go statements).
func (la *LockAnalysis) Blocking(fn *ssa.Function) []string {
	if la.blocks == nil {
		la.blocks = map[*ssa.Function][]string{}
	}
	if r, ok := la.blocks[fn]; ok {
		return r
	}
	var res []string
	visited := map[*ssa.Function]bool{}
	var walk func(f *ssa.Function, via string)
	walk = func(f *ssa.Function, via string) {
		if visited[f] || la.Fns[f] == nil {
			return
		}
		visited[f] = true
		for _, b := range la.directBlk[f] {
			res = append(res, b+" in "+FnName(f))
		}
		Instrs(f, func(in ssa.Instruction) {
			if ci, ok := in.(ssa.CallInstruction); ok {
				for _, cal := range la.Callees(ci) {
					walk(cal, FnName(f))
				}
			}
		})
	}
	walk(fn, "")
	la.blocks[fn] = res
	return res
}

// OrderEdge is a lock-order edge: To acquired while From is (may be) held.
type OrderEdge struct {
	From, To string
	Pos      token.Pos
	Fn       *ssa.Function
	Via      string
}

// OrderEdges computes the lock-class order graph over the given functions.
func (la *LockAnalysis) OrderEdges(fns []*ssa.Function) []OrderEdge {
	var out []OrderEdge
	seen := map[string]bool{}
	add := func(from, to string, pos token.Pos, fn *ssa.Function, via string) {
		k := from + "->" + to + "|" + FnName(fn) + "|" + via
		if seen[k] {
			return
		}
		seen[k] = true
		out = append(out, OrderEdge{from, to, pos, fn, via})
	}
	for _, fn := range fns {
		fl := la.Fns[fn]
		if fl == nil {
			continue
		}
		Instrs(fn, func(in ssa.Instruction) {
			if o := lockOpOf(in); o != nil {
				if o.Acquire && !o.Deferred && !o.Try { // a TryLock never waits, so it closes no cycle
					_, may := fl.At(in)
					for k := range may {
						add(k[:strings.Index(k, "@")], o.Class, in.Pos(), fn, "direct")
					}
				}
				return
			}
			ci, ok := in.(ssa.CallInstruction)
			if !ok {
				return
			}
			if _, isGo := in.(*ssa.Go); isGo {
				return
			}
			_, may := fl.At(in)
			if len(may) == 0 {
				return
			}
			for _, cal := range la.Callees(ci) {
				if la.Fns[cal] == nil {
					continue
				}
				for c := range la.Acquires(cal) {
					for k := range may {
						add(k[:strings.Index(k, "@")], c, in.Pos(), fn, "via "+FnName(cal))
					}
				}
			}
		})
	}
	sort.Slice(out, func(i, j int) bool {
		if out[i].From != out[j].From {
			return out[i].From < out[j].From
		}
		if out[i].To != out[j].To {
			return out[i].To < out[j].To
		}
		return FnName(out[i].Fn) < FnName(out[j].Fn)
	})
	return out
}

// SingleStore: if a local alloc is stored exactly once (a captured parameter spilled to the heap,
// or a variable initialised once), return the stored value.
func SingleStore(al *ssa.Alloc) ssa.Value {
	var val ssa.Value
	n := 0
	for _, r := range Referrers(al) {
		switch x := r.(type) {
		case *ssa.Store:
			if x.Addr == al {
				n++
				val = x.Val
			}
		case *ssa.UnOp, *ssa.DebugRef:
		case *ssa.MakeClosure:
			// captured by reference: the closure may store to it
			if fn, ok := x.Fn.(*ssa.Function); ok {
				for i, b := range x.Bindings {
					if b == al && i < len(fn.FreeVars) {
						for _, rr := range Referrers(fn.FreeVars[i]) {
							if st, ok := rr.(*ssa.Store); ok && st.Addr == fn.FreeVars[i] {
								n += 2
							}
						}
					}
				}
			}
		default:
			n += 2 // address escapes
		}
	}
	if n == 1 {
		return val
	}
	return nil
}

// LockOpOf exports lockOpOf.
func LockOpOf(in ssa.Instruction) *LockOp { return lockOpOf(in) }
