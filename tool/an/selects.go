package an

import (
	"go/token"
	"go/types"

	"golang.org/x/tools/go/ssa"
)

// SelState describes one communication case of a select statement.
type SelState struct {
	Sel    *ssa.Select
	Idx    int
	State  *ssa.SelectState
	Chosen []Edge    // CFG edges taken when this case is chosen
	Recv   ssa.Value // Extract of the received value (recv cases), or nil
	// After is set when the case's body is empty and shares its continuation with the default/next case: go/ssa
	// then emits the `index == k` comparison without a branch. Control simply continues after that instruction.
	After ssa.Instruction
}

// SelectStates analyses a select instruction.
func SelectStates(sel *ssa.Select) []SelState {
	out := make([]SelState, len(sel.States))
	recvIdx := 0
	for i, s := range sel.States {
		out[i] = SelState{Sel: sel, Idx: i, State: s}
		if s.Dir == types.RecvOnly {
			want := 2 + recvIdx
			recvIdx++
			for _, r := range Referrers(sel) {
				if ex, ok := r.(*ssa.Extract); ok && ex.Index == want {
					out[i].Recv = ex
				}
			}
		}
	}
	for _, r := range Referrers(sel) {
		ex, ok := r.(*ssa.Extract)
		if !ok || ex.Index != 0 {
			continue
		}
		for _, rr := range Referrers(ex) {
			b, ok := rr.(*ssa.BinOp)
			if !ok || b.Op != token.EQL {
				continue
			}
			k, isC := ConstInt(b.Y)
			if !isC || int(k) < 0 || int(k) >= len(out) {
				continue
			}
			tests := BoolTests(b)
			for _, t := range tests {
				out[k].Chosen = append(out[k].Chosen, t.True)
			}
			if len(tests) == 0 {
				out[k].After = b
			}
		}
	}
	return out
}

// Selects lists the select instructions of fn.
func Selects(fn *ssa.Function) []*ssa.Select {
	var out []*ssa.Select
	Instrs(fn, func(in ssa.Instruction) {
		if s, ok := in.(*ssa.Select); ok {
			out = append(out, s)
		}
	})
	return out
}

// ChanField: if v is a load of a struct field of channel type, return the field.
func ChanField(v ssa.Value) *types.Var {
	f, _ := LoadedField(v)
	return f
}

// ElemIs reports whether channel-typed value v has element type equal to t.
func ChanElem(v ssa.Value) types.Type {
	if ch, ok := v.Type().Underlying().(*types.Chan); ok {
		return ch.Elem()
	}
	return nil
}
