package an

import (
	"go/token"

	"golang.org/x/tools/go/ssa"
)

// Liveness for the PATH engine. A fact the per-path environment holds about an SSA value can only influence the rest of
// the search while that value – or something purely derived from it (a comparison, a conversion, a phi that may select it,
// a field load …) – can still be used before it is recomputed. Dropping facts about dead values does not change any
// verdict (no later fold, Has/ConstOf/Selected query can mention them) but merges the many path states that differ only
// in such facts: on the consumer pump the state count falls from ~765 000 to a few thousand.

// DebugDead, when non-nil, records values whose facts were pruned (debugging aid).
var DebugDead map[ssa.Value]int

var liveCache = map[*ssa.Function]map[*ssa.BasicBlock]map[ssa.Value]bool{}

// derivationOperands returns the operands of in if in is a "pure derivation" whose content the engines look through
// (PathState.has, evalBool, Selected, learnNil …); nil otherwise.
func derivationOperands(v ssa.Value) []ssa.Value {
	switch x := v.(type) {
	case *ssa.Phi:
		return x.Edges
	case *ssa.UnOp:
		return []ssa.Value{x.X}
	case *ssa.BinOp:
		return []ssa.Value{x.X, x.Y}
	case *ssa.Convert:
		return []ssa.Value{x.X}
	case *ssa.ChangeType:
		return []ssa.Value{x.X}
	case *ssa.ChangeInterface:
		return []ssa.Value{x.X}
	case *ssa.MakeInterface:
		return []ssa.Value{x.X}
	case *ssa.TypeAssert:
		return []ssa.Value{x.X}
	case *ssa.Extract:
		return []ssa.Value{x.Tuple}
	case *ssa.Slice:
		return []ssa.Value{x.X}
	case *ssa.Field:
		return []ssa.Value{x.X}
	case *ssa.FieldAddr:
		return []ssa.Value{x.X}
	case *ssa.IndexAddr:
		return []ssa.Value{x.X, x.Index}
	case *ssa.Index:
		return []ssa.Value{x.X, x.Index}
	case *ssa.Lookup:
		return []ssa.Value{x.X, x.Index}
	case *ssa.Call:
		if bi, ok := x.Call.Value.(*ssa.Builtin); ok && (bi.Name() == "len" || bi.Name() == "cap") {
			return x.Call.Args
		}
	}
	return nil
}

func trackable(v ssa.Value) bool {
	switch v.(type) {
	case *ssa.Const, *ssa.Function, *ssa.Builtin, *ssa.Global, nil:
		return false
	}
	return true
}

// liveAfterPhis computes, per block, the values that are (extended-)live just after the block's phis.
func liveAfterPhis(fn *ssa.Function) map[*ssa.BasicBlock]map[ssa.Value]bool {
	if l, ok := liveCache[fn]; ok {
		return l
	}
	live := map[*ssa.BasicBlock]map[ssa.Value]bool{}
	for _, b := range fn.Blocks {
		live[b] = map[ssa.Value]bool{}
	}
	var ops [16]*ssa.Value
	changed := true
	for changed {
		changed = false
		for i := len(fn.Blocks) - 1; i >= 0; i-- {
			b := fn.Blocks[i]
			cur := map[ssa.Value]bool{}
			// live-out
			for _, s := range b.Succs {
				pi := -1
				for k, p := range s.Preds {
					if p == b {
						pi = k
					}
				}
				isPhi := map[ssa.Value]bool{}
				for _, in := range s.Instrs {
					phi, ok := in.(*ssa.Phi)
					if !ok {
						break
					}
					isPhi[phi] = true
					if pi >= 0 && live[s][phi] && trackable(phi.Edges[pi]) {
						cur[phi.Edges[pi]] = true
					}
				}
				for v := range live[s] {
					if !isPhi[v] {
						cur[v] = true
					}
				}
			}
			// backwards over the non-phi instructions
			for k := len(b.Instrs) - 1; k >= 0; k-- {
				in := b.Instrs[k]
				if _, ok := in.(*ssa.Phi); ok {
					break
				}
				if v, ok := in.(ssa.Value); ok {
					if cur[v] {
						// derivation closure: what v is derived from stays interesting while v does – but only for the part of
						// the block after v; re-add after removing the definition below
						delete(cur, v)
						for _, o := range derivationOperands(v) {
							if trackable(o) {
								cur[o] = true
							}
						}
					}
				}
				for _, o := range in.Operands(ops[:0]) {
					if *o != nil && trackable(*o) {
						cur[*o] = true
					}
				}
			}
			// close under derivations for values defined elsewhere (their operands are defined even earlier)
			work := make([]ssa.Value, 0, len(cur))
			for v := range cur {
				work = append(work, v)
			}
			for len(work) > 0 {
				v := work[len(work)-1]
				work = work[:len(work)-1]
				if in, ok := v.(ssa.Instruction); ok && in.Block() == b {
					if _, isPhi := v.(*ssa.Phi); !isPhi {
						continue // defined in this block after the phis: not live at the top
					}
				}
				for _, o := range derivationOperands(v) {
					if trackable(o) && !cur[o] {
						cur[o] = true
						work = append(work, o)
					}
				}
			}
			for v := range cur {
				if in, ok := v.(ssa.Instruction); ok && in.Block() == b {
					if _, isPhi := v.(*ssa.Phi); !isPhi {
						delete(cur, v)
						continue
					}
				}
				if !live[b][v] {
					live[b][v] = true
					changed = true
				}
			}
		}
	}
	liveCache[fn] = live
	return live
}

// pruneDead drops from st everything known about values that are dead at the top of st.block (after its phis).
// fieldCanon: the values a function stores into fields of its local structs. A later load of such a field is read as the
// stored value (canonBool), so what a branch learned about the value has to outlive the value's own last use.
var fieldCanonMemo = map[*ssa.Function]map[ssa.Value]bool{}

func fieldCanon(fn *ssa.Function) map[ssa.Value]bool {
	if m, ok := fieldCanonMemo[fn]; ok {
		return m
	}
	m := map[ssa.Value]bool{}
	for _, b := range fn.Blocks {
		for _, in := range b.Instrs {
			st, ok := in.(*ssa.Store)
			if !ok {
				continue
			}
			fa, ok := st.Addr.(*ssa.FieldAddr)
			if !ok {
				continue
			}
			if _, local := fa.X.(*ssa.Alloc); local {
				m[st.Val] = true
			}
		}
	}
	fieldCanonMemo[fn] = m
	return m
}

func pruneDead(st *PathState, q *PathQ) {
	fn := st.block.Parent()
	live := liveAfterPhis(fn)[st.block]
	keep := fieldCanon(fn)
	for v := range st.consts {
		if !live[v] && !q.initial[v] && !keep[v] {
			if DebugDead != nil {
				if st.dead == nil {
					st.dead = map[ssa.Value]int{}
				}
				st.dead[v] = st.block.Index
			}
			delete(st.consts, v)
		}
	}
	for p, a := range st.alias {
		if !live[p] {
			delete(st.alias, p)
			continue
		}
		_ = a
	}
	for v := range st.tracked {
		if !live[v] && !q.initial[v] {
			delete(st.tracked, v)
		}
	}
	for v := range st.marked {
		if !live[v] && !q.initial[v] {
			delete(st.marked, v)
		}
	}
}

var _ = token.NoPos

// LiveSanity checks the defining property of the liveness sets on fn (debugging aid): every value an instruction of b
// uses that is not computed earlier in b itself is live at the top of b.
func LiveSanity(fn *ssa.Function) []string {
	var bad []string
	live := liveAfterPhis(fn)
	var ops [16]*ssa.Value
	for _, b := range fn.Blocks {
		defd := map[ssa.Value]bool{}
		for _, in := range b.Instrs {
			if _, ok := in.(*ssa.Phi); ok {
				continue
			}
			for _, o := range in.Operands(ops[:0]) {
				if *o == nil || !trackable(*o) || defd[*o] {
					continue
				}
				if !live[b][*o] {
					bad = append(bad, b.String()+": "+(*o).Name()+" used by "+in.String())
				}
			}
			if v, ok := in.(ssa.Value); ok {
				defd[v] = true
			}
		}
	}
	return bad
}
