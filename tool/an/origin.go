package an

import (
	"go/token"
	"go/types"

	"golang.org/x/tools/go/ssa"
)

// Origins returns the leaf values v may come from, looking through conversions, interface
// boxing, phis, tuple extraction, slicing and loads of local allocs (via all their stores).
// Leaves are: calls, parameters, constants, globals, field loads, allocations, free variables, etc.
func Origins(v ssa.Value) []ssa.Value {
	seen := map[ssa.Value]bool{}
	var out []ssa.Value
	var walk func(v ssa.Value)
	walk = func(v ssa.Value) {
		if v == nil || seen[v] {
			return
		}
		seen[v] = true
		switch x := v.(type) {
		case *ssa.Convert:
			walk(x.X)
		case *ssa.ChangeType:
			walk(x.X)
		case *ssa.ChangeInterface:
			walk(x.X)
		case *ssa.MakeInterface:
			walk(x.X)
		case *ssa.Phi:
			for _, e := range x.Edges {
				walk(e)
			}
		case *ssa.Slice:
			walk(x.X)
		case *ssa.TypeAssert:
			walk(x.X)
		case *ssa.Extract:
			if ta, ok := x.Tuple.(*ssa.TypeAssert); ok && x.Index == 0 {
				walk(ta.X)
				return
			}
			out = append(out, v)
		case *ssa.Field:
			// a field of a struct value that is a copy of a purely local struct variable: what was stored into that field
			if ld, ok := Strip(x.X).(*ssa.UnOp); ok && ld.Op == token.MUL {
				if al, ok := ld.X.(*ssa.Alloc); ok {
					if vals, ok := localFieldStores(al, x.Field); ok {
						for _, sv := range vals {
							walk(sv)
						}
						return
					}
				}
			}
			out = append(out, v)
		case *ssa.UnOp:
			if x.Op == token.MUL {
				if fa, ok := x.X.(*ssa.FieldAddr); ok {
					if al, ok := Strip(fa.X).(*ssa.Alloc); ok {
						if vals, ok := localFieldStores(al, fa.Field); ok {
							for _, sv := range vals {
								walk(sv)
							}
							return
						}
					}
				}
				if al, ok := x.X.(*ssa.Alloc); ok {
					if sv := LastStoreBefore(x, al); sv != nil {
						walk(sv)
						return
					}
					n := 0
					for _, r := range Referrers(al) {
						if st, ok := r.(*ssa.Store); ok && st.Addr == al {
							walk(st.Val)
							n++
						}
					}
					if n == 0 {
						out = append(out, v)
					}
					return
				}
			}
			out = append(out, v)
		default:
			out = append(out, v)
		}
	}
	walk(v)
	return out
}

// OriginsAll reports whether every origin of v satisfies pred (and there is at least one).
func OriginsAll(v ssa.Value, pred func(ssa.Value) bool) bool {
	os := Origins(v)
	if len(os) == 0 {
		return false
	}
	for _, o := range os {
		if !pred(o) {
			return false
		}
	}
	return true
}

// OriginsAny reports whether some origin of v satisfies pred.
func OriginsAny(v ssa.Value, pred func(ssa.Value) bool) bool {
	for _, o := range Origins(v) {
		if pred(o) {
			return true
		}
	}
	return false
}

// SameValue reports whether a and b denote the same run-time value: identical SSA value after
// stripping, or loads of the same local alloc / same field of the same base with no way to tell
// apart (conservative: only syntactic identity of the address expression).
func SameValue(a, b ssa.Value) bool {
	a, b = Strip(a), Strip(b)
	if a == b {
		return true
	}
	ua, ok1 := a.(*ssa.UnOp)
	ub, ok2 := b.(*ssa.UnOp)
	if ok1 && ok2 && ua.Op == token.MUL && ub.Op == token.MUL {
		if ua.X == ub.X {
			return true
		}
		fa, ok1 := ua.X.(*ssa.FieldAddr)
		fb, ok2 := ub.X.(*ssa.FieldAddr)
		if ok1 && ok2 && fa.Field == fb.Field && SameValue(fa.X, fb.X) {
			return true
		}
		// s[i] read twice (same slice value, same index value)
		ia, ok1 := ua.X.(*ssa.IndexAddr)
		ib, ok2 := ub.X.(*ssa.IndexAddr)
		if ok1 && ok2 && SameValue(ia.X, ib.X) && SameValue(ia.Index, ib.Index) {
			return true
		}
	}
	return false
}

// CallResultOf reports whether v is (an Extract of) a call to one of fns; returns that call.
func CallResultOf(v ssa.Value, fns ...*ssa.Function) *ssa.Call {
	v = Strip(v)
	if ex, ok := v.(*ssa.Extract); ok {
		v = ex.Tuple
	}
	if c, ok := v.(*ssa.Call); ok && IsCallTo(c, fns...) {
		return c
	}
	return nil
}

// LastStoreBefore: for a load `ld` of local alloc `al`, the value of the last store to al that
// precedes it in the same block (the defer-spilled result idiom), or nil.
func LastStoreBefore(ld ssa.Instruction, al *ssa.Alloc) ssa.Value {
	b := ld.Block()
	idx := IndexInBlock(ld)
	for i := idx - 1; i >= 0; i-- {
		if st, ok := b.Instrs[i].(*ssa.Store); ok && st.Addr == al {
			return st.Val
		}
	}
	return nil
}

// Resolve looks through a load of a local alloc whose value was stored earlier in the same block.
func Resolve(v ssa.Value) ssa.Value {
	if u, ok := v.(*ssa.UnOp); ok && u.Op == token.MUL {
		if al, ok := u.X.(*ssa.Alloc); ok {
			if sv := LastStoreBefore(u, al); sv != nil {
				return sv
			}
		}
	}
	return v
}

// localFieldStores: al is a struct variable (or &T{…} literal) that never leaves the function – it is only written field by
// field and read field by field or copied as a whole – and field idx has at least one store: the stored values.
// (Parameter objects and result structs introduced by a refactoring are of this kind once their helpers are inlined.)
func localFieldStores(al *ssa.Alloc, idx int) ([]ssa.Value, bool) {
	return localFieldStoresD(al, idx, 0)
}

func localFieldStoresD(al *ssa.Alloc, idx int, depth int) ([]ssa.Value, bool) {
	if depth > 3 {
		return nil, false
	}
	var vals []ssa.Value
	for _, r := range Referrers(al) {
		switch x := r.(type) {
		case *ssa.Store:
			// `*al = *other`: a whole-struct copy of another purely local struct (a by-value parameter bound to a literal)
			if x.Addr != ssa.Value(al) {
				return nil, false
			}
			ld, ok := x.Val.(*ssa.UnOp)
			if !ok || ld.Op != token.MUL {
				return nil, false
			}
			src, ok := ld.X.(*ssa.Alloc)
			if !ok {
				return nil, false
			}
			sv, ok := localFieldStoresD(src, idx, depth+1)
			if !ok && !allFieldsLocal(src, depth+1) {
				return nil, false
			}
			vals = append(vals, sv...)
		case *ssa.FieldAddr:
			for _, r2 := range Referrers(x) {
				switch y := r2.(type) {
				case *ssa.Store:
					if y.Addr != ssa.Value(x) {
						return nil, false // the field's address is stored somewhere
					}
					if x.Field == idx {
						vals = append(vals, y.Val)
					}
				case *ssa.UnOp:
					if y.Op != token.MUL {
						return nil, false
					}
				case *ssa.DebugRef:
				default:
					return nil, false
				}
			}
		case *ssa.UnOp:
			if x.Op != token.MUL {
				return nil, false
			}
		case *ssa.DebugRef:
		case *ssa.Phi:
			// the pointer merges with nil on paths that returned an error before using it
			for _, e := range x.Edges {
				if e != ssa.Value(al) && !IsNilConst(e) {
					return nil, false
				}
			}
			for _, r2 := range Referrers(x) {
				switch r2.(type) {
				case *ssa.FieldAddr, *ssa.DebugRef:
				case *ssa.BinOp:
				default:
					return nil, false
				}
			}
		default:
			return nil, false
		}
	}
	return vals, len(vals) > 0
}

// allFieldsLocal: al qualifies as purely local even though the field asked for has no store (zero value).
func allFieldsLocal(al *ssa.Alloc, depth int) bool {
	st, ok := al.Type().Underlying().(*types.Pointer)
	if !ok {
		return false
	}
	str, ok := st.Elem().Underlying().(*types.Struct)
	if !ok {
		return false
	}
	for i := 0; i < str.NumFields(); i++ {
		if _, ok := localFieldStoresD(al, i, depth); ok {
			return true // some field qualifies, hence the shape checks passed for the whole variable
		}
	}
	return false
}
