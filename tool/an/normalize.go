package an

// Source normalisation: helper transparency by inlining.
//
// Most rules are written against the functions that exist on the pinned tree. A behaviour-preserving
// "extract helper" refactoring introduces a function no rule knows; intra-procedural path, guard and
// origin reasoning then stops at the call. Instead of teaching every engine to look through calls, the
// loader inlines calls to functions that are NOT part of the baseline (baseline_funcs.txt – the functions
// of the pinned tree) back into their callers before SSA is built. On the unchanged tree nothing is
// inlined. Inlining is semantics-preserving by construction (arguments are bound once, in order, to
// fresh variables of the parameter types; returns become assignments to result temporaries plus a break
// out of a labelled one-case switch); anything the transformer is not sure about is left as a call. If the
// normalised source does not type-check, the original source is analysed.

import (
	"bytes"
	"fmt"
	"go/ast"
	"go/format"
	"go/parser"
	"go/printer"
	"go/token"
	"go/types"
	"os"
	"path/filepath"
	"sort"
	"strconv"
	"strings"

	"golang.org/x/tools/go/ast/astutil"
	"golang.org/x/tools/go/packages"
)

// Baseline is the set of function keys ("pkgpath.Recv.Name" / "pkgpath.Name") of the pinned tree. nil disables
// normalisation.
var Baseline map[string]bool

// NormalizeLog receives one line per decision (nil = silent).
var NormalizeLog func(string)

func nlog(format string, a ...interface{}) {
	if NormalizeLog != nil {
		NormalizeLog(fmt.Sprintf(format, a...))
	}
}

// LoadBaseline reads baseline_funcs.txt.
func LoadBaseline(file string) error {
	b, err := os.ReadFile(file)
	if err != nil {
		return err
	}
	Baseline = map[string]bool{}
	baselineInfo = map[string]baselineEntry{}
	for _, l := range strings.Split(string(b), "\n") {
		l = strings.TrimSpace(l)
		if l != "" && !strings.HasPrefix(l, "#") {
			cols := strings.Split(l, "\t")
			if cols[0] == "field" && len(cols) >= 3 {
				i := strings.LastIndex(cols[1], ".")
				if baselineFields[cols[1][:i]] == nil {
					baselineFields[cols[1][:i]] = map[string]string{}
					baselineFieldPos[cols[1][:i]] = map[string]int{}
				}
				baselineFields[cols[1][:i]][cols[1][i+1:]] = cols[2]
				if len(cols) >= 4 {
					n, _ := strconv.Atoi(cols[3])
					baselineFieldPos[cols[1][:i]][cols[1][i+1:]] = n
				}
				continue
			}
			Baseline[cols[0]] = true
			if len(cols) == 4 {
				baselineInfo[cols[0]] = baselineEntry{cols[1], cols[2], cols[3]}
			}
		}
	}
	return nil
}

// FuncKey names a declared function for the baseline.
func FuncKey(pkgPath string, fd *ast.FuncDecl) string {
	if fd.Recv != nil && len(fd.Recv.List) == 1 {
		t := fd.Recv.List[0].Type
		if s, ok := t.(*ast.StarExpr); ok {
			t = s.X
		}
		if ix, ok := t.(*ast.IndexExpr); ok {
			t = ix.X
		}
		if id, ok := t.(*ast.Ident); ok {
			return pkgPath + "." + id.Name + "." + fd.Name.Name
		}
	}
	return pkgPath + "." + fd.Name.Name
}

// BaselineKeys lists the function keys of the loaded module packages (for -genbaseline).
func BaselineKeys(pkgs []*packages.Package) []string {
	var out []string
	packages.Visit(pkgs, nil, func(p *packages.Package) {
		if !strings.HasPrefix(p.PkgPath, ModPath) {
			return
		}
		for _, f := range p.Syntax {
			for _, d := range f.Decls {
				if fd, ok := d.(*ast.FuncDecl); ok {
					out = append(out, FuncKey(p.PkgPath, fd))
					if fd.Body != nil {
						out = append(out, closureKeys(FuncKey(p.PkgPath, fd), fd)...)
					}
				}
			}
		}
	})
	sort.Strings(out)
	// de-duplicate
	var uniq []string
	for i, k := range out {
		if i == 0 || out[i-1] != k {
			uniq = append(uniq, k)
		}
	}
	return uniq
}

// closureKeys names the local closures (`name := func…` -> "<func>$name") and immediately-invoked literals
// ("<func>$iife") of a function.
func closureKeys(fkey string, fd *ast.FuncDecl) []string {
	var out []string
	ast.Inspect(fd.Body, func(n ast.Node) bool {
		switch x := n.(type) {
		case *ast.AssignStmt:
			if x.Tok == token.DEFINE && len(x.Lhs) == 1 && len(x.Rhs) == 1 {
				if id, ok := x.Lhs[0].(*ast.Ident); ok {
					if _, ok := x.Rhs[0].(*ast.FuncLit); ok {
						out = append(out, fkey+"$"+id.Name)
					}
				}
			}
		case *ast.CallExpr:
			if _, ok := ast.Unparen(x.Fun).(*ast.FuncLit); ok {
				out = append(out, fkey+"$iife")
			}
		}
		return true
	})
	return out
}

type helper struct {
	decl   *ast.FuncDecl // nil for local closures
	obj    *types.Func   // nil for local closures
	name   string
	sig    *types.Signature
	lit    *ast.FuncLit // local closure / immediately-invoked literal
	def    ast.Stmt     // `name := func…` (local closures)
	pkg    *packages.Package
	file   *ast.File
	expr   ast.Expr // non-nil: body is `return expr`
	free   []*ast.Ident
	uses   int // references anywhere in the module
	inl    int // call sites inlined
	bodySr string
}

func (h *helper) body() *ast.BlockStmt {
	if h.lit != nil {
		return h.lit.Body
	}
	return h.decl.Body
}

type normalizer struct {
	curSig   *types.Signature // signature of the function being rewritten (nil when unknown)
	fset     *token.FileSet
	helpers  map[*types.Func]*helper
	locals   map[types.Object]*helper // local closures by their variable
	n        int
	unrolled int
	changed  map[*ast.File]*packages.Package
	imports  map[*ast.File]map[string]string // path -> name to add
}

// normalize returns an overlay (abs file -> new content) with non-baseline helpers inlined, or nil if nothing changed.
func normalize(pkgs []*packages.Package, dropUnused bool) map[string][]byte {
	if Baseline == nil {
		return nil
	}
	nz := &normalizer{helpers: map[*types.Func]*helper{}, locals: map[types.Object]*helper{}, changed: map[*ast.File]*packages.Package{}, imports: map[*ast.File]map[string]string{}}
	var mod []*packages.Package
	packages.Visit(pkgs, nil, func(p *packages.Package) {
		if strings.HasPrefix(p.PkgPath, ModPath) && len(p.Syntax) > 0 && p.TypesInfo != nil {
			mod = append(mod, p)
			nz.fset = p.Fset
		}
	})
	sort.Slice(mod, func(i, j int) bool { return mod[i].PkgPath < mod[j].PkgPath })
	// 0. local tables of function literals that are only ranged over
	for _, p := range mod {
		for _, f := range p.Syntax {
			for _, d := range f.Decls {
				if fd, ok := d.(*ast.FuncDecl); ok && fd.Body != nil {
					nz.unrollTables(p, f, fd)
					nz.selectCalls(p, f, fd)
				}
			}
		}
	}
	// 1. candidates
	for _, p := range mod {
		for _, f := range p.Syntax {
			for _, d := range f.Decls {
				fd, ok := d.(*ast.FuncDecl)
				if !ok || fd.Body == nil || InBaseline(FuncKey(p.PkgPath, fd)) {
					continue
				}
				obj, _ := p.TypesInfo.Defs[fd.Name].(*types.Func)
				if obj == nil {
					continue
				}
				if why := notInlinable(fd, obj, p.TypesInfo); why != "" {
					nlog("helper %s not inlined: %s", FuncKey(p.PkgPath, fd), why)
					continue
				}
				h := &helper{decl: fd, obj: obj, name: fd.Name.Name, sig: obj.Type().(*types.Signature), pkg: p, file: f}
				if len(fd.Body.List) == 1 {
					if r, ok := fd.Body.List[0].(*ast.ReturnStmt); ok && len(r.Results) == 1 && !containsFuncLit(r.Results[0]) {
						h.expr = r.Results[0]
					}
				}
				ast.Inspect(fd.Body, func(n ast.Node) bool {
					if id, ok := n.(*ast.Ident); ok {
						h.free = append(h.free, id)
					}
					return true
				})
				var buf bytes.Buffer
				printer.Fprint(&buf, p.Fset, fd.Body)
				h.bodySr = buf.String()
				nz.helpers[obj] = h
			}
		}
	}
	// local closures: `name := func(...) {...}` used only as the callee of calls
	for _, p := range mod {
		for _, f := range p.Syntax {
			for _, d := range f.Decls {
				fd, ok := d.(*ast.FuncDecl)
				if !ok || fd.Body == nil {
					continue
				}
				nz.collectClosures(p, f, fd)
			}
		}
	}
	if len(nz.helpers) == 0 && len(nz.locals) == 0 && !nz.hasIIFE(mod) && nz.unrolled == 0 {
		return nil
	}
	// reference counts
	for _, p := range mod {
		for id, o := range p.TypesInfo.Uses {
			_ = id
			if fn, ok := o.(*types.Func); ok {
				if h := nz.helpers[fn.Origin()]; h != nil {
					h.uses++
				}
			}
		}
	}
	// 2. rewrite callers
	for _, p := range mod {
		for _, f := range p.Syntax {
			for _, d := range f.Decls {
				fd, ok := d.(*ast.FuncDecl)
				if !ok || fd.Body == nil {
					continue
				}
				nz.loopHeaderCalls(p, f, fd)
				nz.rewriteBlock(p, f, fd, fd.Body)
				nz.rewriteExprs(p, f, fd)
			}
		}
	}
	if len(nz.changed) == 0 {
		return nil
	}
	// 3. drop helpers whose every reference was inlined
	if dropUnused {
		for _, h := range nz.helpers {
			if h.decl != nil && h.inl > 0 && h.inl == h.uses {
				for i, d := range h.file.Decls {
					if d == ast.Decl(h.decl) {
						h.file.Decls = append(h.file.Decls[:i:i], h.file.Decls[i+1:]...)
						nz.changed[h.file] = h.pkg
						nlog("helper %s removed (all %d call sites inlined)", h.name, h.inl)
						break
					}
				}
			}
		}
	}
	for _, h := range nz.locals {
		if h.inl > 0 && h.inl == h.uses && h.def != nil {
			nz.removeDef(h)
		}
	}
	out := map[string][]byte{}
	for f, p := range nz.changed {
		for path, name := range nz.imports[f] {
			if name == filepath.Base(path) || name == "" {
				astutil.AddImport(p.Fset, f, path)
			} else {
				astutil.AddNamedImport(p.Fset, f, name, path)
			}
		}
		var buf bytes.Buffer
		if err := printer.Fprint(&buf, p.Fset, f); err != nil {
			nlog("print failed: %v", err)
			return nil
		}
		src, err := format.Source(buf.Bytes())
		if err != nil {
			nlog("normalised %s does not parse: %v", p.Fset.File(f.Pos()).Name(), err)
			return nil
		}
		// imports that became unused (the helper that needed them is gone) are removed
		out[p.Fset.File(f.Pos()).Name()] = dropUnusedImports(src)
	}
	return out
}

func dropUnusedImports(src []byte) []byte {
	fset := token.NewFileSet()
	f, err := parser.ParseFile(fset, "x.go", src, parser.ParseComments)
	if err != nil {
		return src
	}
	used := map[string]bool{}
	ast.Inspect(f, func(n ast.Node) bool {
		if sel, ok := n.(*ast.SelectorExpr); ok {
			if id, ok := sel.X.(*ast.Ident); ok {
				used[id.Name] = true
			}
		}
		return true
	})
	changed := false
	for _, imp := range f.Imports {
		path, _ := strconv.Unquote(imp.Path.Value)
		name := filepath.Base(path)
		if imp.Name != nil {
			name = imp.Name.Name
		}
		if name == "_" || name == "." {
			continue
		}
		// package names that differ from the last path element (go-nsq -> nsq, go-options -> options, v2 ...): keep
		if imp.Name == nil && strings.ContainsAny(name, "-.") {
			continue
		}
		if !used[name] && imp.Name == nil && !stdlibLike(path) {
			continue // cannot tell the package name without type information: keep
		}
		if !used[name] {
			if imp.Name != nil {
				astutil.DeleteNamedImport(fset, f, imp.Name.Name, path)
			} else {
				astutil.DeleteImport(fset, f, path)
			}
			changed = true
		}
	}
	if !changed {
		return src
	}
	var buf bytes.Buffer
	if err := format.Node(&buf, fset, f); err != nil {
		return src
	}
	return buf.Bytes()
}

func stdlibLike(path string) bool { return !strings.Contains(strings.Split(path, "/")[0], ".") }

func containsFuncLit(n ast.Node) bool {
	found := false
	ast.Inspect(n, func(x ast.Node) bool {
		if _, ok := x.(*ast.FuncLit); ok {
			found = true
		}
		return !found
	})
	return found
}

func notInlinable(fd *ast.FuncDecl, obj *types.Func, info *types.Info) string {
	sig := obj.Type().(*types.Signature)
	if sig.TypeParams() != nil || sig.RecvTypeParams() != nil {
		return "generic"
	}
	why := ""
	ast.Inspect(fd.Body, func(n ast.Node) bool {
		switch x := n.(type) {
		case *ast.FuncLit:
			return false
		case *ast.DeferStmt:
			if !simpleDefer(fd.Body, x) {
				why = "uses defer other than a top-level `defer x.m(pure args)`"
			}
		case *ast.LabeledStmt:
			// labels are renamed per inlined copy
		case *ast.BranchStmt:
			if x.Tok == token.GOTO {
				why = "uses goto"
			}
		case *ast.CallExpr:
			if id, ok := x.Fun.(*ast.Ident); ok {
				if b, ok := info.Uses[id].(*types.Builtin); ok && b.Name() == "recover" {
					why = "calls recover"
				}
				if info.Uses[id] == types.Object(obj) {
					why = "recursive"
				}
			}
			if sel, ok := x.Fun.(*ast.SelectorExpr); ok && info.Uses[sel.Sel] == types.Object(obj) {
				why = "recursive"
			}
		}
		return why == ""
	})
	return why
}

// calleeOf resolves a call to a candidate helper.
func (nz *normalizer) calleeOf(p *packages.Package, call *ast.CallExpr) (*helper, ast.Expr) {
	switch fun := ast.Unparen(call.Fun).(type) {
	case *ast.FuncLit:
		return nz.iife(p, fun), nil
	case *ast.Ident:
		if v, ok := p.TypesInfo.Uses[fun].(*types.Var); ok {
			if h := nz.locals[v]; h != nil {
				return h, nil
			}
		}
		if fn, ok := p.TypesInfo.Uses[fun].(*types.Func); ok {
			if h := nz.helpers[fn]; h != nil && h.decl.Recv == nil {
				return h, nil
			}
		}
	case *ast.SelectorExpr:
		fn, ok := p.TypesInfo.Uses[fun.Sel].(*types.Func)
		if !ok {
			return nil, nil
		}
		h := nz.helpers[fn]
		if h == nil {
			return nil, nil
		}
		if h.decl.Recv == nil {
			return h, nil // pkg.Func
		}
		sel := p.TypesInfo.Selections[fun]
		if sel == nil || sel.Kind() != types.MethodVal || len(sel.Index()) != 1 {
			return nil, nil // method expression / promoted through embedding: leave
		}
		recvT := fn.Type().(*types.Signature).Recv().Type()
		xT := p.TypesInfo.TypeOf(fun.X)
		_, rp := recvT.(*types.Pointer)
		_, xp := xT.Underlying().(*types.Pointer)
		if _, isNamedPtr := xT.(*types.Pointer); isNamedPtr {
			xp = true
		}
		var recv ast.Expr = fun.X
		switch {
		case rp && !xp:
			recv = &ast.UnaryExpr{Op: token.AND, X: fun.X}
		case !rp && xp:
			recv = &ast.StarExpr{X: fun.X}
		}
		return h, recv
	}
	return nil, nil
}

// hygiene: every package-level / universe / imported-package name the helper body uses must mean the same thing at the call site.
func (nz *normalizer) hygienic(h *helper, p *packages.Package, f *ast.File, pos token.Pos) bool {
	scope := p.Types.Scope().Innermost(pos)
	if scope == nil {
		return false
	}
	for _, id := range h.free {
		obj := h.pkg.TypesInfo.Uses[id]
		if obj == nil || obj.Parent() == nil {
			continue // definitions, fields, methods
		}
		switch {
		case obj.Parent() == types.Universe, obj.Parent() == h.pkg.Types.Scope():
			if h.pkg != p && obj.Parent() != types.Universe {
				if !obj.Exported() {
					return false
				}
				continue // cross-package helper: printed with qualifier below? not supported
			}
			_, found := scope.LookupParent(id.Name, pos)
			if found != obj {
				nlog("inlining %s: name %s is shadowed at the call site", h.name, id.Name)
				return false
			}
		default:
			if pn, ok := obj.(*types.PkgName); ok {
				_, found := scope.LookupParent(id.Name, pos)
				if fpn, ok := found.(*types.PkgName); ok && fpn.Imported().Path() == pn.Imported().Path() {
					continue
				}
				if found != nil {
					nlog("inlining %s: package name %s means something else at the call site", h.name, id.Name)
					return false
				}
				if nz.imports[f] == nil {
					nz.imports[f] = map[string]string{}
				}
				nz.imports[f][pn.Imported().Path()] = id.Name
			}
		}
	}
	if h.lit != nil {
		// captured variables must be the same objects at the call site
		for _, id := range h.free {
			obj := h.pkg.TypesInfo.Uses[id]
			v, isVar := obj.(*types.Var)
			if !isVar || v.IsField() || v.Parent() == nil || v.Parent() == h.pkg.Types.Scope() || v.Parent().Parent() == types.Universe {
				continue // fields and package-level variables (of any package: binary.BigEndian) are not captured
			}
			if h.lit.Pos() <= v.Pos() && v.Pos() < h.lit.End() {
				continue // the closure's own parameters and locals
			}
			if _, found := scope.LookupParent(id.Name, pos); found != obj {
				nlog("inlining closure %s: captured %s is not visible (or shadowed) at the call site", h.name, id.Name)
				return false
			}
		}
	}
	return h.pkg == p // only same-package helpers (unqualified names stay valid)
}

func (nz *normalizer) typeExpr(t types.Type, p *packages.Package, f *ast.File) (ast.Expr, bool) {
	ok := true
	s := types.TypeString(t, func(q *types.Package) string {
		if q == p.Types {
			return ""
		}
		for _, imp := range f.Imports {
			path, _ := strconv.Unquote(imp.Path.Value)
			if path == q.Path() {
				if imp.Name != nil {
					if imp.Name.Name == "." || imp.Name.Name == "_" {
						ok = false
					}
					return imp.Name.Name
				}
				return q.Name()
			}
		}
		if nz.imports[f] == nil {
			nz.imports[f] = map[string]string{}
		}
		nz.imports[f][q.Path()] = q.Name()
		return q.Name()
	})
	e, err := parser.ParseExpr(s)
	if err != nil {
		return nil, false
	}
	return e, ok
}

func pureExpr(e ast.Expr) bool {
	switch x := e.(type) {
	case *ast.Ident, *ast.BasicLit:
		return true
	case *ast.ParenExpr:
		return pureExpr(x.X)
	case *ast.SelectorExpr:
		return pureExpr(x.X)
	case *ast.StarExpr:
		return pureExpr(x.X)
	case *ast.UnaryExpr:
		return (x.Op == token.AND || x.Op == token.SUB || x.Op == token.NOT) && pureExpr(x.X)
	case *ast.IndexExpr:
		return pureExpr(x.X) && pureExpr(x.Index)
	}
	return false
}

func copyExpr(fset *token.FileSet, e ast.Expr) ast.Expr {
	var buf bytes.Buffer
	printer.Fprint(&buf, fset, e)
	c, err := parser.ParseExpr(buf.String())
	if err != nil {
		return nil
	}
	return c
}

// paramNames flattens receiver and parameters.
func paramList(h *helper) (names []string, typesOf []types.Type) {
	sig := h.sig
	if h.decl != nil && sig.Recv() != nil {
		n := "_"
		if len(h.decl.Recv.List[0].Names) == 1 {
			n = h.decl.Recv.List[0].Names[0].Name
		}
		names = append(names, n)
		typesOf = append(typesOf, sig.Recv().Type())
	}
	for i := 0; i < sig.Params().Len(); i++ {
		n := sig.Params().At(i).Name()
		if n == "" {
			n = "_"
		}
		names = append(names, n)
		typesOf = append(typesOf, sig.Params().At(i).Type())
	}
	return
}

// inlineStmts builds the statements replacing a call in statement context. results are the names of the temporaries.
func (nz *normalizer) inlineStmts(h *helper, p *packages.Package, f *ast.File, call *ast.CallExpr, recv ast.Expr) (stmts []ast.Stmt, results []string, ok bool) {
	return nz.inlineStmtsP(h, p, f, call, recv, nil)
}

// propagation describes the statement that follows `lhs… := helper(…)` when it is the canonical
// `if err != nil { return … }`: the helper's own error returns can then leave the caller directly (see fuse).
type propagation struct {
	lhs []string   // names on the left of the call statement ("_" allowed)
	pre []ast.Stmt // simple statements the caller runs before that return (counters, logging)
	ret []ast.Expr // results of the caller's return
	// tail: the call statement is `return helper(…)` and the helper's result types are identical to the caller's, so
	// each `return e…` of the helper is a `return e…` of the caller (after the helper's deferred calls)
	tail bool
}

// nonNilErrorReturns: for each return statement of the helper (source order, function literals skipped) whether its last
// result is an expression of a concrete (non-interface) type, i.e. certainly a non-nil error once boxed.
func nonNilErrorReturns(h *helper) []bool {
	var out []bool
	info := h.pkg.TypesInfo
	// guarded[ret] = the return sits in the body of `if X != nil { … }` (X an identifier, not assigned in that body before
	// the return) and returns X as its error
	guarded := map[*ast.ReturnStmt]bool{}
	ast.Inspect(h.body(), func(n ast.Node) bool {
		ifs, ok := n.(*ast.IfStmt)
		if !ok {
			return true
		}
		be, ok := ifs.Cond.(*ast.BinaryExpr)
		if !ok || be.Op != token.NEQ {
			return true
		}
		x, ok1 := be.X.(*ast.Ident)
		nl, ok2 := be.Y.(*ast.Ident)
		if !ok1 || !ok2 || nl.Name != "nil" {
			return true
		}
		for _, st := range ifs.Body.List {
			if as, ok := st.(*ast.AssignStmt); ok {
				for _, l := range as.Lhs {
					if id, ok := l.(*ast.Ident); ok && id.Name == x.Name {
						return true // reassigned: give up on this block
					}
				}
			}
			if rs, ok := st.(*ast.ReturnStmt); ok && len(rs.Results) > 0 {
				if id, ok := rs.Results[len(rs.Results)-1].(*ast.Ident); ok && id.Name == x.Name {
					guarded[rs] = true
				}
				break
			}
			if _, simple := st.(*ast.ExprStmt); !simple {
				if _, isAssign := st.(*ast.AssignStmt); !isAssign {
					break // anything with control flow: stop looking
				}
			}
		}
		return true
	})
	ast.Inspect(h.body(), func(n ast.Node) bool {
		switch x := n.(type) {
		case *ast.FuncLit:
			return false
		case *ast.ReturnStmt:
			nn := guarded[x]
			if len(x.Results) > 0 {
				// errors.New(…) / fmt.Errorf(…) never return nil
				if call, ok := x.Results[len(x.Results)-1].(*ast.CallExpr); ok {
					if sel, ok := call.Fun.(*ast.SelectorExpr); ok {
						if pk, ok := sel.X.(*ast.Ident); ok && ((pk.Name == "errors" && sel.Sel.Name == "New") || (pk.Name == "fmt" && sel.Sel.Name == "Errorf")) {
							if info != nil {
								if _, isPkg := info.Uses[pk].(*types.PkgName); isPkg {
									nn = true
								}
							}
						}
					}
				}
			}
			if len(x.Results) > 0 && info != nil {
				if tv, ok := info.Types[x.Results[len(x.Results)-1]]; ok && tv.Type != nil && !tv.IsNil() {
					if _, isIface := tv.Type.Underlying().(*types.Interface); !isIface {
						if b, isBasic := tv.Type.(*types.Basic); !isBasic || b.Kind() != types.UntypedNil {
							nn = true
						}
					}
				}
			}
			out = append(out, nn)
		}
		return true
	})
	return out
}

// paramUsed: the helper's body mentions its parameter name.
func paramUsed(h *helper, name string) bool {
	for _, id := range h.free {
		if id.Name != name {
			continue
		}
		if v, ok := h.pkg.TypesInfo.Uses[id].(*types.Var); ok && !v.IsField() {
			return true
		}
	}
	return false
}

// mentioned: an argument other than the i-th mentions the identifier.
func mentioned(args []ast.Expr, i int, name string) bool {
	found := false
	for j, a := range args {
		if j == i {
			continue
		}
		ast.Inspect(a, func(n ast.Node) bool {
			if id, ok := n.(*ast.Ident); ok && id.Name == name {
				found = true
			}
			return true
		})
	}
	return found
}

// hasHelperCall: e contains (outside function literals) a call of a helper the normaliser inlines.
func (nz *normalizer) hasHelperCall(p *packages.Package, e ast.Expr) bool {
	found := false
	ast.Inspect(e, func(m ast.Node) bool {
		if _, isLit := m.(*ast.FuncLit); isLit {
			return false
		}
		if c, ok := m.(*ast.CallExpr); ok {
			if h, _ := nz.calleeOf(p, c); h != nil {
				found = true
			}
		}
		return true
	})
	return found
}

// countNested: a copy of h's body was placed somewhere; every reference it holds to another helper or local closure is one
// more use of that helper (so that its definition is not dropped while copies still call it – the next round inlines them).
func (nz *normalizer) countNested(h *helper) {
	for _, id := range h.free {
		obj := h.pkg.TypesInfo.Uses[id]
		if obj == nil {
			continue
		}
		if fn, ok := obj.(*types.Func); ok {
			if o := nz.helpers[fn.Origin()]; o != nil && o != h {
				o.uses++
			}
		}
		if o := nz.locals[obj]; o != nil && o != h {
			o.uses++
		}
	}
}

// inlineSeq numbers inlined copies across all rounds of one process, so that generated labels and temporaries never clash
// with those of an earlier round.
var inlineSeq int

func (nz *normalizer) inlineStmtsP(h *helper, p *packages.Package, f *ast.File, call *ast.CallExpr, recv ast.Expr, prop *propagation) (stmts []ast.Stmt, results []string, ok bool) {
	if !nz.hygienic(h, p, f, call.Pos()) {
		return nil, nil, false
	}
	nz.n++
	inlineSeq++
	id := inlineSeq
	sig := h.sig
	names, ptypes := paramList(h)
	args := append([]ast.Expr{}, call.Args...)
	if sig.Variadic() && !call.Ellipsis.IsValid() {
		// f(a, b, c) with f(x T, rest ...U): the trailing arguments are packed as the call would pack them ([]U{b, c}; nil
		// when there is none)
		fixed := sig.Params().Len() - 1
		if len(args) < fixed {
			return nil, nil, false
		}
		te, tok := nz.typeExpr(sig.Params().At(fixed).Type(), p, f)
		if !tok {
			return nil, nil, false
		}
		var packed ast.Expr = &ast.CallExpr{Fun: &ast.ParenExpr{X: te}, Args: []ast.Expr{ast.NewIdent("nil")}}
		if len(args) > fixed {
			packed = &ast.CompositeLit{Type: te, Elts: append([]ast.Expr{}, args[fixed:]...)}
		}
		args = append(args[:fixed:fixed], packed)
	}
	if recv != nil {
		args = append([]ast.Expr{recv}, args...)
	}
	if len(args) != len(names) {
		return nil, nil, false // f(g()) with multi-value g
	}
	// result temporaries
	for i := 0; i < sig.Results().Len(); i++ {
		te, tok := nz.typeExpr(sig.Results().At(i).Type(), p, f)
		if !tok {
			return nil, nil, false
		}
		name := fmt.Sprintf("inl%dR%d", id, i)
		results = append(results, name)
		stmts = append(stmts, &ast.DeclStmt{Decl: &ast.GenDecl{Tok: token.VAR, Specs: []ast.Spec{&ast.ValueSpec{Names: []*ast.Ident{ast.NewIdent(name)}, Type: te}}}})
	}
	var inner []ast.Stmt
	if len(names) > 0 {
		vs := &ast.ValueSpec{}
		var keep []ast.Expr
		for i, n := range names {
			// a function literal passed as an argument is bound by `name := func…` of its own, so that the next round sees a
			// local closure used only as a callee (evaluating a literal has no effect, so its place among the arguments does
			// not matter); not when another argument mentions the name, which the new variable would capture
			if lit, isLit := ast.Unparen(args[i]).(*ast.FuncLit); isLit && n != "_" && paramUsed(h, n) && !mentioned(args, i, n) {
				inner = append(inner, &ast.AssignStmt{Lhs: []ast.Expr{ast.NewIdent(n)}, Tok: token.DEFINE, Rhs: []ast.Expr{lit}})
				continue
			}
			te, tok := nz.typeExpr(ptypes[i], p, f)
			if !tok {
				return nil, nil, false
			}
			vs.Names = append(vs.Names, ast.NewIdent(n))
			vs.Values = append(vs.Values, &ast.CallExpr{Fun: &ast.ParenExpr{X: te}, Args: []ast.Expr{args[i]}})
			if n != "_" {
				keep = append(keep, ast.NewIdent(n))
			}
		}
		if len(vs.Names) > 0 {
			inner = append(inner, &ast.DeclStmt{Decl: &ast.GenDecl{Tok: token.VAR, Specs: []ast.Spec{vs}}})
		}
		if len(keep) > 0 {
			lhs := make([]ast.Expr, len(keep))
			for i := range lhs {
				lhs[i] = ast.NewIdent("_")
			}
			inner = append(inner, &ast.AssignStmt{Lhs: lhs, Tok: token.ASSIGN, Rhs: keep})
		}
	}
	// named results are ordinary zero-initialised locals
	var named []string
	for i := 0; i < sig.Results().Len(); i++ {
		if n := sig.Results().At(i).Name(); n != "" && n != "_" {
			te, _ := nz.typeExpr(sig.Results().At(i).Type(), p, f)
			inner = append(inner, &ast.DeclStmt{Decl: &ast.GenDecl{Tok: token.VAR, Specs: []ast.Spec{&ast.ValueSpec{Names: []*ast.Ident{ast.NewIdent(n)}, Type: te}}}})
			inner = append(inner, &ast.AssignStmt{Lhs: []ast.Expr{ast.NewIdent("_")}, Tok: token.ASSIGN, Rhs: []ast.Expr{ast.NewIdent(n)}})
			named = append(named, n)
		} else {
			named = append(named, "")
		}
	}
	// body copy with returns rewritten
	file, err := parser.ParseFile(token.NewFileSet(), "h.go", "package p\nfunc _() "+h.bodySr, 0)
	if err != nil {
		return nil, nil, false
	}
	body := file.Decls[0].(*ast.FuncDecl).Body
	label := fmt.Sprintf("inl%d", id)
	// labels of the helper (its own, or those of copies inlined into it earlier) are function-scoped: give this copy its own
	ast.Inspect(body, func(n ast.Node) bool {
		switch x := n.(type) {
		case *ast.FuncLit:
			return false
		case *ast.LabeledStmt:
			x.Label = ast.NewIdent(fmt.Sprintf("%sc%d", x.Label.Name, id))
		case *ast.BranchStmt:
			if x.Label != nil {
				x.Label = ast.NewIdent(fmt.Sprintf("%sc%d", x.Label.Name, id))
			}
		}
		return true
	})
	bad := false
	nret := 0
	retIdx := 0
	var nonNil []bool
	if prop != nil {
		nonNil = nonNilErrorReturns(h)
	}
	// top-level `defer f(pure…)` statements run, last first, at every return that follows them and at the end of the
	// body (a panic between the defer and the return is the only difference; no function of the module recovers)
	var deferred []*ast.CallExpr
	deferredAt := map[ast.Stmt][]*ast.CallExpr{}
	for i, st := range body.List {
		if d, ok := st.(*ast.DeferStmt); ok {
			deferred = append([]*ast.CallExpr{d.Call}, deferred...)
			body.List[i] = &ast.EmptyStmt{Implicit: true}
			continue
		}
		deferredAt[st] = deferred
	}
	runDeferred := func(calls []*ast.CallExpr) []ast.Stmt {
		var out []ast.Stmt
		for _, c := range calls {
			out = append(out, &ast.ExprStmt{X: copyOf(c)})
		}
		return out
	}
	var curTop ast.Stmt
	for _, top := range body.List {
		curTop = top
		astutil.Apply(top, func(c *astutil.Cursor) bool {
			switch x := c.Node().(type) {
			case *ast.FuncLit:
				return false
			case *ast.ReturnStmt:
				var repl []ast.Stmt
				switch {
				case len(results) == 0:
				case len(x.Results) == 0:
					// bare return with named results
					var rhs []ast.Expr
					for _, n := range named {
						if n == "" {
							bad = true
							return false
						}
						rhs = append(rhs, ast.NewIdent(n))
					}
					repl = append(repl, &ast.AssignStmt{Lhs: idents(results), Tok: token.ASSIGN, Rhs: rhs})
				default:
					repl = append(repl, &ast.AssignStmt{Lhs: idents(results), Tok: token.ASSIGN, Rhs: x.Results})
				}
				repl = append(repl, runDeferred(deferredAt[curTop])...)
				retIdx++
				direct := false
				if prop != nil && prop.tail && len(x.Results) == len(results) && len(results) > 0 {
					repl = append(repl, &ast.ReturnStmt{Results: idents(results)})
					direct = true
				} else if prop != nil && len(x.Results) == len(results) && len(results) > 0 {
					last := x.Results[len(x.Results)-1]
					if id, isId := last.(*ast.Ident); !isId || id.Name != "nil" {
						// fuse: the caller's `if err != nil { return … }` is decided here, where the error is made
						var rets []ast.Expr
						for _, r := range prop.ret {
							rets = append(rets, substIdents(copyOf(r), prop.lhs, results))
						}
						ret := &ast.ReturnStmt{Results: rets}
						var fused []ast.Stmt
						for _, st := range prop.pre {
							fused = append(fused, substStmt(st, prop.lhs, results))
						}
						fused = append(fused, ret)
						if retIdx-1 < len(nonNil) && nonNil[retIdx-1] {
							repl = append(repl, fused...)
							direct = true
						} else {
							repl = append(repl, &ast.IfStmt{Cond: &ast.BinaryExpr{X: ast.NewIdent(results[len(results)-1]), Op: token.NEQ, Y: ast.NewIdent("nil")},
								Body: &ast.BlockStmt{List: fused}})
						}
					}
				}
				if !direct {
					repl = append(repl, &ast.BranchStmt{Tok: token.BREAK, Label: ast.NewIdent(label)})
					nret++
				}
				if c.Node() == ast.Node(top) {
					// a top-level return cannot be replaced through the cursor of its own root
					for i := range body.List {
						if body.List[i] == top {
							body.List[i] = &ast.BlockStmt{List: repl}
						}
					}
					return false
				}
				c.Replace(&ast.BlockStmt{List: repl})
				return false
			}
			return true
		}, nil)
	}
	if bad {
		return nil, nil, false
	}
	if len(deferred) > 0 {
		body.List = append(body.List, runDeferred(deferred)...)
	}
	if nret > 0 {
		sw := &ast.LabeledStmt{Label: ast.NewIdent(label), Stmt: &ast.SwitchStmt{Body: &ast.BlockStmt{List: []ast.Stmt{&ast.CaseClause{Body: body.List}}}}}
		inner = append(inner, sw)
	} else {
		inner = append(inner, body.List...)
	}
	stmts = append(stmts, &ast.BlockStmt{List: inner})
	h.inl++
	nz.countNested(h)
	nz.changed[f] = p
	nlog("inlined %s at %s", h.name, p.Fset.Position(call.Pos()))
	return stmts, results, true
}

func idents(names []string) []ast.Expr {
	out := make([]ast.Expr, len(names))
	for i, n := range names {
		out[i] = ast.NewIdent(n)
	}
	return out
}

// stmtCall: the helper call a statement consists of, for the statement shapes handled.
func (nz *normalizer) stmtCall(p *packages.Package, s ast.Stmt) (*ast.CallExpr, *helper, ast.Expr) {
	var e ast.Expr
	switch x := s.(type) {
	case *ast.ExprStmt:
		e = x.X
	case *ast.AssignStmt:
		if len(x.Rhs) == 1 && (x.Tok == token.DEFINE || x.Tok == token.ASSIGN) {
			e = x.Rhs[0]
		}
	case *ast.ReturnStmt:
		if len(x.Results) == 1 {
			e = x.Results[0]
		}
	}
	call, ok := e.(*ast.CallExpr)
	if !ok {
		return nil, nil, nil
	}
	h, recv := nz.calleeOf(p, call)
	if h == nil {
		return nil, nil, nil
	}
	// single-expression helpers with pure arguments are substituted as expressions (rewriteExprs)
	if h.expr != nil && !h.sig.Variadic() && allPure(call.Args) && (recv == nil || pureExpr(recv)) {
		return nil, nil, nil
	}
	return call, h, recv
}

func allPure(es []ast.Expr) bool {
	for _, e := range es {
		if !pureExpr(e) {
			return false
		}
	}
	return true
}

// replaceStmt produces the replacement of statement s (a handled shape whose call is to helper h).
func (nz *normalizer) replaceStmt(p *packages.Package, f *ast.File, s ast.Stmt) ([]ast.Stmt, bool) {
	return nz.replaceStmtP(p, f, s, nil, nil)
}

// propagationFor: if `check` is the canonical `if E != nil { return … }` for the error E assigned by call statement s, and
// fusing is safe (see fuse conditions in the comment of inlineStmtsP), describe it.
func (nz *normalizer) propagationFor(p *packages.Package, fd *ast.FuncDecl, s ast.Stmt, check *ast.IfStmt) *propagation {
	as, ok := s.(*ast.AssignStmt)
	if !ok || check == nil || check.Else != nil || len(check.Body.List) == 0 || len(check.Body.List) > 6 || len(as.Lhs) == 0 {
		return nil
	}
	ret, ok := check.Body.List[len(check.Body.List)-1].(*ast.ReturnStmt)
	if !ok {
		return nil
	}
	// statements before the return: straight-line only (they are duplicated at each error return of the helper)
	var pre []ast.Stmt
	for _, st := range check.Body.List[:len(check.Body.List)-1] {
		switch x := st.(type) {
		case *ast.ExprStmt:
			pre = append(pre, x)
		case *ast.AssignStmt:
			if x.Tok == token.DEFINE {
				return nil
			}
			pre = append(pre, x)
		case *ast.IncDecStmt:
			pre = append(pre, x)
		default:
			return nil
		}
	}
	be, ok := check.Cond.(*ast.BinaryExpr)
	if !ok || be.Op != token.NEQ {
		return nil
	}
	eid, ok1 := be.X.(*ast.Ident)
	nid, ok2 := be.Y.(*ast.Ident)
	if !ok1 || !ok2 || nid.Name != "nil" {
		return nil
	}
	var lhs []string
	for _, l := range as.Lhs {
		id, ok := l.(*ast.Ident)
		if !ok {
			return nil
		}
		lhs = append(lhs, id.Name)
	}
	if lhs[len(lhs)-1] != eid.Name || eid.Name == "_" {
		return nil
	}
	call, h, recvExpr := nz.stmtCall(p, s)
	if call == nil || h == nil || h.sig.Results().Len() != len(lhs) {
		return nil
	}
	// the skipped assignment `lhs = results` on the early-return path must be unobservable: with `=` the variables
	// must not be mentioned by any function literal of the enclosing function (a deferred closure could read them)
	if as.Tok == token.ASSIGN && fd != nil {
		captured := false
		ast.Inspect(fd.Body, func(n ast.Node) bool {
			if fl, ok := n.(*ast.FuncLit); ok {
				ast.Inspect(fl.Body, func(m ast.Node) bool {
					if id, ok := m.(*ast.Ident); ok {
						for _, l := range lhs {
							if l != "_" && id.Name == l {
								captured = true
							}
						}
					}
					return true
				})
				return false
			}
			return true
		})
		if captured {
			return nil
		}
		// named results of the enclosing function are assigned by the return anyway, but a bare `return` reads them
		if len(ret.Results) == 0 {
			return nil
		}
	}
	if len(ret.Results) == 0 && fd != nil && fd.Type.Results != nil && len(fd.Type.Results.List) > 0 {
		return nil
	}
	// hygiene: the return's expressions are evaluated inside the inlined body, where the helper's own names are in scope
	declared := map[string]bool{}
	names, _ := paramList(h)
	for _, n := range names {
		declared[n] = true
	}
	// a parameter bound to the caller's variable of the same name (`t.putAll(msgs)` inside a method of t) means the same
	// thing on both sides, provided the helper never assigns it
	{
		hargs := call.Args
		if recvExpr != nil {
			hargs = append([]ast.Expr{recvExpr}, hargs...)
		}
		assigned := map[string]bool{}
		ast.Inspect(h.body(), func(n ast.Node) bool {
			switch x := n.(type) {
			case *ast.AssignStmt:
				for _, l := range x.Lhs {
					if id, ok := l.(*ast.Ident); ok {
						assigned[id.Name] = true
					}
				}
			case *ast.IncDecStmt:
				if id, ok := x.X.(*ast.Ident); ok {
					assigned[id.Name] = true
				}
			case *ast.UnaryExpr:
				if x.Op == token.AND {
					if id, ok := x.X.(*ast.Ident); ok {
						assigned[id.Name] = true
					}
				}
			}
			return true
		})
		if len(hargs) == len(names) {
			for i, n := range names {
				if id, ok := hargs[i].(*ast.Ident); ok && id.Name == n && !assigned[n] {
					delete(declared, n)
				}
			}
		}
	}
	for i := 0; i < h.sig.Results().Len(); i++ {
		declared[h.sig.Results().At(i).Name()] = true
	}
	ast.Inspect(h.body(), func(n ast.Node) bool {
		switch x := n.(type) {
		case *ast.AssignStmt:
			if x.Tok == token.DEFINE {
				for _, l := range x.Lhs {
					if id, ok := l.(*ast.Ident); ok {
						declared[id.Name] = true
					}
				}
			}
		case *ast.ValueSpec:
			for _, id := range x.Names {
				declared[id.Name] = true
			}
		case *ast.RangeStmt:
			if x.Tok == token.DEFINE {
				for _, e := range []ast.Expr{x.Key, x.Value} {
					if id, ok := e.(*ast.Ident); ok {
						declared[id.Name] = true
					}
				}
			}
		case *ast.LabeledStmt:
			declared[x.Label.Name] = true
		case *ast.TypeSpec:
			declared[x.Name.Name] = true
		case *ast.FuncLit:
			return false
		}
		return true
	})
	clean := true
	var scan []ast.Node
	for _, r := range ret.Results {
		scan = append(scan, r)
	}
	for _, st := range pre {
		scan = append(scan, st)
	}
	for _, r := range scan {
		ast.Inspect(r, func(n ast.Node) bool {
			switch x := n.(type) {
			case *ast.FuncLit:
				clean = false
				return false
			case *ast.SelectorExpr:
				// only the operand can be a local name
				ast.Inspect(x.X, func(m ast.Node) bool {
					if id, ok := m.(*ast.Ident); ok {
						isLHS := false
						for _, l := range lhs {
							if l == id.Name {
								isLHS = true
							}
						}
						if !isLHS && declared[id.Name] {
							clean = false
						}
					}
					return true
				})
				return false
			case *ast.Ident:
				isLHS := false
				for _, l := range lhs {
					if l == x.Name {
						isLHS = true
					}
				}
				if !isLHS && declared[x.Name] {
					clean = false
				}
			}
			return true
		})
	}
	if !clean {
		return nil
	}
	return &propagation{lhs: lhs, pre: pre, ret: ret.Results}
}

// sameResults: identical result type lists (so that a value returned by the helper is converted exactly as if the caller
// had returned it: no concrete-pointer-to-interface surprise).
func sameResults(a, b *types.Signature) bool {
	if a.Results().Len() != b.Results().Len() || a.Results().Len() == 0 {
		return false
	}
	for i := 0; i < a.Results().Len(); i++ {
		if !types.Identical(a.Results().At(i).Type(), b.Results().At(i).Type()) {
			return false
		}
	}
	return true
}

// substStmt copies a simple statement with identifiers substituted (see substIdents).
func substStmt(st ast.Stmt, from, to []string) ast.Stmt {
	switch x := st.(type) {
	case *ast.ExprStmt:
		return &ast.ExprStmt{X: substIdents(copyOf(x.X), from, to)}
	case *ast.AssignStmt:
		out := &ast.AssignStmt{Tok: x.Tok}
		for _, l := range x.Lhs {
			out.Lhs = append(out.Lhs, substIdents(copyOf(l), from, to))
		}
		for _, r := range x.Rhs {
			out.Rhs = append(out.Rhs, substIdents(copyOf(r), from, to))
		}
		return out
	case *ast.IncDecStmt:
		return &ast.IncDecStmt{X: substIdents(copyOf(x.X), from, to), Tok: x.Tok}
	}
	return st
}

// substIdents replaces identifiers named from[i] by to[i] in e (selector field names excepted).
func substIdents(e ast.Expr, from, to []string) ast.Expr {
	m := map[string]string{}
	for i := range from {
		if from[i] != "_" && i < len(to) {
			m[from[i]] = to[i]
		}
	}
	return astutil.Apply(&ast.ParenExpr{X: e}, func(c *astutil.Cursor) bool {
		switch x := c.Node().(type) {
		case *ast.SelectorExpr:
			if id, ok := x.X.(*ast.Ident); ok {
				if t, ok := m[id.Name]; ok {
					x.X = ast.NewIdent(t)
				}
				return false
			}
		case *ast.KeyValueExpr:
			// keys of struct literals are field names
			c2 := x.Value
			x.Value = substIdents(c2, from, to)
			return false
		case *ast.Ident:
			if t, ok := m[x.Name]; ok {
				c.Replace(ast.NewIdent(t))
			}
		}
		return true
	}, nil).(*ast.ParenExpr).X
}

func (nz *normalizer) replaceStmtP(p *packages.Package, f *ast.File, s ast.Stmt, fd *ast.FuncDecl, check *ast.IfStmt) ([]ast.Stmt, bool) {
	call, h, recv := nz.stmtCall(p, s)
	if call == nil {
		return nil, false
	}
	sig := h.sig
	switch x := s.(type) {
	case *ast.AssignStmt:
		if len(x.Lhs) != sig.Results().Len() {
			return nil, false
		}
	case *ast.ReturnStmt:
		if sig.Results().Len() == 0 {
			return nil, false
		}
	}
	var prop *propagation
	if check != nil {
		prop = nz.propagationFor(p, fd, s, check)
	}
	if rs, ok := s.(*ast.ReturnStmt); ok && len(rs.Results) == 1 && nz.curSig != nil && sameResults(nz.curSig, sig) {
		prop = &propagation{tail: true}
	}
	stmts, results, ok := nz.inlineStmtsP(h, p, f, call, recv, prop)
	if !ok {
		return nil, false
	}
	switch x := s.(type) {
	case *ast.ExprStmt:
		for _, r := range results {
			stmts = append(stmts, &ast.AssignStmt{Lhs: []ast.Expr{ast.NewIdent("_")}, Tok: token.ASSIGN, Rhs: []ast.Expr{ast.NewIdent(r)}})
		}
	case *ast.AssignStmt:
		stmts = append(stmts, &ast.AssignStmt{Lhs: x.Lhs, Tok: x.Tok, Rhs: idents(results)})
	case *ast.ReturnStmt:
		stmts = append(stmts, &ast.ReturnStmt{Results: idents(results)})
	}
	return stmts, true
}

// rewriteBlock walks statement lists and replaces helper-call statements.
func (nz *normalizer) rewriteBlock(p *packages.Package, f *ast.File, fd *ast.FuncDecl, root ast.Node) {
	var lists func(n ast.Node)
	// signature of the function whose statements are being rewritten (for `return helper(…)`: see sameResults)
	var curSig *types.Signature
	if fd != nil && p.TypesInfo != nil {
		if obj := p.TypesInfo.Defs[fd.Name]; obj != nil {
			curSig, _ = obj.Type().(*types.Signature)
		}
	}
	nz.curSig = curSig
	var fix func(list []ast.Stmt) []ast.Stmt
	fix = func(list []ast.Stmt) []ast.Stmt {
		var out []ast.Stmt
		for si, s := range list {
			// if / switch with an init statement that is a helper call: hoist the init into an enclosing block
			switch x := s.(type) {
			case *ast.IfStmt:
				nz.hoistIfInit(p, f, x)
				if x.Init != nil {
					if repl, ok := nz.replaceStmtP(p, f, x.Init, fd, x); ok {
						x.Init = nil
						lists(x)
						out = append(out, &ast.BlockStmt{List: append(repl, x)})
						continue
					}
				}
				// `if v := e; helper(v) {…}`: the init statement moves in front, inside a block that keeps its scope
				if x.Init != nil && nz.hasHelperCall(p, x.Cond) {
					init := x.Init
					x.Init = nil
					out = append(out, &ast.BlockStmt{List: fix([]ast.Stmt{init, x})})
					continue
				}
			case *ast.LabeledStmt:
				// keep labels attached to their statement; a labelled helper call (`finish: c.drain()`, the target of a goto)
				// becomes the label on an empty statement followed by the inlined copy
				switch x.Stmt.(type) {
				case *ast.ExprStmt, *ast.AssignStmt, *ast.ReturnStmt:
					if repl, ok := nz.replaceStmtP(p, f, x.Stmt, fd, nil); ok {
						x.Stmt = &ast.EmptyStmt{}
						out = append(out, x)
						out = append(out, repl...)
						continue
					}
				}
			}
			var check *ast.IfStmt
			if si+1 < len(list) {
				if nx, ok := list[si+1].(*ast.IfStmt); ok && nx.Init == nil {
					check = nx
				}
			}
			if repl, ok := nz.replaceStmtP(p, f, s, fd, check); ok {
				out = append(out, repl...)
				continue
			}
			// a helper call nested in the statement's expressions, evaluated before every other call of the statement
			for guard := 0; guard < 8; guard++ {
				pre, ok := nz.hoistNested(p, f, s)
				if !ok {
					break
				}
				out = append(out, pre...)
			}
			lists(s)
			out = append(out, s)
		}
		return out
	}
	lists = func(n ast.Node) {
		ast.Inspect(n, func(x ast.Node) bool {
			switch b := x.(type) {
			case *ast.FuncLit:
				saved := nz.curSig
				nz.curSig = nil
				if p.TypesInfo != nil {
					if t := p.TypesInfo.TypeOf(b); t != nil {
						nz.curSig, _ = t.(*types.Signature)
					}
				}
				b.Body.List = fix(b.Body.List)
				nz.curSig = saved
				return false
			case *ast.BlockStmt:
				b.List = fix(b.List)
				return false
			case *ast.CaseClause:
				b.Body = fix(b.Body)
				return false
			case *ast.CommClause:
				b.Body = fix(b.Body)
				return false
			}
			return true
		})
	}
	if b, ok := root.(*ast.BlockStmt); ok {
		b.List = fix(b.List)
	}
}

// hoistIfInit turns `else if init; cond {…}` whose init is a helper call into `else { if init; cond {…} }` so that the
// init can be replaced by several statements.
func (nz *normalizer) hoistIfInit(p *packages.Package, f *ast.File, x *ast.IfStmt) {
	if ei, ok := x.Else.(*ast.IfStmt); ok && ei.Init != nil {
		if call, _, _ := nz.stmtCall(p, ei.Init); call != nil {
			x.Else = &ast.BlockStmt{List: []ast.Stmt{ei}}
		}
	}
}

// rewriteExprs substitutes calls to single-expression helpers (pure arguments) anywhere in fd.
func (nz *normalizer) rewriteExprs(p *packages.Package, f *ast.File, fd *ast.FuncDecl) {
	astutil.Apply(fd.Body, func(c *astutil.Cursor) bool {
		call, ok := c.Node().(*ast.CallExpr)
		if !ok {
			return true
		}
		h, recv := nz.calleeOf(p, call)
		if h == nil || h.expr == nil || h.sig.Variadic() || !allPure(call.Args) || (recv != nil && !pureExpr(recv)) {
			return true
		}
		if _, isDefer := c.Parent().(*ast.DeferStmt); isDefer {
			return true
		}
		if _, isGo := c.Parent().(*ast.GoStmt); isGo {
			return true
		}
		if !nz.hygienic(h, p, f, call.Pos()) {
			return true
		}
		names, ptypes := paramList(h)
		args := call.Args
		if recv != nil {
			args = append([]ast.Expr{recv}, args...)
		}
		if len(args) != len(names) {
			return true
		}
		e := copyExpr(p.Fset, h.expr)
		if e == nil {
			return true
		}
		sub := map[string]ast.Expr{}
		for i, n := range names {
			if n == "_" {
				continue
			}
			te, tok := nz.typeExpr(ptypes[i], p, f)
			if !tok {
				return true
			}
			a := copyExpr(p.Fset, args[i])
			if a == nil {
				return true
			}
			sub[n] = &ast.CallExpr{Fun: &ast.ParenExpr{X: te}, Args: []ast.Expr{a}}
		}
		okSub := true
		// only identifiers that denote a parameter are substituted (not field keys of a struct literal, selectors or locals of
		// a nested literal that happen to carry a parameter's name): found on the type-checked original, matched by position
		// in the traversal
		paramObj := map[types.Object]bool{}
		for i := 0; i < h.sig.Params().Len(); i++ {
			paramObj[h.sig.Params().At(i)] = true
		}
		if r := h.sig.Recv(); r != nil {
			paramObj[r] = true
		}
		var isParamAt []bool
		ast.Inspect(h.expr, func(n ast.Node) bool {
			if id, ok := n.(*ast.Ident); ok {
				isParamAt = append(isParamAt, paramObj[h.pkg.TypesInfo.Uses[id]])
			}
			return true
		})
		substId := map[*ast.Ident]bool{}
		k := 0
		ast.Inspect(e, func(n ast.Node) bool {
			if id, ok := n.(*ast.Ident); ok {
				if k < len(isParamAt) && isParamAt[k] {
					substId[id] = true
				}
				k++
			}
			return true
		})
		if k != len(isParamAt) {
			return true
		}
		e = astutil.Apply(&ast.ParenExpr{X: e}, func(c2 *astutil.Cursor) bool {
			if x, ok := c2.Node().(*ast.Ident); ok && substId[x] {
				if r, ok := sub[x.Name]; ok {
					c2.Replace(&ast.ParenExpr{X: copyOf(r)})
				} else {
					okSub = false
				}
			}
			return true
		}, nil).(ast.Expr)
		if !okSub {
			return true
		}
		if h.sig.Results().Len() != 1 {
			// `return f(x)` forwarding several results: the substituted call stands for itself (a conversion or parentheses
			// around a multi-value call would not compile); its result types are those of the helper by Go's return rule
			inner := e
			if pe, ok := inner.(*ast.ParenExpr); ok {
				inner = pe.X
			}
			if _, isCall := inner.(*ast.CallExpr); !isCall {
				return true
			}
			c.Replace(inner)
			h.inl++
			nz.countNested(h)
			nz.changed[f] = p
			nlog("substituted %s at %s", h.name, p.Fset.Position(call.Pos()))
			return false
		}
		// the call's static result type is kept by a conversion
		rt := h.sig.Results().At(0).Type()
		te, tok := nz.typeExpr(rt, p, f)
		if !tok {
			return true
		}
		c.Replace(&ast.CallExpr{Fun: &ast.ParenExpr{X: te}, Args: []ast.Expr{e}})
		h.inl++
		nz.countNested(h)
		nz.changed[f] = p
		nlog("substituted %s at %s", h.name, p.Fset.Position(call.Pos()))
		return false
	}, nil)
}

func copyOf(e ast.Expr) ast.Expr {
	var buf bytes.Buffer
	printer.Fprint(&buf, token.NewFileSet(), e)
	c, err := parser.ParseExpr(buf.String())
	if err != nil {
		return e
	}
	return c
}

// closureInlinable mirrors notInlinable for function literals.
func closureInlinable(lit *ast.FuncLit, self types.Object, info *types.Info) string {
	sig, _ := info.TypeOf(lit).(*types.Signature)
	if sig == nil {
		return "no signature"
	}
	why := ""
	ast.Inspect(lit.Body, func(n ast.Node) bool {
		switch x := n.(type) {
		case *ast.FuncLit:
			return false
		case *ast.DeferStmt:
			if !simpleDefer(lit.Body, x) {
				why = "uses defer other than a top-level `defer x.m(pure args)`"
			}
		case *ast.LabeledStmt:
			// labels are renamed per inlined copy
		case *ast.BranchStmt:
			if x.Tok == token.GOTO {
				why = "uses goto"
			}
		case *ast.Ident:
			if self != nil && info.Uses[x] == self {
				why = "recursive"
			}
			if b, ok := info.Uses[x].(*types.Builtin); ok && b.Name() == "recover" {
				why = "calls recover"
			}
		}
		return why == ""
	})
	return why
}

func (nz *normalizer) newLitHelper(p *packages.Package, f *ast.File, name string, lit *ast.FuncLit) *helper {
	h := &helper{name: name, lit: lit, sig: p.TypesInfo.TypeOf(lit).(*types.Signature), pkg: p, file: f}
	if len(lit.Body.List) == 1 {
		if r, ok := lit.Body.List[0].(*ast.ReturnStmt); ok && len(r.Results) == 1 && !containsFuncLit(r.Results[0]) {
			h.expr = r.Results[0]
		}
	}
	ast.Inspect(lit.Body, func(n ast.Node) bool {
		if id, ok := n.(*ast.Ident); ok {
			h.free = append(h.free, id)
		}
		return true
	})
	var buf bytes.Buffer
	printer.Fprint(&buf, p.Fset, lit.Body)
	h.bodySr = buf.String()
	return h
}

// collectClosures finds `name := func(...) {...}` whose variable is only ever called.
func (nz *normalizer) collectClosures(p *packages.Package, f *ast.File, fd *ast.FuncDecl) {
	ast.Inspect(fd.Body, func(n ast.Node) bool {
		as, ok := n.(*ast.AssignStmt)
		if !ok || as.Tok != token.DEFINE || len(as.Lhs) != 1 || len(as.Rhs) != 1 {
			return true
		}
		id, ok := as.Lhs[0].(*ast.Ident)
		lit, ok2 := as.Rhs[0].(*ast.FuncLit)
		if !ok || !ok2 {
			return true
		}
		obj := p.TypesInfo.Defs[id]
		if obj == nil || InBaseline(FuncKey(p.PkgPath, fd)+"$"+id.Name) {
			return true
		}
		if why := closureInlinable(lit, obj, p.TypesInfo); why != "" {
			nlog("closure %s not inlined: %s", id.Name, why)
			return true
		}
		// every use is the callee of a call (not a go/defer), and the variable is never assigned again
		uses, okUses := 0, true
		ast.Inspect(fd.Body, func(m ast.Node) bool {
			switch x := m.(type) {
			case *ast.GoStmt:
				if cid, ok := x.Call.Fun.(*ast.Ident); ok && p.TypesInfo.Uses[cid] == obj {
					okUses = false
				}
			case *ast.DeferStmt:
				if cid, ok := x.Call.Fun.(*ast.Ident); ok && p.TypesInfo.Uses[cid] == obj {
					okUses = false
				}
			case *ast.CallExpr:
				if cid, ok := x.Fun.(*ast.Ident); ok && p.TypesInfo.Uses[cid] == obj {
					uses++
					for _, a := range x.Args {
						ast.Inspect(a, func(k ast.Node) bool {
							if aid, ok := k.(*ast.Ident); ok && p.TypesInfo.Uses[aid] == obj {
								okUses = false
							}
							return true
						})
					}
					return true
				}
			case *ast.Ident:
				if p.TypesInfo.Uses[x] == obj {
					uses--
				}
			}
			return true
		})
		// the Ident visit above also sees the callee identifiers: each call contributed +1 and its Fun ident -1
		if !okUses || uses != 0 {
			nlog("closure %s not inlined: used other than as a callee", id.Name)
			return true
		}
		h := nz.newLitHelper(p, f, id.Name, lit)
		h.def = as
		ast.Inspect(fd.Body, func(m ast.Node) bool {
			if c, ok := m.(*ast.CallExpr); ok {
				if cid, ok := c.Fun.(*ast.Ident); ok && p.TypesInfo.Uses[cid] == obj {
					h.uses++
				}
			}
			return true
		})
		nz.locals[obj] = h
		return true
	})
}

var iifeMemo = map[*ast.FuncLit]*helper{}

// iife: a function literal that is called where it is written.
func (nz *normalizer) iife(p *packages.Package, lit *ast.FuncLit) *helper {
	if h, ok := iifeMemo[lit]; ok {
		return h
	}
	var f *ast.File
	for _, x := range p.Syntax {
		if x.Pos() <= lit.Pos() && lit.End() <= x.End() {
			f = x
		}
	}
	var h *helper
	if f != nil {
		for _, d := range f.Decls {
			if fd, ok := d.(*ast.FuncDecl); ok && fd.Pos() <= lit.Pos() && lit.End() <= fd.End() {
				if InBaseline(FuncKey(p.PkgPath, fd) + "$iife") {
					f = nil // the pinned tree already has an immediately-invoked literal here: leave the function alone
				}
			}
		}
	}
	if f != nil && closureInlinable(lit, nil, p.TypesInfo) == "" {
		h = nz.newLitHelper(p, f, "func literal", lit)
		h.expr = nil // always statement-level
		h.uses = 1
	}
	iifeMemo[lit] = h
	return h
}

func (nz *normalizer) hasIIFE(mod []*packages.Package) bool {
	found := false
	for _, p := range mod {
		for _, f := range p.Syntax {
			ast.Inspect(f, func(n ast.Node) bool {
				if c, ok := n.(*ast.CallExpr); ok {
					if _, ok := ast.Unparen(c.Fun).(*ast.FuncLit); ok {
						if _, isGo := n.(*ast.GoStmt); !isGo {
							found = true
						}
					}
				}
				return !found
			})
		}
	}
	return found
}

// removeDef deletes the `name := func…` statement of a fully inlined closure.
func (nz *normalizer) removeDef(h *helper) {
	ast.Inspect(h.file, func(n ast.Node) bool {
		var list *[]ast.Stmt
		switch b := n.(type) {
		case *ast.BlockStmt:
			list = &b.List
		case *ast.CaseClause:
			list = &b.Body
		case *ast.CommClause:
			list = &b.Body
		}
		if list != nil {
			for i, s := range *list {
				if s == h.def {
					*list = append((*list)[:i:i], (*list)[i+1:]...)
					nz.changed[h.file] = h.pkg
					nlog("closure %s removed (all %d call sites inlined)", h.name, h.inl)
					return false
				}
			}
		}
		return true
	})
}

// hoistNested: if the first call evaluated by statement s (Go evaluates calls in lexical left-to-right order, arguments
// before the call they belong to; the order of plain variable reads relative to calls is unspecified) is a call to a
// helper with exactly one result, the helper body is inlined before s and the call is replaced by its result temporary.
func (nz *normalizer) hoistNested(p *packages.Package, f *ast.File, s ast.Stmt) ([]ast.Stmt, bool) {
	var roots []*ast.Expr
	switch x := s.(type) {
	case *ast.ExprStmt:
		roots = append(roots, &x.X)
	case *ast.AssignStmt:
		for i := range x.Lhs {
			if _, isIdent := x.Lhs[i].(*ast.Ident); !isIdent {
				roots = append(roots, &x.Lhs[i]) // index / selector operands of the left side are evaluated first
			}
		}
		for i := range x.Rhs {
			roots = append(roots, &x.Rhs[i])
		}
	case *ast.ReturnStmt:
		for i := range x.Results {
			roots = append(roots, &x.Results[i])
		}
	case *ast.IfStmt:
		if x.Init == nil {
			roots = append(roots, &x.Cond)
		}
	case *ast.SendStmt:
		roots = append(roots, &x.Chan, &x.Value)
	case *ast.IncDecStmt:
		roots = append(roots, &x.X)
	case *ast.SwitchStmt:
		if x.Init == nil && x.Tag != nil {
			roots = append(roots, &x.Tag)
		}
	case *ast.RangeStmt:
		roots = append(roots, &x.X) // the range expression is evaluated once, before the loop
	case *ast.DeclStmt:
		// `var a, b = e1, e2` (the parameter binding of an inlined copy, among others)
		gd, ok := x.Decl.(*ast.GenDecl)
		if !ok || gd.Tok != token.VAR || len(gd.Specs) != 1 {
			return nil, false
		}
		vs, ok := gd.Specs[0].(*ast.ValueSpec)
		if !ok {
			return nil, false
		}
		for i := range vs.Values {
			roots = append(roots, &vs.Values[i])
		}
	default:
		return nil, false
	}
	// first call in evaluation order
	var first *ast.CallExpr
	var conditional bool
	var walk func(e ast.Expr, cond bool) bool // returns true when the first call was found
	walk = func(e ast.Expr, cond bool) bool {
		switch x := e.(type) {
		case nil:
			return false
		case *ast.FuncLit:
			return false
		case *ast.BinaryExpr:
			if walk(x.X, cond) {
				return true
			}
			return walk(x.Y, cond || x.Op == token.LAND || x.Op == token.LOR)
		case *ast.CallExpr:
			if tv, ok := p.TypesInfo.Types[x.Fun]; ok && tv.IsType() {
				for _, a := range x.Args {
					if walk(a, cond) {
						return true
					}
				}
				return false // a conversion is not a call
			}
			if walk(x.Fun, cond) {
				return true
			}
			// calls among a helper call's own arguments are evaluated by the parameter binding of the inlined body,
			// in the same order and immediately before it: they do not stand in the way
			if h, _ := nz.calleeOf(p, x); h != nil {
				first, conditional = x, cond
				return true
			}
			for _, a := range x.Args {
				if walk(a, cond) {
					return true
				}
			}
			first, conditional = x, cond
			return true
		case *ast.ParenExpr:
			return walk(x.X, cond)
		case *ast.SelectorExpr:
			return walk(x.X, cond)
		case *ast.StarExpr:
			return walk(x.X, cond)
		case *ast.UnaryExpr:
			if x.Op == token.ARROW {
				first, conditional = nil, true // a receive: treat like a foreign call
				return true
			}
			return walk(x.X, cond)
		case *ast.IndexExpr:
			return walk(x.X, cond) || walk(x.Index, cond)
		case *ast.SliceExpr:
			return walk(x.X, cond) || walk(x.Low, cond) || walk(x.High, cond) || walk(x.Max, cond)
		case *ast.TypeAssertExpr:
			return walk(x.X, cond)
		case *ast.KeyValueExpr:
			return walk(x.Key, cond) || walk(x.Value, cond)
		case *ast.CompositeLit:
			for _, el := range x.Elts {
				if walk(el, cond) {
					return true
				}
			}
			return false
		}
		return false
	}
	for _, r := range roots {
		if walk(*r, false) {
			break
		}
	}
	if first == nil || conditional {
		return nil, false
	}
	h, recv := nz.calleeOf(p, first)
	if h == nil || h.sig.Results().Len() != 1 {
		return nil, false
	}
	if h.expr != nil && !h.sig.Variadic() && allPure(first.Args) && (recv == nil || pureExpr(recv)) {
		return nil, false // substituted as an expression later
	}
	// the whole statement being the call is replaceStmt's business
	for _, r := range roots {
		if ast.Expr(first) == *r {
			if _, isExpr := s.(*ast.ExprStmt); isExpr {
				return nil, false
			}
		}
	}
	stmts, results, ok := nz.inlineStmts(h, p, f, first, recv)
	if !ok {
		return nil, false
	}
	// replace the call node by the result temporary
	replaced := false
	astutil.Apply(s, func(c *astutil.Cursor) bool {
		if c.Node() == ast.Node(first) {
			c.Replace(ast.NewIdent(results[0]))
			replaced = true
			return false
		}
		_, isLit := c.Node().(*ast.FuncLit)
		return !isLit
	}, nil)
	if !replaced {
		return nil, false
	}
	return stmts, true
}

// simpleDefer: d is a top-level statement of body and its call has only pure operands (so evaluating them at the
// return instead of at the defer statement makes no difference), e.g. `defer mu.Unlock()`, `defer f.Close()`.
func simpleDefer(body *ast.BlockStmt, d *ast.DeferStmt) bool {
	top := false
	for _, st := range body.List {
		if st == ast.Stmt(d) {
			top = true
		}
	}
	if !top {
		return false
	}
	switch fun := d.Call.Fun.(type) {
	case *ast.Ident:
	case *ast.SelectorExpr:
		if !pureExpr(fun.X) {
			return false
		}
	default:
		return false
	}
	return allPure(d.Call.Args)
}
