package an

import (
	"fmt"
	"go/token"
	"runtime/debug"
	"sort"
	"strings"

	"golang.org/x/tools/go/ssa"
)

type Verdict string

const (
	Discharged Verdict = "discharged"
	Violated   Verdict = "violated"
	Undecided  Verdict = "undecided"
)

// Ob is one obligation: a rule applied to one concrete construct.
type Ob struct {
	Property string   `json:"property"`
	Rule     string   `json:"rule"`
	Key      string   `json:"key"` // rule|function|construct – never contains a line number
	Verdict  Verdict  `json:"verdict"`
	Pos      string   `json:"pos"`
	Msg      string   `json:"msg,omitempty"`
	Path     []string `json:"path,omitempty"`
	Known    string   `json:"known_finding,omitempty"`
}

// Rule is an engine + slots; Run expands it to obligations on the loaded program.
type Rule struct {
	ID     string // e.g. "C01.ack"
	Prop   string // "C01"
	Engine string // PATH, GUARD, ...
	Doc    string // the clause in words
	Floor  int    // minimum number of obligations (vacuity guard)
	Sweep  bool   // thorough-only whole-repo sweep
	Run    func(c *Ctx)
}

var registry []*Rule

func Register(r *Rule) { registry = append(registry, r) }

// RulesFor returns the rules of a property (sorted by id).
func RulesFor(prop string) []*Rule {
	var out []*Rule
	for _, r := range registry {
		if r.Prop == prop {
			out = append(out, r)
		}
	}
	sort.SliceStable(out, func(i, j int) bool { return out[i].ID < out[j].ID })
	return out
}

func AllRules() []*Rule { return registry }

// Ctx is what a rule sees while running.
type Ctx struct {
	P    *Prog
	Rule *Rule
	Obs  []Ob
	Fns  map[string]bool // functions analysed (for evidence)
	// Only, when set, restricts the rule to obligations about functions it accepts (used when a clause shared
	// by two properties is relevant to a property only at some of its sites).
	Only func(fnName string) bool
}

func (c *Ctx) key(fn *ssa.Function, construct string) string {
	return c.Rule.ID + "|" + FnName(fn) + "|" + construct
}

func (c *Ctx) add(fn *ssa.Function, construct string, v Verdict, pos token.Pos, msg string, path []string) {
	if c.Only != nil && fn != nil && !c.Only(FnName(fn)) {
		return
	}
	if fn != nil {
		c.Fns[FnName(fn)] = true
	}
	if !pos.IsValid() && fn != nil {
		pos = fn.Pos()
	}
	c.Obs = append(c.Obs, Ob{Property: c.Rule.Prop, Rule: c.Rule.ID, Key: c.key(fn, construct), Verdict: v,
		Pos: c.P.Pos(pos), Msg: msg, Path: path})
}

// OK records a discharged obligation.
func (c *Ctx) OK(fn *ssa.Function, construct string, pos token.Pos, msg string) {
	c.add(fn, construct, Discharged, pos, msg, nil)
}

// Bad records a violated obligation.
func (c *Ctx) Bad(fn *ssa.Function, construct string, pos token.Pos, msg string, path []string) {
	c.add(fn, construct, Violated, pos, msg, path)
}

// Und records an undecided obligation (fails the check).
func (c *Ctx) Und(fn *ssa.Function, construct string, pos token.Pos, msg string) {
	c.add(fn, construct, Undecided, pos, msg, nil)
}

// Check records OK or Bad depending on cond.
func (c *Ctx) Check(cond bool, fn *ssa.Function, construct string, pos token.Pos, okMsg, badMsg string) bool {
	if cond {
		c.OK(fn, construct, pos, okMsg)
	} else {
		c.Bad(fn, construct, pos, badMsg, nil)
	}
	return cond
}

// Fn resolves an anchor function; an unresolved anchor is an undecided obligation.
func (c *Ctx) Fn(pkg, name string) *ssa.Function {
	f := c.P.Func(pkg, name)
	if f == nil || f.Blocks == nil {
		c.Obs = append(c.Obs, Ob{Property: c.Rule.Prop, Rule: c.Rule.ID,
			Key: c.Rule.ID + "|" + pkg + "." + name + "|anchor", Verdict: Undecided, Pos: "-",
			Msg: fmt.Sprintf("anchor function %s.%s does not resolve in the current tree (renamed or removed?)", pkg, name)})
		return nil
	}
	c.Fns[FnName(f)] = true
	return f
}

// Fns resolves several anchors in one package; ok=false if any is missing.
func (c *Ctx) FnsOf(pkg string, names ...string) ([]*ssa.Function, bool) {
	ok := true
	var out []*ssa.Function
	for _, n := range names {
		f := c.Fn(pkg, n)
		if f == nil {
			ok = false
		}
		out = append(out, f)
	}
	return out, ok
}

// Anchor records an undecided obligation for a non-function anchor that failed to resolve.
func (c *Ctx) Anchor(what string) {
	c.Obs = append(c.Obs, Ob{Property: c.Rule.Prop, Rule: c.Rule.ID,
		Key: c.Rule.ID + "|" + what + "|anchor", Verdict: Undecided, Pos: "-",
		Msg: "anchor " + what + " does not resolve in the current tree"})
}

// RunRule executes one rule with panic containment and the vacuity floor.
func RunRule(p *Prog, r *Rule) (obs []Ob, fns []string) {
	c := &Ctx{P: p, Rule: r, Fns: map[string]bool{}}
	func() {
		defer func() {
			if e := recover(); e != nil {
				st := string(debug.Stack())
				if len(st) > 1500 {
					st = st[:1500]
				}
				c.Obs = append(c.Obs, Ob{Property: r.Prop, Rule: r.ID, Key: r.ID + "|checker|panic", Verdict: Undecided,
					Pos: "-", Msg: fmt.Sprintf("checker panic: %v\n%s", e, st)})
			}
		}()
		r.Run(c)
	}()
	if len(c.Obs) < r.Floor {
		c.Obs = append(c.Obs, Ob{Property: r.Prop, Rule: r.ID, Key: r.ID + "|checker|floor", Verdict: Undecided, Pos: "-",
			Msg: fmt.Sprintf("rule produced %d obligations, fewer than the %d confirmed by hand on the pinned tree: the rule no longer matches the code it was written for", len(c.Obs), r.Floor)})
	}
	// de-duplicate keys deterministically: identical keys get a #n suffix in source order
	count := map[string]int{}
	for i := range c.Obs {
		k := c.Obs[i].Key
		count[k]++
		if count[k] > 1 {
			c.Obs[i].Key = fmt.Sprintf("%s#%d", k, count[k])
		}
	}
	for f := range c.Fns {
		fns = append(fns, f)
	}
	sort.Strings(fns)
	return c.Obs, fns
}

// Describe renders an obligation for the terminal.
func (o Ob) Describe() string {
	var sb strings.Builder
	fmt.Fprintf(&sb, "[%s] %s\n  at %s\n  key %s\n", o.Verdict, o.Rule, o.Pos, o.Key)
	if o.Msg != "" {
		fmt.Fprintf(&sb, "  %s\n", strings.ReplaceAll(o.Msg, "\n", "\n  "))
	}
	for _, h := range o.Path {
		fmt.Fprintf(&sb, "    -> %s\n", h)
	}
	return sb.String()
}
