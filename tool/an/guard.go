package an

import (
	"fmt"
	"go/constant"
	"go/token"
	"strings"

	"golang.org/x/tools/go/ssa"
)

// Fact: boolean SSA value V is known to have truth value True at some program point.
type Fact struct {
	V    ssa.Value
	True bool
	If   *ssa.If
	// Via is set for facts imported from a callee's summary ("H returned nil, so on H's success returns
	// `param REL bound` held"): Cmp is the comparison over the caller's argument.
	Via *Cmp
}

// norm strips NOTs.
func normFact(v ssa.Value, truth bool, ifi *ssa.If) Fact {
	for {
		u, ok := v.(*ssa.UnOp)
		if !ok || u.Op != token.NOT {
			break
		}
		v = u.X
		truth = !truth
	}
	return Fact{V: v, True: truth, If: ifi}
}

// FactsAt returns the branch conditions that dominate entry to block b, with polarity.
// Sound under-approximation: a block with several predecessors inherits only the facts of its
// immediate dominator.
func FactsAt(b *ssa.BasicBlock) []Fact {
	var out []Fact
	seen := map[*ssa.BasicBlock]bool{}
	for b != nil && !seen[b] {
		seen[b] = true
		if len(b.Preds) == 1 {
			p := b.Preds[0]
			if ifi, ok := p.Instrs[len(p.Instrs)-1].(*ssa.If); ok && p.Succs[0] != p.Succs[1] {
				f := normFact(ifi.Cond, p.Succs[0] == b, ifi)
				out = append(out, f)
				out = append(out, expandPhiFact(f, 0)...)
				out = append(out, calleeFacts(f)...)
			}
			b = p
			continue
		}
		b = b.Idom()
	}
	return out
}

// FactsAtInstr = FactsAt(in.Block()).
func FactsAtInstr(in ssa.Instruction) []Fact { return FactsAt(in.Block()) }

// Cmp describes a normalised comparison X Op Y known to hold.
type Cmp struct {
	Op   token.Token // EQL NEQ LSS LEQ GTR GEQ
	X, Y ssa.Value
	If   *ssa.If
}

func negate(op token.Token) token.Token {
	switch op {
	case token.EQL:
		return token.NEQ
	case token.NEQ:
		return token.EQL
	case token.LSS:
		return token.GEQ
	case token.LEQ:
		return token.GTR
	case token.GTR:
		return token.LEQ
	case token.GEQ:
		return token.LSS
	}
	return token.ILLEGAL
}

func flip(op token.Token) token.Token {
	switch op {
	case token.LSS:
		return token.GTR
	case token.LEQ:
		return token.GEQ
	case token.GTR:
		return token.LSS
	case token.GEQ:
		return token.LEQ
	}
	return op
}

// AsCmp converts a fact to the comparison known to hold, if it is one.
func (f Fact) AsCmp() (Cmp, bool) {
	if f.Via != nil {
		return *f.Via, true
	}
	b, ok := f.V.(*ssa.BinOp)
	if !ok {
		return Cmp{}, false
	}
	op := b.Op
	switch op {
	case token.EQL, token.NEQ, token.LSS, token.LEQ, token.GTR, token.GEQ:
	default:
		return Cmp{}, false
	}
	if !f.True {
		op = negate(op)
	}
	return Cmp{op, b.X, b.Y, f.If}, true
}

// CmpsAt returns the comparisons that hold on entry to b.
func CmpsAt(b *ssa.BasicBlock) []Cmp {
	var out []Cmp
	for _, f := range FactsAt(b) {
		if c, ok := f.AsCmp(); ok {
			out = append(out, c)
		}
	}
	return out
}

// Oriented returns the comparison with `is(X)` true on the left, if either side matches.
func (c Cmp) Oriented(is func(ssa.Value) bool) (Cmp, bool) {
	if is(c.X) {
		return c, true
	}
	if is(c.Y) {
		return Cmp{flip(c.Op), c.Y, c.X, c.If}, true
	}
	return c, false
}

// Bounds summarises what the dominating comparisons say about a quantity.
type Bounds struct {
	Lower    []Cmp // q > k, q >= k, (k constant or value)
	Upper    []Cmp // q < v, q <= v
	Eq       []Cmp
	Neq      []Cmp
	HasLower bool
	HasUpper bool
}

// BoundsOf collects dominating comparisons on quantity q (identified by is, applied to stripped operands).
func BoundsOf(b *ssa.BasicBlock, is func(ssa.Value) bool) Bounds {
	var r Bounds
	for _, c := range CmpsAt(b) {
		oc, ok := c.Oriented(func(v ssa.Value) bool { return is(Strip(v)) })
		if !ok {
			continue
		}
		switch oc.Op {
		case token.GTR, token.GEQ:
			r.Lower = append(r.Lower, oc)
			r.HasLower = true
		case token.LSS, token.LEQ:
			r.Upper = append(r.Upper, oc)
			r.HasUpper = true
		case token.EQL:
			r.Eq = append(r.Eq, oc)
		case token.NEQ:
			r.Neq = append(r.Neq, oc)
		}
	}
	return r
}

// HoldsTrue reports whether boolean value v is known true (wantTrue) / false at block b.
func HoldsAt(b *ssa.BasicBlock, v ssa.Value, want bool) bool {
	for _, f := range FactsAt(b) {
		if f.V == v && f.True == want {
			return true
		}
	}
	return false
}

// FactsOnEdge returns the facts known when edge e is traversed.
func FactsOnEdge(e Edge) []Fact {
	out := FactsAt(e.From)
	if ifi, ok := e.From.Instrs[len(e.From.Instrs)-1].(*ssa.If); ok && e.From.Succs[0] != e.From.Succs[1] {
		f := normFact(ifi.Cond, e.From.Succs[0] == e.To, ifi)
		out = append(out, f)
		out = append(out, expandPhiFact(f, 0)...)
		out = append(out, calleeFacts(f)...)
	}
	return out
}

// CmpsOnEdge returns the comparisons known when edge e is traversed.
func CmpsOnEdge(e Edge) []Cmp {
	var out []Cmp
	for _, f := range FactsOnEdge(e) {
		if c, ok := f.AsCmp(); ok {
			out = append(out, c)
		}
	}
	return out
}

// expandPhiFact handles short-circuit expressions evaluated as values (`x := a && b`, switch cases):
// go/ssa lowers them to a phi of a boolean constant and the right operand. If the phi is known true
// (false) and exactly one incoming edge can carry true (false), that operand has the value and every
// fact on the way to that predecessor holds too.
func expandPhiFact(f Fact, depth int) []Fact {
	if depth > 4 {
		return nil
	}
	if out := expandNilPhiFact(f, depth); out != nil {
		return out
	}
	phi, ok := f.V.(*ssa.Phi)
	if !ok {
		return nil
	}
	cand := -1
	for i, e := range phi.Edges {
		if k, isC := e.(*ssa.Const); isC && k.Value != nil && k.Value.Kind() == constant.Bool {
			if constant.BoolVal(k.Value) != f.True {
				continue // this edge carries the opposite constant
			}
		}
		if ph2, isPhi := e.(*ssa.Phi); isPhi && !boolPhiCanBe(ph2, f.True, map[*ssa.Phi]bool{phi: true}) {
			continue // a flag that is only ever assigned the opposite constant on the way here
		}
		if cand >= 0 {
			return nil // more than one edge can carry the value
		}
		cand = i
	}
	if cand < 0 {
		return nil
	}
	pred := phi.Block().Preds[cand]
	var out []Fact
	if _, isC := phi.Edges[cand].(*ssa.Const); !isC {
		nf := normFact(phi.Edges[cand], f.True, f.If)
		out = append(out, nf)
		out = append(out, expandPhiFact(nf, depth+1)...)
	}
	out = append(out, FactsOnEdge(Edge{pred, phi.Block()})...)
	return out
}

// boolPhiCanBe: some leaf of the phi web (constants and non-phi values) can have the given truth value.
func boolPhiCanBe(phi *ssa.Phi, truth bool, seen map[*ssa.Phi]bool) bool {
	if seen[phi] {
		return false
	}
	seen[phi] = true
	for _, e := range phi.Edges {
		switch x := e.(type) {
		case *ssa.Const:
			if x.Value != nil && x.Value.Kind() == constant.Bool && constant.BoolVal(x.Value) == truth {
				return true
			}
		case *ssa.Phi:
			if boolPhiCanBe(x, truth, seen) {
				return true
			}
		default:
			return true
		}
	}
	return false
}

// expandNilPhiFact: f says `x == nil` where x is a phi (a result variable assigned on several paths, e.g. the error
// of an inlined validation helper). Incoming values that are freshly boxed (MakeInterface) cannot be nil; if exactly
// one incoming edge can carry nil, control came along it and every fact on the way to it holds.
func expandNilPhiFact(f Fact, depth int) []Fact {
	b, ok := f.V.(*ssa.BinOp)
	if !ok || (b.Op != token.EQL && b.Op != token.NEQ) {
		return nil
	}
	var x ssa.Value
	switch {
	case IsNilConst(b.Y):
		x = b.X
	case IsNilConst(b.X):
		x = b.Y
	default:
		return nil
	}
	if (b.Op == token.EQL) != f.True {
		return nil // x != nil: nothing to select
	}
	phi, ok := x.(*ssa.Phi)
	if !ok {
		return nil
	}
	return nilPhiFacts(phi, f.If, depth)
}

func nilPhiFacts(phi *ssa.Phi, ifi *ssa.If, depth int) []Fact {
	if depth > 4 {
		return nil
	}
	cand := -1
	for i, e := range phi.Edges {
		if KnownNonNil(e) {
			continue
		}
		if cand >= 0 {
			return nil
		}
		cand = i
	}
	if cand < 0 {
		return nil
	}
	pred := phi.Block().Preds[cand]
	out := FactsOnEdge(Edge{pred, phi.Block()})
	switch e := phi.Edges[cand].(type) {
	case *ssa.Const:
		if !e.IsNil() {
			return nil
		}
	case *ssa.Phi:
		out = append(out, nilPhiFacts(e, ifi, depth+1)...)
	default:
		// a value that may or may not be nil arrived along the only possible edge: the path facts still hold
	}
	return out
}

// calleeFacts: f says `err == nil` where err is the error result of a call to a function H of this
// module (a validation helper extracted from its caller). Every comparison `param REL bound` that holds on
// all of H's nil-error returns then holds for the corresponding argument in the caller.
func calleeFacts(f Fact) []Fact {
	cmp, ok := f.AsCmp()
	if !ok || f.Via != nil || cmp.Op != token.EQL {
		return nil
	}
	var ev ssa.Value
	if IsNilConst(cmp.Y) {
		ev = cmp.X
	} else if IsNilConst(cmp.X) {
		ev = cmp.Y
	}
	if ev == nil || !IsErrorType(ev.Type()) {
		return nil
	}
	var call *ssa.Call
	switch x := ev.(type) {
	case *ssa.Call:
		call = x
	case *ssa.Extract:
		call, _ = x.Tuple.(*ssa.Call)
	}
	if call == nil {
		return nil
	}
	h := StaticCallee(call)
	if h == nil || h.Blocks == nil || h.Pkg == nil || !strings.HasPrefix(h.Pkg.Pkg.Path(), ModPath) || h == call.Parent() {
		return nil
	}
	paramIdx := func(v ssa.Value) int {
		v = Strip(v)
		for i, p := range h.Params {
			if v == ssa.Value(p) {
				return i
			}
		}
		return -1
	}
	type key struct {
		op token.Token
		x  int
		y  string
	}
	var sets []map[key]Cmp
	for _, r := range Returns(h) {
		if len(r.Results) == 0 {
			continue
		}
		e := Resolve(r.Results[len(r.Results)-1])
		if !IsErrorType(e.Type()) {
			return nil
		}
		if !IsNilConst(e) {
			// a possibly-nil non-constant return: facts unknown, give up unless provably non-nil (MakeInterface / call to a constructor)
			switch e.(type) {
			case *ssa.MakeInterface:
				continue
			case *ssa.Call:
				continue // constructors like NewFatalClientErr / errors.New: non-nil by contract
			}
			nonNil := false
			for _, c := range CmpsAt(r.Block()) {
				if c.Op == token.NEQ && c.X == e && IsNilConst(c.Y) {
					nonNil = true
				}
			}
			if nonNil {
				continue
			}
			return nil
		}
		set := map[key]Cmp{}
		for _, c := range cmpsNoImport(r.Block()) {
			for _, oc := range []Cmp{c, {flip(c.Op), c.Y, c.X, c.If}} {
				xi := paramIdx(oc.X)
				if xi < 0 || xi >= len(call.Call.Args) {
					continue
				}
				ys := ""
				y := oc.Y
				if yi := paramIdx(oc.Y); yi >= 0 && yi < len(call.Call.Args) {
					y = call.Call.Args[yi]
					ys = fmt.Sprintf("p%d", yi)
				} else if k, isC := Strip(oc.Y).(*ssa.Const); isC {
					ys = "c:" + k.String()
				} else {
					ys = "v:" + AccessPath(oc.Y)
				}
				set[key{oc.Op, xi, ys}] = Cmp{oc.Op, call.Call.Args[xi], y, f.If}
			}
		}
		sets = append(sets, set)
	}
	if len(sets) == 0 {
		return nil
	}
	var out []Fact
	for k, c := range sets[0] {
		all := true
		for _, s := range sets[1:] {
			if _, ok := s[k]; !ok {
				all = false
			}
		}
		if all {
			cc := c
			out = append(out, Fact{V: f.V, True: f.True, If: f.If, Via: &cc})
		}
	}
	return out
}

// cmpsNoImport is CmpsAt without importing callee summaries (one level of helper transparency only).
func cmpsNoImport(b *ssa.BasicBlock) []Cmp {
	var out []Cmp
	for _, f := range FactsAt(b) {
		if f.Via != nil {
			continue
		}
		if c, ok := f.AsCmp(); ok {
			out = append(out, c)
		}
	}
	return out
}

// ExpandFact returns f together with what it implies through boolean / nil-valued phis.
func ExpandFact(f Fact) []Fact { return append([]Fact{f}, expandPhiFact(f, 0)...) }

// EvalBoolUnder evaluates a boolean SSA value of one function under assumptions about other boolean values (env), looking
// through negation, comparisons with boolean constants and the phis that short-circuit operators compile to: an incoming
// edge of such a phi counts only if the branch that leads to it is consistent with the assumptions. known=false when the
// assumptions do not determine the value.
func EvalBoolUnder(v ssa.Value, env map[ssa.Value]bool) (val, known bool) {
	return evalBoolUnder(v, env, 0)
}

func evalBoolUnder(v ssa.Value, env map[ssa.Value]bool, depth int) (bool, bool) {
	if depth > 8 || v == nil {
		return false, false
	}
	if b, ok := env[v]; ok {
		return b, true
	}
	switch x := v.(type) {
	case *ssa.Const:
		if x.Value != nil && x.Value.Kind() == constant.Bool {
			return constant.BoolVal(x.Value), true
		}
	case *ssa.UnOp:
		if x.Op == token.NOT {
			r, k := evalBoolUnder(x.X, env, depth+1)
			return !r, k
		}
	case *ssa.ChangeType:
		return evalBoolUnder(x.X, env, depth+1)
	case *ssa.BinOp:
		if x.Op == token.EQL || x.Op == token.NEQ {
			a, ka := evalBoolUnder(x.X, env, depth+1)
			b, kb := evalBoolUnder(x.Y, env, depth+1)
			if ka && kb {
				return (a == b) == (x.Op == token.EQL), true
			}
		}
	case *ssa.Phi:
		var res, have bool
		for i, e := range x.Edges {
			pred := x.Block().Preds[i]
			// is the edge pred -> phi block consistent with env?
			if len(pred.Succs) == 2 && pred.Succs[0] != pred.Succs[1] {
				if ifi, ok := pred.Instrs[len(pred.Instrs)-1].(*ssa.If); ok {
					if c, k := evalBoolUnder(ifi.Cond, env, depth+1); k {
						taken := pred.Succs[1]
						if c {
							taken = pred.Succs[0]
						}
						if taken != x.Block() {
							continue // infeasible under the assumptions
						}
					}
				}
			}
			r, k := evalBoolUnder(e, env, depth+1)
			if !k {
				return false, false
			}
			if have && r != res {
				return false, false
			}
			res, have = r, true
		}
		return res, have
	}
	return false, false
}
