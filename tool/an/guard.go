package an

import (
	"go/constant"
	"go/token"

	"golang.org/x/tools/go/ssa"
)

// Fact: boolean SSA value V is known to have truth value True at some program point.
type Fact struct {
	V    ssa.Value
	True bool
	If   *ssa.If
}

// norm strips NOTs.
func normFact(v ssa.Value, truth bool, ifi *ssa.If) Fact {
	for {
		u, ok := v.(*ssa.UnOp)
		if !ok || u.Op != token.NOT {
			break
		}
		v = u.X
		truth = !truth
	}
	return Fact{v, truth, ifi}
}

// FactsAt returns the branch conditions that dominate entry to block b, with polarity.
// Sound under-approximation: a block with several predecessors inherits only the facts of its
// immediate dominator.
func FactsAt(b *ssa.BasicBlock) []Fact {
	var out []Fact
	seen := map[*ssa.BasicBlock]bool{}
	for b != nil && !seen[b] {
		seen[b] = true
		if len(b.Preds) == 1 {
			p := b.Preds[0]
			if ifi, ok := p.Instrs[len(p.Instrs)-1].(*ssa.If); ok && p.Succs[0] != p.Succs[1] {
				f := normFact(ifi.Cond, p.Succs[0] == b, ifi)
				out = append(out, f)
				out = append(out, expandPhiFact(f, 0)...)
			}
			b = p
			continue
		}
		b = b.Idom()
	}
	return out
}

// FactsAtInstr = FactsAt(in.Block()).
func FactsAtInstr(in ssa.Instruction) []Fact { return FactsAt(in.Block()) }

// Cmp describes a normalised comparison X Op Y known to hold.
type Cmp struct {
	Op   token.Token // EQL NEQ LSS LEQ GTR GEQ
	X, Y ssa.Value
	If   *ssa.If
}

func negate(op token.Token) token.Token {
	switch op {
	case token.EQL:
		return token.NEQ
	case token.NEQ:
		return token.EQL
	case token.LSS:
		return token.GEQ
	case token.LEQ:
		return token.GTR
	case token.GTR:
		return token.LEQ
	case token.GEQ:
		return token.LSS
	}
	return token.ILLEGAL
}

func flip(op token.Token) token.Token {
	switch op {
	case token.LSS:
		return token.GTR
	case token.LEQ:
		return token.GEQ
	case token.GTR:
		return token.LSS
	case token.GEQ:
		return token.LEQ
	}
	return op
}

// AsCmp converts a fact to the comparison known to hold, if it is one.
func (f Fact) AsCmp() (Cmp, bool) {
	b, ok := f.V.(*ssa.BinOp)
	if !ok {
		return Cmp{}, false
	}
	op := b.Op
	switch op {
	case token.EQL, token.NEQ, token.LSS, token.LEQ, token.GTR, token.GEQ:
	default:
		return Cmp{}, false
	}
	if !f.True {
		op = negate(op)
	}
	return Cmp{op, b.X, b.Y, f.If}, true
}

// CmpsAt returns the comparisons that hold on entry to b.
func CmpsAt(b *ssa.BasicBlock) []Cmp {
	var out []Cmp
	for _, f := range FactsAt(b) {
		if c, ok := f.AsCmp(); ok {
			out = append(out, c)
		}
	}
	return out
}

// Oriented returns the comparison with `is(X)` true on the left, if either side matches.
func (c Cmp) Oriented(is func(ssa.Value) bool) (Cmp, bool) {
	if is(c.X) {
		return c, true
	}
	if is(c.Y) {
		return Cmp{flip(c.Op), c.Y, c.X, c.If}, true
	}
	return c, false
}

// Bounds summarises what the dominating comparisons say about a quantity.
type Bounds struct {
	Lower    []Cmp // q > k, q >= k, (k constant or value)
	Upper    []Cmp // q < v, q <= v
	Eq       []Cmp
	Neq      []Cmp
	HasLower bool
	HasUpper bool
}

// BoundsOf collects dominating comparisons on quantity q (identified by is, applied to stripped operands).
func BoundsOf(b *ssa.BasicBlock, is func(ssa.Value) bool) Bounds {
	var r Bounds
	for _, c := range CmpsAt(b) {
		oc, ok := c.Oriented(func(v ssa.Value) bool { return is(Strip(v)) })
		if !ok {
			continue
		}
		switch oc.Op {
		case token.GTR, token.GEQ:
			r.Lower = append(r.Lower, oc)
			r.HasLower = true
		case token.LSS, token.LEQ:
			r.Upper = append(r.Upper, oc)
			r.HasUpper = true
		case token.EQL:
			r.Eq = append(r.Eq, oc)
		case token.NEQ:
			r.Neq = append(r.Neq, oc)
		}
	}
	return r
}

// HoldsTrue reports whether boolean value v is known true (wantTrue) / false at block b.
func HoldsAt(b *ssa.BasicBlock, v ssa.Value, want bool) bool {
	for _, f := range FactsAt(b) {
		if f.V == v && f.True == want {
			return true
		}
	}
	return false
}

// FactsOnEdge returns the facts known when edge e is traversed.
func FactsOnEdge(e Edge) []Fact {
	out := FactsAt(e.From)
	if ifi, ok := e.From.Instrs[len(e.From.Instrs)-1].(*ssa.If); ok && e.From.Succs[0] != e.From.Succs[1] {
		f := normFact(ifi.Cond, e.From.Succs[0] == e.To, ifi)
		out = append(out, f)
		out = append(out, expandPhiFact(f, 0)...)
	}
	return out
}

// CmpsOnEdge returns the comparisons known when edge e is traversed.
func CmpsOnEdge(e Edge) []Cmp {
	var out []Cmp
	for _, f := range FactsOnEdge(e) {
		if c, ok := f.AsCmp(); ok {
			out = append(out, c)
		}
	}
	return out
}

// expandPhiFact handles short-circuit expressions evaluated as values (`x := a && b`, switch cases):
// go/ssa lowers them to a phi of a boolean constant and the right operand. If the phi is known true
// (false) and exactly one incoming edge can carry true (false), that operand has the value and every
// fact on the way to that predecessor holds too.
func expandPhiFact(f Fact, depth int) []Fact {
	phi, ok := f.V.(*ssa.Phi)
	if !ok || depth > 4 {
		return nil
	}
	cand := -1
	for i, e := range phi.Edges {
		if k, isC := e.(*ssa.Const); isC && k.Value != nil && k.Value.Kind() == constant.Bool {
			if constant.BoolVal(k.Value) != f.True {
				continue // this edge carries the opposite constant
			}
		}
		if cand >= 0 {
			return nil // more than one edge can carry the value
		}
		cand = i
	}
	if cand < 0 {
		return nil
	}
	pred := phi.Block().Preds[cand]
	var out []Fact
	if _, isC := phi.Edges[cand].(*ssa.Const); !isC {
		nf := normFact(phi.Edges[cand], f.True, f.If)
		out = append(out, nf)
		out = append(out, expandPhiFact(nf, depth+1)...)
	}
	out = append(out, FactsOnEdge(Edge{pred, phi.Block()})...)
	return out
}
