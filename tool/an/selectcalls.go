package an

import (
	"bytes"
	"go/ast"
	"go/parser"
	"go/printer"
	"go/token"
	"go/types"

	"golang.org/x/tools/go/packages"
)

// selectCalls rewrites function values chosen once by a condition and then only called,
//
//	f, g := a.m1, a.m2
//	if cond { f, g = a.m3, a.m4 }
//	… f(x) … return g()
//
// into calls that name their callee: `if cond { a.m3(x) } else { a.m1(x) }`. It applies when the variables are assigned
// nowhere else and used only as callees of statement-level calls, the receivers and the variables of cond are never
// assigned after their definition, and cond has no calls. The next round sees static calls (and inlines new helpers).
func (nz *normalizer) selectCalls(p *packages.Package, f *ast.File, fd *ast.FuncDecl) {
	info := p.TypesInfo
	if info == nil {
		return
	}
	list := fd.Body.List
	for i := 0; i+1 < len(list); i++ {
		def, ok := list[i].(*ast.AssignStmt)
		if !ok || def.Tok != token.DEFINE || len(def.Lhs) != len(def.Rhs) {
			continue
		}
		ifs, ok := list[i+1].(*ast.IfStmt)
		if !ok || ifs.Init != nil || ifs.Else != nil || len(ifs.Body.List) != 1 {
			continue
		}
		re, ok := ifs.Body.List[0].(*ast.AssignStmt)
		if !ok || re.Tok != token.ASSIGN || len(re.Lhs) != len(re.Rhs) {
			continue
		}
		// variables and their two values
		type choice struct{ base, alt ast.Expr }
		vars := map[types.Object]*choice{}
		good := true
		funcValue := func(e ast.Expr) bool {
			switch x := ast.Unparen(e).(type) {
			case *ast.Ident:
				_, isFn := info.Uses[x].(*types.Func)
				return isFn
			case *ast.SelectorExpr:
				if _, isFn := info.Uses[x.Sel].(*types.Func); !isFn {
					return false
				}
				if id, ok := x.X.(*ast.Ident); ok {
					if _, isPkg := info.Uses[id].(*types.PkgName); isPkg {
						return true
					}
					return nz.neverReassigned(info, fd, info.Uses[id])
				}
			}
			return false
		}
		for k, l := range def.Lhs {
			id, ok := l.(*ast.Ident)
			if !ok || info.Defs[id] == nil || !funcValue(def.Rhs[k]) {
				good = false
				break
			}
			vars[info.Defs[id]] = &choice{base: def.Rhs[k]}
		}
		if !good || len(vars) == 0 {
			continue
		}
		for k, l := range re.Lhs {
			id, ok := l.(*ast.Ident)
			if !ok || vars[info.Uses[id]] == nil || !funcValue(re.Rhs[k]) {
				good = false
				break
			}
			vars[info.Uses[id]].alt = re.Rhs[k]
		}
		if !good || !nz.pureCond(info, fd, ifs.Cond) {
			continue
		}
		// every other mention of the variables: the callee of a statement-level call in the statements that follow
		type site struct {
			list *[]ast.Stmt
			idx  int
			call *ast.CallExpr
		}
		var sites []site
		mentions := 0
		for o := range vars {
			ast.Inspect(fd.Body, func(n ast.Node) bool {
				if id, ok := n.(*ast.Ident); ok && info.Uses[id] == o {
					mentions++
				}
				return true
			})
		}
		for _, l := range re.Lhs {
			_ = l
			mentions--
		}
		var collect func(sl *[]ast.Stmt)
		collect = func(sl *[]ast.Stmt) {
			for j, s := range *sl {
				var e ast.Expr
				switch x := s.(type) {
				case *ast.ExprStmt:
					e = x.X
				case *ast.ReturnStmt:
					if len(x.Results) == 1 {
						e = x.Results[0]
					}
				case *ast.AssignStmt:
					if x.Tok == token.ASSIGN && len(x.Rhs) == 1 {
						e = x.Rhs[0]
					}
				}
				if call, ok := e.(*ast.CallExpr); ok {
					if id, ok := call.Fun.(*ast.Ident); ok && vars[info.Uses[id]] != nil {
						sites = append(sites, site{sl, j, call})
					}
				}
				ast.Inspect(s, func(n ast.Node) bool {
					switch x := n.(type) {
					case *ast.FuncLit:
						return false
					case *ast.BlockStmt:
						collect(&x.List)
						return false
					case *ast.CaseClause:
						collect(&x.Body)
						return false
					case *ast.CommClause:
						collect(&x.Body)
						return false
					}
					return true
				})
			}
		}
		rest := list[i+2:]
		collect(&rest)
		if len(sites) == 0 || len(sites) != mentions {
			continue
		}
		for _, c := range vars {
			if c.alt == nil {
				c.alt = c.base
			}
		}
		// rewrite
		render := func(n ast.Node) string {
			var b bytes.Buffer
			printer.Fprint(&b, p.Fset, n)
			return b.String()
		}
		okAll := true
		for _, st := range sites {
			o := info.Uses[st.call.Fun.(*ast.Ident)]
			c := vars[o]
			orig := (*st.list)[st.idx]
			mk := func(callee ast.Expr) ast.Stmt {
				saved := st.call.Fun
				st.call.Fun = callee
				src := render(orig)
				st.call.Fun = saved
				file, err := parser.ParseFile(token.NewFileSet(), "s.go", "package p\nfunc _() {\n"+src+"\n}", 0)
				if err != nil || len(file.Decls[0].(*ast.FuncDecl).Body.List) != 1 {
					okAll = false
					return &ast.EmptyStmt{}
				}
				return file.Decls[0].(*ast.FuncDecl).Body.List[0]
			}
			thenS, elseS := mk(c.alt), mk(c.base)
			condCopy, err := parser.ParseExpr(render(ifs.Cond))
			if err != nil {
				okAll = false
				break
			}
			(*st.list)[st.idx] = &ast.IfStmt{Cond: condCopy, Body: &ast.BlockStmt{List: []ast.Stmt{thenS}}, Else: &ast.BlockStmt{List: []ast.Stmt{elseS}}}
		}
		if !okAll {
			return // the function is half rewritten: the type check of the normalised source rejects it
		}
		nl := append([]ast.Stmt{}, list[:i]...)
		nl = append(nl, rest...)
		fd.Body.List = nl
		list = nl
		nz.changed[f] = p
		nz.unrolled++
		nlog("calls through %d function variable(s) chosen by a condition named their callee in %s", len(vars), fd.Name.Name)
		i--
	}
}

// neverReassigned: the variable is a parameter, receiver or a local defined once and assigned nowhere (nor has its
// address taken) in fd.
func (nz *normalizer) neverReassigned(info *types.Info, fd *ast.FuncDecl, o types.Object) bool {
	v, ok := o.(*types.Var)
	if !ok || v.IsField() {
		return false
	}
	if v.Parent() == nil || v.Pkg() == nil || v.Parent() == v.Pkg().Scope() {
		return false // package-level variable
	}
	okAll := true
	ast.Inspect(fd.Body, func(n ast.Node) bool {
		switch x := n.(type) {
		case *ast.AssignStmt:
			if x.Tok != token.DEFINE {
				for _, l := range x.Lhs {
					if id, ok := l.(*ast.Ident); ok && info.Uses[id] == o {
						okAll = false
					}
				}
			}
		case *ast.IncDecStmt:
			if id, ok := x.X.(*ast.Ident); ok && info.Uses[id] == o {
				okAll = false
			}
		case *ast.UnaryExpr:
			if x.Op == token.AND {
				if id, ok := x.X.(*ast.Ident); ok && info.Uses[id] == o {
					okAll = false
				}
			}
		case *ast.RangeStmt:
			for _, e := range []ast.Expr{x.Key, x.Value} {
				if id, ok := e.(*ast.Ident); ok && x.Tok == token.ASSIGN && info.Uses[id] == o {
					okAll = false
				}
			}
		}
		return true
	})
	return okAll
}

// pureCond: identifiers never reassigned, literals, and !, &&, ||, comparisons over them.
func (nz *normalizer) pureCond(info *types.Info, fd *ast.FuncDecl, e ast.Expr) bool {
	switch x := e.(type) {
	case *ast.ParenExpr:
		return nz.pureCond(info, fd, x.X)
	case *ast.BasicLit:
		return true
	case *ast.Ident:
		if x.Name == "true" || x.Name == "false" || x.Name == "nil" {
			return true
		}
		if _, isConst := info.Uses[x].(*types.Const); isConst {
			return true
		}
		return nz.neverReassigned(info, fd, info.Uses[x])
	case *ast.UnaryExpr:
		return x.Op == token.NOT && nz.pureCond(info, fd, x.X)
	case *ast.BinaryExpr:
		switch x.Op {
		case token.LAND, token.LOR, token.EQL, token.NEQ, token.LSS, token.LEQ, token.GTR, token.GEQ:
			return nz.pureCond(info, fd, x.X) && nz.pureCond(info, fd, x.Y)
		}
	}
	return false
}
