package an

import (
	"go/constant"
	"go/token"
	"go/types"
	"math/big"

	"golang.org/x/tools/go/ssa"
)

// Itv is a closed integer interval.
type Itv struct{ Lo, Hi *big.Int }

func (i Itv) String() string { return "[" + i.Lo.String() + ", " + i.Hi.String() + "]" }

func (i Itv) within(o Itv) bool { return i.Lo.Cmp(o.Lo) >= 0 && i.Hi.Cmp(o.Hi) <= 0 }

func join(a, b Itv) Itv {
	r := Itv{new(big.Int).Set(a.Lo), new(big.Int).Set(a.Hi)}
	if b.Lo.Cmp(r.Lo) < 0 {
		r.Lo.Set(b.Lo)
	}
	if b.Hi.Cmp(r.Hi) > 0 {
		r.Hi.Set(b.Hi)
	}
	return r
}

// IntRange returns the value range of an integer type for the given word size (bits of int/uint/uintptr).
func IntRange(t types.Type, wordBits int) (Itv, bool) {
	b, ok := t.Underlying().(*types.Basic)
	if !ok || b.Info()&types.IsInteger == 0 {
		return Itv{}, false
	}
	bits, signed := 0, true
	switch b.Kind() {
	case types.Int8:
		bits = 8
	case types.Int16:
		bits = 16
	case types.Int32:
		bits = 32
	case types.Int64:
		bits = 64
	case types.Int:
		bits = wordBits
	case types.Uint8:
		bits, signed = 8, false
	case types.Uint16:
		bits, signed = 16, false
	case types.Uint32:
		bits, signed = 32, false
	case types.Uint64:
		bits, signed = 64, false
	case types.Uint, types.Uintptr:
		bits, signed = wordBits, false
	case types.UntypedInt, types.UntypedRune:
		bits = 64
	default:
		return Itv{}, false
	}
	one := big.NewInt(1)
	if signed {
		hi := new(big.Int).Lsh(one, uint(bits-1))
		lo := new(big.Int).Neg(hi)
		hi.Sub(hi, one)
		return Itv{lo, hi}, true
	}
	hi := new(big.Int).Lsh(one, uint(bits))
	hi.Sub(hi, one)
	return Itv{big.NewInt(0), hi}, true
}

// OverflowEvent is an arithmetic instruction whose mathematical result can leave its type.
type OverflowEvent struct {
	Instr  ssa.Instruction
	Result Itv
	Type   types.Type
	X, Y   Itv
}

// Ival is a per-function interval evaluator.
type Ival struct {
	Fn       *ssa.Function
	WordBits int
	memo     map[ivKey]Itv
	busy     map[ivKey]bool
	// Summaries: optional result ranges for calls (callee -> interval)
	CallRange func(call *ssa.Call) (Itv, bool)
}

type ivKey struct {
	v  ssa.Value
	at *ssa.BasicBlock
}

func NewIval(fn *ssa.Function, wordBits int) *Ival {
	return &Ival{Fn: fn, WordBits: wordBits, memo: map[ivKey]Itv{}, busy: map[ivKey]bool{}}
}

func (iv *Ival) typeRange(t types.Type) Itv {
	r, ok := IntRange(t, iv.WordBits)
	if !ok {
		return Itv{big.NewInt(0), big.NewInt(0)}
	}
	return r
}

func isInt(t types.Type) bool {
	b, ok := t.Underlying().(*types.Basic)
	return ok && b.Info()&types.IsInteger != 0
}

// Eval returns a sound interval for integer value v as observed in block `at`.
func (iv *Ival) Eval(v ssa.Value, at *ssa.BasicBlock) Itv {
	if !isInt(v.Type()) {
		return Itv{big.NewInt(0), big.NewInt(0)}
	}
	k := ivKey{v, at}
	if r, ok := iv.memo[k]; ok {
		return r
	}
	if iv.busy[k] {
		return iv.typeRange(v.Type()) // widening at cycles
	}
	iv.busy[k] = true
	r := iv.refine(v, at, iv.base(v, at))
	delete(iv.busy, k)
	iv.memo[k] = r
	return r
}

func (iv *Ival) base(v ssa.Value, at *ssa.BasicBlock) Itv {
	tr := iv.typeRange(v.Type())
	switch x := v.(type) {
	case *ssa.Const:
		if x.Value != nil && x.Value.Kind() == constant.Int {
			if b, ok := constant.Val(x.Value).(*big.Int); ok {
				return Itv{b, b}
			}
			if i, ok := constant.Int64Val(x.Value); ok {
				return Itv{big.NewInt(i), big.NewInt(i)}
			}
		}
	case *ssa.Convert:
		if isInt(x.X.Type()) {
			src := iv.Eval(x.X, defBlock(x, at))
			if src.within(tr) {
				return src
			}
		}
		return tr
	case *ssa.ChangeType:
		if isInt(x.X.Type()) {
			return iv.Eval(x.X, defBlock(x, at))
		}
	case *ssa.Phi:
		var r *Itv
		for i, e := range x.Edges {
			pred := x.Block().Preds[i]
			ei := iv.Eval(e, pred)
			ei = iv.refineWith(e, ei, CmpsOnEdge(Edge{pred, x.Block()}), pred)
			if r == nil {
				c := ei
				r = &c
			} else {
				j := join(*r, ei)
				r = &j
			}
		}
		if r != nil && r.within(tr) {
			return *r
		}
		return tr
	case *ssa.BinOp:
		if res, ok := iv.arith(x, defBlock(x, at)); ok {
			if res.within(tr) {
				return res
			}
			return tr
		}
	case *ssa.Call:
		if bi, ok := x.Call.Value.(*ssa.Builtin); ok && (bi.Name() == "len" || bi.Name() == "cap") {
			return Itv{big.NewInt(0), iv.typeRange(types.Typ[types.Int]).Hi}
		}
		if iv.CallRange != nil {
			if r, ok := iv.CallRange(x); ok && r.within(tr) {
				return r
			}
		}
	}
	return tr
}

// defBlock: operands are evaluated where the instruction is defined (facts there dominate every use).
func defBlock(in ssa.Instruction, at *ssa.BasicBlock) *ssa.BasicBlock {
	if in.Block() != nil {
		return in.Block()
	}
	return at
}

// arith computes the mathematical result interval of an integer binary operation.
func (iv *Ival) arith(x *ssa.BinOp, at *ssa.BasicBlock) (Itv, bool) {
	if !isInt(x.X.Type()) {
		return Itv{}, false
	}
	a := iv.Eval(x.X, at)
	switch x.Op {
	case token.ADD, token.SUB, token.MUL:
		b := iv.Eval(x.Y, at)
		var cands []*big.Int
		for _, p := range []*big.Int{a.Lo, a.Hi} {
			for _, q := range []*big.Int{b.Lo, b.Hi} {
				r := new(big.Int)
				switch x.Op {
				case token.ADD:
					r.Add(p, q)
				case token.SUB:
					r.Sub(p, q)
				case token.MUL:
					r.Mul(p, q)
				}
				cands = append(cands, r)
			}
		}
		lo, hi := cands[0], cands[0]
		for _, cnd := range cands {
			if cnd.Cmp(lo) < 0 {
				lo = cnd
			}
			if cnd.Cmp(hi) > 0 {
				hi = cnd
			}
		}
		return Itv{lo, hi}, true
	case token.QUO:
		b := iv.Eval(x.Y, at)
		if b.Lo.Sign() > 0 { // positive divisor
			var cands []*big.Int
			for _, p := range []*big.Int{a.Lo, a.Hi} {
				for _, q := range []*big.Int{b.Lo, b.Hi} {
					cands = append(cands, new(big.Int).Quo(p, q))
				}
			}
			lo, hi := cands[0], cands[0]
			for _, cnd := range cands {
				if cnd.Cmp(lo) < 0 {
					lo = cnd
				}
				if cnd.Cmp(hi) > 0 {
					hi = cnd
				}
			}
			return Itv{lo, hi}, true
		}
	case token.REM:
		b := iv.Eval(x.Y, at)
		if b.Lo.Sign() > 0 {
			m := new(big.Int).Sub(b.Hi, big.NewInt(1))
			if a.Lo.Sign() >= 0 {
				return Itv{big.NewInt(0), m}, true
			}
			return Itv{new(big.Int).Neg(m), m}, true
		}
	case token.SHL:
		b := iv.Eval(x.Y, at)
		if b.Lo.Sign() >= 0 && b.Hi.IsInt64() && b.Hi.Int64() < 128 {
			sh := uint(b.Hi.Int64())
			shLo := uint(b.Lo.Int64())
			c := []*big.Int{new(big.Int).Lsh(a.Lo, sh), new(big.Int).Lsh(a.Hi, sh), new(big.Int).Lsh(a.Lo, shLo), new(big.Int).Lsh(a.Hi, shLo)}
			lo, hi := c[0], c[0]
			for _, cnd := range c {
				if cnd.Cmp(lo) < 0 {
					lo = cnd
				}
				if cnd.Cmp(hi) > 0 {
					hi = cnd
				}
			}
			return Itv{lo, hi}, true
		}
	case token.SHR:
		b := iv.Eval(x.Y, at)
		if b.Lo.Sign() >= 0 && b.Lo.IsInt64() && b.Lo.Int64() < 128 && a.Lo.Sign() >= 0 {
			return Itv{big.NewInt(0), new(big.Int).Rsh(a.Hi, uint(b.Lo.Int64()))}, true
		}
		if b.Lo.Sign() >= 0 && b.Lo.IsInt64() && b.Lo.Int64() < 128 {
			sh := uint(b.Lo.Int64())
			return Itv{new(big.Int).Rsh(a.Lo, sh), new(big.Int).Rsh(a.Hi, sh)}, true
		}
	case token.AND:
		b := iv.Eval(x.Y, at)
		if b.Lo.Sign() >= 0 {
			return Itv{big.NewInt(0), b.Hi}, true
		}
		if a.Lo.Sign() >= 0 {
			return Itv{big.NewInt(0), a.Hi}, true
		}
	}
	return Itv{}, false
}

// refine narrows r using the comparisons that dominate block `at`.
func (iv *Ival) refine(v ssa.Value, at *ssa.BasicBlock, r Itv) Itv {
	if at == nil {
		return r
	}
	return iv.refineWith(v, r, CmpsAt(at), at)
}

func (iv *Ival) refineWith(v ssa.Value, r Itv, cmps []Cmp, at *ssa.BasicBlock) Itv {
	lo, hi := new(big.Int).Set(r.Lo), new(big.Int).Set(r.Hi)
	one := big.NewInt(1)
	is := func(x ssa.Value) bool {
		if x == v {
			return true
		}
		// a lossless conversion of v carries the same facts
		if cv, ok := x.(*ssa.Convert); ok && cv.X == v && isInt(cv.Type()) && isInt(v.Type()) {
			return iv.typeRange(v.Type()).within(iv.typeRange(cv.Type()))
		}
		if ct, ok := x.(*ssa.ChangeType); ok && ct.X == v {
			return true
		}
		return false
	}
	for _, c := range cmps {
		oc, ok := c.Oriented(is)
		if !ok || oc.Y == v || !isInt(oc.Y.Type()) {
			continue
		}
		if iv.busy[ivKey{oc.Y, at}] {
			continue
		}
		// evaluate the bound where the comparison was made
		bb := at
		if oc.If != nil {
			bb = oc.If.Block()
		}
		y := iv.Eval(oc.Y, bb)
		switch oc.Op {
		case token.LSS:
			if h := new(big.Int).Sub(y.Hi, one); h.Cmp(hi) < 0 {
				hi = h
			}
		case token.LEQ:
			if y.Hi.Cmp(hi) < 0 {
				hi = new(big.Int).Set(y.Hi)
			}
		case token.GTR:
			if l := new(big.Int).Add(y.Lo, one); l.Cmp(lo) > 0 {
				lo = l
			}
		case token.GEQ:
			if y.Lo.Cmp(lo) > 0 {
				lo = new(big.Int).Set(y.Lo)
			}
		case token.EQL:
			if y.Lo.Cmp(lo) > 0 {
				lo = new(big.Int).Set(y.Lo)
			}
			if y.Hi.Cmp(hi) < 0 {
				hi = new(big.Int).Set(y.Hi)
			}
		}
	}
	if lo.Cmp(hi) > 0 { // unreachable under these facts
		return Itv{lo, lo}
	}
	return Itv{lo, hi}
}

// Overflows returns the arithmetic instructions among instrs whose result can leave the result type.
// The relational idiom `n <= (C - y)/b  =>  n*b + y <= C` is recognised.
func (iv *Ival) Overflows(instrs []*ssa.BinOp) []OverflowEvent {
	var out []OverflowEvent
	for _, b := range instrs {
		switch b.Op {
		case token.ADD, token.SUB, token.MUL, token.SHL:
		default:
			continue
		}
		if !isInt(b.Type()) {
			continue
		}
		res, ok := iv.arith(b, b.Block())
		tr := iv.typeRange(b.Type())
		if !ok {
			res = Itv{new(big.Int).Sub(tr.Lo, big.NewInt(1)), new(big.Int).Add(tr.Hi, big.NewInt(1))}
		}
		if res.within(tr) {
			continue
		}
		if iv.relationalOK(b, tr) {
			continue
		}
		out = append(out, OverflowEvent{Instr: b, Result: res, Type: b.Type(), X: iv.Eval(b.X, b.Block()), Y: iv.Eval(b.Y, b.Block())})
	}
	return out
}

// relationalOK: b is n*k (+ y) and a dominating fact says n <= (C - y)/k with C within the type.
func (iv *Ival) relationalOK(b *ssa.BinOp, tr Itv) bool {
	var mul *ssa.BinOp
	var y ssa.Value
	switch b.Op {
	case token.MUL:
		mul = b
	case token.ADD:
		if m, ok := b.X.(*ssa.BinOp); ok && m.Op == token.MUL {
			mul, y = m, b.Y
		} else if m, ok := b.Y.(*ssa.BinOp); ok && m.Op == token.MUL {
			mul, y = m, b.X
		}
	}
	if mul == nil {
		return false
	}
	for _, pair := range [][2]ssa.Value{{mul.X, mul.Y}, {mul.Y, mul.X}} {
		n, k := pair[0], pair[1]
		kc := iv.Eval(k, b.Block())
		if kc.Lo.Cmp(kc.Hi) != 0 || kc.Lo.Sign() <= 0 {
			continue
		}
		for _, c := range CmpsAt(b.Block()) {
			oc, ok := c.Oriented(func(x ssa.Value) bool { return x == n })
			if !ok || (oc.Op != token.LEQ && oc.Op != token.LSS) {
				continue
			}
			q, ok := oc.Y.(*ssa.BinOp)
			if !ok || q.Op != token.QUO {
				continue
			}
			qk := iv.Eval(q.Y, b.Block())
			if qk.Lo.Cmp(kc.Lo) != 0 || qk.Hi.Cmp(kc.Lo) != 0 {
				continue
			}
			// numerator C - y'
			num, ok := q.X.(*ssa.BinOp)
			if ok && num.Op == token.SUB {
				cI := iv.Eval(num.X, b.Block())
				if cI.Lo.Cmp(cI.Hi) != 0 || cI.Hi.Cmp(tr.Hi) > 0 {
					continue
				}
				if y == nil || Strip(num.Y) == Strip(y) {
					return true
				}
			} else {
				// n <= C/k  => n*k <= C ; with + y only if y == nil
				cI := iv.Eval(q.X, b.Block())
				if y == nil && cI.Hi.Cmp(tr.Hi) <= 0 && iv.Eval(n, b.Block()).Lo.Sign() >= 0 {
					return true
				}
			}
		}
	}
	return false
}
