package an

import (
	"go/constant"
	"go/token"
	"go/types"
	"strings"
	"sync"

	"golang.org/x/tools/go/ssa"
)

// Instrs calls f for every instruction of fn (not of its anonymous functions).
func Instrs(fn *ssa.Function, f func(ssa.Instruction)) {
	dead := DeadBlocks(fn)
	for _, b := range fn.Blocks {
		if dead[b] {
			continue
		}
		for _, in := range b.Instrs {
			f(in)
		}
	}
}

// WithAnon returns fn followed by all (transitively) nested anonymous functions.
func WithAnon(fn *ssa.Function) []*ssa.Function {
	out := []*ssa.Function{fn}
	for _, a := range fn.AnonFuncs {
		out = append(out, WithAnon(a)...)
	}
	return out
}

// StaticCallee returns the statically resolved callee of a call instruction
// (function, method or immediately-invoked closure), or nil.
func StaticCallee(ci ssa.CallInstruction) *ssa.Function {
	c := ci.Common()
	if c.IsInvoke() {
		return devirtualized(ci)
	}
	val := c.Value
	for {
		// `f := (func(string) bool)(pkg.F); f(x)`: a function constant behind a type change
		if ct, ok := val.(*ssa.ChangeType); ok {
			val = ct.X
			continue
		}
		break
	}
	switch v := val.(type) {
	case *ssa.Function:
		return v
	case *ssa.MakeClosure:
		if f, ok := v.Fn.(*ssa.Function); ok {
			// a bound method value called directly (`gen := t.GenerateID; gen()`): the method itself
			if m := BoundMethod(f); m != nil {
				return m
			}
			return f
		}
	}
	return nil
}

// BoundMethod: f is the synthetic wrapper of a bound method value (x.M as a func value); returns M.
func BoundMethod(f *ssa.Function) *ssa.Function {
	if f == nil || f.Synthetic == "" || len(f.Blocks) != 1 || len(f.FreeVars) != 1 {
		return nil
	}
	for _, in := range f.Blocks[0].Instrs {
		if call, ok := in.(*ssa.Call); ok && !call.Call.IsInvoke() {
			if g, ok := call.Call.Value.(*ssa.Function); ok && g.Signature.Recv() != nil && len(call.Call.Args) > 0 && call.Call.Args[0] == ssa.Value(f.FreeVars[0]) {
				return g
			}
		}
	}
	return nil
}

// BoundReceiver: for a call through a bound method value, the receiver the value was bound to; nil otherwise.
func BoundReceiver(ci ssa.CallInstruction) ssa.Value {
	mc, ok := ci.Common().Value.(*ssa.MakeClosure)
	if !ok || len(mc.Bindings) != 1 {
		return nil
	}
	if f, ok := mc.Fn.(*ssa.Function); ok && BoundMethod(f) != nil {
		return mc.Bindings[0]
	}
	return nil
}

// InvokeMethod returns the interface method of an invoke-mode call, or nil.
func InvokeMethod(ci ssa.CallInstruction) *types.Func {
	c := ci.Common()
	if c.IsInvoke() {
		return c.Method
	}
	return nil
}

// IsCallTo reports whether ci statically calls one of targets.
func IsCallTo(ci ssa.CallInstruction, targets ...*ssa.Function) bool {
	f := StaticCallee(ci)
	if f == nil {
		// a method value chosen among a few (`f := c.Pause; if unpause { f = c.UnPause }; f()`): the call may be any of them
		for _, g := range MethodValueCallees(ci) {
			for _, t := range targets {
				if t != nil && (g == t || g.Origin() == t) {
					return true
				}
			}
		}
		return false
	}
	for _, t := range targets {
		if t != nil && (f == t || f.Origin() == t) {
			return true
		}
	}
	return false
}

// IsInvokeOf reports whether ci is an interface call of a method with this name
// on an interface type whose (named) type name is iface ("" = any).
func IsInvokeOf(ci ssa.CallInstruction, iface, method string) bool {
	c := ci.Common()
	if !c.IsInvoke() || c.Method.Name() != method {
		return false
	}
	if iface == "" {
		return true
	}
	if n, ok := c.Value.Type().(*types.Named); ok {
		return n.Obj().Name() == iface
	}
	return false
}

// CallsIn lists call instructions (Call, Go, Defer) in fn satisfying pred.
func CallsIn(fn *ssa.Function, pred func(ssa.CallInstruction) bool) []ssa.CallInstruction {
	var out []ssa.CallInstruction
	Instrs(fn, func(in ssa.Instruction) {
		if ci, ok := in.(ssa.CallInstruction); ok && pred(ci) {
			out = append(out, ci)
		}
	})
	return out
}

// CallsTo lists the call instructions in fn that statically call one of targets.
func CallsTo(fn *ssa.Function, targets ...*ssa.Function) []ssa.CallInstruction {
	return CallsIn(fn, func(ci ssa.CallInstruction) bool { return IsCallTo(ci, targets...) })
}

// CalleeIs builds a predicate on instructions: "is a call to one of targets".
func CalleeIs(targets ...*ssa.Function) func(ssa.Instruction) bool {
	return func(in ssa.Instruction) bool {
		ci, ok := in.(ssa.CallInstruction)
		return ok && IsCallTo(ci, targets...)
	}
}

// StdCallee reports whether ci statically calls the function pkgPath.name
// (name is "Func" or "(*T).M"/"(T).M" as printed by ssa without the package qualifier).
func StdCallee(ci ssa.CallInstruction, pkgPath, name string) bool {
	f := StaticCallee(ci)
	if f == nil {
		return false
	}
	if f.Origin() != nil {
		f = f.Origin()
	}
	if f.Pkg == nil {
		// methods of instantiated generics / wrappers
		if f.Object() == nil || f.Object().Pkg() == nil || f.Object().Pkg().Path() != pkgPath {
			return false
		}
	} else if f.Pkg.Pkg.Path() != pkgPath {
		return false
	}
	return shortName(f) == name
}

func shortName(f *ssa.Function) string {
	if recv := f.Signature.Recv(); recv != nil {
		t := recv.Type()
		ptr := false
		if p, ok := t.(*types.Pointer); ok {
			t = p.Elem()
			ptr = true
		}
		n := "?"
		if nt, ok := t.(*types.Named); ok {
			n = nt.Obj().Name()
		}
		if ptr {
			return "(*" + n + ")." + f.Name()
		}
		return "(" + n + ")." + f.Name()
	}
	return f.Name()
}

// Strip removes value-preserving wrappers (conversions between integer types are NOT
// value preserving in general, but identify "the same quantity" for guard matching).
func Strip(v ssa.Value) ssa.Value {
	for {
		switch x := v.(type) {
		case *ssa.Convert:
			v = x.X
		case *ssa.ChangeType:
			v = x.X
		case *ssa.ChangeInterface:
			v = x.X
		case *ssa.MakeInterface:
			v = x.X
		case *ssa.UnOp:
			// a field of a purely local struct variable / literal that is stored exactly once, before this load: the load is
			// that value (parameter objects and result structs that a refactoring routes values through)
			if sv := localFieldLoad(x); sv != nil {
				v = sv
				continue
			}
			return v
		case *ssa.Field:
			if ld, ok := x.X.(*ssa.UnOp); ok && ld.Op == token.MUL {
				if al, ok := ld.X.(*ssa.Alloc); ok {
					if sv := singleLocalFieldStore(al, x.Field, ld); sv != nil {
						v = sv
						continue
					}
				}
			}
			return v
		default:
			return v
		}
	}
}

func localFieldLoad(x *ssa.UnOp) ssa.Value {
	if x.Op != token.MUL {
		return nil
	}
	fa, ok := x.X.(*ssa.FieldAddr)
	if !ok {
		return nil
	}
	base := fa.X
	for {
		switch b := base.(type) {
		case *ssa.ChangeType:
			base = b.X
			continue
		case *ssa.Convert:
			base = b.X
			continue
		}
		break
	}
	al, ok := base.(*ssa.Alloc)
	if !ok {
		return nil
	}
	return singleLocalFieldStore(al, fa.Field, x)
}

// singleLocalFieldStore: al never leaves its function (localFieldStores), field idx is stored exactly once, and that store
// is executed before use.
func singleLocalFieldStore(al *ssa.Alloc, idx int, use ssa.Instruction) ssa.Value {
	vals, ok := localFieldStores(al, idx)
	if !ok || len(vals) != 1 {
		return nil
	}
	// locate the store instruction to check it precedes the use
	for _, r := range Referrers(al) {
		if st, ok := r.(*ssa.Store); ok && st.Addr == ssa.Value(al) {
			// whole-struct copy from a literal: the copy must precede the use (the literal's stores precede the copy)
			if (st.Block() == use.Block() && IndexInBlock(st) < IndexInBlock(use)) || (st.Block() != use.Block() && st.Block().Dominates(use.Block())) {
				return vals[0]
			}
			return nil
		}
		fa, ok := r.(*ssa.FieldAddr)
		if !ok || fa.Field != idx {
			continue
		}
		for _, r2 := range Referrers(fa) {
			st, ok := r2.(*ssa.Store)
			if !ok || st.Addr != ssa.Value(fa) {
				continue
			}
			if st.Block() == use.Block() {
				if IndexInBlock(st) < IndexInBlock(use) {
					return vals[0]
				}
				return nil
			}
			if st.Block().Dominates(use.Block()) {
				return vals[0]
			}
			return nil
		}
	}
	return nil
}

// ConstInt returns the integer value of a constant SSA value.
func ConstInt(v ssa.Value) (int64, bool) {
	c, ok := Strip(v).(*ssa.Const)
	if !ok || c.Value == nil {
		return 0, false
	}
	if c.Value.Kind() != constant.Int {
		return 0, false
	}
	i, exact := constant.Int64Val(c.Value)
	return i, exact
}

// ConstString returns the string value of a constant SSA value.
func ConstString(v ssa.Value) (string, bool) {
	c, ok := Strip(v).(*ssa.Const)
	if !ok || c.Value == nil || c.Value.Kind() != constant.String {
		return "", false
	}
	return constant.StringVal(c.Value), true
}

// IsNilConst reports whether v is the nil constant.
func IsNilConst(v ssa.Value) bool {
	c, ok := v.(*ssa.Const)
	return ok && c.Value == nil
}

// InstrPos returns the best position for an instruction (falls back to operands / block neighbours).
func InstrPos(in ssa.Instruction) token.Pos {
	if in.Pos().IsValid() {
		return in.Pos()
	}
	if v, ok := in.(ssa.Value); ok {
		_ = v
	}
	// try operands
	for _, op := range in.Operands(nil) {
		if *op != nil && (*op).Pos().IsValid() {
			if _, isParam := (*op).(*ssa.Parameter); !isParam {
				return (*op).Pos()
			}
		}
	}
	// neighbours in the same block
	b := in.Block()
	if b != nil {
		idx := -1
		for i, x := range b.Instrs {
			if x == in {
				idx = i
				break
			}
		}
		for d := 1; d < len(b.Instrs); d++ {
			if idx-d >= 0 && b.Instrs[idx-d].Pos().IsValid() {
				return b.Instrs[idx-d].Pos()
			}
			if idx+d < len(b.Instrs) && b.Instrs[idx+d].Pos().IsValid() {
				return b.Instrs[idx+d].Pos()
			}
		}
		if b.Parent() != nil {
			return b.Parent().Pos()
		}
	}
	return token.NoPos
}

// FieldOf returns the struct field addressed/read by a FieldAddr or Field instruction.
func FieldOf(v ssa.Value) *types.Var {
	switch x := v.(type) {
	case *ssa.FieldAddr:
		t := x.X.Type().Underlying().(*types.Pointer).Elem().Underlying().(*types.Struct)
		return t.Field(x.Field)
	case *ssa.Field:
		t := x.X.Type().Underlying().(*types.Struct)
		return t.Field(x.Field)
	}
	return nil
}

// LoadedField: if v is a load (*FieldAddr) or a Field extraction, return the field and base.
func LoadedField(v ssa.Value) (*types.Var, ssa.Value) {
	switch x := v.(type) {
	case *ssa.UnOp:
		if x.Op == token.MUL {
			if fa, ok := x.X.(*ssa.FieldAddr); ok {
				return FieldOf(fa), fa.X
			}
		}
	case *ssa.Field:
		return FieldOf(x), x.X
	}
	return nil, nil
}

// Referrers returns the referrers of v (nil-safe).
func Referrers(v ssa.Value) []ssa.Instruction {
	r := v.Referrers()
	if r == nil {
		return nil
	}
	return *r
}

// IndexInBlock returns the index of in within its block.
func IndexInBlock(in ssa.Instruction) int {
	for i, x := range in.Block().Instrs {
		if x == in {
			return i
		}
	}
	return -1
}

// IsErrorType reports whether t is the predeclared error interface.
func IsErrorType(t types.Type) bool {
	return types.Identical(t, types.Universe.Lookup("error").Type())
}

// ErrResult returns the SSA value(s) holding the error result of a call:
// the call itself (single error result) or the Extract of the error component.
func ErrResult(call ssa.Value) []ssa.Value {
	switch t := call.Type().(type) {
	case *types.Tuple:
		var out []ssa.Value
		for _, r := range Referrers(call) {
			if ex, ok := r.(*ssa.Extract); ok && IsErrorType(t.At(ex.Index).Type()) {
				out = append(out, ex)
			}
		}
		return out
	default:
		if IsErrorType(call.Type()) {
			return []ssa.Value{call}
		}
	}
	return nil
}

// ResultN returns the Extract values of component i of a tuple-typed call (or the call itself when
// it has one result and i==0).
func ResultN(call ssa.Value, i int) []ssa.Value {
	if _, ok := call.Type().(*types.Tuple); !ok {
		if i == 0 {
			return []ssa.Value{call}
		}
		return nil
	}
	var out []ssa.Value
	for _, r := range Referrers(call) {
		if ex, ok := r.(*ssa.Extract); ok && ex.Index == i {
			out = append(out, ex)
		}
	}
	return out
}

// MethodValueCallees resolves a call through a local function value that is (a phi of) bound method values or function
// literals/functions to the functions it may invoke. Empty when the value comes from anywhere else.
func MethodValueCallees(ci ssa.CallInstruction) []*ssa.Function {
	c := ci.Common()
	if c.IsInvoke() {
		return nil
	}
	var out []*ssa.Function
	seen := map[ssa.Value]bool{}
	ok := true
	var walk func(v ssa.Value)
	walk = func(v ssa.Value) {
		if seen[v] || !ok {
			return
		}
		seen[v] = true
		switch x := v.(type) {
		case *ssa.Phi:
			for _, e := range x.Edges {
				walk(e)
			}
		case *ssa.MakeClosure:
			fn, isFn := x.Fn.(*ssa.Function)
			if !isFn {
				ok = false
				return
			}
			if fn.Synthetic != "" && len(fn.Blocks) == 1 {
				// bound method wrapper: its body is one call of the method
				for _, in := range fn.Blocks[0].Instrs {
					if call, isCall := in.(*ssa.Call); isCall {
						if g := StaticCallee(call); g != nil {
							out = append(out, g)
							return
						}
					}
				}
				ok = false
				return
			}
			out = append(out, fn)
		case *ssa.Function:
			out = append(out, x)
		case *ssa.ChangeType:
			walk(x.X)
		case *ssa.Const:
			// the nil a variable starts with (or a lookup's "no such handler"): calling it cannot return
			if !x.IsNil() {
				ok = false
			}
		default:
			ok = false
		}
	}
	switch c.Value.(type) {
	case *ssa.Phi:
		walk(c.Value)
	default:
		return nil
	}
	if !ok {
		return nil
	}
	return out
}

// NamedInput reports whether v is the function input called name: a parameter of that name, or the field of that name
// of a struct-typed parameter (a "parameter object": `limits.maxMessageSize`).
func NamedInput(v ssa.Value, name string) bool {
	v = Strip(v)
	switch x := v.(type) {
	case *ssa.Parameter:
		return x.Name() == name
	case *ssa.Field:
		if p, ok := Strip(x.X).(*ssa.Parameter); ok {
			if st, ok := p.Type().Underlying().(*types.Struct); ok && x.Field < st.NumFields() {
				return st.Field(x.Field).Name() == name
			}
		}
	case *ssa.UnOp:
		if x.Op != token.MUL {
			return false
		}
		if fa, ok := x.X.(*ssa.FieldAddr); ok {
			base := Strip(fa.X)
			// pointer-to-struct parameter, or a by-value struct parameter spilled to a local cell
			if p, ok := base.(*ssa.Parameter); ok {
				_ = p
				return FieldOf(fa) != nil && FieldOf(fa).Name() == name
			}
			if al, ok := base.(*ssa.Alloc); ok {
				if sv := SingleStore(al); sv != nil {
					if _, isParam := sv.(*ssa.Parameter); isParam {
						return FieldOf(fa) != nil && FieldOf(fa).Name() == name
					}
				}
				// spilled parameter with field accesses: stores of the parameter into the cell
				for _, r := range Referrers(al) {
					if st, ok := r.(*ssa.Store); ok && st.Addr == ssa.Value(al) {
						if _, isParam := st.Val.(*ssa.Parameter); isParam {
							return FieldOf(fa) != nil && FieldOf(fa).Name() == name
						}
					}
				}
			}
		}
	}
	return false
}

// CallInput returns the value a call passes for the callee input called name: the positional argument bound to the
// parameter of that name, or – when the callee takes a parameter object – what the caller stored into that field of the
// (purely local) struct it passes. nil if it cannot be determined.
func CallInput(ci ssa.CallInstruction, callee *ssa.Function, name string) ssa.Value {
	args := ci.Common().Args
	for i, p := range callee.Params {
		if i >= len(args) {
			break
		}
		if p.Name() == name {
			return args[i]
		}
		st, ok := p.Type().Underlying().(*types.Struct)
		if !ok {
			continue
		}
		for fi := 0; fi < st.NumFields(); fi++ {
			if st.Field(fi).Name() != name {
				continue
			}
			ld, ok := Strip(args[i]).(*ssa.UnOp)
			if !ok || ld.Op != token.MUL {
				return nil
			}
			al, ok := ld.X.(*ssa.Alloc)
			if !ok {
				return nil
			}
			return singleLocalFieldStore(al, fi, ld)
		}
	}
	return nil
}

// FieldOfStruct: the field an ssa.Field instruction extracts.
func FieldOfStruct(f *ssa.Field) *types.Var {
	t := f.X.Type()
	if st, ok := t.Underlying().(*types.Struct); ok && f.Field < st.NumFields() {
		return st.Field(f.Field)
	}
	return nil
}

var deadBlocksCache sync.Map // *ssa.Function -> map[*ssa.BasicBlock]bool

// DeadBlocks: the blocks of fn no execution reaches because every way into them passes a branch on a comparison of two
// constants that goes the other way (go/ssa does not fold those; they appear when a helper taking a mode constant is
// inlined into a caller that passes one). Nil when there is none.
func DeadBlocks(fn *ssa.Function) map[*ssa.BasicBlock]bool {
	if fn == nil || len(fn.Blocks) == 0 {
		return nil
	}
	if v, ok := deadBlocksCache.Load(fn); ok {
		return v.(map[*ssa.BasicBlock]bool)
	}
	folded := false
	live := map[*ssa.BasicBlock]bool{}
	var visit func(b *ssa.BasicBlock)
	visit = func(b *ssa.BasicBlock) {
		if live[b] {
			return
		}
		live[b] = true
		if len(b.Instrs) > 0 {
			if br, ok := b.Instrs[len(b.Instrs)-1].(*ssa.If); ok && len(b.Succs) == 2 {
				if val, known := constCond(br.Cond); known {
					folded = true
					if val {
						visit(b.Succs[0])
					} else {
						visit(b.Succs[1])
					}
					return
				}
			}
		}
		for _, s := range b.Succs {
			visit(s)
		}
	}
	visit(fn.Blocks[0])
	if fn.Recover != nil {
		visit(fn.Recover)
	}
	var dead map[*ssa.BasicBlock]bool
	if folded {
		for _, b := range fn.Blocks {
			if !live[b] {
				if dead == nil {
					dead = map[*ssa.BasicBlock]bool{}
				}
				dead[b] = true
			}
		}
	}
	deadBlocksCache.Store(fn, dead)
	return dead
}

func constCond(v ssa.Value) (val, known bool) {
	switch x := v.(type) {
	case *ssa.Const:
		if x.Value != nil && x.Value.Kind() == constant.Bool {
			return constant.BoolVal(x.Value), true
		}
	case *ssa.BinOp:
		a, ok1 := x.X.(*ssa.Const)
		b, ok2 := x.Y.(*ssa.Const)
		if !ok1 || !ok2 {
			return false, false
		}
		if a.IsNil() && b.IsNil() {
			// `nil != nil`: an error result known to be nil where an inlined helper returned, tested by the caller
			switch x.Op {
			case token.EQL:
				return true, true
			case token.NEQ:
				return false, true
			}
			return false, false
		}
		if a.Value == nil || b.Value == nil {
			return false, false
		}
		switch x.Op {
		case token.EQL, token.NEQ, token.LSS, token.LEQ, token.GTR, token.GEQ:
			if a.Value.Kind() != b.Value.Kind() || a.Value.Kind() == constant.Unknown {
				return false, false
			}
			return constant.Compare(a.Value, x.Op, b.Value), true
		}
	}
	return false, false
}

// devirtualized: an interface call whose receiver is, on every path, a value of one concrete type of this module boxed in
// the same function (`var target pausable = topic; target.Pause()` – what is left when a helper taking the interface is
// inlined into a caller that passes a concrete value) calls that type's method.
func devirtualized(ci ssa.CallInstruction) *ssa.Function {
	c := ci.Common()
	var concrete types.Type
	ok := true
	seen := map[ssa.Value]bool{}
	var walk func(v ssa.Value)
	walk = func(v ssa.Value) {
		if seen[v] || !ok {
			return
		}
		seen[v] = true
		switch x := v.(type) {
		case *ssa.Phi:
			for _, e := range x.Edges {
				walk(e)
			}
		case *ssa.ChangeInterface:
			walk(x.X)
		case *ssa.MakeInterface:
			t := x.X.Type()
			if concrete != nil && !types.Identical(concrete, t) {
				ok = false
				return
			}
			concrete = t
		default:
			ok = false
		}
	}
	walk(c.Value)
	if !ok || concrete == nil || ci.Parent() == nil {
		return nil
	}
	nt, _ := concrete.(*types.Named)
	if pt, isPtr := concrete.(*types.Pointer); isPtr {
		nt, _ = pt.Elem().(*types.Named)
	}
	if nt == nil || nt.Obj().Pkg() == nil || !strings.HasPrefix(nt.Obj().Pkg().Path(), ModPath) {
		return nil
	}
	sel := ci.Parent().Prog.MethodSets.MethodSet(concrete).Lookup(c.Method.Pkg(), c.Method.Name())
	if sel == nil {
		return nil
	}
	return ci.Parent().Prog.MethodValue(sel)
}
