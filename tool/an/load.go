// Package an holds the shared static-analysis engines: loading, SSA helpers,
// CFG path search, guard (dominating condition) extraction, origin slicing,
// locksets, error-type closure and reporting.
package an

import (
	"fmt"
	"go/token"
	"go/types"
	"os"
	"sort"
	"strings"

	"golang.org/x/tools/go/callgraph"
	"golang.org/x/tools/go/callgraph/cha"
	"golang.org/x/tools/go/callgraph/vta"
	"golang.org/x/tools/go/packages"
	"golang.org/x/tools/go/ssa"
	"golang.org/x/tools/go/ssa/ssautil"
)

const ModPath = "github.com/nsqio/nsq"

// Prog is one loaded build configuration of the repository.
type Prog struct {
	Fset    *token.FileSet
	Roots   []*packages.Package
	SSA     *ssa.Program
	RepoDir string
	Config  string // GOOS/GOARCH
	byPath  map[string]*packages.Package
	cg      *callgraph.Graph
	allFns  map[*ssa.Function]bool
	locks   *LockAnalysis
	// Normalized counts the inlining rounds applied (0 on a tree whose functions are all in the baseline);
	// Overlay is the source actually analysed where it differs from the files on disk.
	Normalized int
	Overlay    map[string][]byte
}

// Load type-checks ./... of repo for the given GOOS/GOARCH, with an optional
// overlay (absolute file name -> contents), and builds SSA for the whole program.
func Load(repo, goos, goarch string, overlay map[string][]byte) (*Prog, error) {
	env := append(os.Environ(),
		"GOFLAGS=-mod=mod", "GOPROXY=off", "GOSUMDB=off", "GOTOOLCHAIN=local", "GOWORK=off",
		"CGO_ENABLED=0",
		"GOOS="+goos, "GOARCH="+goarch)
	cfg := &packages.Config{
		Mode:    packages.LoadAllSyntax,
		Dir:     repo,
		Env:     env,
		Tests:   false,
		Overlay: overlay,
	}
	loadOnce := func(ov map[string][]byte) ([]*packages.Package, error) {
		c2 := *cfg
		c2.Overlay = ov
		pkgs, err := packages.Load(&c2, "./...")
		if err != nil {
			return nil, fmt.Errorf("packages.Load: %v", err)
		}
		var errs []string
		packages.Visit(pkgs, nil, func(p *packages.Package) {
			for _, e := range p.Errors {
				errs = append(errs, e.Error())
			}
		})
		if len(errs) > 0 {
			if len(errs) > 10 {
				errs = errs[:10]
			}
			return nil, fmt.Errorf("type/load errors:\n  %s", strings.Join(errs, "\n  "))
		}
		return pkgs, nil
	}
	pkgs, err := loadOnce(overlay)
	if err != nil {
		return nil, err
	}
	resolveRenames(pkgs)
	// helper transparency: inline functions the baseline does not know (see normalize.go); never on the unchanged tree
	normalized := 0
	for round := 0; round < 3 && Baseline != nil; round++ {
		var next []*packages.Package
		for _, drop := range []bool{true, false} {
			ov := normalize(pkgs, drop)
			if ov == nil {
				break
			}
			merged := map[string][]byte{}
			for k, v := range overlay {
				merged[k] = v
			}
			for k, v := range ov {
				merged[k] = v
			}
			np, nerr := loadOnce(merged)
			if nerr != nil {
				nlog("normalised source rejected (drop=%v): %v", drop, nerr)
				// the failed attempt mutated the syntax trees: reload the current state before trying again
				pkgs, err = loadOnce(overlay)
				if err != nil {
					return nil, err
				}
				continue
			}
			next = np
			overlay = merged
			break
		}
		if next == nil {
			break
		}
		pkgs = next
		normalized++
	}
	n := 0
	for _, p := range pkgs {
		if strings.HasPrefix(p.PkgPath, ModPath) {
			n++
		}
	}
	if n < 25 {
		return nil, fmt.Errorf("only %d repository packages loaded from %s (expected >= 25)", n, repo)
	}
	fieldRenameCache = map[*types.Named]map[string]string{}
	indexFieldRenames(pkgs)
	prog, _ := ssautil.AllPackages(pkgs, ssa.BuilderMode(0))
	prog.Build()
	p := &Prog{Fset: prog.Fset, Roots: pkgs, SSA: prog, RepoDir: repo, Config: goos + "/" + goarch,
		byPath: map[string]*packages.Package{}, Normalized: normalized, Overlay: overlay}
	packages.Visit(pkgs, nil, func(pk *packages.Package) { p.byPath[pk.PkgPath] = pk })
	return p, nil
}

// RepoPkgs returns the repository's own packages (sorted by path), excluding bench/.
func (p *Prog) RepoPkgs() []*ssa.Package {
	var out []*ssa.Package
	for _, pk := range p.Roots {
		if !strings.HasPrefix(pk.PkgPath, ModPath) || strings.Contains(pk.PkgPath, "/bench/") {
			continue
		}
		if sp := p.SSA.Package(pk.Types); sp != nil {
			out = append(out, sp)
		}
	}
	sort.Slice(out, func(i, j int) bool { return out[i].Pkg.Path() < out[j].Pkg.Path() })
	return out
}

func (p *Prog) fullPath(pkg string) string {
	if strings.Contains(pkg, ".") && strings.Contains(pkg, "/") || p.byPath[pkg] != nil {
		if p.byPath[pkg] != nil {
			return pkg
		}
	}
	return ModPath + "/" + pkg
}

// Pkg returns the SSA package for a repo-relative ("nsqd") or full import path; nil if absent.
func (p *Prog) Pkg(pkg string) *ssa.Package {
	pk := p.byPath[p.fullPath(pkg)]
	if pk == nil {
		pk = p.byPath[pkg]
	}
	if pk == nil {
		return nil
	}
	return p.SSA.Package(pk.Types)
}

// TypesPkg returns the go/types package.
func (p *Prog) TypesPkg(pkg string) *types.Package {
	sp := p.Pkg(pkg)
	if sp == nil {
		return nil
	}
	return sp.Pkg
}

// Func resolves "Name" (package-level function) or "(*T).M" / "(T).M" / "T.M" in pkg.
// Returns nil when it does not resolve (the caller reports an unresolved anchor).
func (p *Prog) Func(pkg, name string) *ssa.Function {
	sp := p.Pkg(pkg)
	if sp == nil {
		return nil
	}
	if !strings.Contains(name, ".") {
		if f := sp.Func(name); f != nil || oldToNew == nil {
			return f
		}
		return p.renamedFunc(pkg, name)
	}
	if f := p.methodFunc(sp, name); f != nil || oldToNew == nil {
		return f
	}
	return p.renamedFunc(pkg, name)
}

func (p *Prog) methodFunc(sp *ssa.Package, name string) *ssa.Function {
	recv, meth := name[:strings.LastIndex(name, ".")], name[strings.LastIndex(name, ".")+1:]
	recv = strings.Trim(recv, "()")
	ptr := strings.HasPrefix(recv, "*")
	recv = strings.TrimPrefix(recv, "*")
	obj := sp.Pkg.Scope().Lookup(recv)
	if obj == nil {
		return nil
	}
	tn, ok := obj.(*types.TypeName)
	if !ok {
		return nil
	}
	var T types.Type = tn.Type()
	_ = ptr
	// look in the pointer method set: it contains both value and pointer methods
	ms := p.SSA.MethodSets.MethodSet(types.NewPointer(T))
	for i := 0; i < ms.Len(); i++ {
		sel := ms.At(i)
		if sel.Obj().Name() == meth {
			if f, ok := sel.Obj().(*types.Func); ok {
				// only methods declared on this type (not promoted ones)
				if fn := p.SSA.FuncValue(f); fn != nil {
					return fn
				}
			}
		}
	}
	return nil
}

// Named returns the named type pkg.Name.
func (p *Prog) Named(pkg, name string) *types.Named {
	tp := p.TypesPkg(pkg)
	if tp == nil {
		return nil
	}
	obj := tp.Scope().Lookup(name)
	if obj == nil {
		return renamedStruct(tp, name)
	}
	n, _ := obj.Type().(*types.Named)
	return n
}

// Field returns the field object pkg.Type.field.
func (p *Prog) Field(pkg, typ, field string) *types.Var {
	n := p.Named(pkg, typ)
	if n == nil {
		return nil
	}
	st, ok := n.Underlying().(*types.Struct)
	if !ok {
		return nil
	}
	for i := 0; i < st.NumFields(); i++ {
		if st.Field(i).Name() == field {
			return st.Field(i)
		}
	}
	// renamed since the pinned tree?
	for nw, old := range fieldRenames(n) {
		if old == field {
			for i := 0; i < st.NumFields(); i++ {
				if st.Field(i).Name() == nw {
					return st.Field(i)
				}
			}
		}
	}
	return nil
}

// Const returns the constant object pkg.name.
func (p *Prog) Const(pkg, name string) *types.Const {
	tp := p.TypesPkg(pkg)
	if tp == nil {
		return nil
	}
	c, _ := tp.Scope().Lookup(name).(*types.Const)
	return c
}

// Global returns the package-level variable pkg.name.
func (p *Prog) Global(pkg, name string) *ssa.Global {
	sp := p.Pkg(pkg)
	if sp == nil {
		return nil
	}
	g, _ := sp.Members[name].(*ssa.Global)
	return g
}

// AllFuncs returns every function of the program (incl. anonymous, dependencies).
func (p *Prog) AllFuncs() map[*ssa.Function]bool {
	if p.allFns == nil {
		p.allFns = ssautil.AllFunctions(p.SSA)
	}
	return p.allFns
}

// RepoFuncs returns every source function (incl. anonymous ones) of the non-bench repo packages,
// sorted by position for deterministic output.
func (p *Prog) RepoFuncs() []*ssa.Function {
	var out []*ssa.Function
	for fn := range p.AllFuncs() {
		if fn.Pkg == nil || fn.Blocks == nil || fn.Synthetic != "" {
			continue
		}
		path := fn.Pkg.Pkg.Path()
		if !strings.HasPrefix(path, ModPath) || strings.Contains(path, "/bench/") {
			continue
		}
		out = append(out, fn)
	}
	sort.Slice(out, func(i, j int) bool {
		a, b := p.Fset.Position(out[i].Pos()), p.Fset.Position(out[j].Pos())
		if a.Filename != b.Filename {
			return a.Filename < b.Filename
		}
		if a.Offset != b.Offset {
			return a.Offset < b.Offset
		}
		return out[i].String() < out[j].String()
	})
	return out
}

// PkgFuncs returns the source functions (incl. anonymous) of one repo package.
func (p *Prog) PkgFuncs(pkg string) []*ssa.Function {
	full := p.fullPath(pkg)
	var out []*ssa.Function
	for _, fn := range p.RepoFuncs() {
		if fn.Pkg.Pkg.Path() == full {
			out = append(out, fn)
		}
	}
	return out
}

// CallGraph returns the VTA call graph seeded with CHA (built lazily).
func (p *Prog) CallGraph() *callgraph.Graph {
	if p.cg == nil {
		p.cg = vta.CallGraph(p.AllFuncs(), cha.CallGraph(p.SSA))
	}
	return p.cg
}

// Pos renders a position relative to the repo root ("nsqd/topic.go:123").
func (p *Prog) Pos(pos token.Pos) string {
	if !pos.IsValid() {
		return "-"
	}
	ps := p.Fset.Position(pos)
	f := strings.TrimPrefix(ps.Filename, p.RepoDir+"/")
	return fmt.Sprintf("%s:%d", f, ps.Line)
}

// FnName renders a function name relative to the module ("nsqd.(*Topic).put").
func FnName(fn *ssa.Function) string {
	if fn == nil {
		return "<nil>"
	}
	s := fn.String()
	s = strings.ReplaceAll(s, ModPath+"/", "")
	if len(renamedDisplay) > 0 {
		root, rest := s, ""
		if i := strings.Index(s, "$"); i >= 0 {
			root, rest = s[:i], s[i:]
		}
		if old, ok := renamedDisplay[root]; ok {
			return old + rest
		}
	}
	return s
}
