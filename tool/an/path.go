package an

import (
	"fmt"
	"go/constant"
	"go/token"
	"go/types"
	"os"
	"sort"
	"strings"

	"golang.org/x/tools/go/ssa"
)

// Edge is a CFG edge.
type Edge struct{ From, To *ssa.BasicBlock }

// PathState is the per-path environment of the PATH engine: the set of SSA values bound to the
// tracked value on this path, and phis whose selected operand is a constant on this path.
type PathState struct {
	block   *ssa.BasicBlock
	idx     int
	tracked map[ssa.Value]bool
	marked  map[ssa.Value]bool     // like tracked (flows through phis on the path) but says nothing about nil-ness
	alias   map[*ssa.Phi]ssa.Value // boolean phis: the (non-constant) operand selected on this path
	consts  map[ssa.Value]*ssa.Const
	parent  *PathState
	via     string
	dead    map[ssa.Value]int
	q       *PathQ
}

// factUse notes that a rule callback consulted the path's learned facts (anything beyond Has): the cheap first pass
// of Find, which does not learn such facts, is then not a substitute for the full search.
func (s *PathState) factUse() {
	if s != nil && s.q != nil && s.q.light {
		s.q.factDependent = true
	}
}

// Has reports whether v is (derived from) the tracked value on this path.
func (s *PathState) Has(v ssa.Value) bool { return s.has(v, 0) }

func (s *PathState) has(v ssa.Value, depth int) bool {
	if v == nil || depth > 8 {
		return false
	}
	if s.tracked[v] {
		return true
	}
	switch x := v.(type) {
	case *ssa.Convert:
		return s.has(x.X, depth+1)
	case *ssa.ChangeType:
		return s.has(x.X, depth+1)
	case *ssa.ChangeInterface:
		return s.has(x.X, depth+1)
	case *ssa.MakeInterface:
		return s.has(x.X, depth+1)
	case *ssa.TypeAssert:
		return s.has(x.X, depth+1)
	case *ssa.Extract:
		if ta, ok := x.Tuple.(*ssa.TypeAssert); ok && x.Index == 0 {
			return s.has(ta.X, depth+1)
		}
	case *ssa.Slice:
		return s.has(x.X, depth+1)
	case *ssa.UnOp:
		if x.Op == token.MUL {
			if fa, ok := x.X.(*ssa.FieldAddr); ok {
				// a field of the tracked object (e.g. item.Value)
				return s.has(fa.X, depth+1)
			}
		}
	case *ssa.Field:
		return s.has(x.X, depth+1)
	}
	return false
}

// ConstOf returns the constant a value is known to equal on this path.
// learnNil records in st what taking a branch on cond (with the given truth) implies about the nil-ness of a value.
func learnNil(st *PathState, cond ssa.Value, truth bool) {
	for {
		u, ok := cond.(*ssa.UnOp)
		if !ok || u.Op != token.NOT {
			break
		}
		cond, truth = u.X, !truth
	}
	b, ok := cond.(*ssa.BinOp)
	if !ok || (b.Op != token.EQL && b.Op != token.NEQ) {
		return
	}
	var x ssa.Value
	switch {
	case IsNilConst(b.Y):
		x = b.X
	case IsNilConst(b.X):
		x = b.Y
	default:
		return
	}
	if _, isConst := x.(*ssa.Const); isConst || !IsErrorType(x.Type()) {
		return // only error values: keeps the per-path environment small
	}
	isNil := (b.Op == token.EQL) == truth
	set := func(x ssa.Value) {
		if isNil {
			st.consts[x] = ssa.NewConst(nil, x.Type())
		} else if !st.tracked[x] {
			st.consts[x] = nonNilMarker
		}
	}
	set(x)
	// an error carried out of a block through a merge (`r2 = err` … `if r2 != nil`): on this path the merge is the value
	// it took, so what the branch says about one holds for the other
	if phi, ok := x.(*ssa.Phi); ok {
		if a, ok := st.alias[phi]; ok && a != nil {
			if _, isConst := a.(*ssa.Const); !isConst && IsErrorType(a.Type()) {
				set(a)
			}
		}
	}
}

// learnBool records the outcome of a branch on a boolean value that is tested again elsewhere (`_, ok := m[k]; if !ok {…}; …;
// if ok {…}`): an SSA value keeps its content until its instruction runs again (Find kills the fact then), so the
// second test must agree with the first. Values tested only once are not recorded (keeps the state space small).
// canonBool: a boolean read back from a field of a purely local struct that is stored exactly once (a result struct a
// refactoring routes flags through) is the stored value.
func canonBool(v ssa.Value) ssa.Value {
	for i := 0; i < 4; i++ {
		u, ok := v.(*ssa.UnOp)
		if !ok || u.Op != token.MUL {
			return v
		}
		sv := localFieldLoad(u)
		if sv == nil {
			return v
		}
		v = sv
	}
	return v
}

func learnBool(st *PathState, cond ssa.Value, truth bool) {
	for {
		cond = canonBool(cond)
		u, ok := cond.(*ssa.UnOp)
		if !ok || u.Op != token.NOT {
			break
		}
		cond, truth = u.X, !truth
	}
	if _, isC := cond.(*ssa.Const); isC {
		return
	}
	if _, isPhi := cond.(*ssa.Phi); isPhi {
		// a computed boolean (`raced := a && b; if !raced { raced = c && d }; if !raced {…}`): the branch decided the phi's
		// value for as long as the phi is not re-bound (enter deletes the fact when the block is entered again)
		st.consts[cond] = BoolConst(truth)
		return
	}
	if !testedTwice(cond) {
		return
	}
	if _, had := st.consts[cond]; had {
		return
	}
	st.consts[cond] = BoolConst(truth)
}

var testedTwiceCache = map[ssa.Value]bool{}

// testedTwice: more than one If is controlled by v (directly or through NOT).
func testedTwice(v ssa.Value) bool {
	if r, ok := testedTwiceCache[v]; ok {
		return r
	}
	r := len(branchesOn(v, true)) >= 2
	testedTwiceCache[v] = r
	return r
}

// NonNil reports whether v is known to be non-nil on this path (tracked custody values, freshly boxed values, values
// a branch on the path found non-nil, and phis that selected such a value).
func (s *PathState) NonNil(v ssa.Value) bool {
	if s == nil || v == nil {
		return false
	}
	s.factUse()
	if KnownNonNil(v) {
		return true
	}
	if s.Has(v) {
		return true
	}
	c, ok := s.consts[v]
	return ok && c == nonNilMarker
}

// KnownNonNil: v is a freshly boxed value or the result of a standard error constructor.
func KnownNonNil(v ssa.Value) bool {
	if ExtraNonNil != nil && ExtraNonNil(v) {
		return true
	}
	switch x := v.(type) {
	case *ssa.MakeInterface:
		return true
	case *ssa.Call:
		return StdCallee(x, "errors", "New") || StdCallee(x, "fmt", "Errorf")
	}
	return false
}

// ExtraNonNil lets the rule layer name further values that are never nil (loads of sentinel error variables, the
// repository's own error constructors).
var ExtraNonNil func(v ssa.Value) bool

// nonNilMarker stands in the constant environment for "some non-nil value" (a freshly boxed error selected at a phi).
var nonNilMarker = ssa.NewConst(constant.MakeString("!nil"), types.Typ[types.String])

// Selected resolves a boolean or error phi to the operand it took on this path (v itself otherwise).
func (s *PathState) Selected(v ssa.Value) ssa.Value {
	s.factUse()
	for i := 0; i < 6; i++ {
		phi, ok := v.(*ssa.Phi)
		if !ok || s == nil {
			return v
		}
		a, ok := s.alias[phi]
		if !ok {
			return v
		}
		v = a
	}
	return v
}

// selectedNoUse is Selected without recording a fact use.
func (s *PathState) selectedNoUse(v ssa.Value) ssa.Value {
	for i := 0; i < 6; i++ {
		phi, ok := v.(*ssa.Phi)
		if !ok || s == nil {
			return v
		}
		a, ok := s.alias[phi]
		if !ok {
			return v
		}
		v = a
	}
	return v
}

// funcValueNonNil: a closure, a bound method value or a named function (possibly behind a change of function type).
func funcValueNonNil(v ssa.Value) bool {
	for i := 0; i < 4; i++ {
		switch x := v.(type) {
		case *ssa.ChangeType:
			v = x.X
			continue
		case *ssa.MakeClosure, *ssa.Function:
			return true
		}
		return false
	}
	return false
}

// FactsOnEdge is an.FactsOnEdge refined by the path: when the branch tests a boolean phi (a condition computed as a
// value, `ok := a || b; if ok {…}`), the operand the phi took on this path is what the branch decided.
func (s *PathState) FactsOnEdge(e Edge) []Fact {
	s.factUse()
	out := FactsOnEdge(e)
	if s == nil || len(e.From.Instrs) == 0 || len(e.From.Succs) != 2 || e.From.Succs[0] == e.From.Succs[1] {
		return out
	}
	ifi, ok := e.From.Instrs[len(e.From.Instrs)-1].(*ssa.If)
	if !ok {
		return out
	}
	f := normFact(ifi.Cond, e.From.Succs[0] == e.To, ifi)
	if phi, ok := f.V.(*ssa.Phi); ok {
		if a, ok := s.alias[phi]; ok {
			nf := normFact(a, f.True, ifi)
			out = append(out, nf)
			out = append(out, expandPhiFact(nf, 0)...)
		}
	}
	return out
}

// CmpsOnEdge is the comparison view of FactsOnEdge.
func (s *PathState) CmpsOnEdge(e Edge) []Cmp {
	var out []Cmp
	for _, f := range s.FactsOnEdge(e) {
		if c, ok := f.AsCmp(); ok {
			out = append(out, c)
		}
	}
	return out
}

// Marked reports whether v is one of the query's Marked values or a phi that selected one on this path.
func (s *PathState) Marked(v ssa.Value) bool {
	s.factUse()
	return s.isMarked(v)
}

func (s *PathState) isMarked(v ssa.Value) bool {
	for i := 0; i < 6 && v != nil; i++ {
		if s.marked[v] {
			return true
		}
		switch x := v.(type) {
		case *ssa.ChangeInterface:
			v = x.X
		case *ssa.ChangeType:
			v = x.X
		default:
			return false
		}
	}
	return false
}

func (s *PathState) ConstOf(v ssa.Value) (*ssa.Const, bool) {
	s.factUse()
	return s.constOf(v)
}

func (s *PathState) constOf(v ssa.Value) (*ssa.Const, bool) {
	if c, ok := v.(*ssa.Const); ok {
		return c, true
	}
	c, ok := s.consts[v]
	if !ok && DebugDead != nil {
		if b, was := s.dead[v]; was {
			if !debugSeen[v] {
				debugSeen[v] = true
				fmt.Fprintf(os.Stderr, "deadquery %s (pruned at block %d) queried in block %d: %s\n", v.Name(), b, s.block.Index, v.String())
			}
		}
	}
	return c, ok
}

var debugSeen = map[ssa.Value]bool{}

func (s *PathState) sig() string {
	var parts []string
	for v := range s.tracked {
		parts = append(parts, "t"+v.Name())
	}
	for v := range s.marked {
		parts = append(parts, "m"+v.Name())
	}
	for v, a := range s.alias {
		parts = append(parts, "a"+v.Name()+"="+a.Name())
	}
	for v, c := range s.consts {
		parts = append(parts, "c"+v.Name()+"="+c.String())
	}
	sort.Strings(parts)
	return fmt.Sprintf("%d:%d|%s", s.block.Index, s.idx, strings.Join(parts, ","))
}

// PathQ is a path query: is there a CFG path from a start point to a sink that avoids every cut?
type PathQ struct {
	Fn                   *ssa.Function
	StartEntry           bool
	StartAfter           []ssa.Instruction        // start just after these instructions
	StartEdges           []Edge                   // start at the head of Edge.To, having come from Edge.From
	Tracked              []ssa.Value              // values bound to the tracked object at the start
	Consts               map[ssa.Value]*ssa.Const // values (e.g. a bool parameter) fixed to a constant for this query
	Sink                 func(in ssa.Instruction, st *PathState) bool
	SinkEdge             func(e Edge, st *PathState) bool
	Cut                  func(in ssa.Instruction, st *PathState) bool
	CutEdge              func(e Edge, st *PathState) bool
	Keep                 []ssa.Value // values the rule asks about after they are dead (an error seen only through a merge): facts about them are not pruned
	Marked               []ssa.Value // values whose flow through phis is followed without any nil-ness assumption (PathState.Marked)
	NoFold               bool        // disable branch folding on the tracked value
	NoPrune              bool        // keep facts about dead values (debugging)
	FullOnly             bool        // skip the light first pass
	AllAlias             bool        // remember the operand every phi (not only boolean and error phis) took on the path, for Selected
	light, factDependent bool
	initial              map[ssa.Value]bool // the query's own Tracked/Marked/Consts keys: identities, never pruned
	AllConsts            bool               // record the constant selected for every phi (not only branch-relevant ones)
	// TrackedNonNil: tracked values are known non-nil / non-empty (custody rules). Default true when Tracked != nil.
}

// Hop is one step of a witness path.
type Hop struct {
	Block *ssa.BasicBlock
	Note  string
}

// Find runs the query. found=true means a violating path exists; witness describes it.
//
// Two passes. The first ("light") learns nothing from the branches it takes beyond what the tracked object and constant
// phi operands say; it therefore folds fewer branches and explores a superset of the paths of the full search. If the rule's
// callbacks never consulted learned facts (only Has and the shape of instructions) and the light pass finds no path, the
// full search cannot find one either, and the light result is final. Otherwise the full, path-sensitive search decides.
func (q *PathQ) Find() (witness []string, found bool) {
	if !q.FullOnly && os.Getenv("VERIF_FULLONLY") == "" {
		q.light, q.factDependent = true, false
		_, f := q.find()
		dep := q.factDependent
		q.light, q.factDependent = false, false
		if !f && !dep {
			return nil, false
		}
	}
	return q.find()
}

func (q *PathQ) find() (witness []string, found bool) {
	seen := map[string]bool{}
	var stack []*PathState
	mk := func(b *ssa.BasicBlock, idx int, parent *PathState, via string) *PathState {
		st := &PathState{block: b, idx: idx, tracked: map[ssa.Value]bool{}, marked: map[ssa.Value]bool{}, consts: map[ssa.Value]*ssa.Const{}, alias: map[*ssa.Phi]ssa.Value{}, parent: parent, via: via, q: q}
		if parent != nil {
			for k, v := range parent.alias {
				st.alias[k] = v
			}
			for k := range parent.tracked {
				st.tracked[k] = true
			}
			for k := range parent.marked {
				st.marked[k] = true
			}
			for k, v := range parent.consts {
				st.consts[k] = v
			}
			if parent.dead != nil {
				st.dead = map[ssa.Value]int{}
				for k, v := range parent.dead {
					st.dead[k] = v
				}
			}
		}
		return st
	}
	push := func(st *PathState) {
		k := st.sig()
		if seen[k] {
			return
		}
		seen[k] = true
		stack = append(stack, st)
	}
	q.initial = map[ssa.Value]bool{}
	for _, v := range q.Tracked {
		q.initial[v] = true
	}
	for _, v := range q.Marked {
		q.initial[v] = true
	}
	for v := range q.Consts {
		q.initial[v] = true
	}
	for _, v := range q.Keep {
		q.initial[v] = true
	}
	initTracked := func(st *PathState) {
		for _, v := range q.Tracked {
			st.tracked[v] = true
		}
		for _, v := range q.Marked {
			st.marked[v] = true
		}
		for v, c := range q.Consts {
			st.consts[v] = c
		}
	}
	if q.StartEntry && len(q.Fn.Blocks) > 0 {
		st := mk(q.Fn.Blocks[0], 0, nil, "entry")
		initTracked(st)
		push(st)
	}
	// what the branches that dominate a start point decided holds on every path from it
	learnDominating := func(st *PathState, b *ssa.BasicBlock) {
		if q.light || q.NoFold {
			return
		}
		for _, f := range FactsAt(b) {
			if f.V == nil {
				continue
			}
			learnNil(st, f.V, f.True)
		}
	}
	for _, in := range q.StartAfter {
		st := mk(in.Block(), IndexInBlock(in)+1, nil, "after "+shortInstr(in))
		initTracked(st)
		learnDominating(st, in.Block())
		push(st)
	}
	for _, e := range q.StartEdges {
		st := mk(e.To, 0, nil, fmt.Sprintf("edge b%d->b%d", e.From.Index, e.To.Index))
		initTracked(st)
		learnDominating(st, e.From)
		if len(e.From.Succs) == 2 && e.From.Succs[0] != e.From.Succs[1] && !q.NoFold {
			if ifi, ok := e.From.Instrs[len(e.From.Instrs)-1].(*ssa.If); ok {
				learnNil(st, ifi.Cond, e.To == e.From.Succs[0])
			}
		}
		q.enter(st, e.From)
		push(st)
	}
	nstates := 0
	if os.Getenv("VERIF_NOPRUNE") != "" {
		q.NoPrune = true
	}
	if os.Getenv("VERIF_PATHSTATS") != "" {
		if DebugDead == nil {
			DebugDead = map[ssa.Value]int{}
		}
		for _, m := range LiveSanity(q.Fn) {
			fmt.Fprintln(os.Stderr, "livesanity", q.Fn.Name(), m)
		}
		defer func() {
			if nstates > 2000 {
				fmt.Fprintf(os.Stderr, "pathstats %s: %d states\n", q.Fn.Name(), nstates)
			}
		}()
	}
	for len(stack) > 0 {
		st := stack[len(stack)-1]
		stack = stack[:len(stack)-1]
		nstates++
		if nstates == 300000 && os.Getenv("VERIF_PATHSTATS") != "" {
			cnt := map[int]int{}
			ex := map[int][]string{}
			for k := range seen {
				var bi, ii int
				fmt.Sscanf(k, "%d:%d|", &bi, &ii)
				cnt[bi]++
				if len(ex[bi]) < 6 {
					ex[bi] = append(ex[bi], k)
				}
			}
			best, bn := -1, 0
			for b, n := range cnt {
				if n > bn {
					best, bn = b, n
				}
			}
			fmt.Fprintf(os.Stderr, "pathstats: most populated block %d with %d states, e.g.\n", best, bn)
			for _, k := range ex[best] {
				fmt.Fprintln(os.Stderr, "   ", k)
			}
		}
		b := st.block
		cut := false
		for i := st.idx; i < len(b.Instrs); i++ {
			in := b.Instrs[i]
			if _, isPhi := in.(*ssa.Phi); isPhi {
				continue
			}
			// executing the instruction (again, in a loop) gives its value a new run-time content: what an earlier
			// branch learned about the old content no longer applies
			if v, ok := in.(ssa.Value); ok {
				if _, had := st.consts[v]; had && q.Consts[v] == nil {
					delete(st.consts, v)
				}
				delete(st.dead, v)
			}
			if q.Cut != nil && q.Cut(in, st) {
				cut = true
				break
			}
			if NoReturn(in) {
				cut = true // os.Exit / log.Fatal*: the path ends here
				break
			}
			if q.Sink != nil && q.Sink(in, st) {
				return q.render(st, in), true
			}
		}
		if cut {
			continue
		}
		succs := b.Succs
		if len(succs) == 2 && !q.NoFold {
			if ifi, ok := b.Instrs[len(b.Instrs)-1].(*ssa.If); ok {
				if val, known := st.evalBool(ifi.Cond, 0); known {
					if val {
						succs = succs[:1]
					} else {
						succs = succs[1:]
					}
				}
			}
		}
		dead := DeadBlocks(b.Parent())
		for _, s := range succs {
			if dead[s] {
				continue // behind a branch on two constants that goes the other way
			}
			e := Edge{b, s}
			if q.CutEdge != nil && q.CutEdge(e, st) {
				continue
			}
			if q.SinkEdge != nil && q.SinkEdge(e, st) {
				return append(q.render(st, nil), fmt.Sprintf("edge to block %d (%s)", s.Index, s.Comment)), true
			}
			ns := mk(s, 0, st, "")
			// what the branch just taken says about nil-ness: `x != nil` / `x == nil`
			if len(b.Succs) == 2 && b.Succs[0] != b.Succs[1] && !q.NoFold {
				if ifi, ok := b.Instrs[len(b.Instrs)-1].(*ssa.If); ok {
					if !q.light {
						learnNil(ns, ifi.Cond, s == b.Succs[0])
						learnBool(ns, ifi.Cond, s == b.Succs[0])
					}
				}
			}
			q.enter(ns, b)
			if !q.NoPrune {
				pruneDead(ns, q)
			}
			push(ns)
		}
	}
	return nil, false
}

// enter applies the phi selection of block st.block for predecessor pred.
func (q *PathQ) enter(st *PathState, pred *ssa.BasicBlock) {
	b := st.block
	pi := -1
	for i, p := range b.Preds {
		if p == pred {
			pi = i
			break
		}
	}
	if pi < 0 {
		return
	}
	// phis read their operands simultaneously: compute from the parent's view
	type upd struct {
		phi     *ssa.Phi
		tracked bool
		marked  bool
		alias   ssa.Value
		c       *ssa.Const
	}
	var upds []upd
	for _, in := range b.Instrs {
		phi, ok := in.(*ssa.Phi)
		if !ok {
			break
		}
		op := phi.Edges[pi]
		u := upd{phi: phi}
		u.marked = st.isMarked(op)
		isBool := false
		if b, ok := phi.Type().Underlying().(*types.Basic); ok && b.Kind() == types.Bool {
			isBool = true
		}
		if (isBool || IsErrorType(phi.Type()) || q.AllAlias) && !q.light {
			if _, isC := op.(*ssa.Const); !isC {
				u.alias = op
				if ph2, ok := op.(*ssa.Phi); ok {
					if a, ok := st.alias[ph2]; ok {
						u.alias = a
					}
				}
			}
		}
		if st.Has(op) {
			u.tracked = true
		} else if c, ok := st.constOf(op); ok && (q.AllConsts || branchRelevant(phi)) {
			u.c = c
		} else if !q.light && KnownNonNil(op) && (q.AllConsts || branchRelevant(phi)) {
			u.c = nonNilMarker
		}
		upds = append(upds, u)
	}
	for _, u := range upds {
		delete(st.tracked, u.phi)
		delete(st.consts, u.phi)
		delete(st.marked, u.phi)
		delete(st.alias, u.phi)
		if u.marked {
			st.marked[u.phi] = true
		}
		if u.alias != nil {
			st.alias[u.phi] = u.alias
		}
		if u.tracked {
			st.tracked[u.phi] = true
		} else if u.c != nil {
			st.consts[u.phi] = u.c
		}
	}
}

// evalBool folds a branch condition using the path environment.
func (s *PathState) evalBool(v ssa.Value, depth int) (val, known bool) {
	if depth > 6 {
		return false, false
	}
	v = canonBool(v)
	if c, ok := s.constOf(v); ok && c.Value != nil {
		if c.Value.Kind() == constant.Bool {
			return constant.BoolVal(c.Value), true
		}
	}
	switch x := v.(type) {
	case *ssa.UnOp:
		if x.Op == token.NOT {
			r, k := s.evalBool(x.X, depth+1)
			return !r, k
		}
	case *ssa.BinOp:
		if x.Op != token.EQL && x.Op != token.NEQ && x.Op != token.GTR && x.Op != token.LSS && x.Op != token.GEQ && x.Op != token.LEQ {
			return false, false
		}
		// x ==/!= nil
		if x.Op == token.EQL || x.Op == token.NEQ {
			var other ssa.Value
			if IsNilConst(x.Y) {
				other = x.X
			} else if IsNilConst(x.X) {
				other = x.Y
			}
			if other != nil {
				if s.Has(other) {
					return x.Op == token.NEQ, true
				}
				if KnownNonNil(other) {
					return x.Op == token.NEQ, true
				}
				// a function value the path selected (`h = p.FIN` … `if h == nil`): a method value or function is never nil
				if sel := s.selectedNoUse(other); sel != other && funcValueNonNil(sel) {
					return x.Op == token.NEQ, true
				}
				if funcValueNonNil(other) {
					return x.Op == token.NEQ, true
				}
				if c, ok := s.constOf(other); ok && c == nonNilMarker {
					return x.Op == token.NEQ, true
				}
				if c, ok := s.constOf(other); ok && c.Value == nil {
					return x.Op == token.EQL, true
				}
				return false, false
			}
		}
		// two values the path knows as constants of one kind (a mode tag set on the way here)
		if a, ok := s.constOf(x.X); ok && a != nonNilMarker && a.Value != nil {
			if b, ok := s.constOf(x.Y); ok && b != nonNilMarker && b.Value != nil && a.Value.Kind() == b.Value.Kind() && a.Value.Kind() != constant.Unknown {
				return constant.Compare(a.Value, x.Op, b.Value), true
			}
		}
		// len(t) REL 0
		lenOf := func(v ssa.Value) (ssa.Value, bool) {
			if call, ok := v.(*ssa.Call); ok {
				if bi, ok := call.Call.Value.(*ssa.Builtin); ok && bi.Name() == "len" && len(call.Call.Args) == 1 {
					return call.Call.Args[0], true
				}
			}
			return nil, false
		}
		if arg, ok := lenOf(x.X); ok {
			if k, isC := ConstInt(x.Y); isC && k == 0 {
				if s.Has(arg) { // tracked byte slices are non-empty
					switch x.Op {
					case token.NEQ, token.GTR:
						return true, true
					case token.EQL, token.LEQ:
						return false, true
					}
				}
				if c, ok := s.constOf(arg); ok && c.Value == nil {
					switch x.Op {
					case token.NEQ, token.GTR:
						return false, true
					case token.EQL, token.LEQ:
						return true, true
					}
				}
			}
		}
	}
	return false, false
}

func shortInstr(in ssa.Instruction) string {
	s := in.String()
	if v, ok := in.(ssa.Value); ok && v.Name() != "" {
		s = v.Name() + " = " + s
	}
	if len(s) > 100 {
		s = s[:100] + "…"
	}
	return s
}

func (q *PathQ) render(st *PathState, sink ssa.Instruction) []string {
	var rev []*PathState
	for s := st; s != nil; s = s.parent {
		rev = append(rev, s)
	}
	var out []string
	fset := q.Fn.Prog.Fset
	for i := len(rev) - 1; i >= 0; i-- {
		s := rev[i]
		pos := token.NoPos
		for j := s.idx; j < len(s.block.Instrs); j++ {
			if p := s.block.Instrs[j].Pos(); p.IsValid() {
				pos = p
				break
			}
		}
		line := ""
		if pos.IsValid() {
			p := fset.Position(pos)
			line = fmt.Sprintf("%s:%d", shortFile(p.Filename), p.Line)
		}
		note := fmt.Sprintf("block %d (%s) %s", s.block.Index, s.block.Comment, line)
		if s.via != "" {
			note += " [" + s.via + "]"
		}
		out = append(out, note)
	}
	if sink != nil {
		p := fset.Position(InstrPos(sink))
		out = append(out, fmt.Sprintf("sink %s:%d: %s", shortFile(p.Filename), p.Line, shortInstr(sink)))
	}
	// compress long paths
	if len(out) > 14 {
		out = append(append(out[:6:6], fmt.Sprintf("… %d blocks …", len(out)-12)), out[len(out)-6:]...)
	}
	return out
}

func shortFile(f string) string {
	if i := strings.Index(f, "/repo/"); i >= 0 {
		return f[i+6:]
	}
	parts := strings.Split(f, "/")
	if len(parts) > 2 {
		return strings.Join(parts[len(parts)-2:], "/")
	}
	return f
}

// ---- success / failure edges of checked calls -------------------------------------------

// NilTest describes an `if v ==/!= nil` branch on value v.
type NilTest struct {
	If      *ssa.If
	NilEdge Edge // edge taken when v == nil
	NonNil  Edge // edge taken when v != nil
}

// NilTests returns the If instructions that branch directly on v ==/!= nil, following phis
// (a phi that merges v with other values is also tested "as v" – see DESIGN §4.2).
func NilTests(v ssa.Value) []NilTest { return nilTests(v, false) }

// NilTestsPhi also follows phis: an `if` on a phi that merges v with other values counts as a test of v.
func NilTestsPhi(v ssa.Value) []NilTest { return nilTests(v, true) }

func nilTests(v ssa.Value, followPhi bool) []NilTest {
	var out []NilTest
	seen := map[ssa.Value]bool{}
	var walk func(v ssa.Value, depth int)
	walk = func(v ssa.Value, depth int) {
		if seen[v] || depth > 4 {
			return
		}
		seen[v] = true
		for _, r := range Referrers(v) {
			switch x := r.(type) {
			case *ssa.BinOp:
				if (x.Op == token.EQL || x.Op == token.NEQ) && (IsNilConst(x.X) || IsNilConst(x.Y)) {
					for _, t := range branchesOn(x, x.Op == token.NEQ) {
						out = append(out, t)
					}
				}
			case *ssa.Phi:
				if followPhi {
					walk(x, depth+1)
				}
			}
		}
	}
	walk(v, 0)
	return out
}

// branchesOn finds the Ifs controlled by boolean b (possibly through NOT); trueMeansNonNil says
// whether b==true means "non-nil".
func branchesOn(b ssa.Value, trueMeansNonNil bool) []NilTest {
	var out []NilTest
	for _, r := range Referrers(b) {
		switch x := r.(type) {
		case *ssa.If:
			blk := x.Block()
			t, f := Edge{blk, blk.Succs[0]}, Edge{blk, blk.Succs[1]}
			if trueMeansNonNil {
				out = append(out, NilTest{If: x, NonNil: t, NilEdge: f})
			} else {
				out = append(out, NilTest{If: x, NonNil: f, NilEdge: t})
			}
		case *ssa.UnOp:
			if x.Op == token.NOT {
				out = append(out, branchesOn(x, !trueMeansNonNil)...)
			}
		}
	}
	return out
}

// BoolTests returns the If instructions that branch on boolean value v (through NOT):
// for each, the edge taken when v is true and the edge taken when v is false.
type BoolTest struct {
	If          *ssa.If
	True, False Edge
}

func BoolTests(v ssa.Value) []BoolTest {
	var out []BoolTest
	for _, t := range branchesOn(v, true) {
		out = append(out, BoolTest{If: t.If, True: t.NonNil, False: t.NilEdge})
	}
	return out
}

// FailEdges returns, for a call whose last/only error result is checked, the set of edges taken
// when the error is non-nil (failure) and when it is nil (success).
func ErrEdges(call ssa.Value) (succ, fail []Edge) { return errEdges(call, false) }

// ErrEdgesPhi is ErrEdges following phis (err assigned in both arms of an if, tested after the merge).
func ErrEdgesPhi(call ssa.Value) (succ, fail []Edge) { return errEdges(call, true) }

func errEdges(call ssa.Value, phi bool) (succ, fail []Edge) {
	for _, ev := range ErrResult(call) {
		for _, t := range nilTests(ev, phi) {
			succ = append(succ, t.NilEdge)
			fail = append(fail, t.NonNil)
		}
	}
	return
}

// EdgeIn reports whether e is in set.
func EdgeIn(e Edge, set []Edge) bool {
	for _, x := range set {
		if x == e {
			return true
		}
	}
	return false
}

// Returns lists the Return instructions of fn.
func Returns(fn *ssa.Function) []*ssa.Return {
	var out []*ssa.Return
	Instrs(fn, func(in ssa.Instruction) {
		// the Recover block of a function with defers is entered only after a deferred call recovered a panic;
		// no function of this module calls recover, so it is not a way the function returns
		if r, ok := in.(*ssa.Return); ok && in.Block() != fn.Recover {
			out = append(out, r)
		}
	})
	return out
}

// IsReturn is a sink predicate for any return.
func IsReturn(in ssa.Instruction, _ *PathState) bool {
	_, ok := in.(*ssa.Return)
	return ok
}

// LoopHeaders returns the blocks that are targets of back edges (using dominance).
func LoopHeaders(fn *ssa.Function) map[*ssa.BasicBlock]bool {
	out := map[*ssa.BasicBlock]bool{}
	for _, b := range fn.Blocks {
		for _, s := range b.Succs {
			if s.Dominates(b) {
				out[s] = true
			}
		}
	}
	return out
}

// Reaches reports plain CFG reachability from just after `from` to instruction `to`.
func Reaches(from, to ssa.Instruction) bool {
	q := &PathQ{Fn: from.Parent(), StartAfter: []ssa.Instruction{from}, NoFold: true,
		Sink: func(in ssa.Instruction, _ *PathState) bool { return in == to }}
	_, f := q.Find()
	return f
}

// BoolConst builds a boolean constant for PathQ.Consts.
func BoolConst(b bool) *ssa.Const {
	return ssa.NewConst(constantBool(b), types.Typ[types.Bool])
}

func constantBool(b bool) constant.Value { return constant.MakeBool(b) }

var relevantCache = map[*ssa.Phi]bool{}

// branchRelevant: the phi (possibly through other phis) feeds a comparison, a len(), a NOT or a branch,
// i.e. knowing its constant value on a path can fold a branch. Other phis (e.g. channel variables that
// only feed a select) are not recorded, which keeps the path-state space small.
func branchRelevant(phi *ssa.Phi) bool {
	if r, ok := relevantCache[phi]; ok {
		return r
	}
	seen := map[ssa.Value]bool{}
	var walk func(v ssa.Value, d int) bool
	walk = func(v ssa.Value, d int) bool {
		if seen[v] || d > 5 {
			return false
		}
		seen[v] = true
		for _, r := range Referrers(v) {
			switch x := r.(type) {
			case *ssa.If:
				return true
			case *ssa.Return:
				if IsErrorType(v.Type()) {
					return true // "which error does this path return" matters to success-return sinks
				}
			case *ssa.BinOp:
				switch x.Op {
				case token.EQL, token.NEQ, token.LSS, token.LEQ, token.GTR, token.GEQ:
					return true
				}
			case *ssa.UnOp:
				if x.Op == token.NOT {
					return true
				}
			case *ssa.Call:
				if bi, ok := x.Call.Value.(*ssa.Builtin); ok && bi.Name() == "len" {
					return true
				}
			case *ssa.Phi:
				if walk(x, d+1) {
					return true
				}
			}
		}
		return false
	}
	r := walk(phi, 0)
	relevantCache[phi] = r
	return r
}

// NoReturn reports calls that never return (process exit).
func NoReturn(in ssa.Instruction) bool {
	call, ok := in.(*ssa.Call)
	if !ok {
		return false
	}
	f := StaticCallee(call)
	if f == nil || f.Pkg == nil {
		return false
	}
	switch f.Pkg.Pkg.Path() {
	case "os":
		return f.Name() == "Exit"
	case "log":
		return strings.HasPrefix(f.Name(), "Fatal")
	case "runtime":
		return f.Name() == "Goexit"
	case ModPath + "/internal/lg":
		return f.Name() == "LogFatal"
	}
	return false
}

// CanonBool exposes canonBool to the rule layer.
func CanonBool(v ssa.Value) ssa.Value { return canonBool(v) }
