package an

import (
	"go/token"
	"go/types"
	"sort"
	"strings"

	"golang.org/x/tools/go/ssa"
)

// ETypes computes, for interface-typed results of functions, the closed set of dynamic types they
// can carry. Elements are type strings ("*internal/protocol.FatalClientErr", "internal/http_api.Err"),
// "nil", or "unknown:<why>" when the value comes from outside the analysed world.
type ETypes struct {
	P    *Prog
	memo map[etKey]map[string]token.Pos
	busy map[etKey]bool
}

type etKey struct {
	fn  *ssa.Function
	idx int
}

func NewETypes(p *Prog) *ETypes {
	return &ETypes{P: p, memo: map[etKey]map[string]token.Pos{}, busy: map[etKey]bool{}}
}

func typeStr(t types.Type) string {
	return strings.ReplaceAll(types.TypeString(t, nil), ModPath+"/", "")
}

// Result returns the dynamic types result #idx of fn can carry, each with a position that produces it.
func (e *ETypes) Result(fn *ssa.Function, idx int) map[string]token.Pos {
	k := etKey{fn, idx}
	if r, ok := e.memo[k]; ok {
		return r
	}
	if e.busy[k] {
		return map[string]token.Pos{}
	}
	e.busy[k] = true
	out := map[string]token.Pos{}
	if fn.Blocks == nil {
		out["unknown:external function "+FnName(fn)] = token.NoPos
	}
	for _, r := range Returns(fn) {
		if idx >= len(r.Results) {
			continue
		}
		v := Resolve(r.Results[idx])
		for t, p := range e.Value(v, r.Block()) {
			if !p.IsValid() {
				p = InstrPos(r)
			}
			if _, ok := out[t]; !ok {
				out[t] = p
			}
		}
	}
	delete(e.busy, k)
	e.memo[k] = out
	return out
}

// Value returns the dynamic types interface value v can carry when observed in block at.
func (e *ETypes) Value(v ssa.Value, at *ssa.BasicBlock) map[string]token.Pos {
	out := map[string]token.Pos{}
	add := func(t string, p token.Pos) {
		if _, ok := out[t]; !ok {
			out[t] = p
		}
	}
	knownNonNil := func(x ssa.Value) bool {
		if at == nil {
			return false
		}
		for _, c := range CmpsAt(at) {
			if c.Op == token.NEQ && ((c.X == x && IsNilConst(c.Y)) || (c.Y == x && IsNilConst(c.X))) {
				return true
			}
		}
		return false
	}
	knownNil := func(x ssa.Value) bool {
		if at == nil {
			return false
		}
		for _, c := range CmpsAt(at) {
			if c.Op == token.EQL && ((c.X == x && IsNilConst(c.Y)) || (c.Y == x && IsNilConst(c.X))) {
				return true
			}
		}
		return false
	}
	seen := map[ssa.Value]bool{}
	var walk func(v ssa.Value, blk *ssa.BasicBlock)
	walk = func(v ssa.Value, blk *ssa.BasicBlock) {
		if v == nil || seen[v] {
			return
		}
		seen[v] = true
		if knownNil(v) {
			add("nil", v.Pos())
			return
		}
		nonNil := knownNonNil(v)
		sub := map[string]token.Pos{}
		addSub := func(t string, p token.Pos) {
			if _, ok := sub[t]; !ok {
				sub[t] = p
			}
		}
		switch x := v.(type) {
		case *ssa.Const:
			if x.Value == nil {
				addSub("nil", token.NoPos)
			} else {
				addSub(typeStr(x.Type()), x.Pos())
			}
		case *ssa.MakeInterface:
			addSub(typeStr(x.X.Type()), x.Pos())
		case *ssa.ChangeInterface:
			walk(x.X, blk)
			return
		case *ssa.ChangeType:
			walk(x.X, blk)
			return
		case *ssa.Phi:
			for i, ed := range x.Edges {
				// facts on the incoming edge can refine nil-ness
				pred := x.Block().Preds[i]
				isNil, isNonNil := false, false
				for _, c := range CmpsOnEdge(Edge{pred, x.Block()}) {
					if (c.X == ed && IsNilConst(c.Y)) || (c.Y == ed && IsNilConst(c.X)) {
						if c.Op == token.EQL {
							isNil = true
						}
						if c.Op == token.NEQ {
							isNonNil = true
						}
					}
				}
				if isNil {
					addSub("nil", ed.Pos())
					continue
				}
				for t, p := range e.Value(ed, pred) {
					if t == "nil" && isNonNil {
						continue
					}
					addSub(t, p)
				}
			}
		case *ssa.UnOp:
			if x.Op == token.MUL {
				if al, ok := x.X.(*ssa.Alloc); ok {
					if sv := LastStoreBefore(x, al); sv != nil {
						walk(sv, blk)
						return
					}
					n := 0
					for _, r := range Referrers(al) {
						if st, ok := r.(*ssa.Store); ok && st.Addr == al {
							for t, p := range e.Value(st.Val, st.Block()) {
								addSub(t, p)
							}
							n++
						}
					}
					if n > 0 {
						break
					}
				}
			}
			addSub("unknown:load "+x.String(), x.Pos())
		case *ssa.Call:
			e.callTypes(x, 0, addSub)
		case *ssa.Extract:
			if call, ok := x.Tuple.(*ssa.Call); ok {
				e.callTypes(call, x.Index, addSub)
			} else if ta, ok := x.Tuple.(*ssa.TypeAssert); ok && x.Index == 0 {
				walk(ta.X, blk)
				return
			} else {
				addSub("unknown:"+x.String(), x.Pos())
			}
		case *ssa.TypeAssert:
			if types.IsInterface(x.AssertedType) {
				walk(x.X, blk)
				return
			}
			addSub(typeStr(x.AssertedType), x.Pos())
		case *ssa.Parameter:
			addSub("unknown:parameter "+x.Name(), x.Pos())
		default:
			addSub("unknown:"+v.String(), v.Pos())
		}
		for t, p := range sub {
			if t == "nil" && nonNil {
				continue
			}
			add(t, p)
		}
	}
	walk(v, at)
	return out
}

func (e *ETypes) callTypes(call *ssa.Call, idx int, add func(string, token.Pos)) {
	if bi, ok := call.Call.Value.(*ssa.Builtin); ok {
		add("unknown:builtin "+bi.Name(), call.Pos())
		return
	}
	var callees []*ssa.Function
	if f := StaticCallee(call); f != nil {
		callees = []*ssa.Function{f}
	} else if mv := MethodValueCallees(call); len(mv) > 0 {
		// a call through a method value chosen at run time (`h := p.A; if c { h = p.B }; h()`)
		callees = mv
	} else {
		node := e.P.CallGraph().Nodes[call.Parent()]
		if node != nil {
			for _, ed := range node.Out {
				if ed.Site == call && ed.Callee.Func != nil {
					callees = append(callees, ed.Callee.Func)
				}
			}
		}
	}
	if len(callees) == 0 {
		add("unknown:dynamic call "+call.String(), call.Pos())
		return
	}
	for _, f := range callees {
		if m := BoundMethod(f); m != nil {
			f = m // the synthetic wrapper of a method value: what it returns is what the method returns
		}
		if f.Pkg == nil || !strings.HasPrefix(f.Pkg.Pkg.Path(), ModPath) {
			// library function: summarise well-known constructors, otherwise unknown
			switch {
			case f.Pkg != nil && f.Pkg.Pkg.Path() == "errors" && f.Name() == "New":
				add("*errors.errorString", call.Pos())
			case f.Pkg != nil && f.Pkg.Pkg.Path() == "fmt" && f.Name() == "Errorf":
				add("*fmt.wrapError|*errors.errorString", call.Pos())
			default:
				add("unknown:library "+FnName(f), call.Pos())
			}
			continue
		}
		for t, p := range e.Result(f, idx) {
			if !p.IsValid() {
				p = call.Pos()
			}
			add(t, p)
		}
	}
}

// SortedTypes renders a type set.
func SortedTypes(m map[string]token.Pos) []string {
	var out []string
	for t := range m {
		out = append(out, t)
	}
	sort.Strings(out)
	return out
}
