package rules

import (
	"go/token"
	"go/types"
	"strings"

	"golang.org/x/tools/go/ssa"

	"nsqverif/an"
)

// Rules added after the ninth round of independently seeded changes (DESIGN.md §11.20).
func init() {
	for id, extra := range map[string]string{
		"C01": " (meta) every topic of the metadata document is started; (delete) a channel is deleted before it is unlinked from its topic.",
		"C03": " (handoff) a scan reads a message's owner before it hands the message on.",
		"C04": " (reqzero) only REQ 0 is requeued at once; (drain) a scan ends only when nothing more is due.",
		"C05": " (custody) REQ/TOUCH put the message back.",
		"C07": " (readers) buffered readers are made where a connection starts or is upgraded; (ownstack) a connection's reader/writer stack is made for it.",
		"C09": " (tlspromote) a client-auth policy implies tls-required in the options every gate reads; (typednil) no nil pointer is boxed into an error.",
		"C10": " (realaddr) the Real*Addr accessors never return nil.",
		"C11": " (tlspromote) as C09.",
		"C13": " (pubcounts) a connection's pub_counts list what it published.",
		"C14": " (lastupdate) only IDENTIFY and PING refresh a peer's last-update time.",
		"C15": " (typednil) as C09.",
		"C17": " (cidrparse) the CIDR the gate uses is the option as given; (tombstoneorder) tombstoning reaches the nsqlookupds before anything that can fail.",
		"C19": " (syncfatal) a failed fsync at close is fatal.",
		"C20": " (skipnil) nsq_to_http returns nil without publishing only when sampling skipped the message.",
	} {
		p := Props[id]
		p.Explanation += extra
		Props[id] = p
	}
	has := func(subs ...string) func(string) bool {
		return func(n string) bool {
			for _, s := range subs {
				if strings.Contains(n, s) {
					return true
				}
			}
			return false
		}
	}
	reg("C03.handoff", "PATH", "the timeout scan tells the owner (TimedOutMessage) before it re-queues the message: afterwards the message has a new owner (shared with C13.handoff)", 2, c13handoff)
	reg("C05.custody", "PATH", "REQ/TOUCH put the popped message back into a container on every path: a message in none is not flushed at exit (shared with C01.req)", 6, c01req)
	reg("C01.meta", "SHAPE+PATH", "LoadMetadata starts every topic it restores: a topic that is never started acknowledges publishes and delivers nothing (the LoadMetadata rows of C05.meta)", 1, only(c05meta, has("LoadMetadata")))
	reg("C01.delete", "PATH", "DeleteExistingChannel deletes the channel before it unlinks it: a subscriber arriving in between must not create a second channel over the same disk queue (the DeleteExistingChannel rows of C08.delete)", 1, only(c08delete, has("DeleteExistingChannel")))

	reg("C09.tlspromote", "SHAPE", "nsqd.New writes TLSRequired into the options when a client-auth policy is set", 1, c09tlspromote)
	reg("C11.tlspromote", "SHAPE", "nsqd.New writes TLSRequired into the options when a client-auth policy is set (shared with C09.tlspromote)", 1, c09tlspromote)
	reg("C04.reqzero", "GUARD", "RequeueMessage re-queues at once only under timeout == 0", 1, c04reqzero)
	reg("C04.drain", "PATH", "after re-queueing an entry the deadline scans peek again before they return", 2, c04drain)
	reg("C07.readers", "CALLS", "bufio readers and scanners over a connection are created only where the connection starts or is upgraded", 5, c07readers)
	reg("C09.readers", "CALLS", "no second buffered reader is stacked on a connection: what it reads ahead is lost to the command loop (shared with C07.readers)", 5, c07readers)
	reg("C07.ownstack", "ORIG", "clientV2.Reader/Writer/flateWriter are freshly constructed values", 6, c07ownstack)
	reg("C10.realaddr", "SHAPE", "RealTCPAddr/RealHTTPAddr/RealHTTPSAddr never return nil", 3, c10realaddr)
	reg("C13.pubcounts", "ORIG", "the counts in clientV2.Stats come from ranging over pubCounts", 1, c13pubcounts)
	reg("C14.lastupdate", "CALLS", "PeerInfo.lastUpdate is written by IDENTIFY and PING only", 1, c14lastupdate)
	reg("C15.typednil", "ORIG", "no possibly-nil pointer is converted to error in nsqlookupd", 1, typednil("nsqlookupd"))
	reg("C09.typednil", "ORIG", "no possibly-nil pointer is converted to error in nsqd and internal/protocol", 1, typednil("nsqd", "internal/protocol"))
	reg("C17.cidrparse", "ORIG", "net.ParseCIDR in nsqadmin is given the AllowConfigFromCIDR option itself, and nothing rewrites that option", 2, c17cidrparse)
	reg("C17.tombstoneorder", "PATH", "TombstoneNodeForTopic cannot return before it posted the tombstone to the nsqlookupds", 1, c17tombstoneorder)
	reg("C19.syncfatal", "PATH", "FileLogger.Close does not go on after a failed fsync", 1, c19syncfatal)
	reg("C20.skipnil", "PATH", "nsq_to_http HandleMessage answers nil before looking at its mode only on the sampling edge", 1, c20skipnil)
}

// ---- C09.tlspromote ------------------------------------------------------------------------------------------

func c09tlspromote(c *an.Ctx) {
	fn := c.Fn("nsqd", "New")
	if fn == nil {
		return
	}
	tlsF := c.P.Field("nsqd", "Options", "TLSRequired")
	polF := c.P.Field("nsqd", "Options", "TLSClientAuthPolicy")
	reqC := c.P.Const("nsqd", "TLSRequired")
	if tlsF == nil || polF == nil || reqC == nil {
		c.Anchor("nsqd.Options.TLSRequired/TLSClientAuthPolicy")
		return
	}
	want, _ := an.ConstInt(ssa.NewConst(reqC.Val(), reqC.Type()))
	good := false
	an.Instrs(fn, func(in ssa.Instruction) {
		st, ok := in.(*ssa.Store)
		if !ok {
			return
		}
		fa, ok := st.Addr.(*ssa.FieldAddr)
		if !ok || an.FieldOf(fa) != tlsF {
			return
		}
		k, isC := an.ConstInt(st.Val)
		if !isC || k != want {
			return
		}
		for _, f := range an.FactsAt(st.Block()) {
			if cmp, ok := f.AsCmp(); ok && cmp.Op == token.NEQ && isLoadOfField(cmp.X, polF) {
				good = true
			}
		}
	})
	c.Check(good, fn, "client-auth policy implies tls-required in the options", fn.Pos(), "", "nsqd.New no longer stores TLSRequired into Options.TLSRequired when --tls-client-auth-policy is set: the TCP gate (enforceTLSPolicy) and the HTTP gate read that option, so plain-text PUB/SUB are accepted on a daemon that demands client certificates")
}

// ---- C04.reqzero ---------------------------------------------------------------------------------------------

func c04reqzero(c *an.Ctx) {
	fn := c.Fn("nsqd", "(*Channel).RequeueMessage")
	put := c.Fn("nsqd", "(*Channel).put")
	if fn == nil || put == nil {
		return
	}
	n := 0
	for _, pc := range an.CallsTo(fn, put) {
		n++
		good := false
		for _, cmp := range an.CmpsAt(pc.Block()) {
			oc, ok := cmp.Oriented(func(v ssa.Value) bool { return isParam(an.Strip(v), fn, 3) })
			if !ok {
				continue
			}
			if k, isC := an.ConstInt(oc.Y); isC && k == 0 && (oc.Op == token.EQL || oc.Op == token.LEQ) {
				good = true
			}
		}
		c.Check(good, fn, "immediate requeue only for delay 0", pc.Pos(), "", "RequeueMessage puts the message straight back on the queue on an edge where the requested delay is not known to be 0: a REQ with a short delay is redelivered at once, before the delay the consumer asked for")
	}
	c.Check(n > 0, fn, "immediate requeue located", fn.Pos(), "", "RequeueMessage no longer calls Channel.put")
}

// ---- C04.drain -----------------------------------------------------------------------------------------------

func c04drain(c *an.Ctx) {
	put := c.Fn("nsqd", "(*Channel).put")
	if put == nil {
		return
	}
	for _, name := range []string{"(*Channel).processInFlightQueue", "(*Channel).processDeferredQueue"} {
		fn := c.Fn("nsqd", name)
		if fn == nil {
			continue
		}
		var puts []ssa.Instruction
		for _, pc := range an.CallsTo(fn, put) {
			puts = append(puts, pc.(ssa.Instruction))
		}
		if len(puts) == 0 {
			c.Und(fn, "scan drains what is due", fn.Pos(), "the scan does not re-queue through Channel.put")
			continue
		}
		isPeek := func(in ssa.Instruction, _ *an.PathState) bool {
			ci, ok := in.(ssa.CallInstruction)
			if !ok {
				return false
			}
			f := an.StaticCallee(ci)
			return f != nil && an.BaseName(f) == "PeekAndShift"
		}
		q := &an.PathQ{Fn: fn, StartAfter: puts, Sink: an.IsReturn, Cut: isPeek}
		w, f := q.Find()
		if f {
			c.Bad(fn, "scan drains what is due", puts[0].Pos(), "after re-queueing an entry the scan can return without looking at the heap again (a cap on the entries moved per call): the scan loop comes back at once only when a quarter of the sampled channels were dirty, so a backlog on one channel among many drains at one batch per scan interval", w)
		} else {
			c.OK(fn, "scan drains what is due", puts[0].Pos(), "")
		}
	}
}

// ---- C07.readers ---------------------------------------------------------------------------------------------

func c07readers(c *an.Ctx) {
	allowed := map[string]string{
		"nsqd.newClientV2":                      "the connection's reader",
		"(*nsqd.clientV2).UpgradeTLS":           "reader over the TLS connection",
		"(*nsqd.clientV2).UpgradeDeflate":       "reader over the deflate stream",
		"(*nsqd.clientV2).UpgradeSnappy":        "reader over the snappy stream",
		"(*nsqd.httpServer).doMPUB":             "line reader over the size-limited request body",
		"(*nsqlookupd.LookupProtocolV1).IOLoop": "the connection's reader",
	}
	n := 0
	for _, pkg := range []string{"nsqd", "nsqlookupd", "internal/protocol"} {
		for _, fn := range c.P.PkgFuncs(pkg) {
			for _, ci := range an.CallsIn(fn, func(ci ssa.CallInstruction) bool {
				return an.StdCallee(ci, "bufio", "NewReader") || an.StdCallee(ci, "bufio", "NewReaderSize") || an.StdCallee(ci, "bufio", "NewScanner")
			}) {
				n++
				owner := ownersOf(c, fn, 0)
				ok := true
				for _, o := range owner {
					if allowed[o] == "" {
						ok = false
					}
				}
				c.Check(ok, fn, "buffered reader made at a connection boundary", ci.Pos(), "", strings.Join(owner, ", ")+" puts a new buffered reader in front of a stream that already has one: whatever it reads ahead (the next pipelined command behind an MPUB body) is gone when it is dropped, and the command loop resumes in the middle of a later frame")
			}
		}
	}
	c.Check(n >= 5, nil, "reader constructions located", token.NoPos, "", "fewer than five bufio reader constructions found")
}

// ---- C07.ownstack --------------------------------------------------------------------------------------------

func c07ownstack(c *an.Ctx) {
	ctor := map[string]func(call *ssa.Call) bool{
		"Reader": func(call *ssa.Call) bool {
			return an.StdCallee(call, "bufio", "NewReaderSize") || an.StdCallee(call, "bufio", "NewReader")
		},
		"Writer": func(call *ssa.Call) bool {
			return an.StdCallee(call, "bufio", "NewWriterSize") || an.StdCallee(call, "bufio", "NewWriter")
		},
		"flateWriter": func(call *ssa.Call) bool { return an.StdCallee(call, "compress/flate", "NewWriter") },
	}
	n := 0
	for _, fn := range c.P.PkgFuncs("nsqd") {
		an.Instrs(fn, func(in ssa.Instruction) {
			st, ok := in.(*ssa.Store)
			if !ok {
				return
			}
			fa, ok := st.Addr.(*ssa.FieldAddr)
			if !ok {
				return
			}
			f := an.FieldOf(fa)
			isCtor, watched := ctor[an.FName(f)]
			if !watched || !fieldOfNamed(fa, "clientV2") {
				return
			}
			n++
			good := an.OriginsAll(st.Val, func(o ssa.Value) bool {
				if ex, ok := o.(*ssa.Extract); ok {
					o = ex.Tuple
				}
				call, ok := o.(*ssa.Call)
				return ok && isCtor(call)
			})
			c.Check(good, fn, "fresh "+f.Name(), st.Pos(), "", "clientV2."+f.Name()+" is set to a value that was not constructed here for this connection (taken from a pool, a free list, another client): its previous user may still write through it, and frames of one connection appear in another's stream")
		})
	}
	c.Check(n >= 6, nil, "reader/writer stores located", token.NoPos, "", "fewer than six stores to clientV2.Reader/Writer/flateWriter found")
}

func fieldOfNamed(fa *ssa.FieldAddr, typeName string) bool {
	t := fa.X.Type()
	if pt, ok := t.Underlying().(*types.Pointer); ok {
		t = pt.Elem()
	}
	nt, ok := t.(*types.Named)
	return ok && nt.Obj().Name() == typeName
}

// ---- C10.realaddr --------------------------------------------------------------------------------------------

func c10realaddr(c *an.Ctx) {
	for _, name := range []string{"RealTCPAddr", "RealHTTPAddr", "RealHTTPSAddr"} {
		fn := c.Fn("nsqd", "(*NSQD)."+name)
		if fn == nil {
			continue
		}
		good := true
		for _, rc := range returnCases(fn, 0) {
			if an.IsNilConst(rc.val) {
				good = false
			}
		}
		c.Check(good, fn, "never nil", fn.Pos(), "", name+" can return nil: ServeHTTP reads .Port of RealHTTPSAddr() for the 403 TLS_REQUIRED document before the router (and its panic handler) is reached, so with tls-required and no HTTPS listener every plain-text request kills its connection without an answer")
	}
}

// ---- C13.pubcounts -------------------------------------------------------------------------------------------

func c13pubcounts(c *an.Ctx) {
	fn := c.Fn("nsqd", "(*clientV2).Stats")
	if fn == nil {
		return
	}
	n, good := 0, true
	an.Instrs(fn, func(in ssa.Instruction) {
		st, ok := in.(*ssa.Store)
		if !ok {
			return
		}
		fa, ok := st.Addr.(*ssa.FieldAddr)
		if !ok || an.FName(an.FieldOf(fa)) != "Count" || !fieldOfNamed(fa, "PubCount") {
			return
		}
		n++
		if !an.OriginsAll(st.Val, func(o ssa.Value) bool {
			ex, ok := o.(*ssa.Extract)
			if !ok {
				return false
			}
			_, isNext := ex.Tuple.(*ssa.Next)
			return isNext
		}) {
			good = false
		}
	})
	c.Check(n > 0 && good, fn, "pub counts come from the map's entries", fn.Pos(), "", "clientV2.Stats builds a PubCount from something other than an entry of pubCounts (a lookup by the filter's topic name, say): a connection that never published to the topic is listed with a count of 0, which the text form reads as 'this is a producer' and prints instead of its consumer numbers")
}

// ---- C14.lastupdate ------------------------------------------------------------------------------------------

func c14lastupdate(c *an.Ctx) {
	f := c.P.Field("nsqlookupd", "PeerInfo", "lastUpdate")
	if f == nil {
		c.Anchor("nsqlookupd.PeerInfo.lastUpdate")
		return
	}
	allowed := []string{"(*nsqlookupd.LookupProtocolV1).IDENTIFY", "(*nsqlookupd.LookupProtocolV1).PING"}
	n := 0
	for _, fn := range c.P.PkgFuncs("nsqlookupd") {
		an.Instrs(fn, func(in ssa.Instruction) {
			var addr ssa.Value
			switch x := in.(type) {
			case *ssa.Store:
				addr = x.Addr
			case *ssa.Call:
				if an.StdCallee(x, "sync/atomic", "StoreInt64") || an.StdCallee(x, "sync/atomic", "SwapInt64") || an.StdCallee(x, "sync/atomic", "AddInt64") || an.StdCallee(x, "sync/atomic", "CompareAndSwapInt64") {
					addr = x.Call.Args[0]
				}
			}
			fa, ok := addr.(*ssa.FieldAddr)
			if !ok || an.FieldOf(fa) != f {
				return
			}
			if _, fresh := an.Strip(fa.X).(*ssa.Alloc); fresh {
				return // initialising a PeerInfo that is being built
			}
			n++
			owners := ownersOf(c, fn, 0)
			ok = true
			for _, o := range owners {
				if !contains(allowed, o) {
					ok = false
				}
			}
			c.Check(ok, fn, "lastUpdate written by IDENTIFY/PING", in.Pos(), "", strings.Join(owners, ", ")+" refreshes a peer's last-update time: only IDENTIFY and PING count as signs of life, so a peer that was hidden for inactivity reappears in /lookup and /nodes after a REGISTER or UNREGISTER without having pinged")
		})
	}
	c.Check(n >= 1, nil, "lastUpdate writers located", token.NoPos, "", "no writer of PeerInfo.lastUpdate found")
}

// ---- typednil ------------------------------------------------------------------------------------------------

// typednil: `var err error = f()` where f returns a concrete *T boxes a nil *T into a non-nil error. Every conversion of a
// pointer into an error-like interface must have a provably non-nil operand: an allocation, the address of something, or the
// result of a function of the repository none of whose returns is nil.
func typednil(pkgs ...string) func(*an.Ctx) {
	return func(c *an.Ctx) {
		n := 0
		var neverNil func(v ssa.Value, depth int) bool
		neverNil = func(v ssa.Value, depth int) bool {
			return an.OriginsAll(v, func(o ssa.Value) bool {
				switch x := o.(type) {
				case *ssa.Alloc, *ssa.FieldAddr, *ssa.IndexAddr, *ssa.Global, *ssa.MakeClosure:
					return true
				case *ssa.Const:
					return !x.IsNil()
				case *ssa.Call:
					f := an.StaticCallee(x)
					if f == nil || len(f.Blocks) == 0 || depth > 2 {
						return f != nil && len(f.Blocks) == 0 // library constructors: trusted
					}
					for _, rc := range returnCases(f, 0) {
						if an.IsNilConst(rc.val) || !neverNil(rc.val, depth+1) {
							return false
						}
					}
					return true
				case *ssa.Extract:
					return true // a tuple element: judged where it is produced
				case *ssa.Parameter, *ssa.FreeVar, *ssa.UnOp, *ssa.TypeAssert, *ssa.Lookup:
					return true // not a fresh nil: whatever it is was an error value or a field before
				}
				return true
			})
		}
		for _, pkg := range pkgs {
			for _, fn := range c.P.PkgFuncs(pkg) {
				an.Instrs(fn, func(in ssa.Instruction) {
					mi, ok := in.(*ssa.MakeInterface)
					if !ok {
						return
					}
					if _, isPtr := mi.X.Type().Underlying().(*types.Pointer); !isPtr {
						return
					}
					it, ok := mi.Type().Underlying().(*types.Interface)
					if !ok || it.NumMethods() == 0 {
						return
					}
					hasError := false
					for i := 0; i < it.NumMethods(); i++ {
						if it.Method(i).Name() == "Error" {
							hasError = true
						}
					}
					if !hasError {
						return
					}
					n++
					if !neverNil(mi.X, 0) {
						c.Bad(fn, "no nil pointer boxed into an error", mi.Pos(), an.FnName(fn)+" converts a pointer that can be nil into an error: the result compares unequal to nil, is returned as a failure, and the connection loop's err.(ChildErr).Parent() then dereferences the nil pointer on a goroutine without recover – one IDENTIFY with a valid optional field takes the daemon down", nil)
					}
				})
			}
		}
		c.Check(n >= 1, nil, "pointer-to-error conversions located", token.NoPos, "", "no conversion of a pointer to an error interface found")
	}
}

// ---- C17.cidrparse -------------------------------------------------------------------------------------------

func c17cidrparse(c *an.Ctx) {
	cidrF := c.P.Field("nsqadmin", "Options", "AllowConfigFromCIDR")
	if cidrF == nil {
		c.Anchor("nsqadmin.Options.AllowConfigFromCIDR")
		return
	}
	n := 0
	for _, fn := range c.P.PkgFuncs("nsqadmin") {
		an.Instrs(fn, func(in ssa.Instruction) {
			switch x := in.(type) {
			case *ssa.Call:
				if !an.StdCallee(x, "net", "ParseCIDR") {
					return
				}
				n++
				good := an.OriginsAll(x.Call.Args[0], func(o ssa.Value) bool { return isLoadOfField(o, cidrF) })
				c.Check(good, fn, "CIDR parsed as configured", x.Pos(), "", "the string given to net.ParseCIDR is not the AllowConfigFromCIDR option itself (something was appended or substituted): a completed prefix length that fits IPv4 (/32) opens a 2^96-address range for an IPv6 host")
			case *ssa.Store:
				if fa, ok := x.Addr.(*ssa.FieldAddr); ok && an.FieldOf(fa) == cidrF {
					if _, fresh := an.Strip(fa.X).(*ssa.Alloc); !fresh {
						c.Bad(fn, "CIDR option not rewritten", x.Pos(), an.FnName(fn)+" rewrites Options.AllowConfigFromCIDR", nil)
					}
				}
			}
		})
	}
	c.Check(n >= 2, nil, "CIDR parse sites located", token.NoPos, "", "fewer than two net.ParseCIDR sites found in nsqadmin")
}

// ---- C17.tombstoneorder --------------------------------------------------------------------------------------

func c17tombstoneorder(c *an.Ctx) {
	fn := c.Fn("internal/clusterinfo", "(*ClusterInfo).TombstoneNodeForTopic")
	post := c.Fn("internal/clusterinfo", "(*ClusterInfo).nsqlookupdPOST")
	if fn == nil || post == nil {
		return
	}
	q := &an.PathQ{Fn: fn, StartEntry: true, Sink: an.IsReturn, Cut: func(in ssa.Instruction, _ *an.PathState) bool { return isCallToOn(in, post, nil) }}
	w, f := q.Find()
	if f {
		c.Bad(fn, "lookupds are told first", fn.Pos(), "TombstoneNodeForTopic can return before it posted topic/tombstone to the nsqlookupds: a node is tombstoned because it is unhealthy, and if asking that node comes first its failure aborts the action – no nsqlookupd hides it", w)
	} else {
		c.OK(fn, "lookupds are told first", fn.Pos(), "")
	}
}

// ---- C19.syncfatal -------------------------------------------------------------------------------------------

func c19syncfatal(c *an.Ctx) {
	fn := c.Fn(toFile, "(*FileLogger).Close")
	if fn == nil {
		return
	}
	var fail []an.Edge
	for _, ci := range an.CallsIn(fn, func(ci ssa.CallInstruction) bool { return an.StdCallee(ci, "os", "(*File).Sync") }) {
		_, f := an.ErrEdges(ci.Value())
		fail = append(fail, f...)
	}
	if len(fail) == 0 {
		c.Bad(fn, "failed fsync is fatal", fn.Pos(), "FileLogger.Close does not test the result of out.Sync()", nil)
		return
	}
	q := &an.PathQ{Fn: fn, StartEdges: fail, Sink: func(in ssa.Instruction, _ *an.PathState) bool {
		if an.IsReturn(in, nil) {
			return true
		}
		return isStdCall(in, "os", "(*File).Close")
	}, Cut: func(in ssa.Instruction, _ *an.PathState) bool { return isStdCall(in, "os", "Exit") }}
	w, f := q.Find()
	if f {
		c.Bad(fn, "failed fsync is fatal", fn.Pos(), "after out.Sync() failed FileLogger.Close carries on: on rotation this fsync is the only one the pending records of the old file get – the router then syncs the new file and finishes the whole batch, including what never reached the disk", w)
	} else {
		c.OK(fn, "failed fsync is fatal", fn.Pos(), "")
	}
}

// ---- C20.skipnil ---------------------------------------------------------------------------------------------

func c20skipnil(c *an.Ctx) {
	fn := c.Fn("apps/nsq_to_http", "(*PublishHandler).HandleMessage")
	if fn == nil {
		return
	}
	modeF := c.P.Field("apps/nsq_to_http", "PublishHandler", "mode")
	readsMode := func(in ssa.Instruction, _ *an.PathState) bool {
		u, ok := in.(*ssa.UnOp)
		return ok && u.Op == token.MUL && modeF != nil && isLoadOfField(u, modeF)
	}
	sampled := func(e an.Edge, st *an.PathState) bool {
		for _, cmp := range st.CmpsOnEdge(e) {
			for _, v := range []ssa.Value{cmp.X, cmp.Y} {
				if call, ok := an.Strip(v).(*ssa.Call); ok && an.StdCallee(call, "math/rand", "Float64") {
					return true
				}
			}
		}
		return false
	}
	q := &an.PathQ{Fn: fn, StartEntry: true, Sink: sinkSuccessReturn, Cut: readsMode, CutEdge: sampled}
	w, f := q.Find()
	if f {
		c.Bad(fn, "nil without a publish only when sampled out", fn.Pos(), "HandleMessage can return nil before it has looked at its mode on an edge that is not the sampling skip: go-nsq finishes the message at the source although no destination was asked (a duplicate filter that remembers a failed attempt, say)", w)
	} else {
		c.OK(fn, "nil without a publish only when sampled out", fn.Pos(), "")
	}
}
