package rules

import (
	"go/token"
	"go/types"
	"regexp"
	"sort"
	"strings"

	"golang.org/x/tools/go/ssa"

	"nsqverif/an"
)

func init() {
	Props["C13"] = PropInfo{
		Explanation: "Decides where and when counters move and how they are reported, not the conservation law over histories: (writers) every counter is written by exactly the functions that implement its transition; " +
			"(pairing) each update sits on the success side of that transition with the right delta (publish counts after the put succeeded, including the partial MPUB failure arm; requeue/timeout counts after winning the pop; producer counts after the publish); " +
			"(mapping) every reported stats field is filled from the like-named source, the text and JSON renderings consume the same snapshot with fields under the right labels, and topic/channel filters select by exact key.",
		NotDecided:  "the conservation law itself over histories (sums of run-time values); negativity under the FIN-vs-Empty race (F8).",
		Assumptions: []string{"sync/atomic operations are atomic; len(map) under its mutex is a consistent count"},
	}
	reg("C13.writers", "CALLS", "who-may-write table for every message counter", 14, c13writers)
	reg("C13.callers", "CALLS", "who-may-call table: each counting function is called only from the transition it counts", 12, c13callers)
	reg("C13.pairing", "PATH", "counter updates happen on the success side of their transition, with the right delta", 9, c13pairing)
	reg("C13.mapping", "SHAPE", "stats fields are filled from the like-named sources; text and JSON share one snapshot; filters by exact key", 30, c13mapping)
}

// counterWriters returns the names of functions that write field f (atomic op, plain store, or map update through it).
func counterWriters(c *an.Ctx, f *types.Var) map[string]ssa.Instruction {
	out := map[string]ssa.Instruction{}
	for _, fn := range c.P.RepoFuncs() {
		an.Instrs(fn, func(in ssa.Instruction) {
			fa, ok := in.(*ssa.FieldAddr)
			if !ok || an.FieldOf(fa) != f {
				return
			}
			if _, fresh := an.Strip(fa.X).(*ssa.Alloc); fresh {
				return
			}
			for _, r := range an.Referrers(fa) {
				switch x := r.(type) {
				case *ssa.Store:
					if x.Addr == fa {
						out[an.FnName(fn)] = x
					}
				case *ssa.Call:
					if cf := an.StaticCallee(x); cf != nil && cf.Pkg != nil && cf.Pkg.Pkg.Path() == "sync/atomic" && !strings.HasPrefix(cf.Name(), "Load") {
						out[an.FnName(fn)] = x
					}
				case *ssa.UnOp:
					for _, rr := range an.Referrers(x) {
						if mu, ok := rr.(*ssa.MapUpdate); ok && mu.Map == x {
							out[an.FnName(fn)] = mu
						}
					}
				}
			}
		})
	}
	return out
}

func c13writers(c *an.Ctx) {
	table := []struct {
		typ, field string
		writers    []string
	}{
		{"Topic", "messageCount", []string{"(*nsqd.Topic).PutMessage", "(*nsqd.Topic).PutMessages"}},
		{"Topic", "messageBytes", []string{"(*nsqd.Topic).PutMessage", "(*nsqd.Topic).PutMessages"}},
		{"Channel", "messageCount", []string{"(*nsqd.Channel).PutMessage", "(*nsqd.Channel).PutMessageDeferred"}},
		{"Channel", "requeueCount", []string{"(*nsqd.Channel).RequeueMessage"}},
		{"Channel", "timeoutCount", []string{"(*nsqd.Channel).processInFlightQueue"}},
		{"Channel", "zoneLocalMsgCount", []string{"(*nsqd.protocolV2).messagePump"}},
		{"Channel", "regionLocalMsgCount", []string{"(*nsqd.protocolV2).messagePump"}},
		{"Channel", "globalMsgCount", []string{"(*nsqd.protocolV2).messagePump"}},
		{"clientV2", "InFlightCount", []string{"(*nsqd.clientV2).SendingMessage", "(*nsqd.clientV2).FinishedMessage", "(*nsqd.clientV2).RequeuedMessage", "(*nsqd.clientV2).TimedOutMessage", "(*nsqd.clientV2).Empty"}},
		{"clientV2", "MessageCount", []string{"(*nsqd.clientV2).SendingMessage"}},
		{"clientV2", "FinishCount", []string{"(*nsqd.clientV2).FinishedMessage"}},
		{"clientV2", "RequeueCount", []string{"(*nsqd.clientV2).RequeuedMessage"}},
		{"clientV2", "ReadyCount", []string{"(*nsqd.clientV2).SetReadyCount", "?(*nsqd.clientV2).StartClose"}}, // StartClose may write the 0 of CLS itself (C03.cls decides that it is 0)
		{"clientV2", "pubCounts", []string{"(*nsqd.clientV2).PublishedMessage"}},
	}
	for _, row := range table {
		f := c.P.Field("nsqd", row.typ, row.field)
		if f == nil {
			c.Anchor("nsqd." + row.typ + "." + row.field)
			continue
		}
		got := counterWriters(c, f)
		want := map[string]bool{}
		for i, w := range row.writers {
			if strings.HasPrefix(w, "?") { // optional writer
				w = w[1:]
				row.writers = append(append([]string{}, row.writers[:i]...), row.writers[i+1:]...)
			}
			want[w] = true
		}
		var names []string
		for n := range got {
			names = append(names, n)
		}
		sort.Strings(names)
		for _, n := range names {
			c.Check(want[n], c.P.Func("nsqd", strings.TrimPrefix(strings.Replace(n, "nsqd.", "", 1), "")), "writer of "+row.typ+"."+row.field+": "+n, got[n].Pos(), "",
				row.typ+"."+row.field+" is written by "+n+", which is not one of the transitions that counter stands for ("+strings.Join(row.writers, ", ")+")")
		}
		for _, w := range row.writers {
			if _, ok := got[w]; !ok {
				c.Bad(nil, "writer of "+row.typ+"."+row.field+": "+w, token.NoPos, w+" no longer updates "+row.typ+"."+row.field+": the transition is not counted", nil)
			}
		}
	}
}

// usersOf lists the repo functions that reference target: static calls, go/defer, method values, and interface
// invocations of a like-named method on an interface the receiver type implements.
func usersOf(c *an.Ctx, target *ssa.Function) map[string]ssa.Instruction {
	out := map[string]ssa.Instruction{}
	for f, in := range userFuncsOf(c, target) {
		out[an.FnName(f)] = in
	}
	return out
}

func userFuncsOf(c *an.Ctx, target *ssa.Function) map[*ssa.Function]ssa.Instruction {
	out := map[*ssa.Function]ssa.Instruction{}
	var recvT types.Type
	if target.Signature.Recv() != nil {
		recvT = target.Signature.Recv().Type()
	}
	for _, fn := range c.P.RepoFuncs() {
		if fn == target {
			continue
		}
		an.Instrs(fn, func(in ssa.Instruction) {
			for _, op := range in.Operands(nil) {
				if op == nil || *op == nil {
					continue
				}
				if f, ok := (*op).(*ssa.Function); ok && (f == target || f.Origin() == target) {
					out[fn] = in
				}
			}
			if ci, ok := in.(ssa.CallInstruction); ok && ci.Common().IsInvoke() && recvT != nil && ci.Common().Method.Name() == target.Name() {
				if dv := an.StaticCallee(ci); dv != nil {
					// the receiver was boxed in this function from one concrete type: the call is that type's method only
					if dv == target || dv.Origin() == target {
						out[fn] = in
					}
					return
				}
				if it, ok := ci.Common().Value.Type().Underlying().(*types.Interface); ok && types.Implements(recvT, it) {
					out[fn] = in
				}
			}
		})
	}
	return out
}

func c13callers(c *an.Ctx) {
	table := []struct {
		fn      string
		callers []string
		why     string
	}{
		{"(*Topic).PutMessage", []string{"(*nsqd.protocolV2).PUB", "(*nsqd.protocolV2).DPUB", "(*nsqd.httpServer).doPUB"}, "topic message_count/bytes count publishes"},
		{"(*Topic).PutMessages", []string{"(*nsqd.protocolV2).MPUB", "(*nsqd.httpServer).doMPUB"}, "topic message_count/bytes count publishes"},
		{"(*Channel).PutMessage", []string{"(*nsqd.Topic).messagePump"}, "a channel's message_count counts the messages arriving from its topic"},
		{"(*Channel).PutMessageDeferred", []string{"(*nsqd.Topic).messagePump"}, "a channel's message_count counts the messages arriving from its topic"},
		{"(*clientV2).SendingMessage", []string{"(*nsqd.protocolV2).messagePump"}, "in-flight/message counters move when a message is sent"},
		{"(*clientV2).FinishedMessage", []string{"(*nsqd.protocolV2).FIN"}, "finish counter moves on FIN"},
		{"(*clientV2).RequeuedMessage", []string{"(*nsqd.protocolV2).REQ"}, "requeue counter moves on REQ"},
		{"(*clientV2).TimedOutMessage", []string{"(*nsqd.Channel).processInFlightQueue"}, "in-flight decremented when the message times out"},
		{"(*clientV2).PublishedMessage", []string{"(*nsqd.protocolV2).PUB", "(*nsqd.protocolV2).MPUB", "(*nsqd.protocolV2).DPUB"}, "per-topic publish counts"},
	}
	// functions that are themselves a counted transition (or one of its legitimate callers) are never "forwarding helpers"
	transition := map[string]bool{"(*nsqd.Channel).RequeueMessage": true, "(*nsqd.Channel).TouchMessage": true, "(*nsqd.Channel).FinishMessage": true,
		"(*nsqd.Channel).processInFlightQueue": true, "(*nsqd.Channel).processDeferredQueue": true, "(*nsqd.Channel).StartInFlightTimeout": true, "(*nsqd.Channel).StartDeferredTimeout": true}
	for _, row := range table {
		transition["(*nsqd."+strings.TrimPrefix(row.fn, "(*")] = true
		for _, w := range row.callers {
			transition[w] = true
		}
	}
	for _, row := range table {
		target := c.Fn("nsqd", row.fn)
		if target == nil {
			continue
		}
		want := map[string]bool{}
		for _, w := range row.callers {
			want[w] = true
		}
		// roots: walk up through forwarding helpers (functions not in the table) to the functions that decide to count
		roots := map[string]ssa.Instruction{}
		seen := map[*ssa.Function]bool{}
		var up func(f *ssa.Function, at ssa.Instruction, depth int)
		up = func(f *ssa.Function, at ssa.Instruction, depth int) {
			n := an.FnName(f)
			if want[n] || transition[n] || depth >= 3 || seen[f] {
				roots[n] = at
				return
			}
			seen[f] = true
			us := userFuncsOf(c, f)
			if len(us) == 0 {
				if an.Baseline != nil && !baselineHas(f) {
					return // a new helper nothing calls (the copy the normaliser left behind after inlining it) counts nothing
				}
				roots[n] = at
				return
			}
			for u, in := range us {
				up(u, in, depth+1)
			}
		}
		for u, in := range userFuncsOf(c, target) {
			up(u, in, 0)
		}
		var names []string
		for n := range roots {
			names = append(names, n)
		}
		sort.Strings(names)
		for _, n := range names {
			c.Check(want[n], target, "caller of "+row.fn+": "+n, roots[n].Pos(), "",
				n+" calls "+row.fn+" (directly or through a forwarding helper), which counts a transition ("+row.why+") that "+n+" does not perform: the counter drifts from the state it summarises")
		}
		for _, w := range row.callers {
			if _, ok := roots[w]; !ok {
				c.Bad(target, "caller of "+row.fn+": "+w, target.Pos(), w+" no longer calls "+row.fn+": the transition is not counted", nil)
			}
		}
	}
}

// atomicAdd: in is atomic.AddUint64/AddInt64(&X.f, delta); returns base X and delta.
func atomicAdd(in ssa.Instruction, f *types.Var) (base, delta ssa.Value, ok bool) {
	call, isCall := in.(*ssa.Call)
	if !isCall || !(an.StdCallee(call, "sync/atomic", "AddUint64") || an.StdCallee(call, "sync/atomic", "AddInt64")) {
		return nil, nil, false
	}
	fa, isFA := call.Call.Args[0].(*ssa.FieldAddr)
	if !isFA || an.FieldOf(fa) != f {
		return nil, nil, false
	}
	return fa.X, call.Call.Args[1], true
}

func c13pairing(c *an.Ctx) {
	tCount := c.P.Field("nsqd", "Topic", "messageCount")
	tBytes := c.P.Field("nsqd", "Topic", "messageBytes")
	cCount := c.P.Field("nsqd", "Channel", "messageCount")
	bodyF := c.P.Field("nsqd", "Message", "Body")
	tput := c.Fn("nsqd", "(*Topic).put")
	cput := c.Fn("nsqd", "(*Channel).put")
	if tCount == nil || tBytes == nil || cCount == nil || tput == nil || cput == nil {
		return
	}
	afterSuccess := func(fn *ssa.Function, callee *ssa.Function, pred func(ssa.Instruction) bool) (onlyAfter, alwaysAfter bool) {
		var succ []an.Edge
		for _, pc := range an.CallsTo(fn, callee) {
			s, _ := an.ErrEdges(pc.Value())
			succ = append(succ, s...)
		}
		if len(succ) == 0 {
			return false, false
		}
		q := &an.PathQ{Fn: fn, StartEntry: true, Sink: func(in ssa.Instruction, _ *an.PathState) bool { return pred(in) },
			CutEdge: func(e an.Edge, _ *an.PathState) bool { return an.EdgeIn(e, succ) }}
		_, f := q.Find()
		q2 := &an.PathQ{Fn: fn, StartEdges: succ, Sink: sinkSuccessReturn, Cut: func(in ssa.Instruction, _ *an.PathState) bool { return pred(in) }}
		_, f2 := q2.Find()
		return !f, !f2
	}
	// Topic.PutMessage
	if fn := c.Fn("nsqd", "(*Topic).PutMessage"); fn != nil {
		only, always := afterSuccess(fn, tput, func(in ssa.Instruction) bool {
			_, d, ok := atomicAdd(in, tCount)
			if !ok {
				return false
			}
			k, isC := an.ConstInt(d)
			return isC && k == 1
		})
		c.Check(only && always, fn, "message_count += 1 exactly when the put succeeded", fn.Pos(), "", sprintf("topic message_count is not incremented by one exactly on the put-success path (only after success=%v, always after success=%v)", only, always))
		only, always = afterSuccess(fn, tput, func(in ssa.Instruction) bool {
			_, d, ok := atomicAdd(in, tBytes)
			if !ok {
				return false
			}
			a := lenArgOf(d)
			if a == nil {
				return false
			}
			f, base := an.LoadedField(an.Strip(a))
			return f == bodyF && isParam(base, fn, 1)
		})
		c.Check(only && always, fn, "message_bytes += len(body) exactly when the put succeeded", fn.Pos(), "", "topic message_bytes is not increased by len(m.Body) exactly on the put-success path")
	}
	// Topic.PutMessages: full count at the end, i on the failure arm
	if fn := c.Fn("nsqd", "(*Topic).PutMessages"); fn != nil {
		var fail []an.Edge
		for _, pc := range an.CallsTo(fn, tput) {
			_, f := an.ErrEdges(pc.Value())
			fail = append(fail, f...)
		}
		loops := an.NaturalLoops(fn)
		var il *an.IndexLoop
		for _, pc := range an.CallsTo(fn, tput) {
			if l := an.LoopContaining(loops, pc.Block()); l != nil {
				il, _ = an.AsIndexLoop(l)
			}
		}
		// The accepted deltas: len(msgs) is right once the loop is exhausted; the loop index is
		// right wherever it is read after the loop was entered (it counts the completed
		// iterations, and an iteration completes only through the success edge of put).
		// Both clauses are decided per path from the loop entry: every path that leaves the
		// loop by exhaustion passes an add of len(msgs) or the index before it returns, every
		// path that leaves it through a failed put passes an add of the index.
		fullOK, partialOK := false, false
		if il != nil {
			var entry []an.Edge
			for _, p := range il.Header.Preds {
				if !il.Blocks[p] {
					entry = append(entry, an.Edge{From: p, To: il.Header})
				}
			}
			isIdx := func(d ssa.Value) bool { return an.Strip(d) == an.Strip(il.Idx) }
			addOf := func(accept func(ssa.Value) bool) func(ssa.Instruction, *an.PathState) bool {
				return func(in ssa.Instruction, _ *an.PathState) bool {
					_, d, ok := atomicAdd(in, tCount)
					return ok && accept(d)
				}
			}
			isRet := func(in ssa.Instruction, _ *an.PathState) bool { _, ok := in.(*ssa.Return); return ok }
			nAdds := 0
			an.Instrs(fn, func(in ssa.Instruction) {
				if _, _, ok := atomicAdd(in, tCount); ok {
					nAdds++
				}
			})
			q := &an.PathQ{Fn: fn, StartEdges: entry, Sink: isRet,
				CutEdge: func(e an.Edge, _ *an.PathState) bool { return an.EdgeIn(e, fail) },
				Cut: addOf(func(d ssa.Value) bool {
					a := lenArgOf(d)
					return (a != nil && isParam(a, fn, 1)) || isIdx(d)
				})}
			_, f := q.Find()
			fullOK = !f && nAdds > 0 && len(entry) > 0
			q2 := &an.PathQ{Fn: fn, StartEdges: fail, Sink: isRet, Cut: addOf(isIdx)}
			_, f2 := q2.Find()
			partialOK = !f2 && len(fail) > 0
		}
		c.Check(fullOK, fn, "message_count += len(msgs) after the whole batch was put", fn.Pos(), "", "PutMessages does not add len(msgs) to message_count on the all-succeeded path")
		c.Check(partialOK, fn, "message_count += i when put #i failed", fn.Pos(), "", "PutMessages does not account for the i messages already queued when a later put fails")
	}
	// Channel.PutMessage
	if fn := c.Fn("nsqd", "(*Channel).PutMessage"); fn != nil {
		only, always := afterSuccess(fn, cput, func(in ssa.Instruction) bool {
			_, d, ok := atomicAdd(in, cCount)
			if !ok {
				return false
			}
			k, isC := an.ConstInt(d)
			return isC && k == 1
		})
		c.Check(only && always, fn, "channel message_count += 1 exactly when the put succeeded", fn.Pos(), "", sprintf("channel message_count is not incremented exactly on the put-success path (only=%v always=%v)", only, always))
	}
	if fn := c.Fn("nsqd", "(*Channel).PutMessageDeferred"); fn != nil {
		n := 0
		an.Instrs(fn, func(in ssa.Instruction) {
			if _, d, ok := atomicAdd(in, cCount); ok {
				if k, isC := an.ConstInt(d); isC && k == 1 {
					n++
				}
			}
		})
		c.Check(n == 1, fn, "deferred publish counted once", fn.Pos(), "", sprintf("PutMessageDeferred increments message_count %d times", n))
	}
	// requeue / timeout counts after pop success
	pop := c.Fn("nsqd", "(*Channel).popInFlightMessage")
	for _, spec := range []struct{ fn, field string }{{"(*Channel).RequeueMessage", "requeueCount"}, {"(*Channel).processInFlightQueue", "timeoutCount"}} {
		fn := c.Fn("nsqd", spec.fn)
		f := c.P.Field("nsqd", "Channel", spec.field)
		if fn == nil || f == nil || pop == nil {
			continue
		}
		var succ []an.Edge
		for _, pc := range an.CallsTo(fn, pop) {
			s, _ := an.ErrEdges(pc.Value())
			succ = append(succ, s...)
		}
		pred := func(in ssa.Instruction) bool {
			_, d, ok := atomicAdd(in, f)
			if !ok {
				return false
			}
			k, isC := an.ConstInt(d)
			return isC && k == 1
		}
		q := &an.PathQ{Fn: fn, StartEntry: true, Sink: func(in ssa.Instruction, _ *an.PathState) bool { return pred(in) },
			CutEdge: func(e an.Edge, _ *an.PathState) bool { return an.EdgeIn(e, succ) }}
		_, before := q.Find()
		loops := an.NaturalLoops(fn)
		var hdr *ssa.BasicBlock
		for _, pc := range an.CallsTo(fn, pop) {
			if l := an.LoopContaining(loops, pc.Block()); l != nil {
				hdr = l.Header
			}
		}
		q2 := &an.PathQ{Fn: fn, StartEdges: succ, Sink: an.IsReturn, SinkEdge: func(e an.Edge, _ *an.PathState) bool { return hdr != nil && e.To == hdr },
			Cut: func(in ssa.Instruction, _ *an.PathState) bool { return pred(in) }}
		_, missed := q2.Find()
		c.Check(!before && !missed && len(succ) > 0, fn, spec.field+" += 1 exactly when the pop was won", fn.Pos(), "", sprintf("%s is not incremented exactly once after a successful popInFlightMessage (counted without winning=%v, won without counting=%v)", spec.field, before, missed))
	}
	// producer counts
	pubd := c.Fn("nsqd", "(*clientV2).PublishedMessage")
	putM := c.P.Func("nsqd", "(*Topic).PutMessage")
	putMs := c.P.Func("nsqd", "(*Topic).PutMessages")
	for _, cmd := range []string{"PUB", "DPUB", "MPUB"} {
		fn := c.Fn("nsqd", "(*protocolV2)."+cmd)
		if fn == nil || pubd == nil {
			continue
		}
		var succ []an.Edge
		var msgsArg ssa.Value
		for _, pc := range an.CallsTo(fn, putM, putMs) {
			s, _ := an.ErrEdges(pc.Value())
			succ = append(succ, s...)
			msgsArg = arg(pc, 0)
		}
		pred := func(in ssa.Instruction) bool {
			if !isCallToOn(in, pubd, nil) {
				return false
			}
			ci := in.(ssa.CallInstruction)
			cnt := arg(ci, 1)
			if cmd == "MPUB" {
				a := lenArgOf(cnt)
				return a != nil && an.SameValue(a, msgsArg)
			}
			k, isC := an.ConstInt(cnt)
			return isC && k == 1
		}
		q := &an.PathQ{Fn: fn, StartEntry: true, Sink: func(in ssa.Instruction, _ *an.PathState) bool { return isCallToOn(in, pubd, nil) },
			CutEdge: func(e an.Edge, _ *an.PathState) bool { return an.EdgeIn(e, succ) }}
		_, before := q.Find()
		q2 := &an.PathQ{Fn: fn, StartEdges: succ, Sink: sinkSuccessReturn, Cut: func(in ssa.Instruction, _ *an.PathState) bool { return pred(in) }}
		_, missed := q2.Find()
		c.Check(!before && !missed && len(succ) > 0, fn, "producer count follows the publish", fn.Pos(), "", sprintf("%s does not add the number of published messages to the producer's per-topic count exactly after the put succeeded", cmd))
	}
}

var labelField = map[string]string{"depth": "Depth", "be-depth": "BackendDepth", "inflt": "InFlightCount", "def": "DeferredCount", "re-q": "RequeueCount",
	"timeout": "TimeoutCount", "msgs": "MessageCount", "e2e%": "E2eProcessingLatency", "rdy": "ReadyCount", "fin": "FinishCount", "state": "State"}

var fmtLabelRe = regexp.MustCompile(`([a-zA-Z0-9%-]+):\s*%[-0-9]*[a-z]`)

func c13mapping(c *an.Ctx) {
	// constructors
	type src struct {
		kind string // atomic | len | call | param | field
		name string
	}
	checkCtor := func(fnName, structName, recvType string, table map[string]src) {
		fn := c.Fn("nsqd", fnName)
		st := c.P.Named("nsqd", structName)
		if fn == nil || st == nil {
			return
		}
		stt := st.Underlying().(*types.Struct)
		stored := map[string]ssa.Value{}
		an.Instrs(fn, func(in ssa.Instruction) {
			s, ok := in.(*ssa.Store)
			if !ok {
				return
			}
			fa, ok := s.Addr.(*ssa.FieldAddr)
			if !ok {
				return
			}
			pt, ok := fa.X.Type().Underlying().(*types.Pointer)
			if !ok || !types.Identical(pt.Elem(), st) {
				return
			}
			stored[an.FName(an.FieldOf(fa))] = s.Val
		})
		for i := 0; i < stt.NumFields(); i++ {
			f := stt.Field(i)
			want, ok := table[an.FName(f)]
			if !ok {
				continue
			}
			v, has := stored[an.FName(f)]
			good := false
			if has {
				v = an.Strip(v)
				switch want.kind {
				case "atomic":
					good = atomicLoadOf(v, c.P.Field("nsqd", recvType, want.name))
				case "len":
					// a local that was assigned len(recv.<name>)
					good = an.OriginsAll(v, func(o ssa.Value) bool {
						a := lenArgOf(o)
						return a != nil && isLoadOfField(a, c.P.Field("nsqd", recvType, want.name))
					})
				case "call":
					if call, ok := v.(*ssa.Call); ok {
						if cf := an.StaticCallee(call); cf != nil && an.BaseName(cf) == want.name {
							good = true
						}
						if m := an.InvokeMethod(call); m != nil && m.Name() == want.name {
							good = true
						}
					}
				case "backendDepth":
					if call, ok := v.(*ssa.Call); ok && an.IsInvokeOf(call, "BackendQueue", "Depth") {
						good = true
					}
				case "param":
					if p, ok := v.(*ssa.Parameter); ok && p.Name() == want.name {
						good = true
					}
				case "field":
					good = isLoadOfField(v, c.P.Field("nsqd", recvType, want.name))
				}
			}
			c.Check(good, fn, structName+"."+f.Name()+" <- "+want.kind+" "+want.name, fn.Pos(), "", sprintf("%s.%s is not filled from %s %s: /stats reports the wrong number under that name", structName, f.Name(), want.kind, want.name))
		}
	}
	checkCtor("NewChannelStats", "ChannelStats", "Channel", map[string]src{
		"ChannelName": {"field", "name"}, "Depth": {"call", "Depth"}, "BackendDepth": {"backendDepth", ""}, "InFlightCount": {"len", "inFlightMessages"}, "DeferredCount": {"len", "deferredMessages"},
		"MessageCount": {"atomic", "messageCount"}, "ZoneLocalMsgCount": {"atomic", "zoneLocalMsgCount"}, "RegionLocalMsgCount": {"atomic", "regionLocalMsgCount"}, "GlobalMsgCount": {"atomic", "globalMsgCount"},
		"RequeueCount": {"atomic", "requeueCount"}, "TimeoutCount": {"atomic", "timeoutCount"}, "ClientCount": {"param", "clientCount"}, "Clients": {"param", "clients"}, "Paused": {"call", "IsPaused"},
	})
	checkCtor("NewTopicStats", "TopicStats", "Topic", map[string]src{
		"TopicName": {"field", "name"}, "Channels": {"param", "channels"}, "Depth": {"call", "Depth"}, "BackendDepth": {"backendDepth", ""},
		"MessageCount": {"atomic", "messageCount"}, "MessageBytes": {"atomic", "messageBytes"}, "Paused": {"call", "IsPaused"},
	})
	checkCtor("(*clientV2).Stats", "ClientV2Stats", "clientV2", map[string]src{
		"ReadyCount": {"atomic", "ReadyCount"}, "InFlightCount": {"atomic", "InFlightCount"}, "MessageCount": {"atomic", "MessageCount"}, "FinishCount": {"atomic", "FinishCount"}, "RequeueCount": {"atomic", "RequeueCount"},
		"ZoneLocalMsgCount": {"atomic", "ZoneLocalMsgCount"}, "RegionLocalMsgCount": {"atomic", "RegionLocalMsgCount"}, "GlobalMsgCount": {"atomic", "GlobalMsgCount"}, "State": {"atomic", "State"},
	})
	// Depth = memory queues + backend depth
	for _, spec := range []struct {
		typ   string
		chans []string
	}{{"Channel", []string{"memoryMsgChan", "zoneLocalMsgChan", "regionLocalMsgChan"}}, {"Topic", []string{"memoryMsgChan"}}} {
		fn := c.Fn("nsqd", "(*"+spec.typ+").Depth")
		if fn == nil {
			continue
		}
		seen := map[string]bool{}
		backend := false
		an.Instrs(fn, func(in ssa.Instruction) {
			if call, ok := in.(*ssa.Call); ok {
				if a := lenArgOf(call); a != nil {
					if f, _ := an.LoadedField(an.Strip(a)); f != nil {
						seen[an.FName(f)] = true
					}
				}
				if an.IsInvokeOf(call, "BackendQueue", "Depth") {
					backend = true
				}
			}
		})
		good := backend
		for _, ch := range spec.chans {
			if !seen[ch] {
				good = false
			}
		}
		c.Check(good, fn, "depth = memory queues + backend", fn.Pos(), "", spec.typ+".Depth does not sum every memory queue and the backend depth")
	}
	// doStats: text and JSON from the same snapshot
	if fn := c.Fn("nsqd", "(*httpServer).doStats"); fn != nil {
		getStats := c.P.Func("nsqd", "(*NSQD).GetStats")
		printStats := c.P.Func("nsqd", "(*httpServer).printStats")
		calls := an.CallsTo(fn, getStats)
		c.Check(len(calls) == 1, fn, "one stats snapshot per request", fn.Pos(), "", sprintf("doStats takes %d snapshots: text and JSON can disagree", len(calls)))
		if len(calls) == 1 && printStats != nil {
			snap := calls[0].Value()
			textOK := false
			for _, pc := range an.CallsTo(fn, printStats) {
				if an.OriginsAll(arg(pc, 0), func(o ssa.Value) bool { return o == snap }) {
					textOK = true
				}
			}
			c.Check(textOK, fn, "text rendering uses the snapshot", fn.Pos(), "", "printStats is not given the GetStats snapshot")
			// JSON: stores into the anonymous struct of fields Topics / Producers come from snap
			okTopics, okProd := false, false
			an.Instrs(fn, func(in ssa.Instruction) {
				s, ok := in.(*ssa.Store)
				if !ok {
					return
				}
				fa, ok := s.Addr.(*ssa.FieldAddr)
				if !ok {
					return
				}
				name := an.FName(an.FieldOf(fa))
				if name != "Topics" && name != "Producers" {
					return
				}
				fromSnap := false
				switch v := an.Strip(s.Val).(type) {
				case *ssa.Field:
					fromSnap = v.X == snap && an.FName(an.FieldOf(v)) == name
				case *ssa.UnOp:
					if f, base := an.LoadedField(v); f != nil && an.FName(f) == name {
						fromSnap = an.OriginsAll(base, func(o ssa.Value) bool { return o == snap }) || baseIsAllocOf(base, snap)
					}
				}
				if fromSnap && name == "Topics" {
					okTopics = true
				}
				if fromSnap && name == "Producers" {
					okProd = true
				}
			})
			c.Check(okTopics && okProd, fn, "JSON rendering uses the snapshot", fn.Pos(), "", "the JSON /stats document is not built from the same GetStats snapshot (Topics, Producers)")
			// filters forwarded
			c.Check(filterArgs(calls[0]), fn, "topic/channel filters forwarded", calls[0].Pos(), "", "doStats does not forward the topic and channel query arguments (in that order) to GetStats")
		}
	}
	// GetStats: exact-key selection
	if fn := c.Fn("nsqd", "(*NSQD).GetStats"); fn != nil {
		tm := c.P.Field("nsqd", "NSQD", "topicMap")
		cm := c.P.Field("nsqd", "Topic", "channelMap")
		okT, okC := false, false
		an.Instrs(fn, func(in ssa.Instruction) {
			l, ok := in.(*ssa.Lookup)
			if !ok {
				return
			}
			if isLoadOfField(l.X, tm) && isParam(l.Index, fn, 1) {
				okT = true
			}
			if isLoadOfField(l.X, cm) && isParam(l.Index, fn, 2) {
				okC = true
			}
		})
		c.Check(okT && okC, fn, "filters select by exact key", fn.Pos(), "", "GetStats does not select the filtered topic/channel by map lookup on the given name")
	}
	// printStats: values under the right labels
	if fn := c.Fn("nsqd", "(*httpServer).printStats"); fn != nil {
		n := 0
		an.Instrs(fn, func(in ssa.Instruction) {
			call, ok := in.(*ssa.Call)
			if !ok || !an.StdCallee(call, "fmt", "Fprintf") {
				return
			}
			format, ok := an.ConstString(call.Call.Args[1])
			if !ok {
				return
			}
			ms := fmtLabelRe.FindAllStringSubmatch(format, -1)
			if len(ms) < 3 {
				return
			}
			// positional args: collect in index order
			args := varargsInOrder(call.Call.Args[2])
			// the labelled verbs are the last len(ms) verbs of the format; count verbs before the first label
			first := strings.Index(format, ms[0][0])
			skip := strings.Count(strings.ReplaceAll(format[:first], "%%", ""), "%")
			for i, m := range ms {
				want, known := labelField[m[1]]
				if !known || skip+i >= len(args) {
					continue
				}
				n++
				got := ""
				switch v := an.Strip(args[skip+i]).(type) {
				case *ssa.Field:
					got = an.FName(an.FieldOf(v))
				case *ssa.UnOp:
					if f, _ := an.LoadedField(v); f != nil {
						got = an.FName(f)
					}
				}
				c.Check(got == want, fn, "text stats label "+m[1]+" shows "+want, call.Pos(), "", sprintf("the text /stats prints field %q under the label %q (expected %s): text and JSON report different numbers", got, m[1], want))
			}
		})
		if n == 0 {
			c.Und(fn, "text stats labels", fn.Pos(), "no labelled Fprintf found in printStats")
		}
	}
}

func baseIsAllocOf(base ssa.Value, snap ssa.Value) bool {
	al, ok := an.Strip(base).(*ssa.Alloc)
	if !ok {
		return false
	}
	for _, r := range an.Referrers(al) {
		if st, ok := r.(*ssa.Store); ok && st.Addr == al && st.Val == snap {
			return true
		}
	}
	return false
}

func filterArgs(gc ssa.CallInstruction) bool {
	isGet := func(v ssa.Value, key string) bool {
		return an.OriginsAll(v, func(o ssa.Value) bool {
			ex, ok := o.(*ssa.Extract)
			if !ok {
				return false
			}
			call, ok := ex.Tuple.(*ssa.Call)
			if !ok {
				return false
			}
			cf := an.StaticCallee(call)
			if cf == nil || cf.Name() != "Get" {
				return false
			}
			s, ok := an.ConstString(call.Call.Args[len(call.Call.Args)-1])
			return ok && s == key
		})
	}
	return isGet(arg(gc, 0), "topic") && isGet(arg(gc, 1), "channel")
}

// varargsInOrder returns the elements stored into a variadic slice's backing array, by index.
func varargsInOrder(sl ssa.Value) []ssa.Value {
	s, ok := sl.(*ssa.Slice)
	if !ok {
		return nil
	}
	al, ok := s.X.(*ssa.Alloc)
	if !ok {
		return nil
	}
	m := map[int64]ssa.Value{}
	max := int64(-1)
	for _, r := range an.Referrers(al) {
		ia, ok := r.(*ssa.IndexAddr)
		if !ok {
			continue
		}
		k, _ := an.ConstInt(ia.Index)
		for _, rr := range an.Referrers(ia) {
			if st, ok := rr.(*ssa.Store); ok && st.Addr == ia {
				m[k] = st.Val
				if k > max {
					max = k
				}
			}
		}
	}
	out := make([]ssa.Value, max+1)
	for k, v := range m {
		out[k] = v
	}
	return out
}
