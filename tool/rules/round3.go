package rules

import (
	"go/token"
	"go/types"
	"os"
	"path/filepath"
	"reflect"
	"regexp"
	"strings"

	"golang.org/x/tools/go/ssa"

	"nsqverif/an"
)

// Rules added after the third round of independently seeded changes (DESIGN.md §11.8). As before, each arms a clause
// the property states and no earlier rule covered, and each is a necessary condition of the behaviour.
func init() {
	for id, extra := range map[string]string{
		"C01": " Also: (scanset) the queue scanner replaces its channel list on every refresh tick; (codec) the disk queue accepts every record the daemon accepts.",
		"C02": " Also: (heapsync) a message popped from the in-flight map is taken off the deadline heap before FIN/REQ/TOUCH return.",
		"C04": " Also: (negotiated) delivery and TOUCH deadlines come from the connection's negotiated msg_timeout; (scan) both deadline scans run on every pass.",
		"C05": " Also: (complete) GetMetadata leaves out an entry only because it is ephemeral.",
		"C06": " Also: (complete) as C05.complete; (exit) the data-path lock is released after every writer stopped.",
		"C07": " Also: (text) text-mode /mpub bodies lose at most the one trailing delimiter; (scratch) the length scratch buffer given to readMPUB is private to the request/connection.",
		"C08": " Also: (addclient) the consumer list changes only under exitMutex.",
		"C09": " Also: (accept) temporary Accept failures are retried and only a closed listener ends the accept loop quietly.",
		"C10": " Also: (namerule) the shared name predicate; (scratch) per-request scratch buffer for binary /mpub.",
		"C11": " Also: (config) every documented config-file key of nsqd is read by an option.",
		"C13": " Also: (custody, heapsync) REQ/TOUCH keep the message in exactly one container and the map and heap in step.",
		"C15": " Also: (namerule) the shared name predicate; (balanced) no function returns holding a lock it took.",
		"C16": " Also: (balanced) no clusterinfo/nsqlookupd function returns holding a lock it took (a leaked fan-in mutex hangs GetTopic).",
		"C17": " Also: (merge) merge loops over upstream answers visit every element; (config) every documented config-file key (admin_users …) is read by an option.",
		"C18": " Also: (merge) as C17.merge; (balanced) lock balance; (fresh) aggregates append maps they allocated themselves.",
		"C19": " Also: (handle) HandleMessage disables the automatic answer and hands the message to the router on every path.",
		"C20": " Also: (body) a request body reader is built per attempt (no resend from a drained buffer).",
	} {
		p := Props[id]
		p.Explanation += extra
		Props[id] = p
	}
	// clauses another property already decided, armed under the property that states them too
	reg("C01.scanset", "PATH", "every channel is (re)discovered by the queue scanner, or its timed-out and deferred messages are never put back (shared with C04.scanset)", 3, c04scanset)
	reg("C01.codec", "SHAPE", "a message that overflows to disk comes back as the same message, and the disk queue accepts every message the daemon accepts (shared with C07.codec)", 8, c07codec)
	reg("C04.scan", "PATH+SHAPE", "both deadline scans run for every selected channel on every pass (shared with C01.scan)", 4, c01scan)
	reg("C06.exit", "PATH", "the data-path lock is released only after everything that writes into the data path has stopped (shared with C05.exit)", 1, c05exit)
	reg("C10.namerule", "GUARD", "the name predicate behind every HTTP endpoint: 1..64 characters matching the name regex (the isValidName obligations of C09.limits)", 1,
		only(c09limits, func(n string) bool { return strings.Contains(n, "internal/protocol") }))
	reg("C15.namerule", "GUARD", "the name predicate behind REGISTER/UNREGISTER and the HTTP endpoints of nsqlookupd (the isValidName obligations of C09.limits)", 1,
		only(c09limits, func(n string) bool { return strings.Contains(n, "internal/protocol") }))
	reg("C13.custody", "PATH", "REQ/TOUCH leave the message in exactly one container, or depth + in-flight + deferred no longer add up (shared with C01.req)", 4, c01req)

	reg("C05.complete", "PATH", "GetMetadata records every durable topic and channel of the registry: an entry is skipped only because it is ephemeral", 2, c05complete)
	reg("C06.complete", "PATH", "the persisted document lists every durable topic and channel (shared with C05.complete)", 2, c05complete)
	reg("C02.heapsync", "PATH", "a message taken out of the in-flight map is also taken off the deadline heap before FIN/REQ/TOUCH return", 3, c02heapsync)
	reg("C13.heapsync", "PATH", "in-flight map and deadline heap stay in step (shared with C02.heapsync)", 3, c02heapsync)
	reg("C04.negotiated", "ORIG", "deadlines are computed from the connection's negotiated msg_timeout, at delivery and at TOUCH", 2, c04negotiated)
	reg("C08.addclient", "LOCK", "AddClient/RemoveClient change the consumer list only while holding exitMutex, so exit() sees every consumer it must close", 1, c08addclient)
	reg("C09.accept", "PATH", "a temporary Accept failure (EMFILE, ENFILE, ECONNABORTED) is retried; only a closed listener ends the accept loop without an error", 2, c09accept)
	reg("C10.scratch", "ORIG", "the length scratch buffer handed to readMPUB belongs to one request / one connection", 2, c10scratch)
	reg("C07.scratch", "ORIG", "the length scratch buffer handed to readMPUB belongs to one request / one connection (shared with C10.scratch)", 2, c10scratch)
	reg("C07.text", "ORIG", "text-mode /mpub bodies are the bytes of the line: read with the delimiter, at most the one trailing delimiter removed", 1, c07text)
	reg("C16.balanced", "LOCK", "no function between nsqd and nsqlookupd returns holding a lock it took", 10, balancedIn("internal/clusterinfo", "nsqlookupd"))
	reg("C18.balanced", "LOCK", "no clusterinfo / nsqadmin function returns holding a lock it took", 8, balancedIn("internal/clusterinfo", "nsqadmin"))
	reg("C15.balanced", "LOCK", "no nsqlookupd function returns holding a lock it took", 5, balancedIn("nsqlookupd"))
	reg("C17.merge", "SHAPE", "a merge loop over an upstream answer visits every element (admin actions reach every producer)", 3, c18merge)
	reg("C18.merge", "SHAPE", "a merge loop over an upstream answer visits every element", 3, c18merge)
	reg("C17.config", "SHAPE", "every key of the example configuration file is read by an option of the program (admin_users, acl_http_header …)", 5, configKeys("nsqadmin", "nsqadmin.cfg.example"))
	reg("C11.config", "SHAPE", "every key of the example configuration file is read by an option of the program (tls_*, auth_http_address …)", 20, configKeys("nsqd", "nsqd.cfg.example"))
	reg("C18.fresh", "ORIG", "aggregates own their data: a map appended to an aggregate is allocated by the aggregate, never the node's own map", 1, c18fresh)
	reg("C19.handle", "PATH", "HandleMessage never lets go-nsq answer for it: every return follows DisableAutoResponse and the hand-off to the router", 1, c19handle)
	reg("C20.body", "PATH+ORIG", "a request body reader is built for each attempt: no request is sent twice from the same, already drained buffer", 1, c20body)
}

// ---- C05.complete --------------------------------------------------------------------------------------------

func c05complete(c *an.Ctx) {
	get := c.Fn("nsqd", "(*NSQD).GetMetadata")
	if get == nil {
		return
	}
	for _, spec := range []struct{ ownerT, mapF, elemT, what string }{
		{"NSQD", "topicMap", "Topic", "topic"}, {"Topic", "channelMap", "Channel", "channel"},
	} {
		mapF := c.P.Field("nsqd", spec.ownerT, spec.mapF)
		nameF := c.P.Field("nsqd", spec.elemT, "name")
		ephF := c.P.Field("nsqd", spec.elemT, "ephemeral")
		if mapF == nil || nameF == nil || ephF == nil {
			c.Anchor("nsqd." + spec.ownerT + "." + spec.mapF)
			continue
		}
		loops := mapRangeLoops(get, mapF)
		if len(loops) == 0 {
			c.Bad(get, "every durable "+spec.what+" recorded", get.Pos(), "GetMetadata does not range over "+spec.ownerT+"."+spec.mapF, nil)
			continue
		}
		for _, il := range loops {
			onlyEx, _ := il.OnlyExhaustionExit()
			isRecord := func(in ssa.Instruction, _ *an.PathState) bool {
				st, ok := in.(*ssa.Store)
				if !ok {
					return false
				}
				f, _ := an.LoadedField(st.Val)
				return f == nameF
			}
			q := &an.PathQ{Fn: get, StartEdges: []an.Edge{{From: il.Header, To: il.Body}},
				SinkEdge: func(e an.Edge, _ *an.PathState) bool { return e.To == il.Header },
				Cut:      isRecord,
				CutEdge: func(e an.Edge, st *an.PathState) bool {
					for _, f := range st.FactsOnEdge(e) {
						if fv, _ := an.LoadedField(f.V); fv == ephF && f.True {
							return true // the entry is ephemeral: leaving it out is the property
						}
					}
					return false
				}}
			w, f := q.Find()
			if !onlyEx {
				c.Bad(get, "every durable "+spec.what+" recorded", il.Iter.Pos(), "the loop over "+spec.mapF+" can stop before the last entry", nil)
			} else if f {
				c.Bad(get, "every durable "+spec.what+" recorded", il.Iter.Pos(), "a "+spec.what+" that is not ephemeral can be left out of the metadata document (skipped for another reason, e.g. because it is exiting): a persist that runs at that moment makes it vanish at the next start", w)
			} else {
				c.OK(get, "every durable "+spec.what+" recorded", il.Iter.Pos(), "")
			}
		}
	}
}

// ---- C02.heapsync ----------------------------------------------------------------------------------------------

func c02heapsync(c *an.Ctx) {
	pop := c.Fn("nsqd", "(*Channel).popInFlightMessage")
	pqF := c.P.Field("nsqd", "Channel", "inFlightPQ")
	rem := c.P.Func("nsqd", "(*inFlightPqueue).Remove")
	if pop == nil || pqF == nil || rem == nil {
		if rem == nil {
			c.Anchor("nsqd.(*inFlightPqueue).Remove")
		}
		return
	}
	// "taken off the heap": inFlightPQ.Remove on the field, or any helper doing that on every path
	unheap := newEffect(c, "nsqd", func(in ssa.Instruction) (bool, ssa.Value) {
		call, ok := in.(*ssa.Call)
		if ok && an.IsCallTo(call, rem) && len(call.Call.Args) >= 1 && fieldAddrOf(call.Call.Args[0], pqF) {
			return true, nil
		}
		return false, nil
	})
	// helpers like removeFromInFlightPQ remove only under a validity guard (index still points at the message): count a
	// function as "unheaps" when a Remove site exists in it and it is reachable on the non-stale path. The effect closure
	// above demands every path, which the stale-index early return defeats; accept the guarded form explicitly.
	guarded := map[*ssa.Function]bool{}
	for _, s := range unheap.sites {
		guarded[s.Parent()] = true
	}
	is := func(in ssa.Instruction, _ *an.PathState) bool {
		if unheap.is(in) {
			return true
		}
		if ci, ok := in.(ssa.CallInstruction); ok {
			if _, isGo := in.(*ssa.Go); !isGo {
				if f := an.StaticCallee(ci); f != nil && guarded[f] {
					return true
				}
			}
		}
		return false
	}
	for _, name := range []string{"(*Channel).FinishMessage", "(*Channel).RequeueMessage", "(*Channel).TouchMessage"} {
		fn := c.Fn("nsqd", name)
		if fn == nil {
			continue
		}
		var succ []an.Edge
		for _, pc := range an.CallsTo(fn, pop) {
			s, _ := an.ErrEdges(pc.Value())
			succ = append(succ, s...)
		}
		if len(succ) == 0 {
			c.Und(fn, "popped message leaves the deadline heap", fn.Pos(), "no checked popInFlightMessage call")
			continue
		}
		q := &an.PathQ{Fn: fn, StartEdges: succ, Sink: an.IsReturn, Cut: is}
		w, f := q.Find()
		if f {
			c.Bad(fn, "popped message leaves the deadline heap", fn.Pos(), "after the message left the in-flight map a return is reachable with its entry still on the deadline heap: when the same message object is in flight again (same connection) the stale entry times it out early, and the heap slot index of the live entry is wrong", w)
		} else {
			c.OK(fn, "popped message leaves the deadline heap", fn.Pos(), "")
		}
	}
}

// ---- C04.negotiated ------------------------------------------------------------------------------------------

func c04negotiated(c *an.Ctx) {
	clientMT := c.P.Field("nsqd", "clientV2", "MsgTimeout")
	identMT := c.P.Field("nsqd", "identifyEvent", "MsgTimeout")
	if clientMT == nil {
		c.Anchor("nsqd.clientV2.MsgTimeout")
		return
	}
	fromNegotiated := func(v ssa.Value) (bool, string) {
		bad := ""
		ok := an.OriginsAll(v, func(o ssa.Value) bool {
			f, _ := an.LoadedField(o)
			if f != nil && (f == clientMT || (identMT != nil && f == identMT)) {
				return true
			}
			if fl, isF := o.(*ssa.Field); isF && (an.FieldOf(fl) == clientMT || (identMT != nil && an.FieldOf(fl) == identMT)) {
				return true
			}
			bad = o.String()
			return false
		})
		return ok, bad
	}
	for _, spec := range []struct {
		fn, callee string
		argi       int
		what       string
	}{
		{"(*protocolV2).TOUCH", "(*Channel).TouchMessage", 2, "TOUCH restarts the negotiated timeout"},
		{"(*protocolV2).messagePump", "(*Channel).StartInFlightTimeout", 2, "delivery arms the negotiated timeout"},
	} {
		fn := c.Fn("nsqd", spec.fn)
		callee := c.Fn("nsqd", spec.callee)
		if fn == nil || callee == nil {
			continue
		}
		calls := an.CallsTo(fn, callee)
		if len(calls) == 0 {
			c.Und(fn, spec.what, fn.Pos(), "no call of "+spec.callee)
			continue
		}
		for _, ci := range calls {
			ok, bad := fromNegotiated(arg(ci, spec.argi))
			c.Check(ok, fn, spec.what, ci.Pos(), "", "the timeout handed to "+spec.callee+" can come from "+bad+" instead of the connection's negotiated msg_timeout (clientV2.MsgTimeout / the IDENTIFY event): a consumer that negotiated a different msg_timeout gets its messages back early or late")
		}
	}
}

// ---- C08.addclient -------------------------------------------------------------------------------------------

func c08addclient(c *an.Ctx) {
	clientsF := c.P.Field("nsqd", "Channel", "clients")
	if clientsF == nil {
		c.Anchor("nsqd.Channel.clients")
		return
	}
	la := c.P.Locks()
	for _, name := range []string{"(*Channel).AddClient", "(*Channel).RemoveClient"} {
		fn := c.Fn("nsqd", name)
		if fn == nil {
			continue
		}
		fl := la.Fns[fn]
		n := 0
		good := true
		an.Instrs(fn, func(in ssa.Instruction) {
			var m ssa.Value
			switch x := in.(type) {
			case *ssa.MapUpdate:
				m = x.Map
			case *ssa.Call:
				if bi, ok := x.Call.Value.(*ssa.Builtin); ok && bi.Name() == "delete" && len(x.Call.Args) > 0 {
					m = x.Call.Args[0]
				}
			}
			if m == nil || !isLoadOfField(m, clientsF) {
				return
			}
			n++
			held := false
			if fl != nil {
				must, _ := fl.At(in)
				for _, cl := range must.Classes() {
					if cl == "Channel.exitMutex" {
						held = true
					}
				}
			}
			if !held {
				good = false
			}
		})
		c.Check(n > 0 && good, fn, "consumer list changed under exitMutex", fn.Pos(), "", name+" changes Channel.clients without holding exitMutex: a SUB that passed the exiting check can be added after exit() closed the consumers it found, and stays connected to a deleted channel")
	}
}

// ---- C09.accept ----------------------------------------------------------------------------------------------

func c09accept(c *an.Ctx) {
	fn := c.Fn("internal/protocol", "TCPServer")
	if fn == nil {
		return
	}
	var accept *ssa.Call
	an.Instrs(fn, func(in ssa.Instruction) {
		if call, ok := in.(*ssa.Call); ok && call.Call.IsInvoke() && call.Call.Method.Name() == "Accept" {
			accept = call
		}
	})
	if accept == nil {
		c.Und(fn, "temporary accept failure retried", fn.Pos(), "no listener.Accept() call")
		return
	}
	_, fail := an.ErrEdges(accept)
	if len(fail) == 0 {
		c.Und(fn, "temporary accept failure retried", accept.Pos(), "the error of Accept() is not tested")
		return
	}
	// on the failure side, an edge "err.Temporary() is true" must exist and lead back to Accept without passing a return
	var tempTrue []an.Edge
	an.Instrs(fn, func(in ssa.Instruction) {
		call, ok := in.(*ssa.Call)
		if !ok || !call.Call.IsInvoke() || call.Call.Method.Name() != "Temporary" {
			return
		}
		// the edges a test decides "Temporary() returned true" on: a direct test, or a test of a
		// boolean it was and-ed into (`temporary := ok && te.Temporary(); if temporary`)
		for _, b := range fn.Blocks {
			for _, succ := range b.Succs {
				e := an.Edge{From: b, To: succ}
				fs := an.FactsOnEdge(e)
				for _, f := range fs[len(an.FactsAt(b)):] {
					if f.V == ssa.Value(call) && f.True && !an.EdgeIn(e, tempTrue) {
						tempTrue = append(tempTrue, e)
					}
				}
			}
		}
	})
	if len(tempTrue) == 0 {
		c.Bad(fn, "temporary accept failure retried", accept.Pos(), "the accept loop does not ask the error whether it is Temporary(): EMFILE/ENFILE (descriptor limit hit by a burst of connections) are temporary but neither timeouts nor 'closed', so the loop returns and the daemon shuts down for every client", nil)
	} else {
		q := &an.PathQ{Fn: fn, StartEdges: tempTrue, Sink: an.IsReturn, Cut: func(in ssa.Instruction, _ *an.PathState) bool { return in == ssa.Instruction(accept) }}
		w, f := q.Find()
		if f {
			c.Bad(fn, "temporary accept failure retried", accept.Pos(), "after a temporary Accept() failure the server can return instead of accepting again", w)
		} else {
			c.OK(fn, "temporary accept failure retried", accept.Pos(), "")
		}
	}
	// every path from a failed Accept that does not retry tests the "closed" condition before it returns nil
	q := &an.PathQ{Fn: fn, StartEdges: fail, Sink: func(in ssa.Instruction, st *an.PathState) bool { return sinkSuccessReturn(in, st) },
		Cut: func(in ssa.Instruction, _ *an.PathState) bool {
			if in == ssa.Instruction(accept) {
				return true
			}
			call, ok := in.(*ssa.Call)
			return ok && an.StdCallee(call, "errors", "Is")
		}}
	w, f := q.Find()
	if f {
		c.Bad(fn, "only a closed listener ends the loop quietly", accept.Pos(), "a failed Accept() can end the server with a nil error without having been identified as net.ErrClosed", w)
	} else {
		c.OK(fn, "only a closed listener ends the loop quietly", accept.Pos(), "")
	}
}

// ---- C10.scratch ---------------------------------------------------------------------------------------------

func c10scratch(c *an.Ctx) {
	readMPUB := c.Fn("nsqd", "readMPUB")
	if readMPUB == nil {
		return
	}
	lenSlice := c.P.Field("nsqd", "clientV2", "lenSlice")
	n := 0
	for _, fn := range c.P.PkgFuncs("nsqd") {
		for _, ci := range an.CallsTo(fn, readMPUB) {
			n++
			tmp := arg(ci, 1)
			bad := ""
			ok := an.OriginsAll(tmp, func(o ssa.Value) bool {
				switch x := o.(type) {
				case *ssa.MakeSlice:
					return x.Parent() == fn
				case *ssa.Alloc:
					return x.Parent() == fn
				}
				// the connection's own scratch buffer: one reader goroutine per connection (C07.confined)
				if f, base := an.LoadedField(o); f != nil && f == lenSlice {
					if isParam(base, fn, 1) {
						return true
					}
				}
				bad = o.String()
				return false
			})
			c.Check(ok, fn, "readMPUB scratch buffer is private", ci.Pos(), "", "the 4-byte scratch buffer handed to readMPUB comes from "+bad+", which other requests use at the same time: a length field read in two pieces can be overwritten in between, so a well-formed /mpub is refused or cut at the wrong boundaries")
		}
	}
	if n == 0 {
		c.Und(readMPUB, "readMPUB scratch buffer is private", readMPUB.Pos(), "readMPUB has no caller")
	}
}

// ---- C07.text ------------------------------------------------------------------------------------------------

func c07text(c *an.Ctx) {
	fn := c.Fn("nsqd", "(*httpServer).doMPUB")
	newMsg := c.Fn("nsqd", "NewMessage")
	if fn == nil || newMsg == nil {
		return
	}
	calls := an.CallsTo(fn, newMsg)
	if len(calls) == 0 {
		c.Und(fn, "text body is the line", fn.Pos(), "doMPUB does not build messages itself")
		return
	}
	for _, nc := range calls {
		body := arg(nc, 1)
		// walk back through slices/phis to the reads
		why := ""
		seen := map[ssa.Value]bool{}
		var walk func(v ssa.Value) bool
		walk = func(v ssa.Value) bool {
			if seen[v] {
				return true
			}
			seen[v] = true
			switch x := v.(type) {
			case *ssa.Phi:
				for _, e := range x.Edges {
					if !walk(e) {
						return false
					}
				}
				return true
			case *ssa.Slice:
				if x.Low != nil {
					if k, isC := an.ConstInt(x.Low); !isC || k != 0 {
						why = "leading bytes are cut off"
						return false
					}
				}
				if x.High != nil {
					// must be len(x.X) - 1, on an edge where the last byte is the delimiter
					b, ok := x.High.(*ssa.BinOp)
					k, isC := int64(0), false
					if ok {
						k, isC = an.ConstInt(b.Y)
					}
					if !ok || b.Op != token.SUB || !isC || k != 1 || lenArgOf(b.X) == nil || !an.SameValue(lenArgOf(b.X), x.X) {
						why = "more than the one trailing delimiter can be cut off"
						return false
					}
					guarded := false
					for _, f := range an.FactsAt(x.Block()) {
						if cmp, ok := f.AsCmp(); ok && cmp.Op == token.EQL {
							if k, isC := an.ConstInt(cmp.Y); isC && k == '\n' {
								guarded = true
							}
							if k, isC := an.ConstInt(cmp.X); isC && k == '\n' {
								guarded = true
							}
						}
					}
					if !guarded {
						why = "the last byte is removed without checking that it is the delimiter"
						return false
					}
				}
				return walk(x.X)
			case *ssa.Extract:
				if call, ok := x.Tuple.(*ssa.Call); ok && x.Index == 0 {
					if an.StdCallee(call, "bufio", "(*Reader).ReadBytes") || an.StdCallee(call, "bufio", "(*Reader).ReadSlice") {
						if k, isC := an.ConstInt(call.Call.Args[1]); isC && k == '\n' {
							return true
						}
						why = "the record delimiter is not '\\n'"
						return false
					}
				}
			case *ssa.UnOp:
				if x.Op == token.MUL {
					if al, ok := x.X.(*ssa.Alloc); ok {
						any := false
						for _, r := range an.Referrers(al) {
							if st, ok := r.(*ssa.Store); ok && st.Addr == al {
								any = true
								if !walk(st.Val) {
									return false
								}
							}
						}
						return any
					}
				}
			case *ssa.Const:
				return x.IsNil()
			}
			why = "the body comes from " + v.String() + " (a reader that drops or rewrites bytes, e.g. bufio.Scanner's ScanLines strips a trailing \\r)"
			return false
		}
		ok := walk(body)
		c.Check(ok, fn, "text body is the line", nc.Pos(), "", "text-mode /mpub: "+why+": the published body is not byte-for-byte what the client sent")
	}
}

// ---- balanced locks outside nsqd -----------------------------------------------------------------------------

func balancedIn(pkgs ...string) func(c *an.Ctx) {
	return func(c *an.Ctx) {
		la := c.P.Locks()
		for _, pkg := range pkgs {
			for _, fn := range c.P.PkgFuncs(pkg) {
				fl := la.Fns[fn]
				if fl == nil || len(fl.Ops) == 0 {
					continue
				}
				bad := ""
				for _, r := range an.Returns(fn) {
					must, may := fl.At(r)
					for _, o := range fl.Ops {
						if o.Deferred && !o.Acquire {
							// a deferred unlock runs at every return that is reached after the defer statement was executed
							if deferReached(o, r) {
								delete(must, o.Key())
								delete(may, o.Key())
							}
						}
					}
					for k := range may {
						if _, ok := fl.Entry[k]; !ok {
							bad = "returns at " + c.P.Pos(an.InstrPos(r)) + " still (possibly) holding " + k
						}
					}
					for k := range fl.Entry {
						if _, ok := must[k]; !ok {
							bad = "returns at " + c.P.Pos(an.InstrPos(r)) + " having released " + k + " that its callers hold"
						}
					}
				}
				if bad != "" {
					c.Bad(fn, "lock balance", fn.Pos(), "function "+bad+": a leaked lock blocks every later user forever (the fan-in never completes, the caller hangs)", nil)
				} else {
					c.OK(fn, "lock balance", fn.Pos(), "")
				}
			}
		}
	}
}

// deferReached: the defer statement of op dominates (or precedes in the same block) the return r.
func deferReached(o *an.LockOp, r *ssa.Return) bool {
	in := o.Instr
	if in == nil {
		return true
	}
	if in.Block() == r.Block() {
		return an.IndexInBlock(in) < an.IndexInBlock(r)
	}
	return in.Block().Dominates(r.Block())
}

// ---- C18.merge -----------------------------------------------------------------------------------------------

// c18merge: in the clusterinfo fan-in workers, a range loop over a list taken from the decoded upstream answer leaves only
// by exhaustion (a `break`/`return` in the body drops the remaining elements).
func c18merge(c *an.Ctx) {
	n := 0
	for _, fn := range c.P.PkgFuncs("internal/clusterinfo") {
		if fn.Parent() == nil {
			continue // the merging is done in the per-node goroutines
		}
		root := fn
		for root.Parent() != nil {
			root = root.Parent()
		}
		if !strings.HasPrefix(an.BaseName(root), "Get") {
			continue
		}
		for _, l := range an.NaturalLoops(fn) {
			il, ok := an.AsIndexLoop(l)
			if !ok {
				continue
			}
			src := il.Slice
			if il.Iter != nil {
				src = il.Iter.X
			}
			if src == nil {
				continue
			}
			// a field of the local decoded answer (resp.X), possibly through a nested element
			fromResp := an.OriginsAny(src, func(o ssa.Value) bool {
				f, base := an.LoadedField(o)
				if f == nil {
					return false
				}
				for i := 0; i < 4 && base != nil; i++ {
					if al, ok := an.Strip(base).(*ssa.Alloc); ok && al.Parent() == fn {
						return true
					}
					if fa, ok := base.(*ssa.FieldAddr); ok {
						base = fa.X
						continue
					}
					break
				}
				return false
			})
			if !fromResp {
				continue
			}
			// only the outermost loop over the answer: inner search loops (find-or-append) may break
			nested := false
			for _, l2 := range an.NaturalLoops(fn) {
				if l2.Header != l.Header && l2.Blocks[l.Header] {
					nested = true
				}
			}
			if nested {
				continue
			}
			n++
			_, exits := il.OnlyExhaustionExit()
			pos := fn.Pos()
			if il.Iter != nil {
				pos = il.Iter.Pos()
			}
			// a search loop may stop at the element it was looking for: every early exit is then taken under
			// `element(.field) == key` with a key that does not change during the loop
			elems := il.Elems()
			fromElem := func(v ssa.Value) bool {
				for i := 0; i < 6 && v != nil; i++ {
					if valueIn(v, elems) {
						return true
					}
					switch x := an.Strip(v).(type) {
					case *ssa.Field:
						v = x.X
					case *ssa.FieldAddr:
						v = x.X
					case *ssa.Alloc:
						// the range variable copy: a local cell whose only store is the element
						var sv ssa.Value
						ns := 0
						for _, r := range an.Referrers(x) {
							if st, ok := r.(*ssa.Store); ok && st.Addr == ssa.Value(x) {
								sv = st.Val
								ns++
							}
						}
						if ns != 1 {
							return false
						}
						v = sv
					case *ssa.UnOp:
						if x.Op != token.MUL {
							return false
						}
						v = x.X
					default:
						return false
					}
				}
				return false
			}
			invariant := func(v ssa.Value) bool {
				switch x := an.Strip(v).(type) {
				case *ssa.Parameter, *ssa.FreeVar, *ssa.Const:
					return true
				case *ssa.UnOp:
					if _, ok := x.X.(*ssa.FreeVar); ok && x.Op == token.MUL {
						return true
					}
					return !l.Blocks[x.Block()]
				case ssa.Instruction:
					return !l.Blocks[x.Block()]
				}
				return false
			}
			var early []an.Edge
			for _, e := range exits {
				found := false
				facts := an.FactsAt(e.From)
				if e.To != nil {
					facts = append(facts, an.FactsOnEdge(e)...)
				}
				for _, f := range facts {
					cmp, ok := f.AsCmp()
					if !ok || cmp.Op != token.EQL {
						continue
					}
					if (fromElem(cmp.X) && invariant(cmp.Y)) || (fromElem(cmp.Y) && invariant(cmp.X)) {
						found = true
					}
				}
				if !found {
					early = append(early, e)
				}
			}
			msg := ""
			if len(early) > 0 {
				msg = "the loop over the upstream answer in " + root.Name() + " can be left before the last element (break/return in the body, not the end of a search for one key): the remaining producers/topics of that answer are dropped, so views miss nodes and admin actions never reach them"
			}
			c.Check(len(early) == 0, fn, "merge loop visits every element of the answer", pos, "", msg)
		}
	}
	if n == 0 {
		c.Anchor("a merge loop over a decoded upstream answer in internal/clusterinfo")
	}
}

// ---- C17.config / C11.config -----------------------------------------------------------------------------------

var cfgKeyRe = regexp.MustCompile(`^#?\s*([a-z][a-z0-9_]*)\s*=`)

// configKeys: the example configuration shipped in contrib/ is the documentation of the config-file keys. go-options reads a
// key into the Options field whose `cfg` tag names it, or – without a cfg tag – whose `flag` tag names it with '-' replaced by
// '_'. Every documented key must resolve to a field, otherwise the setting is silently ignored.
func configKeys(pkg, example string) func(c *an.Ctx) {
	return func(c *an.Ctx) {
		nt := c.P.Named(pkg, "Options")
		if nt == nil {
			c.Anchor(pkg + ".Options")
			return
		}
		st, ok := nt.Underlying().(*types.Struct)
		if !ok {
			c.Anchor(pkg + ".Options struct")
			return
		}
		keys := map[string]string{}
		for i := 0; i < st.NumFields(); i++ {
			tag := reflect.StructTag(st.Tag(i))
			flagName := tag.Get("flag")
			cfgName := tag.Get("cfg")
			if flagName == "" && cfgName == "" {
				continue
			}
			if cfgName == "" {
				cfgName = strings.Replace(flagName, "-", "_", -1)
			}
			keys[cfgName] = st.Field(i).Name()
		}
		file := filepath.Join(c.P.RepoDir, "contrib", example)
		b, err := os.ReadFile(file)
		if ov, ok := c.P.Overlay[file]; ok {
			b, err = ov, nil
		}
		if err != nil {
			c.Anchor("contrib/" + example)
			return
		}
		newFn := c.P.Func(pkg, "NewOptions")
		n := 0
		for _, line := range strings.Split(string(b), "\n") {
			m := cfgKeyRe.FindStringSubmatch(strings.TrimSpace(line))
			if m == nil {
				continue
			}
			n++
			_, ok := keys[m[1]]
			c.Check(ok, newFn, "config key "+m[1], token.NoPos, "", "the documented configuration key \""+m[1]+"\" (contrib/"+example+") is not read by any field of "+pkg+".Options: a value set in the config file is silently ignored (for admin_users that disables the admin check)")
		}
		if n == 0 {
			c.Anchor("keys in contrib/" + example)
		}
	}
}

// ---- C18.fresh -------------------------------------------------------------------------------------------------

func c18fresh(c *an.Ctx) {
	fn := c.Fn("internal/quantile", "(*E2eProcessingLatencyAggregate).Add")
	pf := c.P.Field("internal/quantile", "E2eProcessingLatencyAggregate", "Percentiles")
	if fn == nil || pf == nil {
		if pf == nil {
			c.Anchor("internal/quantile.E2eProcessingLatencyAggregate.Percentiles")
		}
		return
	}
	n := 0
	an.Instrs(fn, func(in ssa.Instruction) {
		call, ok := in.(*ssa.Call)
		if !ok {
			return
		}
		bi, ok := call.Call.Value.(*ssa.Builtin)
		if !ok || bi.Name() != "append" || len(call.Call.Args) != 2 {
			return
		}
		// append(<receiver's Percentiles>, elems...)
		isOwn := an.OriginsAny(call.Call.Args[0], func(o ssa.Value) bool {
			f, base := an.LoadedField(o)
			return f == pf && isParam(base, fn, 0)
		})
		if !isOwn {
			return
		}
		n++
		bad := ""
		// the appended elements: stores into the variadic backing array
		fresh := true
		for _, o := range an.Origins(call.Call.Args[1]) {
			al, ok := o.(*ssa.Alloc)
			if !ok {
				fresh = false
				bad = o.String()
				continue
			}
			for _, r := range an.Referrers(al) {
				ia, ok := r.(*ssa.IndexAddr)
				if !ok {
					continue
				}
				for _, r2 := range an.Referrers(ia) {
					if st, ok := r2.(*ssa.Store); ok && st.Addr == ia {
						if !an.OriginsAll(st.Val, func(o ssa.Value) bool {
							mm, ok := o.(*ssa.MakeMap)
							return ok && mm.Parent() == fn
						}) {
							fresh = false
							bad = st.Val.String()
						}
					}
				}
			}
		}
		c.Check(fresh, fn, "aggregate appends its own map", call.Pos(), "", "a map appended to the aggregate's Percentiles is "+bad+", not one made here: later Add calls write the running totals into the node's own data, so that node's row shows cluster-wide numbers and totals are counted twice")
	})
	if n == 0 {
		c.OK(fn, "aggregate appends its own map", fn.Pos(), "no append to the receiver's Percentiles")
	}
}

// ---- C19.handle ------------------------------------------------------------------------------------------------

func c19handle(c *an.Ctx) {
	fn := c.Fn("apps/nsq_to_file", "(*FileLogger).HandleMessage")
	logChan := c.P.Field("apps/nsq_to_file", "FileLogger", "logChan")
	if fn == nil || logChan == nil {
		if logChan == nil {
			c.Anchor("apps/nsq_to_file.FileLogger.logChan")
		}
		return
	}
	isDisable := func(in ssa.Instruction, _ *an.PathState) bool {
		ci, ok := in.(ssa.CallInstruction)
		if !ok {
			return false
		}
		f := an.StaticCallee(ci)
		return f != nil && f.Name() == "DisableAutoResponse" && isParam(recvArg(ci), fn, 1)
	}
	isHandoff := func(in ssa.Instruction, _ *an.PathState) bool {
		switch x := in.(type) {
		case *ssa.Send:
			return isLoadOfField(x.Chan, logChan) && isParam(x.X, fn, 1)
		}
		return false
	}
	q1 := &an.PathQ{Fn: fn, StartEntry: true, Sink: an.IsReturn, Cut: isDisable}
	w1, f1 := q1.Find()
	q2 := &an.PathQ{Fn: fn, StartEntry: true, Sink: an.IsReturn, Cut: isHandoff}
	w2, f2 := q2.Find()
	if f1 {
		c.Bad(fn, "no automatic answer, message handed to the router", fn.Pos(), "HandleMessage can return without DisableAutoResponse(): go-nsq then FINs (nil) or REQs (error) the message itself, before anything was written or synced", w1)
	} else if f2 {
		c.Bad(fn, "no automatic answer, message handed to the router", fn.Pos(), "HandleMessage can return without handing the message to the router (blocking send on logChan): the message is never written and never answered", w2)
	} else {
		c.OK(fn, "no automatic answer, message handed to the router", fn.Pos(), "")
	}
}

// ---- C20.body --------------------------------------------------------------------------------------------------

// c20body: in nsq_to_http, every http.NewRequest whose body is a caller-supplied reader is executed at most once per
// body: it is not inside a loop (a retry re-sends from the drained reader, i.e. an empty POST that a 2xx then "accepts").
func c20body(c *an.Ctx) {
	n := 0
	for _, fn := range c.P.PkgFuncs("apps/nsq_to_http") {
		loops := an.NaturalLoops(fn)
		an.Instrs(fn, func(in ssa.Instruction) {
			call, ok := in.(*ssa.Call)
			if !ok || !(an.StdCallee(call, "net/http", "NewRequest") || an.StdCallee(call, "net/http", "NewRequestWithContext")) {
				return
			}
			body := call.Call.Args[len(call.Call.Args)-1]
			if k, isC := an.Strip(body).(*ssa.Const); isC && k.IsNil() {
				return
			}
			n++
			l := an.LoopContaining(loops, call.Block())
			good := true
			if l != nil {
				// fine only if the reader is made inside the loop as well
				good = an.OriginsAll(body, func(o ssa.Value) bool {
					oi, ok := o.(ssa.Instruction)
					return ok && l.Blocks[oi.Block()]
				})
			}
			c.Check(good, fn, "request body built per attempt", call.Pos(), "", "a request with the caller's body reader is built inside a retry loop: the first attempt drains the buffer, the retry posts an empty body, and a 2xx for it makes the relay finish a message the destination never received")
		})
	}
	if n == 0 {
		c.Anchor("an http.NewRequest with a body in apps/nsq_to_http")
	}
}
