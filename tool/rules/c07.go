package rules

import (
	"go/token"
	"go/types"
	"sort"

	"golang.org/x/tools/go/ssa"

	"nsqverif/an"
)

func init() {
	Props["C07"] = PropInfo{
		Explanation: "Decides the structural preconditions of byte-exact delivery, not the round trip itself: (codec) the on-disk/wire encoder and decoder of a message agree on every offset and width, the fixed header length constant equals their sum, disk queues are created with matching min/max record sizes, and frames are written as size|type|data; " +
			"(fresh) every message body is a buffer owned by that message (freshly allocated or another message's body), never a view of a reusable read buffer; (pool) pooled encode buffers are reset before reuse, returned exactly once, and their bytes never escape the call that uses them; " +
			"(stack) compression readers and writers are stacked on the same (TLS if negotiated) connection, output-buffer renegotiation happens before any upgrade, and Flush drains every layer; " +
			"(envelope) id and timestamp are written only at creation/decoding/fan-out copy, bodies are never modified in place, and the id is the 16-hex-digit big-endian rendering of the 64-bit guid.",
		NotDecided:  "the round trip through TLS / snappy / deflate / bufio / diskqueue for all bodies and buffer sizes (library behaviour on run-time data) – by far the larger part of this property.",
		Assumptions: []string{"encoding/binary, encoding/hex, bufio, compress/flate, snappy, crypto/tls behave as documented", "bufio.Reader.ReadBytes and io.ReadAll return freshly allocated slices; ReadSlice does not"},
	}
	reg("C07.codec", "SHAPE", "Message.WriteTo and decodeMessage agree on offsets/widths; minValidMsgLength matches; diskqueue sized accordingly; frame = size|type|data", 8, c07codec)
	reg("C07.fresh", "ORIG", "message bodies are owned buffers (make / ReadAll / ReadBytes / another message's Body), never views of reusable buffers", 6, c07fresh)
	reg("C07.pool", "PATH", "buffer pool: reset before put, get paired with one deferred put, Bytes() never escapes", 5, c07pool)
	reg("C07.stack", "ORIG", "compression reader/writer share the same underlying connection (TLS when negotiated); renegotiation before upgrades; Flush drains all layers", 8, c07stack)
	reg("C07.envelope", "CALLS", "Message.ID/Timestamp writers; bodies immutable; guid.Hex layout", 5, c07envelope)
}

// sliceBounds returns constant [low, high) of a Slice instruction (high = -1 when open).
func sliceBounds(s *ssa.Slice) (int64, int64, bool) {
	lo, hi := int64(0), int64(-1)
	if s.Low != nil {
		k, ok := an.ConstInt(s.Low)
		if !ok {
			return 0, 0, false
		}
		lo = k
	}
	if s.High != nil {
		k, ok := an.ConstInt(s.High)
		if !ok {
			return 0, 0, false
		}
		hi = k
	}
	return lo, hi, true
}

type seg struct {
	field  string
	lo, hi int64
}

func c07codec(c *an.Ctx) {
	wr := c.Fn("nsqd", "(*Message).WriteTo")
	dec := c.Fn("nsqd", "decodeMessage")
	if wr == nil || dec == nil {
		return
	}
	// --- writer layout
	var wsegs []seg
	hdrLen := int64(-1)
	var writes []string // order of Write calls: "hdr", "ID", "Body"
	classify := func(v ssa.Value) string {
		a := an.Strip(v)
		if sl, ok := a.(*ssa.Slice); ok {
			if fa, ok := sl.X.(*ssa.FieldAddr); ok {
				return an.FName(an.FieldOf(fa))
			}
			if _, ok := sl.X.(*ssa.Alloc); ok {
				return "hdr"
			}
		}
		if f, _ := an.LoadedField(a); f != nil {
			return f.Name()
		}
		return "?"
	}
	an.Instrs(wr, func(in ssa.Instruction) {
		call, ok := in.(*ssa.Call)
		if !ok {
			return
		}
		if cf := an.StaticCallee(call); cf != nil && cf.Pkg != nil && cf.Pkg.Pkg.Path() == "encoding/binary" && (cf.Name() == "PutUint64" || cf.Name() == "PutUint16" || cf.Name() == "PutUint32") {
			sl, ok := call.Call.Args[1].(*ssa.Slice)
			if !ok {
				return
			}
			lo, hi, ok := sliceBounds(sl)
			if !ok {
				return
			}
			f, _ := an.LoadedField(an.Strip(call.Call.Args[2]))
			name := "?"
			if f != nil {
				name = f.Name()
			}
			width := map[string]int64{"PutUint64": 8, "PutUint32": 4, "PutUint16": 2}[cf.Name()]
			if hi-lo != width {
				name += "(width mismatch)"
			}
			wsegs = append(wsegs, seg{name, lo, hi})
			if at, ok := sl.X.Type().Underlying().(*types.Pointer); ok {
				if arr, ok := at.Elem().Underlying().(*types.Array); ok {
					hdrLen = arr.Len()
				}
			}
		}
		if an.IsInvokeOf(call, "Writer", "Write") {
			if elems := rangeLiteralElems(call.Call.Args[0]); elems != nil {
				// `for _, part := range [...][]byte{hdr, id, body} { w.Write(part) }`: one Write per element, in order
				for _, e := range elems {
					writes = append(writes, classify(e))
				}
				return
			}
			writes = append(writes, classify(call.Call.Args[0]))
			return
		}
	})
	sort.Slice(wsegs, func(i, j int) bool { return wsegs[i].lo < wsegs[j].lo })
	idLen, _ := constVal(c, "nsqd", "MsgIDLength")
	minLen, _ := constVal(c, "nsqd", "minValidMsgLength")
	wOK := len(wsegs) == 2 && wsegs[0] == (seg{"Timestamp", 0, 8}) && wsegs[1] == (seg{"Attempts", 8, 10}) && hdrLen == 10 &&
		len(writes) == 3 && writes[0] == "hdr" && writes[1] == "ID" && writes[2] == "Body"
	c.Check(wOK, wr, "encoder layout: ts[0:8] attempts[8:10] id[10:26] body", wr.Pos(), "", sprintf("Message.WriteTo writes header fields %v (header %d bytes) then %v", wsegs, hdrLen, writes))
	// --- reader layout
	var rsegs []seg
	an.Instrs(dec, func(in ssa.Instruction) {
		switch x := in.(type) {
		case *ssa.Store:
			fa, ok := x.Addr.(*ssa.FieldAddr)
			if !ok {
				return
			}
			name := an.FName(an.FieldOf(fa))
			v := an.Strip(x.Val)
			if call, ok := v.(*ssa.Call); ok {
				if cf := an.StaticCallee(call); cf != nil && cf.Pkg != nil && cf.Pkg.Pkg.Path() == "encoding/binary" {
					if sl, ok := call.Call.Args[1].(*ssa.Slice); ok {
						if lo, hi, ok := sliceBounds(sl); ok && isParam(sl.X, dec, 0) {
							rsegs = append(rsegs, seg{name, lo, hi})
						}
					}
				}
			}
			if sl, ok := v.(*ssa.Slice); ok && isParam(sl.X, dec, 0) {
				if lo, hi, ok := sliceBounds(sl); ok {
					rsegs = append(rsegs, seg{name, lo, hi})
				}
			}
		case *ssa.Call:
			if bi, ok := x.Call.Value.(*ssa.Builtin); ok && bi.Name() == "copy" {
				dst, ok1 := x.Call.Args[0].(*ssa.Slice)
				src, ok2 := x.Call.Args[1].(*ssa.Slice)
				if ok1 && ok2 && isParam(src.X, dec, 0) {
					if fa, ok := dst.X.(*ssa.FieldAddr); ok {
						if lo, hi, ok := sliceBounds(src); ok {
							rsegs = append(rsegs, seg{an.FName(an.FieldOf(fa)), lo, hi})
						}
					}
				}
			}
		}
	})
	sort.Slice(rsegs, func(i, j int) bool { return rsegs[i].lo < rsegs[j].lo })
	want := []seg{{"Timestamp", 0, 8}, {"Attempts", 8, 10}, {"ID", 10, 10 + idLen}, {"Body", 10 + idLen, -1}}
	rOK := len(rsegs) == 4
	for i := range want {
		if i < len(rsegs) && rsegs[i] != want[i] {
			rOK = false
		}
	}
	c.Check(rOK, dec, "decoder layout matches the encoder", dec.Pos(), "", sprintf("decodeMessage reads %v, the encoder writes %v: every message read back from disk (overflow, restart) is corrupted", rsegs, want))
	c.Check(minLen == 10+idLen, dec, "minValidMsgLength == header + id", dec.Pos(), "", sprintf("minValidMsgLength=%d but the fixed part of a record is %d bytes", minLen, 10+idLen))
	// length guard before slicing: every slice of the record sits where `len(b) >= minValidMsgLength` is known
	guard := false
	nSlices, nGuarded := 0, 0
	an.Instrs(dec, func(in ssa.Instruction) {
		sl, ok := in.(*ssa.Slice)
		if !ok || !isParam(sl.X, dec, 0) {
			return
		}
		nSlices++
		for _, cmp := range an.CmpsAt(sl.Block()) {
			oc, ok := cmp.Oriented(func(v ssa.Value) bool { a := lenArgOf(v); return a != nil && isParam(a, dec, 0) })
			if !ok {
				continue
			}
			k, isC := an.ConstInt(oc.Y)
			if !isC {
				continue
			}
			if (oc.Op == token.GEQ && k >= minLen) || (oc.Op == token.GTR && k >= minLen-1) || (oc.Op == token.EQL && k >= minLen) {
				nGuarded++
				return
			}
		}
	})
	guard = nSlices > 0 && nGuarded == nSlices
	c.Check(guard, dec, "short records rejected before slicing", dec.Pos(), "", "decodeMessage does not reject records shorter than minValidMsgLength before slicing them")
	// diskqueue.New sizes
	dqNew := c.P.Func("github.com/nsqio/go-diskqueue", "New")
	if dqNew != nil {
		for _, name := range []string{"NewTopic", "NewChannel"} {
			fn := c.Fn("nsqd", name)
			if fn == nil {
				continue
			}
			for _, ci := range an.CallsTo(fn, dqNew) {
				a := ci.Common().Args
				kMin, okMin := an.ConstInt(a[3])
				maxOK := false
				if b, ok := an.Strip(a[4]).(*ssa.BinOp); ok && b.Op == token.ADD {
					k, isC := an.ConstInt(b.Y)
					if isC && k == minLen && isOptsField(c, an.Strip(b.X), "nsqd", "MaxMsgSize") {
						maxOK = true
					}
				}
				c.Check(okMin && kMin == minLen && maxOK, fn, "disk queue record size limits", ci.Pos(), "", "diskqueue.New is not given (minValidMsgLength, MaxMsgSize+minValidMsgLength): valid records are treated as corrupt (and dropped) when read back, or short garbage is accepted")
			}
		}
	}
	// SendFramedResponse
	if fn := c.Fn("internal/protocol", "SendFramedResponse"); fn != nil {
		var order []string
		sizeOK := false
		an.Instrs(fn, func(in ssa.Instruction) {
			call, ok := in.(*ssa.Call)
			if !ok {
				return
			}
			if cf := an.StaticCallee(call); cf != nil && cf.Name() == "PutUint32" {
				v := an.Strip(call.Call.Args[2])
				if isParam(v, fn, 1) {
					order = append(order, "put:type")
				} else if b, ok := v.(*ssa.BinOp); ok && b.Op == token.ADD {
					if k, isC := an.ConstInt(b.Y); isC && k == 4 {
						if a := lenArgOf(b.X); a != nil && isParam(a, fn, 2) {
							sizeOK = true
							order = append(order, "put:size")
						}
					}
				}
			}
			if an.IsInvokeOf(call, "Writer", "Write") {
				if isParam(call.Call.Args[0], fn, 2) {
					order = append(order, "write:data")
				} else {
					order = append(order, "write:buf")
				}
			}
		})
		want := []string{"put:size", "write:buf", "put:type", "write:buf", "write:data"}
		good := sizeOK && len(order) == len(want)
		for i := range want {
			if i < len(order) && order[i] != want[i] {
				good = false
			}
		}
		c.Check(good, fn, "frame = size(len+4) | frame type | data", fn.Pos(), "", sprintf("SendFramedResponse emits %v", order))
	}
	// SendMessage: frame type message, body = encoded message
	if fn := c.Fn("nsqd", "(*protocolV2).SendMessage"); fn != nil {
		send := c.P.Func("nsqd", "(*protocolV2).Send")
		good := false
		for _, sc := range an.CallsTo(fn, send) {
			k, isC := an.ConstInt(arg(sc, 1))
			if call, ok := an.Strip(arg(sc, 2)).(*ssa.Call); ok && an.StdCallee(call, "bytes", "(*Buffer).Bytes") && isC && k == 2 {
				for _, wc := range an.CallsTo(fn, wr) {
					if an.SameValue(an.Strip(wc.Common().Args[1]), call.Call.Args[0]) && isParam(wc.Common().Args[0], fn, 2) {
						succ, _ := an.ErrEdges(wc.Value())
						q := &an.PathQ{Fn: fn, StartEntry: true, Sink: func(in ssa.Instruction, _ *an.PathState) bool { return in == sc.(ssa.Instruction) },
							CutEdge: func(e an.Edge, _ *an.PathState) bool { return an.EdgeIn(e, succ) }}
						if _, f := q.Find(); !f {
							good = true
						}
					}
				}
			}
		}
		c.Check(good, fn, "message frame carries the encoded message", fn.Pos(), "", "SendMessage does not send frameTypeMessage with the buffer msg.WriteTo just filled")
	}
}

// freshBody classifies the origins of a body argument.
func freshBody(c *an.Ctx, v ssa.Value) (bool, string) {
	bodyF := c.P.Field("nsqd", "Message", "Body")
	for _, o := range an.Origins(v) {
		switch x := o.(type) {
		case *ssa.MakeSlice:
			continue
		case *ssa.Const:
			if x.IsNil() {
				continue // a nil body aliases nothing (the error arm of a helper that returns (nil, err))
			}
			return false, o.String()
		case *ssa.Extract:
			if call, ok := x.Tuple.(*ssa.Call); ok {
				if an.StdCallee(call, "io", "ReadAll") || an.StdCallee(call, "io/ioutil", "ReadAll") || an.StdCallee(call, "bufio", "(*Reader).ReadBytes") {
					continue
				}
				if cf := an.StaticCallee(call); cf != nil {
					return false, "result of " + an.FnName(cf) + " (a view of a reusable buffer?)"
				}
			}
			return false, o.String()
		case *ssa.UnOp:
			if f, _ := an.LoadedField(x); f == bodyF {
				continue
			}
			if f, _ := an.LoadedField(x); f != nil {
				return false, "field " + f.Name() + " (a reusable buffer)"
			}
			return false, o.String()
		case *ssa.Parameter:
			return false, "parameter " + x.Name()
		case *ssa.Call:
			if cf := an.StaticCallee(x); cf != nil {
				return false, "result of " + an.FnName(cf)
			}
			return false, o.String()
		default:
			return false, o.String()
		}
	}
	return true, ""
}

func c07fresh(c *an.Ctx) {
	newMsg := c.Fn("nsqd", "NewMessage")
	if newMsg == nil {
		return
	}
	for _, fn := range c.P.PkgFuncs("nsqd") {
		for _, nc := range an.CallsTo(fn, newMsg) {
			ok, why := freshBody(c, arg(nc, 1))
			c.Check(ok, fn, "message body is an owned buffer", nc.Pos(), "", "the body handed to NewMessage is not a buffer owned by the message: "+why+". The next command on the connection overwrites the bytes of a message that is still queued")
		}
	}
	// NewMessage stores the body and id it was given
	idF := c.P.Field("nsqd", "Message", "ID")
	bodyF := c.P.Field("nsqd", "Message", "Body")
	okID, okBody := false, false
	an.Instrs(newMsg, func(in ssa.Instruction) {
		st, ok := in.(*ssa.Store)
		if !ok {
			return
		}
		fa, ok := st.Addr.(*ssa.FieldAddr)
		if !ok {
			return
		}
		if an.FieldOf(fa) == idF && isParam(st.Val, newMsg, 0) {
			okID = true
		}
		if an.FieldOf(fa) == bodyF && isParam(st.Val, newMsg, 1) {
			okBody = true
		}
	})
	c.Check(okID && okBody, newMsg, "NewMessage keeps id and body", newMsg.Pos(), "", "NewMessage does not store the id and body it was given")
	// decodeMessage: body is a view of the record, which diskqueue allocates per record (contract) – recorded, not checked
}

func c07pool(c *an.Ctx) {
	get := c.Fn("nsqd", "bufferPoolGet")
	put := c.Fn("nsqd", "bufferPoolPut")
	if get == nil || put == nil {
		return
	}
	// put: Reset precedes Put
	q := &an.PathQ{Fn: put, StartEntry: true, Sink: func(in ssa.Instruction, _ *an.PathState) bool { return isStdCall(in, "sync", "(*Pool).Put") },
		Cut: func(in ssa.Instruction, _ *an.PathState) bool { return isStdCall(in, "bytes", "(*Buffer).Reset") }}
	_, f := q.Find()
	c.Check(!f, put, "buffer reset before it returns to the pool", put.Pos(), "", "bufferPoolPut returns a buffer to the pool without Reset(): the next message is encoded after the previous one's bytes")
	for _, fn := range c.P.PkgFuncs("nsqd") {
		for _, gc := range an.CallsTo(fn, get) {
			buf := gc.Value()
			// exactly one deferred put of this buffer
			n := 0
			for _, pc := range an.CallsTo(fn, put) {
				if _, isDefer := pc.(*ssa.Defer); isDefer && an.SameValue(pc.Common().Args[0], buf) {
					n++
				}
			}
			c.Check(n == 1, fn, "pooled buffer returned exactly once (deferred)", gc.Pos(), "", sprintf("the buffer from bufferPoolGet has %d deferred bufferPoolPut calls: it leaks or is handed out twice", n))
			// Bytes() never escapes
			esc := ""
			for _, r := range an.Referrers(buf) {
				call, ok := r.(*ssa.Call)
				if !ok || !an.StdCallee(call, "bytes", "(*Buffer).Bytes") {
					continue
				}
				for _, u := range an.Referrers(call) {
					switch x := u.(type) {
					case ssa.CallInstruction:
						if _, isGo := x.(*ssa.Go); isGo {
							esc = "passed to a goroutine"
						}
					case *ssa.Store, *ssa.Send, *ssa.Return, *ssa.MapUpdate, *ssa.MakeClosure:
						esc = "stored / sent / returned"
					case *ssa.Slice, *ssa.Phi, *ssa.MakeInterface:
						esc = "aliased (" + u.String() + ")"
					}
				}
			}
			c.Check(esc == "", fn, "pooled bytes do not outlive the call", gc.Pos(), "", "buf.Bytes() of a pooled buffer is "+esc+": after the deferred put the next user overwrites those bytes")
		}
	}
}

func c07stack(c *an.Ctx) {
	tlsF := c.P.Field("nsqd", "clientV2", "tlsConn")
	connF := c.P.Field("nsqd", "clientV2", "Conn")
	readerF := c.P.Field("nsqd", "clientV2", "Reader")
	writerF := c.P.Field("nsqd", "clientV2", "Writer")
	// the connection a compression layer must wrap: tlsConn if non-nil else Conn
	connOK := func(v ssa.Value) (bool, string) {
		v = an.Strip(v)
		phi, ok := v.(*ssa.Phi)
		if !ok {
			return false, "compression is stacked on " + v.String() + ", not on `tlsConn if negotiated else Conn`"
		}
		sawTLS, sawConn := false, false
		for i, e := range phi.Edges {
			e = an.Strip(e)
			edge := an.Edge{From: phi.Block().Preds[i], To: phi.Block()}
			if isLoadOfField(e, tlsF) {
				nonNil := false
				for _, cmp := range an.CmpsOnEdge(edge) {
					if cmp.Op == token.NEQ && isLoadOfField(cmp.X, tlsF) && an.IsNilConst(cmp.Y) {
						nonNil = true
					}
				}
				if !nonNil {
					return false, "tlsConn is used without the tlsConn != nil test"
				}
				sawTLS = true
			} else if isLoadOfField(e, connF) {
				isNil := false
				for _, cmp := range an.CmpsOnEdge(edge) {
					if cmp.Op == token.EQL && isLoadOfField(cmp.X, tlsF) && an.IsNilConst(cmp.Y) {
						isNil = true
					}
				}
				if !isNil {
					return false, "the raw connection is used although TLS may be negotiated"
				}
				sawConn = true
			} else {
				return false, "unexpected connection value " + e.String()
			}
		}
		return sawTLS && sawConn, "both arms required"
	}
	for _, spec := range []struct{ fn, pkg, rd, wr string }{
		{"(*clientV2).UpgradeDeflate", "compress/flate", "NewReader", "NewWriter"},
		{"(*clientV2).UpgradeSnappy", "github.com/golang/snappy", "NewReader", "NewWriter"},
	} {
		fn := c.Fn("nsqd", spec.fn)
		if fn == nil {
			continue
		}
		var rdArg, wrArg ssa.Value
		an.Instrs(fn, func(in ssa.Instruction) {
			call, ok := in.(*ssa.Call)
			if !ok {
				return
			}
			if an.StdCallee(call, spec.pkg, spec.rd) {
				rdArg = call.Call.Args[0]
			}
			if an.StdCallee(call, spec.pkg, spec.wr) || an.StdCallee(call, spec.pkg, "NewBufferedWriter") {
				wrArg = call.Call.Args[0]
			}
		})
		if rdArg == nil || wrArg == nil {
			c.Bad(fn, "reader and writer on the same connection", fn.Pos(), "no compression reader/writer constructed", nil)
			continue
		}
		same := an.SameValue(an.Strip(rdArg), an.Strip(wrArg))
		okc, why := connOK(rdArg)
		c.Check(same, fn, "reader and writer on the same connection", fn.Pos(), "", "the compression reader and writer wrap different connections: one direction bypasses TLS")
		c.Check(okc, fn, "compression stacked on TLS when negotiated", fn.Pos(), "", why)
		// both Reader and Writer fields replaced
		stR, stW := false, false
		an.Instrs(fn, func(in ssa.Instruction) {
			if st, ok := in.(*ssa.Store); ok {
				if fa, ok := st.Addr.(*ssa.FieldAddr); ok {
					if an.FieldOf(fa) == readerF {
						stR = true
					}
					if an.FieldOf(fa) == writerF {
						stW = true
					}
				}
			}
		})
		c.Check(stR && stW, fn, "both directions switched", fn.Pos(), "", "the upgrade does not replace both client.Reader and client.Writer")
	}
	// UpgradeTLS: Reader and Writer wrap the new tlsConn
	if fn := c.Fn("nsqd", "(*clientV2).UpgradeTLS"); fn != nil {
		good := 0
		an.Instrs(fn, func(in ssa.Instruction) {
			call, ok := in.(*ssa.Call)
			if !ok {
				return
			}
			if an.StdCallee(call, "bufio", "NewReaderSize") || an.StdCallee(call, "bufio", "NewWriterSize") {
				a := an.Strip(call.Call.Args[0])
				if isLoadOfField(a, tlsF) {
					good++
				} else if srv, ok := a.(*ssa.Call); ok && an.StdCallee(srv, "crypto/tls", "Server") {
					good++
				}
			}
		})
		c.Check(good == 2, fn, "TLS: both directions over the TLS connection", fn.Pos(), "", "after the handshake Reader and Writer are not both re-created on the TLS connection")
	}
	// renegotiation before upgrades: SetOutputBuffer only from Identify, Identify only from IDENTIFY before any Upgrade*
	sob := c.Fn("nsqd", "(*clientV2).SetOutputBuffer")
	ident := c.Fn("nsqd", "(*clientV2).Identify")
	cmd := c.Fn("nsqd", "(*protocolV2).IDENTIFY")
	if sob != nil && ident != nil && cmd != nil {
		for _, fn := range c.P.PkgFuncs("nsqd") {
			for _, sc := range an.CallsTo(fn, sob) {
				c.Check(fn == ident, fn, "output buffer renegotiated only during IDENTIFY", sc.Pos(), "", "SetOutputBuffer (which re-creates the writer on the raw connection) is called outside Identify: after a TLS/compression upgrade it would bypass the negotiated layers")
			}
			for _, ic := range an.CallsTo(fn, ident) {
				c.Check(fn == cmd, fn, "Identify only from IDENTIFY", ic.Pos(), "", "clientV2.Identify is called outside the IDENTIFY command")
			}
		}
		var ups []*ssa.Function
		for _, n := range []string{"UpgradeTLS", "UpgradeSnappy", "UpgradeDeflate"} {
			if f := c.P.Func("nsqd", "(*clientV2)."+n); f != nil {
				ups = append(ups, f)
			}
		}
		for _, ic := range an.CallsTo(cmd, ident) {
			q := &an.PathQ{Fn: cmd, StartEntry: true, Sink: func(in ssa.Instruction, _ *an.PathState) bool { return in == ic.(ssa.Instruction) },
				Cut: func(in ssa.Instruction, _ *an.PathState) bool { return false }}
			_ = q
			bad := false
			for _, u := range ups {
				for _, uc := range an.CallsTo(cmd, u) {
					if an.Reaches(uc.(ssa.Instruction), ic.(ssa.Instruction)) {
						bad = true
					}
				}
			}
			c.Check(!bad, cmd, "negotiation precedes every upgrade", ic.Pos(), "", "an Upgrade* call can precede client.Identify (which rebuilds the writer on the raw connection)")
		}
		// TLS before compression
		tlsUp := c.P.Func("nsqd", "(*clientV2).UpgradeTLS")
		for _, u := range ups {
			if u == tlsUp {
				continue
			}
			for _, uc := range an.CallsTo(cmd, u) {
				for _, tc := range an.CallsTo(cmd, tlsUp) {
					c.Check(!an.Reaches(uc.(ssa.Instruction), tc.(ssa.Instruction)), cmd, "TLS upgrade precedes "+u.Name(), uc.Pos(), "", "compression is negotiated before TLS: the compression layer wraps the plaintext connection")
				}
			}
		}
		// deflate and snappy are mutually exclusive: after one of the two upgrades the other is unreachable (the start state
		// inherits what the dominating branches decided, so `if deflate && snappy { refuse }` followed by `if snappy {…}`
		// `if deflate {…}` is recognised whatever the flags are stored in)
		excl := true
		{
			sn := c.P.Func("nsqd", "(*clientV2).UpgradeSnappy")
			df := c.P.Func("nsqd", "(*clientV2).UpgradeDeflate")
			if sn == nil || df == nil {
				excl = false
			} else {
				for _, pair := range [][2]*ssa.Function{{sn, df}, {df, sn}} {
					calls := an.CallsTo(cmd, pair[0])
					if len(calls) == 0 {
						excl = false
					}
					for _, ci := range calls {
						if callReachableAfter(cmd, ci.(ssa.Instruction), pair[1]) {
							excl = false
						}
					}
				}
			}
		}
		c.Check(excl, cmd, "deflate and snappy are mutually exclusive", cmd.Pos(), "", "IDENTIFY no longer refuses deflate+snappy together: two compression layers would be stacked")
	}
	// Flush: bufio writer then flate writer
	if fn := c.Fn("nsqd", "(*clientV2).Flush"); fn != nil {
		fwF := c.P.Field("nsqd", "clientV2", "flateWriter")
		steps := []step{
			{"Writer.Flush", func(in ssa.Instruction) bool { return isStdCall(in, "bufio", "(*Writer).Flush") }},
		}
		ok, missing, w := seqOnAllPaths(fn, nil, sinkSuccessReturn, steps)
		// on the flateWriter != nil edge, flate Flush before success return
		var nn []an.Edge
		an.Instrs(fn, func(in ssa.Instruction) {
			b, okb := in.(*ssa.BinOp)
			if okb && isLoadOfField(b.X, fwF) && an.IsNilConst(b.Y) {
				for _, t := range an.NilTests(b.X) {
					nn = append(nn, t.NonNil)
				}
			}
		})
		q := &an.PathQ{Fn: fn, StartEdges: nn, Sink: an.IsReturn, Cut: func(in ssa.Instruction, _ *an.PathState) bool {
			return isStdCall(in, "compress/flate", "(*Writer).Flush")
		}}
		_, f := q.Find()
		if ok && !f && len(nn) > 0 {
			c.OK(fn, "Flush drains bufio then deflate", fn.Pos(), "")
		} else {
			c.Bad(fn, "Flush drains bufio then deflate", fn.Pos(), "Flush can return without flushing every layer ("+missing+"): the tail of a message stays in a compression buffer", w)
		}
	}
}

func c07envelope(c *an.Ctx) {
	idF := c.P.Field("nsqd", "Message", "ID")
	tsF := c.P.Field("nsqd", "Message", "Timestamp")
	bodyF := c.P.Field("nsqd", "Message", "Body")
	allowed := map[string]bool{"nsqd.NewMessage": true, "nsqd.decodeMessage": true}
	for _, fn := range c.P.RepoFuncs() {
		an.Instrs(fn, func(in ssa.Instruction) {
			switch x := in.(type) {
			case *ssa.Store:
				if fa, ok := x.Addr.(*ssa.FieldAddr); ok && (an.FieldOf(fa) == idF || an.FieldOf(fa) == tsF) {
					name := an.FnName(fn)
					good := allowed[name]
					if !good {
						// initialising a fresh copy (NewMessage result in this function) from the same field of its source
						f, _ := an.LoadedField(an.Strip(x.Val))
						good = f == an.FieldOf(fa) && an.CallResultOf(fa.X, c.P.Func("nsqd", "NewMessage")) != nil
					}
					c.Check(good, fn, "writer of Message."+an.FName(an.FieldOf(fa)), x.Pos(), "", "Message."+an.FName(an.FieldOf(fa))+" is rewritten after creation: redeliveries / other channels see a different id or timestamp")
				}
				// element store into a Body
				if ia, ok := x.Addr.(*ssa.IndexAddr); ok && isLoadOfField(ia.X, bodyF) {
					c.Bad(fn, "message body modified in place", x.Pos(), "a byte of Message.Body is overwritten: per-channel copies share the backing array, so every channel's copy changes", nil)
				}
			case *ssa.Call:
				// copy(dst=<msg.ID[:]>) in decodeMessage is the only slice-writer of ID
				if bi, ok := x.Call.Value.(*ssa.Builtin); ok && bi.Name() == "copy" {
					if sl, ok := x.Call.Args[0].(*ssa.Slice); ok {
						if fa, ok := sl.X.(*ssa.FieldAddr); ok && an.FieldOf(fa) == idF {
							c.Check(an.FnName(fn) == "nsqd.decodeMessage", fn, "writer of Message.ID (copy)", x.Pos(), "", "Message.ID is overwritten outside decodeMessage")
						}
						if isLoadOfField(sl.X, bodyF) {
							c.Bad(fn, "message body modified in place", x.Pos(), "copy() into Message.Body", nil)
						}
					}
					if isLoadOfField(x.Call.Args[0], bodyF) {
						c.Bad(fn, "message body modified in place", x.Pos(), "copy() into Message.Body", nil)
					}
				}
			}
		})
	}
	fanoutCopyKeeps(c, []*types.Var{tsF})
	// guid.Hex
	if fn := c.Fn("nsqd", "(guid).Hex"); fn != nil {
		shifts := map[int64]int64{} // byte index -> shift
		an.Instrs(fn, func(in ssa.Instruction) {
			st, ok := in.(*ssa.Store)
			if !ok {
				return
			}
			ia, ok := st.Addr.(*ssa.IndexAddr)
			if !ok {
				return
			}
			idx, isC := an.ConstInt(ia.Index)
			if !isC {
				// loop form: `for i := 0; i < 8; i++ { b[i] = byte(g >> f(i)) }` – evaluate f for every i
				phi, lo, hi, ok := countedIndex(ia.Index)
				if !ok {
					return
				}
				if b, ok := an.Strip(st.Val).(*ssa.BinOp); ok && b.Op == token.SHR && isParam(an.Strip(b.X), fn, 0) {
					for i := lo; i < hi; i++ {
						if k, ok := evalInt(b.Y, map[ssa.Value]int64{phi: i}); ok {
							shifts[i] = k
						}
					}
				}
				return
			}
			v := an.Strip(st.Val)
			if b, ok := v.(*ssa.BinOp); ok && b.Op == token.SHR {
				if k, isC := an.ConstInt(b.Y); isC {
					shifts[idx] = k
				}
			} else if isParam(v, fn, 0) {
				shifts[idx] = 0
			}
		})
		good := len(shifts) == 8
		for i := int64(0); i < 8; i++ {
			if shifts[i] != 56-8*i {
				good = false
			}
		}
		enc := false
		an.Instrs(fn, func(in ssa.Instruction) {
			if isStdCall(in, "encoding/hex", "Encode") {
				enc = true
			}
			// binary.BigEndian.PutUint64(b[:], uint64(g)) writes the same eight bytes
			if call, ok := in.(*ssa.Call); ok && an.StdCallee(call, "encoding/binary", "(bigEndian).PutUint64") && len(call.Call.Args) == 3 && isParam(an.Strip(call.Call.Args[2]), fn, 0) {
				for i := int64(0); i < 8; i++ {
					shifts[i] = 56 - 8*i
				}
			}
		})
		good = len(shifts) == 8
		for i := int64(0); i < 8; i++ {
			if shifts[i] != 56-8*i {
				good = false
			}
		}
		idLen, _ := constVal(c, "nsqd", "MsgIDLength")
		c.Check(good && enc && idLen == 16, fn, "id = 16 hex digits of the big-endian guid", fn.Pos(), "", sprintf("guid.Hex does not hex-encode the 8 bytes of the guid most-significant first (shifts %v): ids are no longer unique/ordered renderings of the guid", shifts))
	}
}

// fanoutCopyKeeps: the per-channel copy the topic pump hands to a channel carries the source message's value
// of each of fields. The copy may be built in the pump or in a helper the pump calls.
func fanoutCopyKeeps(c *an.Ctx, fanoutFields []*types.Var) {
	// the fan-out copy carries the source's timestamp (and deferral) before it is handed to a channel;
	// the copy may be built in the pump or in a helper the pump calls
	if fn := c.Fn("nsqd", "(*Topic).messagePump"); fn != nil {
		newMsg := c.P.Func("nsqd", "NewMessage")
		chPut := c.P.Func("nsqd", "(*Channel).PutMessage")
		chPutD := c.P.Func("nsqd", "(*Channel).PutMessageDeferred")
		isPut := func(in ssa.Instruction, _ *an.PathState) bool {
			return isCallToOn(in, chPut, nil) || isCallToOn(in, chPutD, nil)
		}
		keeps := func(in *ssa.Function, nc *ssa.Call, src ssa.Value, sink func(ssa.Instruction, *an.PathState) bool, fld *types.Var) bool {
			q := &an.PathQ{Fn: in, StartAfter: []ssa.Instruction{nc}, Sink: sink,
				Cut: func(x ssa.Instruction, _ *an.PathState) bool {
					st, ok := x.(*ssa.Store)
					if !ok {
						return false
					}
					fa, ok := st.Addr.(*ssa.FieldAddr)
					if !ok || an.FieldOf(fa) != fld || !an.SameValue(fa.X, nc) {
						return false
					}
					f, base := an.LoadedField(an.Strip(st.Val))
					return f == fld && an.SameValue(base, src)
				}}
			_, f := q.Find()
			return !f
		}
		seen := map[*ssa.Call]bool{}
		copies := 0
		for _, ci := range an.CallsTo(fn, chPut, chPutD) {
			for _, o := range an.Origins(arg(ci, 0)) {
				call, ok := o.(*ssa.Call)
				if !ok || seen[call] {
					continue
				}
				if pt, ok := call.Type().(*types.Pointer); !ok || !types.Identical(pt.Elem(), c.P.Named("nsqd", "Message")) {
					continue
				}
				seen[call] = true
				mc := msgCopyOf(call, newMsg)
				if mc == nil {
					if an.IsCallTo(call, newMsg) || len(an.Origins(arg(ci, 0))) > 1 {
						c.Bad(fn, "fan-out copy is NewMessage(src.ID, src.Body)", call.Pos(), "a message handed to a channel is built by "+describeCall(call)+", which is not a copy of the source message's ID and Body", nil)
					}
					continue
				}
				copies++
				for _, fld := range fanoutFields {
					good := false
					if mc.Helper == nil {
						good = keeps(fn, mc.Call, mc.Src, isPut, fld) || zeroAt(mc.Call.Block(), mc.Src, fld, newMsg)
					} else {
						good = true
						for _, nc := range mc.Inner {
							if !keeps(mc.Helper, nc, mc.Param, an.IsReturn, fld) {
								good = false
							}
						}
					}
					c.Check(good, fn, "fan-out copy keeps the source's "+fld.Name(), call.Pos(), "", "the per-channel copy ("+describeCall(call)+") can be handed to a channel without the source message's "+fld.Name()+": the same message shows a different "+fld.Name()+" on different channels")
				}
			}
		}
		c.Check(copies > 0, fn, "fan-out copy located", fn.Pos(), "", "no per-channel copy (NewMessage(src.ID, src.Body), direct or via a helper) found among the messages the topic pump hands to channels")
	}
}

// zeroAt: at block b the source's field fld is known to be zero, and NewMessage leaves fld at its zero value –
// the fresh copy then already agrees with the source.
func zeroAt(b *ssa.BasicBlock, src ssa.Value, fld *types.Var, newMsg *ssa.Function) bool {
	writes := false
	an.Instrs(newMsg, func(in ssa.Instruction) {
		if st, ok := in.(*ssa.Store); ok {
			if fa, ok := st.Addr.(*ssa.FieldAddr); ok && an.FieldOf(fa) == fld {
				writes = true
			}
		}
	})
	if writes {
		return false
	}
	for _, cmp := range an.CmpsAt(b) {
		if cmp.Op != token.EQL {
			continue
		}
		f, base := an.LoadedField(an.Strip(cmp.X))
		if f != fld || !an.SameValue(base, src) {
			continue
		}
		if k, isC := an.ConstInt(cmp.Y); isC && k == 0 {
			return true
		}
	}
	return false
}

// countedIndex: v is the induction variable of `for i := lo; i < hi; i++` with constant bounds (v is the header phi).
func countedIndex(v ssa.Value) (phi *ssa.Phi, lo, hi int64, ok bool) {
	phi, isPhi := an.Strip(v).(*ssa.Phi)
	if !isPhi || len(phi.Edges) != 2 {
		return nil, 0, 0, false
	}
	gotLo, gotInc := false, false
	for _, e := range phi.Edges {
		if k, isC := an.ConstInt(e); isC {
			lo, gotLo = k, true
			continue
		}
		if b, ok := e.(*ssa.BinOp); ok && b.Op == token.ADD && b.X == ssa.Value(phi) {
			if k, isC := an.ConstInt(b.Y); isC && k == 1 {
				gotInc = true
			}
		}
	}
	if !gotLo || !gotInc {
		return nil, 0, 0, false
	}
	// the header tests phi < hi
	blk := phi.Block()
	ifi, isIf := blk.Instrs[len(blk.Instrs)-1].(*ssa.If)
	if !isIf {
		return nil, 0, 0, false
	}
	cmp, isCmp := ifi.Cond.(*ssa.BinOp)
	if !isCmp || cmp.Op != token.LSS || cmp.X != ssa.Value(phi) {
		return nil, 0, 0, false
	}
	k, isC := an.ConstInt(cmp.Y)
	if !isC || k-lo > 64 {
		return nil, 0, 0, false
	}
	return phi, lo, k, true
}

// evalInt evaluates an integer SSA expression over constants and the bindings of env.
func evalInt(v ssa.Value, env map[ssa.Value]int64) (int64, bool) {
	if k, ok := env[v]; ok {
		return k, true
	}
	if k, isC := an.ConstInt(v); isC {
		return k, true
	}
	switch x := v.(type) {
	case *ssa.Convert:
		return evalInt(x.X, env)
	case *ssa.ChangeType:
		return evalInt(x.X, env)
	case *ssa.BinOp:
		a, ok1 := evalInt(x.X, env)
		b, ok2 := evalInt(x.Y, env)
		if !ok1 || !ok2 {
			return 0, false
		}
		switch x.Op {
		case token.ADD:
			return a + b, true
		case token.SUB:
			return a - b, true
		case token.MUL:
			return a * b, true
		case token.SHL:
			if b >= 0 && b < 63 {
				return a << uint(b), true
			}
		case token.QUO:
			if b != 0 {
				return a / b, true
			}
		}
	}
	return 0, false
}

// callReachableAfter: is there a path from the entry on which first is executed and a call of second follows? first sits
// behind a gate (`if snappy { UpgradeSnappy }`); the path is followed from the entry, so that what an earlier compound test
// (`if deflate && snappy { refuse }`) decided about the gate is known, and the sink asks whether the gate was open.
func callReachableAfter(fn *ssa.Function, first ssa.Instruction, second *ssa.Function) bool {
	// the gate: the nearest dominating branch whose true side holds first
	var gate ssa.Value
	for b := first.Block(); b != nil && gate == nil; b = b.Idom() {
		id := b.Idom()
		if id == nil {
			break
		}
		if ifi, ok := id.Instrs[len(id.Instrs)-1].(*ssa.If); ok && len(id.Succs) == 2 && id.Succs[0] == b && id.Succs[1] != b {
			gate = an.CanonBool(ifi.Cond)
		}
	}
	if gate == nil {
		q := &an.PathQ{Fn: fn, StartAfter: []ssa.Instruction{first}, FullOnly: true, AllAlias: true,
			Sink: func(in ssa.Instruction, _ *an.PathState) bool { return isCallToOn(in, second, nil) }}
		_, found := q.Find()
		return found
	}
	q := &an.PathQ{Fn: fn, StartEntry: true, FullOnly: true, AllAlias: true, AllConsts: true, Marked: []ssa.Value{gate},
		Sink: func(in ssa.Instruction, st *an.PathState) bool {
			if !isCallToOn(in, second, nil) {
				return false
			}
			k, known := st.ConstOf(gate)
			if !known {
				return true // the gate's state is not known here: assume it may have been open
			}
			return k.Value != nil && k.Value.String() == "true"
		}}
	_, found := q.Find()
	return found
}
