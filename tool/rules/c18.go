package rules

import (
	"go/token"
	"go/types"
	"sort"
	"strings"

	"golang.org/x/tools/go/ssa"

	"nsqverif/an"
)

func init() {
	Props["C18"] = PropInfo{
		Explanation: "Decides the aggregation skeleton and the crash surface on upstream data: (sum) TopicStats.Add/ChannelStats.Add add every numeric field to the same field, OR the paused flag and append node lists; " +
			"(fanin) the seven Get* fan-ins start one worker per upstream, record a failed fetch under the mutex and stop that worker, touch shared accumulators only under the mutex, and map all-failed to a plain error, some-failed to a PartialErr with the partial data, none-failed to nil; " +
			"(partial) every consumer of those errors turns a PartialErr into a warning / merged error list and anything else into 502 / a total error; " +
			"(index, nilelem) on the unrecovered worker goroutines (including custom UnmarshalJSON methods called by the decoder) every index into decoded slices is in range and every decoded pointer or map is nil-checked before use; (dedupe) producers are de-duplicated by broadcast TCP/HTTP address.",
		NotDecided:  "that the rendered numbers equal the sums for all upstream contents (arithmetic on run-time data); quantile merging.",
		Assumptions: []string{"encoding/json yields nil for JSON null and absent keys, and does not recover panics of custom UnmarshalJSON methods", "httprouter recovers panics in HTTP handlers (500), worker goroutines have no recover"},
	}
	reg("C18.sum", "SHAPE", "Add methods sum every numeric field into the same field; Paused OR-ed; node lists appended", 25, c18sum)
	reg("C18.union", "PATH", "TopicStats.Add merges every channel of the added node: summed into the like-named one or appended", 1, c18union)
	reg("C18.fanin", "SHAPE+LOCK", "sibling contract of the seven Get* fan-ins", 40, c18fanin)
	reg("C18.partial", "ETYPE+PATH", "PartialErr => warning/merge, anything else => 502/total error", 25, c18partial)
	reg("C18.index", "GUARD", "indices into decoded slices on unrecovered goroutines are in range", 1, c18index)
	reg("C18.nilelem", "GUARD+ORIG", "decoded pointers/maps are nil-checked before use on unrecovered goroutines", 8, c18nilelem)
	reg("C18.dedupe", "ORIG", "producer de-duplication keys; stringy set helpers compare by equality", 4, c18dedupe)
}

func c18sum(c *an.Ctx) {
	for _, tn := range []string{"TopicStats", "ChannelStats"} {
		fn := c.Fn("internal/clusterinfo", "(*"+tn+").Add")
		nt := c.P.Named("internal/clusterinfo", tn)
		if fn == nil || nt == nil {
			continue
		}
		st := nt.Underlying().(*types.Struct)
		// collect stores recv.F = X
		stores := map[string]ssa.Value{}
		an.Instrs(fn, func(in ssa.Instruction) {
			s, ok := in.(*ssa.Store)
			if !ok {
				return
			}
			fa, ok := s.Addr.(*ssa.FieldAddr)
			if !ok || !isParam(fa.X, fn, 0) {
				return
			}
			stores[an.FName(an.FieldOf(fa))] = s.Val
		})
		for i := 0; i < st.NumFields(); i++ {
			f := st.Field(i)
			b, ok := f.Type().Underlying().(*types.Basic)
			if !ok || b.Info()&types.IsInteger == 0 {
				continue
			}
			v, has := stores[an.FName(f)]
			good := false
			if has {
				if add, ok := v.(*ssa.BinOp); ok && add.Op == token.ADD {
					lf, lb := an.LoadedField(add.X)
					rf, rb := an.LoadedField(add.Y)
					if lf == f && rf == f && ((isParam(lb, fn, 0) && isParam(rb, fn, 1)) || (isParam(lb, fn, 1) && isParam(rb, fn, 0))) {
						good = true
					}
				}
			}
			c.Check(good, fn, tn+"."+f.Name()+" += a."+f.Name(), fn.Pos(), "",
				sprintf("%s.Add does not add a.%s into %s (missing, or summed from a different field): the cluster-wide %s shown by nsqadmin is not the sum over nodes", tn, f.Name(), f.Name(), f.Name()))
		}
		// Paused OR
		pv, has := stores["Paused"]
		okP := false
		if has {
			lf, lb := an.LoadedField(an.Strip(pv))
			if lf != nil && lf.Name() == "Paused" && isParam(lb, fn, 1) {
				okP = true // stored under `if a.Paused`
			}
			if b, ok := pv.(*ssa.BinOp); ok && b.Op == token.OR {
				okP = true
			}
		}
		c.Check(okP, fn, tn+".Paused is the OR over nodes", fn.Pos(), "", tn+".Add does not OR the paused flag")
		// NodeStats appended with a
		okN := false
		if v, ok := stores["NodeStats"]; ok {
			if call, ok := an.Strip(v).(*ssa.Call); ok {
				if bi, ok := call.Call.Value.(*ssa.Builtin); ok && bi.Name() == "append" {
					for _, e := range appendedElems(call.Call.Args[1]) {
						if isParam(e, fn, 1) {
							okN = true
						}
					}
				}
			}
		}
		c.Check(okN, fn, tn+".NodeStats keeps the per-node entry", fn.Pos(), "", tn+".Add does not append the node's stats to NodeStats")
	}
}

// c18union: TopicStats.Add merges the added node's channels: each one is either added into the like-named
// channel already present or appended. Decided per iteration of the loop over a.Channels.
func c18union(c *an.Ctx) {
	fn := c.Fn("internal/clusterinfo", "(*TopicStats).Add")
	cadd := c.Fn("internal/clusterinfo", "(*ChannelStats).Add")
	chF := c.P.Field("internal/clusterinfo", "TopicStats", "Channels")
	nameF := c.P.Field("internal/clusterinfo", "ChannelStats", "ChannelName")
	if fn == nil || cadd == nil || chF == nil || nameF == nil {
		return
	}
	var outer *an.IndexLoop
	for _, l := range an.NaturalLoops(fn) {
		il, ok := an.AsIndexLoop(l)
		if !ok || il.Slice == nil {
			continue
		}
		if f, base := an.LoadedField(an.Strip(il.Slice)); f == chF && isParam(base, fn, 1) {
			outer = il
		}
	}
	if outer == nil {
		c.Bad(fn, "channels of the added node are merged", fn.Pos(), "TopicStats.Add does not range over a.Channels", nil)
		return
	}
	elems := outer.Elems()
	onlyEx, _ := outer.OnlyExhaustionExit()
	q := &an.PathQ{Fn: fn, StartEdges: []an.Edge{{From: outer.Header, To: outer.Body}}, AllConsts: true,
		SinkEdge: func(e an.Edge, _ *an.PathState) bool { return e.To == outer.Header },
		Cut: func(in ssa.Instruction, _ *an.PathState) bool {
			if isCallToOn(in, cadd, nil) {
				ci := in.(ssa.CallInstruction)
				if !valueIn(arg(ci, 0), elems) {
					return false
				}
				// under ChannelName equality between the element and the receiver
				for _, cmp := range an.CmpsAt(in.Block()) {
					if cmp.Op != token.EQL {
						continue
					}
					lf, lb := an.LoadedField(an.Strip(cmp.X))
					rf, rb := an.LoadedField(an.Strip(cmp.Y))
					if lf == nameF && rf == nameF && ((valueIn(lb, elems) && an.SameValue(rb, recvArg(ci))) || (valueIn(rb, elems) && an.SameValue(lb, recvArg(ci)))) {
						return true
					}
				}
				return false
			}
			if st, ok := in.(*ssa.Store); ok {
				if fa, ok := st.Addr.(*ssa.FieldAddr); ok && an.FieldOf(fa) == chF && isParam(fa.X, fn, 0) {
					if call, ok := an.Strip(st.Val).(*ssa.Call); ok {
						if _, isApp := isBuiltinCall(call, "append"); isApp && len(call.Call.Args) == 2 {
							for _, e := range appendedElems(call.Call.Args[1]) {
								if valueIn(e, elems) {
									return true
								}
							}
						}
					}
				}
			}
			return false
		}}
	w, skip := q.Find()
	if skip || !onlyEx || !outer.WholeOK {
		c.Bad(fn, "channels of the added node are merged", fn.Pos(), "an iteration over a.Channels can finish without either adding the channel into the like-named one or appending it (e.g. a found-flag that is not reset per channel): a channel that only some nodes have disappears from the merged topic view", w)
	} else {
		c.OK(fn, "channels of the added node are merged", fn.Pos(), "")
	}
}

var faninFuncs = []string{"GetLookupdTopics", "GetLookupdTopicChannels", "GetLookupdProducers", "GetLookupdTopicProducers", "GetNSQDTopics", "GetNSQDProducers", "GetNSQDTopicProducers", "GetNSQDStats"}

// workerOf returns the goroutine closure started by fn and the Go instruction.
func workerOf(fn *ssa.Function) (*ssa.Function, *ssa.Go) {
	var w *ssa.Function
	var g *ssa.Go
	an.Instrs(fn, func(in ssa.Instruction) {
		if x, ok := in.(*ssa.Go); ok {
			if f := an.StaticCallee(x); f != nil && f.Parent() == fn {
				w, g = f, x
			} else if f != nil && w == nil && f.Pkg == fn.Pkg && f.Blocks != nil && methodWorkerAcc(f) != nil {
				// `go c.queryOne(addr, &acc)`: the worker is a method, its shared state a struct handed over by pointer
				w, g = f, x
			}
		}
	})
	return w, g
}

func c18fanin(c *an.Ctx) {
	getv1 := c.P.Func("internal/http_api", "(*Client).GETV1")
	if getv1 == nil {
		c.Anchor("http_api.Client.GETV1")
		return
	}
	la := c.P.Locks()
	for _, name := range faninFuncs {
		fn := c.Fn("internal/clusterinfo", "(*ClusterInfo)."+name)
		if fn == nil {
			continue
		}
		w, g := workerOf(fn)
		if w == nil {
			c.Bad(fn, "one worker per upstream", fn.Pos(), "no goroutine is started per upstream", nil)
			continue
		}
		// (a) go inside a whole range loop over the address/producers parameter
		loops := an.NaturalLoops(fn)
		var il *an.IndexLoop
		if l := an.LoopContaining(loops, g.Block()); l != nil {
			il, _ = an.AsIndexLoop(l)
		}
		addrsIdx := -1
		if il != nil && il.Slice != nil {
			for i := range fn.Params {
				if isParam(il.Slice, fn, i) {
					addrsIdx = i
				}
			}
		}
		okLoop := il != nil && il.WholeOK && addrsIdx > 0
		if okLoop {
			onlyEx, _ := il.OnlyExhaustionExit()
			each, _ := loopDoesEach(fn, il, func(in ssa.Instruction, _ []ssa.Value) bool { return in == ssa.Instruction(g) })
			okLoop = onlyEx && each
		}
		c.Check(okLoop, fn, "one worker per upstream", g.Pos(), "", name+" does not start a worker for every address it was given")
		if addrsIdx < 0 {
			continue
		}
		// free variables of the worker
		fv := func(n string) *ssa.FreeVar {
			for _, v := range w.FreeVars {
				if v.Name() == n {
					return v
				}
			}
			return nil
		}
		errsFV, lockFV := fv("errs"), fv("lock")
		if errsFV == nil || lockFV == nil {
			if acc := methodWorkerAcc(w); acc != nil {
				faninMethodWorker(c, la, fn, w, g, acc, getv1, name, addrsIdx)
				continue
			}
			c.Und(fn, "worker error bookkeeping", w.Pos(), "worker closure does not capture `errs` and `lock`")
			continue
		}
		fl := la.Fns[w]
		// (b) every GETV1 failure: append to errs under lock, then return
		n := 0
		for _, gc := range an.CallsTo(w, getv1) {
			n++
			_, fail := an.ErrEdges(gc.Value())
			isErrAppend := func(in ssa.Instruction) bool {
				st, ok := in.(*ssa.Store)
				if !ok || st.Addr != ssa.Value(errsFV) {
					return false
				}
				must, _ := fl.At(in)
				return must.Holds("local:lock", "", true)
			}
			q := &an.PathQ{Fn: w, StartEdges: fail, Sink: an.IsReturn, Cut: func(in ssa.Instruction, _ *an.PathState) bool { return isErrAppend(in) }}
			wit, f := q.Find()
			// after the failure the worker must not fall through to the success path (accumulate garbage)
			succ, _ := an.ErrEdges(gc.Value())
			q2 := &an.PathQ{Fn: w, StartEdges: fail, SinkEdge: func(e an.Edge, _ *an.PathState) bool { return an.EdgeIn(e, succ) },
				Sink: func(in ssa.Instruction, _ *an.PathState) bool {
					// any store to an accumulator other than errs
					st, ok := in.(*ssa.Store)
					if !ok {
						return false
					}
					fvv, isFV := st.Addr.(*ssa.FreeVar)
					return isFV && fvv != errsFV
				}}
			_, f2 := q2.Find()
			if f || f2 || len(fail) == 0 {
				c.Bad(fn, "failed fetch is recorded and ends the worker", gc.Pos(), "a failed upstream fetch is not (only) recorded in errs under the mutex followed by return: the failure is lost (no warning / wrong 502 decision) or a zero-valued reply is merged into the view", wit)
			} else {
				c.OK(fn, "failed fetch is recorded and ends the worker", gc.Pos(), "")
			}
		}
		if n == 0 {
			c.Bad(fn, "worker fetches from its upstream", w.Pos(), "worker does not call GETV1", nil)
		}
		// (c) shared accumulators only under the lock
		for _, v := range w.FreeVars {
			if v == lockFV || v.Name() == "wg" || v.Name() == "c" {
				continue
			}
			// read-only captures (parameters like topic, selectedTopic) are passed by value cells that nobody writes
			written := false
			for _, r := range an.Referrers(v) {
				if st, ok := r.(*ssa.Store); ok && st.Addr == ssa.Value(v) {
					written = true
				}
			}
			isMap := false
			if pt, ok := v.Type().(*types.Pointer); ok {
				if _, ok := pt.Elem().Underlying().(*types.Map); ok {
					isMap = true
				}
			}
			if !written && !isMap {
				continue
			}
			bad := ""
			for _, r := range an.Referrers(v) {
				in, ok := r.(ssa.Instruction)
				if !ok {
					continue
				}
				if _, isDbg := r.(*ssa.DebugRef); isDbg {
					continue
				}
				must, _ := fl.At(in)
				if !must.Holds("local:lock", "", true) {
					bad = c.P.Pos(an.InstrPos(in))
				}
			}
			c.Check(bad == "", fn, "accumulator "+v.Name()+" only under the mutex", w.Pos(), "", "the shared accumulator `"+v.Name()+"` is touched at "+bad+" without the fan-in mutex: concurrent workers race on it (lost results, or a fatal concurrent map write)")
		}
		// (d) result mapping after Wait
		errsAlloc := ssa.Value(nil)
		for i, b := range bindingsOf(fn, w) {
			if w.FreeVars[i] == errsFV {
				errsAlloc = b
			}
		}
		isLenErrs := func(v ssa.Value) bool {
			a := lenArgOf(v)
			if a == nil {
				return false
			}
			u, ok := an.Strip(a).(*ssa.UnOp)
			return ok && u.X == errsAlloc
		}
		faninResultMapping(c, fn, name, addrsIdx, isLenErrs)
	}
}

// bindingsOf returns the MakeClosure bindings for closure w created in fn.
func bindingsOf(fn, w *ssa.Function) []ssa.Value {
	var out []ssa.Value
	an.Instrs(fn, func(in ssa.Instruction) {
		if mc, ok := in.(*ssa.MakeClosure); ok && mc.Fn == ssa.Value(w) {
			out = mc.Bindings
		}
	})
	return out
}

func c18partial(c *an.Ctx) {
	// all unchecked/commaok assertions to PartialErr in nsqadmin and clusterinfo
	for _, pkg := range []string{"nsqadmin", "internal/clusterinfo"} {
		for _, fn := range c.P.PkgFuncs(pkg) {
			an.Instrs(fn, func(in ssa.Instruction) {
				ta, ok := in.(*ssa.TypeAssert)
				if !ok || typeStrShort(ta.AssertedType) != "clusterinfo.PartialErr" {
					return
				}
				construct := "PartialErr arm"
				if !ta.CommaOk {
					c.Bad(fn, construct, ta.Pos(), "unchecked assertion to PartialErr: a total upstream failure panics", nil)
					return
				}
				var notOK, isOK []an.Edge
				for _, okv := range an.ResultN(ta, 1) {
					for _, t := range an.BoolTests(okv) {
						notOK = append(notOK, t.False)
						isOK = append(isOK, t.True)
					}
				}
				if len(notOK) == 0 {
					c.Bad(fn, construct, ta.Pos(), "the ok result of the PartialErr assertion is not tested", nil)
					return
				}
				good := true
				why := ""
				if pkg == "nsqadmin" {
					// !ok => every return is Err{502}
					q := &an.PathQ{Fn: fn, StartEdges: notOK, Sink: func(x ssa.Instruction, st *an.PathState) bool {
						r, ok := x.(*ssa.Return)
						if !ok {
							return false
						}
						e := errOperand(r)
						if e == nil {
							return true
						}
						code, _, isErr := httpErrOf(st.Selected(e))
						return !isErr || code != 502
					}}
					if _, bad := q.Find(); bad {
						good, why = false, "a non-partial upstream error is not answered 502"
					}
					// ok => no error return before the next statement: the handler continues (does not return an error)
					q2 := &an.PathQ{Fn: fn, StartEdges: isOK, Sink: func(x ssa.Instruction, _ *an.PathState) bool {
						r, ok := x.(*ssa.Return)
						if !ok {
							return false
						}
						e := errOperand(r)
						if e == nil {
							return false
						}
						code, _, isErr := httpErrOf(e)
						// reaching another 502 arm later is fine only through another assertion; a direct 502 from the ok edge is not
						_ = code
						return isErr && r.Block() == isOK[0].To
					}}
					if _, bad := q2.Find(); bad {
						good, why = false, "a partial error is answered as a failure instead of a warning"
					}
					// ok => the message is recorded
					// (on every path from the ok edge to a success return or to the next upstream query)
					q3 := &an.PathQ{Fn: fn, StartEdges: isOK,
						Sink: func(x ssa.Instruction, st *an.PathState) bool {
							if sinkSuccessReturn(x, st) {
								return true
							}
							ci, isCall := x.(ssa.CallInstruction)
							if !isCall {
								return false
							}
							f := an.StaticCallee(ci)
							return f != nil && f.Signature.Recv() != nil && strings.HasSuffix(f.Signature.Recv().Type().String(), "clusterinfo.ClusterInfo")
						},
						Cut: func(x ssa.Instruction, _ *an.PathState) bool {
							_, isApp := isBuiltinCall(x, "append")
							return isApp
						}}
					_, unrecorded := q3.Find()
					if unrecorded {
						good, why = false, "the partial error's message is not added to the warning list"
					}
				} else {
					// clusterinfo: !ok => return err as is
					q := &an.PathQ{Fn: fn, StartEdges: notOK, Sink: func(x ssa.Instruction, _ *an.PathState) bool {
						r, ok := x.(*ssa.Return)
						if !ok {
							return false
						}
						e := errOperand(r)
						return e == nil || !an.OriginsAll(e, func(o ssa.Value) bool { return an.SameValue(o, ta.X) || o == ta.X })
					}}
					if _, bad := q.Find(); bad {
						good, why = false, "a total failure of a sub-step is not returned as is"
					}
					rec := false
					for _, e := range isOK {
						for _, x := range e.To.Instrs {
							if _, ok := isBuiltinCall(x, "append"); ok {
								rec = true
							}
						}
					}
					if !rec {
						good, why = false, "a partial failure of a sub-step is not merged into the error list"
					}
				}
				c.Check(good, fn, construct, ta.Pos(), "", why)
			})
		}
	}
}

// unrecoveredScope: worker closures of the fan-ins, plus custom UnmarshalJSON methods the decoder calls there,
// plus repo functions those call with decoded data.
func unrecoveredScope(c *an.Ctx) []*ssa.Function {
	var out []*ssa.Function
	seen := map[*ssa.Function]bool{}
	add := func(f *ssa.Function) {
		if f != nil && !seen[f] && f.Blocks != nil {
			seen[f] = true
			out = append(out, f)
		}
	}
	for _, name := range faninFuncs {
		if fn := c.P.Func("internal/clusterinfo", "(*ClusterInfo)."+name); fn != nil {
			w, _ := workerOf(fn)
			add(w)
		}
	}
	for _, pkg := range []string{"internal/clusterinfo", "internal/quantile"} {
		for _, fn := range c.P.PkgFuncs(pkg) {
			if fn.Name() == "UnmarshalJSON" {
				add(fn)
			}
		}
	}
	// callees (one level, same module, non-trivial) of the workers
	for i := 0; i < len(out); i++ {
		an.Instrs(out[i], func(in ssa.Instruction) {
			if ci, ok := in.(ssa.CallInstruction); ok {
				if _, isGo := in.(*ssa.Go); isGo {
					return
				}
				if cf := an.StaticCallee(ci); cf != nil && cf.Pkg != nil {
					p := cf.Pkg.Pkg.Path()
					if (p == an.ModPath+"/internal/clusterinfo" || p == an.ModPath+"/internal/quantile" || p == an.ModPath+"/internal/stringy") && cf.Name() != "logf" {
						add(cf)
					}
				}
			}
		})
	}
	sort.Slice(out, func(i, j int) bool { return an.FnName(out[i]) < an.FnName(out[j]) })
	return out
}

func c18index(c *an.Ctx) {
	scope := unrecoveredScope(c)
	n := 0
	allow := map[string]string{
		"(*internal/quantile.E2eProcessingLatencyAggregate).Add": "search-or-append over the aggregate's own Percentiles: i is the range index of p, or len(p) taken right before a one-element append that p is re-read from (reviewed by hand; needs correlated-phi reasoning the engine does not do)",
	}
	for _, fn := range scope {
		loops := an.NaturalLoops(fn)
		an.Instrs(fn, func(in ssa.Instruction) {
			ia, ok := in.(*ssa.IndexAddr)
			if !ok {
				return
			}
			if _, isSlice := ia.X.Type().Underlying().(*types.Slice); !isSlice {
				return
			}
			if why := allow[an.FnName(fn)]; why != "" {
				n++
				c.OK(fn, "index into "+describeSliceExpr(ia.X), ia.Pos(), "allowed: "+why)
				return
			}
			if _, isAlloc := an.Strip(ia.X).(*ssa.Slice); isAlloc {
				if _, isArr := an.Strip(ia.X).(*ssa.Slice).X.(*ssa.Alloc); isArr {
					return // variadic argument arrays
				}
			}
			n++
			construct := "index into " + describeSliceExpr(ia.X)
			// (1) index is the range index of a loop over the same slice
			for _, l := range loops {
				il, ok := an.AsIndexLoop(l)
				if ok && il.Slice != nil && il.Idx == ia.Index && il.Blocks[ia.Block()] && an.SameValue(an.Strip(ia.X), an.Strip(il.Slice)) {
					c.OK(fn, construct, ia.Pos(), "range index of the same slice")
					return
				}
			}
			// (2) dominated by index < len(X)
			for _, cmp := range an.CmpsAt(ia.Block()) {
				oc, ok := cmp.Oriented(func(x ssa.Value) bool { return x == ia.Index })
				if ok && oc.Op == token.LSS {
					if a := lenArgOf(oc.Y); a != nil && an.SameValue(an.Strip(a), an.Strip(ia.X)) {
						c.OK(fn, construct, ia.Pos(), "guarded by index < len")
						return
					}
				}
			}
			// (3) freshly appended: p[i] where i = len(p) before append of one element (quantile Add) – index from len of the pre-append slice
			if idxFromLenOfAppendBase(ia) {
				c.OK(fn, construct, ia.Pos(), "index is the length before a one-element append")
				return
			}
			// (4) search result: index set in a loop over the same slice (i = j), initial -1 handled by a guard
			if idxFoundInSameSlice(ia, loops) {
				c.OK(fn, construct, ia.Pos(), "index found by a search over the same slice")
				return
			}
			c.Bad(fn, construct, ia.Pos(), "a slice decoded from an upstream reply is indexed with an index that is not proven in range ("+ia.Index.String()+"): a shorter array in the JSON (e.g. fewer tombstones than topics) panics the worker goroutine, which has no recover, and nsqadmin/nsqd dies", nil)
		})
	}
	if n == 0 {
		c.OK(nil, "no slice indexing on worker goroutines", token.NoPos, "")
	}
}

func describeSliceExpr(v ssa.Value) string {
	if f, _ := an.LoadedField(an.Strip(v)); f != nil {
		return "field " + f.Name()
	}
	if p, ok := an.Strip(v).(*ssa.Parameter); ok {
		return "parameter " + p.Name()
	}
	return strings.TrimPrefix(v.Type().String(), an.ModPath+"/")
}

func idxFromLenOfAppendBase(ia *ssa.IndexAddr) bool {
	// index origins: len(base) where X originates from append(base, one)
	ok := an.OriginsAny(ia.Index, func(o ssa.Value) bool { return lenArgOf(o) != nil })
	if !ok {
		return false
	}
	return an.OriginsAny(ia.X, func(o ssa.Value) bool {
		call, isCall := o.(*ssa.Call)
		if !isCall {
			return false
		}
		bi, isB := call.Call.Value.(*ssa.Builtin)
		return isB && bi.Name() == "append"
	})
}

func idxFoundInSameSlice(ia *ssa.IndexAddr, loops map[*ssa.BasicBlock]*an.Loop) bool {
	// every origin of the index is either a range index of a loop over X, or a value covered by idxFromLenOfAppendBase, or -1 excluded by a guard
	good := true
	found := false
	for _, o := range an.Origins(ia.Index) {
		if k, isC := an.ConstInt(o); isC && k == -1 {
			continue // replaced before use when no match (checked by the len/append arm)
		}
		isIdx := false
		for _, l := range loops {
			il, ok := an.AsIndexLoop(l)
			if ok && il.Slice != nil && il.Idx == o && sameSliceOrigin(il.Slice, ia.X) {
				isIdx = true
				found = true
			}
		}
		if a := lenArgOf(o); a != nil && sameSliceOrigin(a, ia.X) {
			isIdx = true
		}
		if !isIdx {
			good = false
		}
	}
	return good && found
}

// sameSliceOrigin: a and b denote the same slice variable (same value, or b is an append-extension / phi of a).
func sameSliceOrigin(a, b ssa.Value) bool {
	a, b = an.Strip(a), an.Strip(b)
	if an.SameValue(a, b) {
		return true
	}
	for _, o := range an.Origins(b) {
		if an.SameValue(an.Strip(o), a) {
			return true
		}
		if call, ok := o.(*ssa.Call); ok {
			if bi, ok := call.Call.Value.(*ssa.Builtin); ok && bi.Name() == "append" && sameSliceOrigin(a, call.Call.Args[0]) {
				return true
			}
		}
	}
	for _, o := range an.Origins(a) {
		if an.SameValue(an.Strip(o), b) {
			return true
		}
	}
	return false
}

func c18nilelem(c *an.Ctx) {
	scope := unrecoveredScope(c)
	for _, fn := range scope {
		loops := an.NaturalLoops(fn)
		for _, l := range loops {
			il, ok := an.AsIndexLoop(l)
			if !ok || il.Slice == nil {
				continue
			}
			st, ok := il.Slice.Type().Underlying().(*types.Slice)
			if !ok {
				continue
			}
			_, elemPtr := st.Elem().Underlying().(*types.Pointer)
			_, elemMap := st.Elem().Underlying().(*types.Map)
			if !elemPtr && !elemMap {
				continue
			}
			// only slices that come from decoded data: fields of a local response struct, or parameters/fields of decoded objects
			if !decodedSlice(il.Slice) {
				continue
			}
			for _, e := range il.Elems() {
				uses := derefUses(e, elemMap)
				construct := "element of " + describeSliceExpr(il.Slice) + " nil-checked before use"
				if len(uses) == 0 {
					c.OK(fn, construct, e.Pos(), "not dereferenced here")
					continue
				}
				bad := ""
				for _, u := range uses {
					guarded := false
					for _, cmp := range an.CmpsAt(u.Block()) {
						if cmp.Op == token.NEQ && cmp.X == e && an.IsNilConst(cmp.Y) {
							guarded = true
						}
					}
					if !guarded {
						bad = c.P.Pos(an.InstrPos(u))
					}
				}
				kind := "pointer"
				if elemMap {
					kind = "map"
				}
				c.Check(bad == "", fn, construct, e.Pos(), "", "an element of a decoded []"+kind+" is used at "+bad+" without a nil check: a `null` in the upstream's JSON array panics the unrecovered worker goroutine and the whole process dies")
			}
		}
	}
	// pointer fields of decoded structs handed to functions that dereference them
	agg := c.Fn("internal/quantile", "(*E2eProcessingLatencyAggregate).Add")
	if agg != nil {
		p := agg.Params[1]
		uses := derefUses(p, false)
		bad := ""
		for _, u := range uses {
			guarded := false
			for _, cmp := range an.CmpsAt(u.Block()) {
				if cmp.Op == token.NEQ && cmp.X == ssa.Value(p) && an.IsNilConst(cmp.Y) {
					guarded = true
				}
			}
			if !guarded {
				bad = c.P.Pos(an.InstrPos(u))
			}
		}
		// unless every caller guards
		callersGuard := true
		for _, cf := range c.P.RepoFuncs() {
			for _, ac := range an.CallsTo(cf, agg) {
				a := arg(ac, 0)
				g := false
				for _, cmp := range an.CmpsAt(ac.Block()) {
					if cmp.Op == token.NEQ && an.SameValue(cmp.X, a) && an.IsNilConst(cmp.Y) {
						g = true
					}
				}
				if !g {
					callersGuard = false
				}
			}
		}
		c.Check(bad == "" || callersGuard, agg, "merged latency aggregate nil-checked", agg.Pos(), "",
			"E2eProcessingLatencyAggregate.Add dereferences its argument at "+bad+" without a nil check and its callers pass the decoded `e2e_processing_latency` field unchecked: a channel/topic object without that key (older nsqd, garbage) panics the worker goroutine")
	}
}

// decodedSlice: the ranged slice is a field load (of a decoded reply or of an element of one) or a parameter.
func decodedSlice(v ssa.Value) bool {
	v = an.Strip(v)
	if f, _ := an.LoadedField(v); f != nil {
		return true
	}
	if _, ok := v.(*ssa.Field); ok {
		return true
	}
	// the decoded slice handed on through a result variable (`nodes, err := fetch()` inlined): every origin but nil is a
	// decoded field
	if _, isPhi := v.(*ssa.Phi); isPhi {
		n := 0
		all := an.OriginsAll(v, func(o ssa.Value) bool {
			o = an.Strip(o)
			if k, ok := o.(*ssa.Const); ok && k.IsNil() {
				return true
			}
			if f, _ := an.LoadedField(o); f != nil {
				n++
				return true
			}
			if _, ok := o.(*ssa.Field); ok {
				n++
				return true
			}
			return false
		})
		return all && n > 0
	}
	return false
}

// derefUses lists instructions that dereference pointer value e (field access, method call with e as receiver,
// passing e to a repo function) or, for maps, write through it.
func derefUses(e ssa.Value, isMap bool) []ssa.Instruction {
	var out []ssa.Instruction
	for _, r := range an.Referrers(e) {
		switch x := r.(type) {
		case *ssa.FieldAddr:
			if x.X == e {
				out = append(out, x)
			}
		case *ssa.UnOp:
			if x.Op == token.MUL && x.X == e {
				out = append(out, x)
			}
		case *ssa.MapUpdate:
			if isMap && x.Map == e {
				out = append(out, x)
			}
		case ssa.CallInstruction:
			cm := x.Common()
			if cm.IsInvoke() {
				continue
			}
			if f := an.StaticCallee(x); f != nil && f.Signature.Recv() != nil && len(cm.Args) > 0 && cm.Args[0] == e {
				if _, isPtr := f.Signature.Recv().Type().(*types.Pointer); isPtr {
					out = append(out, x)
				}
			}
		}
	}
	return out
}

func c18dedupe(c *an.Ctx) {
	for _, spec := range []struct{ fn, key string }{{"GetLookupdProducers", "TCPAddress"}, {"GetLookupdTopicProducers", "HTTPAddress"}} {
		fn := c.Fn("internal/clusterinfo", "(*ClusterInfo)."+spec.fn)
		if fn == nil {
			continue
		}
		w, _ := workerOf(fn)
		if w == nil {
			c.Und(fn, "de-duplication key", fn.Pos(), "no worker")
			continue
		}
		keyFn := c.P.Func("internal/clusterinfo", "(*Producer)."+spec.key)
		good := false
		if spec.fn == "GetLookupdProducers" {
			// map lookup keyed by producer.TCPAddress()
			an.Instrs(w, func(in ssa.Instruction) {
				if l, ok := in.(*ssa.Lookup); ok && an.CallResultOf(l.Index, keyFn) != nil {
					good = true
				}
			})
		} else {
			an.Instrs(w, func(in ssa.Instruction) {
				if b, ok := in.(*ssa.BinOp); ok && b.Op == token.EQL && an.CallResultOf(b.X, keyFn) != nil && an.CallResultOf(b.Y, keyFn) != nil {
					good = true
				}
			})
		}
		c.Check(good, fn, "producers de-duplicated by "+spec.key, w.Pos(), "", spec.fn+" does not de-duplicate producers reported by several lookupds by "+spec.key+"(): the same nsqd is listed (and acted upon) several times")
	}
	for _, name := range []string{"Uniq", "Add"} {
		fn := c.Fn("internal/stringy", name)
		if fn == nil {
			continue
		}
		eq := false
		an.Instrs(fn, func(in ssa.Instruction) {
			switch x := in.(type) {
			case *ssa.BinOp:
				if (x.Op == token.EQL || x.Op == token.NEQ) && types.Identical(x.X.Type().Underlying(), types.Typ[types.String]) {
					eq = true
				}
			case *ssa.Lookup, *ssa.MapUpdate:
				eq = true
			}
		})
		c.Check(eq, fn, "set helper compares by equality", fn.Pos(), "", "stringy."+name+" does not compare strings by equality")
	}
}

// methodAcc describes the accumulator struct of a fan-in worker that is a method or function: the parameter that points to
// it, its mutex field, its error list and its lock class.
type methodAcc struct {
	param   *ssa.Parameter
	st      *types.Struct
	named   *types.Named
	lockIdx int
	errsIdx int
	class   string
}

func methodWorkerAcc(w *ssa.Function) *methodAcc {
	for _, p := range w.Params {
		pt, ok := p.Type().(*types.Pointer)
		if !ok {
			continue
		}
		nt, ok := pt.Elem().(*types.Named)
		if !ok {
			continue
		}
		st, ok := nt.Underlying().(*types.Struct)
		if !ok {
			continue
		}
		acc := &methodAcc{param: p, st: st, named: nt, lockIdx: -1, errsIdx: -1}
		for i := 0; i < st.NumFields(); i++ {
			ft := st.Field(i).Type()
			if strings.HasSuffix(ft.String(), "sync.Mutex") {
				acc.lockIdx = i
			}
			if sl, ok := ft.Underlying().(*types.Slice); ok && an.IsErrorType(sl.Elem()) {
				acc.errsIdx = i
			}
		}
		if acc.lockIdx >= 0 && acc.errsIdx >= 0 {
			acc.class = nt.Obj().Name() + "." + an.FName(st.Field(acc.lockIdx))
			return acc
		}
	}
	return nil
}

// faninMethodWorker: clauses (b)–(d) of C18.fanin for a worker that is a method with an accumulator struct.
func faninMethodWorker(c *an.Ctx, la *an.LockAnalysis, fn, w *ssa.Function, g *ssa.Go, acc *methodAcc, getv1 *ssa.Function, name string, addrsIdx int) {
	fl := la.Fns[w]
	fieldOf := func(addr ssa.Value) int {
		fa, ok := addr.(*ssa.FieldAddr)
		if !ok || an.Strip(fa.X) != ssa.Value(acc.param) {
			return -1
		}
		return fa.Field
	}
	held := func(in ssa.Instruction) bool {
		if fl == nil {
			return false
		}
		must, _ := fl.At(in)
		return must.Holds(acc.class, "", true)
	}
	// (b) every GETV1 failure: append to errs under the lock, then return
	n := 0
	for _, gc := range an.CallsTo(w, getv1) {
		n++
		succ, fail := an.ErrEdges(gc.Value())
		q := &an.PathQ{Fn: w, StartEdges: fail, Sink: an.IsReturn, Cut: func(in ssa.Instruction, _ *an.PathState) bool {
			st, ok := in.(*ssa.Store)
			return ok && fieldOf(st.Addr) == acc.errsIdx && held(in)
		}}
		wit, f := q.Find()
		q2 := &an.PathQ{Fn: w, StartEdges: fail, SinkEdge: func(e an.Edge, _ *an.PathState) bool { return an.EdgeIn(e, succ) },
			Sink: func(in ssa.Instruction, _ *an.PathState) bool {
				st, ok := in.(*ssa.Store)
				if !ok {
					return false
				}
				k := fieldOf(st.Addr)
				return k >= 0 && k != acc.errsIdx
			}}
		_, f2 := q2.Find()
		if f || f2 || len(fail) == 0 {
			c.Bad(fn, "failed fetch is recorded and ends the worker", gc.Pos(), "a failed upstream fetch is not (only) recorded in errs under the mutex followed by return: the failure is lost (no warning / wrong 502 decision) or a zero-valued reply is merged into the view", wit)
		} else {
			c.OK(fn, "failed fetch is recorded and ends the worker", gc.Pos(), "")
		}
	}
	if n == 0 {
		c.Bad(fn, "worker fetches from its upstream", w.Pos(), "worker does not call GETV1", nil)
	}
	// (c) the accumulator's data fields only under its lock
	for i := 0; i < acc.st.NumFields(); i++ {
		if i == acc.lockIdx || strings.HasSuffix(acc.st.Field(i).Type().String(), "sync.WaitGroup") {
			continue
		}
		bad := ""
		an.Instrs(w, func(in ssa.Instruction) {
			fa, ok := in.(*ssa.FieldAddr)
			if !ok || fieldOf(fa) != i {
				return
			}
			for _, r := range an.Referrers(fa) {
				if _, isDbg := r.(*ssa.DebugRef); isDbg {
					continue
				}
				if !held(r) {
					bad = c.P.Pos(an.InstrPos(r))
				}
			}
		})
		fname := acc.st.Field(i).Name()
		c.Check(bad == "", fn, "accumulator "+fname+" only under the mutex", w.Pos(), "", "the shared accumulator `"+fname+"` is touched at "+bad+" without the fan-in mutex: concurrent workers race on it (lost results, or a fatal concurrent map write)")
	}
	// (d) result mapping after Wait: the struct the go statement hands over
	var accAlloc ssa.Value
	for _, a := range g.Call.Args {
		if al, ok := an.Strip(a).(*ssa.Alloc); ok && types.Identical(al.Type(), acc.param.Type()) {
			accAlloc = al
		}
	}
	isLenErrs := func(v ssa.Value) bool {
		a := lenArgOf(v)
		if a == nil || accAlloc == nil {
			return false
		}
		u, ok := an.Strip(a).(*ssa.UnOp)
		if !ok {
			return false
		}
		fa, ok := u.X.(*ssa.FieldAddr)
		return ok && fa.X == accAlloc && fa.Field == acc.errsIdx
	}
	faninResultMapping(c, fn, name, addrsIdx, isLenErrs)
}

// faninResultMapping: clause (d) of C18.fanin – how the collected errors decide between a total error, a partial error with
// data, and nil.
func faninResultMapping(c *an.Ctx, fn *ssa.Function, name string, addrsIdx int, isLenErrs func(ssa.Value) bool) {
	allFailed, someFailed := false, false
	an.Instrs(fn, func(in ssa.Instruction) {
		b, ok := in.(*ssa.BinOp)
		if !ok {
			return
		}
		if b.Op == token.EQL && isLenErrs(b.X) {
			if a := lenArgOf(b.Y); a != nil && isParam(a, fn, addrsIdx) {
				// true edge returns a non-PartialErr error
				for _, t := range an.BoolTests(b) {
					okA := true
					q := &an.PathQ{Fn: fn, StartEdges: []an.Edge{t.True}, Sink: func(x ssa.Instruction, ps *an.PathState) bool {
						r, ok := x.(*ssa.Return)
						if !ok {
							return false
						}
						// the error this path returns (a single-exit `return result, err` is resolved per path)
						e := errOperand(r)
						if sel := ps.Selected(e); sel != nil {
							e = sel
						}
						call, isCall := an.Strip(an.Resolve(e)).(*ssa.Call)
						return !(isCall && an.StdCallee(call, "fmt", "Errorf"))
					}}
					if _, bad := q.Find(); bad {
						okA = false
					}
					if okA {
						allFailed = true
					}
				}
			}
		}
		if b.Op == token.GTR && isLenErrs(b.X) {
			if k, isC := an.ConstInt(b.Y); isC && k == 0 {
				for _, t := range an.BoolTests(b) {
					okS := true
					q := &an.PathQ{Fn: fn, StartEdges: []an.Edge{t.True}, Sink: func(x ssa.Instruction, ps *an.PathState) bool {
						r, ok := x.(*ssa.Return)
						if !ok {
							return false
						}
						// the error this path returns (`return data, partialErr` behind a merge is resolved per path)
						e := an.Resolve(ps.Selected(errOperand(r)))
						mi, isMI := e.(*ssa.MakeInterface)
						return !(isMI && typeStrShort(mi.X.Type()) == "clusterinfo.ErrList")
					}}
					if _, bad := q.Find(); bad {
						okS = false
					}
					// the false edge returns nil error
					q2 := &an.PathQ{Fn: fn, StartEdges: []an.Edge{t.False}, Sink: func(x ssa.Instruction, ps *an.PathState) bool {
						r, ok := x.(*ssa.Return)
						if !ok {
							return false
						}
						e := errOperand(r)
						if an.IsNilConst(e) || an.IsNilConst(ps.Selected(e)) {
							return false
						}
						if kc, known := ps.ConstOf(e); known && kc.IsNil() {
							return false
						}
						return true
					}}
					if _, bad := q2.Find(); bad {
						okS = false
					}
					if okS {
						someFailed = true
					}
				}
			}
		}
	})
	c.Check(allFailed, fn, "all upstreams failed => total error", fn.Pos(), "", name+" does not return a plain (non-partial) error exactly when len(errs) == number of upstreams: nsqadmin shows an empty view instead of 502, or 502 although some upstream answered")
	c.Check(someFailed, fn, "some failed => partial error with data, none => nil", fn.Pos(), "", name+" does not return ErrList(errs) with the partial data when 0 < len(errs) < n (and nil otherwise)")
	// Wait before reading the results
	waited := false
	an.Instrs(fn, func(in ssa.Instruction) {
		if isStdCall(in, "sync", "(*WaitGroup).Wait") {
			waited = true
		}
	})
	c.Check(waited, fn, "results read after wg.Wait", fn.Pos(), "", name+" does not wait for its workers")
}
