package rules

import (
	"go/token"
	"go/types"
	"regexp"
	"strings"

	"golang.org/x/tools/go/ssa"

	"nsqverif/an"
)

// Rules added after the sixth round of independently seeded changes (DESIGN.md §11.13).
func init() {
	for id, extra := range map[string]string{
		"C01": " (getonce) a topic/channel is registered only if, under the same write lock, it was found absent; (backendname) a channel's disk-queue name cannot equal a topic's.",
		"C03": " (negotiated) TOUCH re-arms with the negotiated timeout, or an early expiry frees an RDY slot.",
		"C04": " (msdur) msToDuration saturates upward; (custody) TOUCH moves the deadline by pop and re-insert.",
		"C05": " (attempts) flush writes the attempts count as it is; (backendname) as C01.",
		"C07": " (writelock) the connection's writer is used and flushed only under writeLock held exclusively.",
		"C08": " (exitorder) Channel.exit claims the exit flag while holding exitMutex; (getonce) as C01.",
		"C09": " (writelock) as C07; (deflate) the client's deflate level is clamped to max-deflate-level.",
		"C10": " (addrassert) an address is asserted to *net.TCPAddr only after its own Network() said tcp; (balanced) handlers return with the locks they entered with.",
		"C11": " (ttl) an auth answer expires after exactly its TTL.",
		"C13": " (empty) the empty sequence of C08.",
		"C14": " (pernode) every node of /nodes gets its own tombstone list.",
		"C15": " (db) the registry maps are only touched under the DB lock.",
		"C16": " (wakeup) a channel only ever sent to without blocking has a buffer, or the wake-up is lost; (stopfirst) the full re-registration stops at the first failed command.",
		"C17": " (stateless) http_api.Client keeps no state between requests.",
		"C18": " (stateless) as C17; (partialfirst) an error of a clusterinfo query is looked at as a PartialErr before data is dropped.",
	} {
		p := Props[id]
		p.Explanation += extra
		Props[id] = p
	}
	reg("C03.negotiated", "ORIG", "TOUCH and delivery use the negotiated msg_timeout: an early expiry hands the consumer another message beyond its RDY (shared with C04.negotiated)", 2, c04negotiated)
	reg("C04.custody", "PATH", "TOUCH changes a deadline by taking the message out and putting it back (shared with C01.req)", 4, c01req)
	reg("C05.attempts", "CALLS+PATH", "Message.Attempts is written by the delivery pump and the decoder only – not on the way to disk (shared with C02.attempts)", 3, c02attempts)
	reg("C10.balanced", "LOCK", "HTTP handlers return with the locks they were entered with (the httpServer rows of C08.balanced)", 2,
		only(c08balanced, func(n string) bool { return strings.Contains(n, "httpServer") }))
	reg("C15.db", "LOCK", "the registration map and every producer map are read and written only under RegistrationDB's lock: an unlocked iteration racing a write is a fatal runtime error that no recover catches (shared with C14.db)", 20, c14db)
	reg("C13.empty", "PATH", "emptying / deleting removes the backlog from every container and from disk (shared with C08.empty)", 2, c08empty)

	reg("C01.getonce", "LOCK+GUARD", "GetTopic / getOrCreateChannel insert into the registry only what was looked up and found absent under the same write lock", 2, c01getonce)
	reg("C08.getonce", "LOCK+GUARD", "registry inserts are guarded by a lookup under the same write lock (shared with C01.getonce)", 2, c01getonce)
	reg("C01.backendname", "SHAPE", "the separator between topic and channel in a disk-queue name is a character no name can contain", 1, c01backendname)
	reg("C05.backendname", "SHAPE", "the separator between topic and channel in a disk-queue name is a character no name can contain (shared with C01.backendname)", 1, c01backendname)
	reg("C04.msdur", "SHAPE", "msToDuration returns MaxInt64 for what does not fit, never a value below the range checks", 1, c04msdur)
	reg("C07.writelock", "LOCK", "clientV2.Writer is written and flushed only with writeLock held for writing", 3, c07writelock)
	reg("C09.writelock", "LOCK", "clientV2.Writer is written and flushed only with writeLock held for writing (shared with C07.writelock)", 3, c07writelock)
	reg("C08.exitorder", "LOCK", "Channel.exit tests-and-sets the exit flag inside exitMutex", 1, c08exitorder)
	reg("C09.deflate", "ORIG", "the deflate level requested in IDENTIFY is compared with max-deflate-level before it is used", 1, c09deflate)
	reg("C10.addrassert", "GUARD", "addr.(*net.TCPAddr) only under that address's own Network() == \"tcp\"", 2, c10addrassert)
	reg("C11.ttl", "ORIG", "authState.Expires = now + TTL seconds, nothing else", 1, c11ttl)
	reg("C14.pernode", "ORIG", "the tombstone list stored in a /nodes entry is allocated for that entry", 1, c14pernode)
	reg("C16.wakeup", "SHAPE", "a channel that is only sent to in a select with default is buffered", 2, c16wakeup)
	reg("C16.stopfirst", "PATH", "connectCallback sends no further command to a peer after one failed", 1, c16stopfirst)
	reg("C17.stateless", "CALLS", "http_api.Client methods do not write the client", 1, c17stateless)
	reg("C18.stateless", "CALLS", "http_api.Client methods do not write the client (shared with C17.stateless)", 1, c17stateless)
	reg("C07.decodets", "ORIG", "decodeMessage takes the timestamp (and attempts) from the record's bytes only", 1, c07decodets)
	reg("C18.partialfirst", "PATH", "nsqadmin looks at a clusterinfo error as a PartialErr before it gives up on the data", 10, c18partialfirst)
}

// ---- C01.getonce -----------------------------------------------------------------------------------------------

type getonceSpec struct{ fn, owner, mapF, lock string }

func c01getonce(c *an.Ctx) {
	getonce(c, "nsqd", []getonceSpec{
		{"(*NSQD).GetTopic", "NSQD", "topicMap", "NSQD.RWMutex"},
		{"(*Topic).getOrCreateChannel", "Topic", "channelMap", "Topic.RWMutex"},
	})
}

func c14getonce(c *an.Ctx) {
	getonce(c, "nsqlookupd", []getonceSpec{
		{"(*RegistrationDB).AddRegistration", "RegistrationDB", "registrationMap", "RegistrationDB.RWMutex"},
		{"(*RegistrationDB).AddProducer", "RegistrationDB", "registrationMap", "RegistrationDB.RWMutex"},
	})
}

func getonce(c *an.Ctx, pkg string, specs []getonceSpec) {
	la := c.P.Locks()
	for _, spec := range specs {
		fn := c.Fn(pkg, spec.fn)
		mapF := c.P.Field(pkg, spec.owner, spec.mapF)
		if fn == nil || mapF == nil {
			continue
		}
		fl := la.Fns[fn]
		n := 0
		an.Instrs(fn, func(in ssa.Instruction) {
			mu, ok := in.(*ssa.MapUpdate)
			if !ok || !isLoadOfField(mu.Map, mapF) {
				return
			}
			n++
			// a comma-ok lookup of the same map with the same key, found absent on the way here, made while the write
			// lock of this very hold was held
			good := false
			for _, f := range an.FactsAt(mu.Block()) {
				if f.True {
					continue
				}
				ex, ok := f.V.(*ssa.Extract)
				if !ok || ex.Index != 1 {
					continue
				}
				lk, ok := ex.Tuple.(*ssa.Lookup)
				if !ok || !lk.CommaOk || !isLoadOfField(lk.X, mapF) || !an.SameValue(lk.Index, mu.Key) {
					continue
				}
				if fl == nil {
					continue
				}
				mustL, _ := fl.At(lk)
				mustU, _ := fl.At(mu)
				if !mustL.Holds(spec.lock, "", true) || !mustU.Holds(spec.lock, "", true) {
					continue
				}
				// no unlock of that lock between the lookup and the insert
				released := false
				for _, o := range fl.Ops {
					if o.Acquire || o.Class != spec.lock || o.Deferred || o.Instr == nil {
						continue
					}
					q := &an.PathQ{Fn: fn, StartAfter: []ssa.Instruction{lk}, NoFold: true,
						Sink: func(x ssa.Instruction, _ *an.PathState) bool { return x == o.Instr },
						Cut:  func(x ssa.Instruction, _ *an.PathState) bool { return x == ssa.Instruction(mu) }}
					if _, f := q.Find(); f && an.Reaches(o.Instr, mu) {
						released = true // the lock was dropped on a way from the lookup to the insert
					}
				}
				if !released {
					good = true
				}
			}
			c.Check(good, fn, "insert only what was found absent under the write lock", mu.Pos(), "", "the registry insert is not preceded, inside the same hold of "+spec.lock+", by a lookup that found the name absent: two first users of one name each create an object, the second overwrites the first, and whoever holds the first (a consumer whose SUB was answered OK) is attached to an orphan that no publish reaches")
		})
		if n == 0 {
			c.Und(fn, "insert only what was found absent under the write lock", fn.Pos(), "no insert into "+spec.mapF)
		}
	}
}

// ---- C01.backendname -------------------------------------------------------------------------------------------

var nameAlphabet = regexp.MustCompile(`^[.a-zA-Z0-9_#-]*$`)

func c01backendname(c *an.Ctx) {
	fn := c.Fn("nsqd", "getBackendName")
	if fn == nil {
		return
	}
	// the returned string is a concatenation containing a constant piece between the two parameters
	good := false
	sep := ""
	for _, r := range an.Returns(fn) {
		var consts []string
		var walk func(v ssa.Value, d int)
		walk = func(v ssa.Value, d int) {
			if d > 6 {
				return
			}
			v = an.Resolve(v)
			if s, ok := an.ConstString(v); ok {
				consts = append(consts, s)
				return
			}
			if b, ok := v.(*ssa.BinOp); ok && b.Op == token.ADD {
				walk(b.X, d+1)
				walk(b.Y, d+1)
			}
		}
		walk(r.Results[0], 0)
		for _, s := range consts {
			sep += s
			if !nameAlphabet.MatchString(s) {
				good = true
			}
		}
	}
	c.Check(good, fn, "separator outside the name alphabet", fn.Pos(), "", "the channel's disk-queue name joins topic and channel with \""+sep+"\", which topic names may contain: channel `y` of topic `x` and the topic `x"+sep+"y` open the same files and overwrite each other's acknowledged messages")
}

// ---- C04.msdur -------------------------------------------------------------------------------------------------

func c04msdur(c *an.Ctx) {
	fn := c.Fn("nsqd", "msToDuration")
	if fn == nil {
		return
	}
	good := true
	n := 0
	for _, rc := range returnCases(fn, 0) {
		if k, isC := an.ConstInt(rc.val); isC {
			n++
			if k != 1<<63-1 {
				good = false
			}
		}
	}
	c.Check(good && n > 0, fn, "saturates at MaxInt64", fn.Pos(), "", "for a millisecond count that does not fit msToDuration returns something other than math.MaxInt64 (a negative sentinel, say): REQ's `< 0 => 0` arm turns it into an immediate requeue instead of the clamp to max-req-timeout")
}

// ---- C07.writelock ---------------------------------------------------------------------------------------------

func c07writelock(c *an.Ctx) {
	flush := c.Fn("nsqd", "(*clientV2).Flush")
	writerF := c.P.Field("nsqd", "clientV2", "Writer")
	if flush == nil || writerF == nil {
		return
	}
	la := c.P.Locks()
	n := 0
	for _, fn := range c.P.PkgFuncs("nsqd") {
		if fn == flush {
			continue
		}
		fl := la.Fns[fn]
		an.Instrs(fn, func(in ssa.Instruction) {
			ci, ok := in.(ssa.CallInstruction)
			if !ok {
				return
			}
			uses := false
			if an.IsCallTo(ci, flush) {
				uses = true
			}
			// the writer handed to a framing helper, or written directly
			for _, a := range ci.Common().Args {
				if isLoadOfField(an.Strip(a), writerF) {
					uses = true
				}
			}
			if ci.Common().IsInvoke() && isLoadOfField(an.Strip(ci.Common().Value), writerF) {
				uses = true
			}
			if !uses {
				return
			}
			if strings.Contains(an.BaseName(fn), "Upgrade") || an.BaseName(fn) == "newClientV2" || an.BaseName(fn) == "SetOutputBuffer" {
				// re-creating the writer: these take the lock themselves (checked by the lock they hold below) or run before
				// the connection is shared
			}
			n++
			held := false
			if fl != nil {
				must, _ := fl.At(in)
				held = must.Holds("clientV2.writeLock", "", true)
			}
			c.Check(held, fn, "writer used under writeLock (exclusive)", in.Pos(), "", "the connection's bufio.Writer is written or flushed without writeLock held for writing: the IOLoop's responses and the pump's messages interleave in one buffer (a sticky short-write error closes a well-behaved connection; frames are corrupted)")
		})
	}
	if n == 0 {
		c.Anchor("a use of nsqd.clientV2.Writer")
	}
}

// ---- C08.exitorder ---------------------------------------------------------------------------------------------

func c08exitorder(c *an.Ctx) {
	fn := c.Fn("nsqd", "(*Channel).exit")
	flagF := c.P.Field("nsqd", "Channel", "exitFlag")
	if fn == nil || flagF == nil {
		return
	}
	la := c.P.Locks()
	fl := la.Fns[fn]
	n := 0
	an.Instrs(fn, func(in ssa.Instruction) {
		call, ok := in.(*ssa.Call)
		if !ok || !an.StdCallee(call, "sync/atomic", "CompareAndSwapInt32") {
			return
		}
		fa, ok := call.Call.Args[0].(*ssa.FieldAddr)
		if !ok || an.FieldOf(fa) != flagF {
			return
		}
		n++
		held := false
		if fl != nil {
			must, _ := fl.At(in)
			held = must.Holds("Channel.exitMutex", "", true)
		}
		c.Check(held, fn, "exit flag claimed inside exitMutex", in.Pos(), "", "Channel.exit raises the exit flag before it holds exitMutex: a second Delete()/Close() returns \"exiting\" at once, its caller unlinks the channel and answers 200 while the first is still closing consumers and has not removed the files")
	})
	if n == 0 {
		c.Und(fn, "exit flag claimed inside exitMutex", fn.Pos(), "no CompareAndSwap on Channel.exitFlag")
	}
}

// ---- C09.deflate -----------------------------------------------------------------------------------------------

func c09deflate(c *an.Ctx) {
	fn := c.Fn("nsqd", "(*protocolV2).IDENTIFY")
	lvlF := c.P.Field("nsqd", "identifyDataV2", "DeflateLevel")
	up := c.Fn("nsqd", "(*clientV2).UpgradeDeflate")
	if fn == nil || lvlF == nil || up == nil {
		if lvlF == nil {
			c.Anchor("nsqd.identifyDataV2.DeflateLevel")
		}
		return
	}
	fromClient := func(v ssa.Value) bool {
		return an.OriginsAny(v, func(o ssa.Value) bool {
			f, _ := an.LoadedField(o)
			if f == lvlF {
				return true
			}
			if fl, ok := o.(*ssa.Field); ok && an.FieldOf(fl) == lvlF {
				return true
			}
			return false
		})
	}
	for _, uc := range an.CallsTo(fn, up) {
		lvl := arg(uc, 0)
		if !fromClient(lvl) {
			c.OK(fn, "client deflate level clamped", uc.Pos(), "the level does not come from the client")
			continue
		}
		// some comparison with opts.MaxDeflateLevel has the client's value among the origins of its other operand
		clamped := false
		an.Instrs(fn, func(in ssa.Instruction) {
			b, ok := in.(*ssa.BinOp)
			if !ok {
				return
			}
			switch b.Op {
			case token.LSS, token.GTR, token.LEQ, token.GEQ:
			default:
				return
			}
			if an.OriginsAny(b.X, func(o ssa.Value) bool { return isOptsField(c, o, "nsqd", "MaxDeflateLevel") }) && fromClient(b.Y) {
				clamped = true
			}
			if an.OriginsAny(b.Y, func(o ssa.Value) bool { return isOptsField(c, o, "nsqd", "MaxDeflateLevel") }) && fromClient(b.X) {
				clamped = true
			}
		})
		c.Check(clamped, fn, "client deflate level clamped", uc.Pos(), "", "the deflate_level taken from IDENTIFY is never compared with max-deflate-level: a level above 9 makes flate.NewWriter fail (its error is ignored), the nil writer panics at the first flush on the connection goroutine and the daemon dies")
	}
}

// ---- C10.addrassert --------------------------------------------------------------------------------------------

func c10addrassert(c *an.Ctx) {
	fn := c.Fn("nsqd", "(*httpServer).doInfo")
	if fn == nil {
		return
	}
	n := 0
	an.Instrs(fn, func(in ssa.Instruction) {
		ta, ok := in.(*ssa.TypeAssert)
		if !ok || ta.CommaOk || typeStrShort(ta.AssertedType) != "*net.TCPAddr" {
			return
		}
		n++
		src := calleeOfValue(ta.X)
		good := false
		for _, f := range an.FactsAt(ta.Block()) {
			cmp, ok := f.AsCmp()
			if !ok || cmp.Op != token.EQL {
				continue
			}
			for _, pair := range [][2]ssa.Value{{cmp.X, cmp.Y}, {cmp.Y, cmp.X}} {
				if s, ok := an.ConstString(pair[1]); !ok || s != "tcp" {
					continue
				}
				call, ok := an.Strip(pair[0]).(*ssa.Call)
				if !ok || !call.Call.IsInvoke() || call.Call.Method.Name() != "Network" {
					continue
				}
				if g := calleeOfValue(call.Call.Value); g != nil && g == src {
					good = true
				}
			}
		}
		c.Check(good, fn, "TCPAddr assertion under its own Network() test", ta.Pos(), "", "an address is asserted to *net.TCPAddr under a test of a different listener's Network(): with --tcp-address on a unix socket and HTTP on tcp, GET /info panics (500 instead of tcp_port -1)")
	})
	if n == 0 {
		c.OK(fn, "TCPAddr assertion under its own Network() test", fn.Pos(), "no unchecked assertion")
	}
}

// ---- C11.ttl ---------------------------------------------------------------------------------------------------

func c11ttl(c *an.Ctx) {
	fn := c.Fn("internal/auth", "QueryAuthd")
	expF := c.P.Field("internal/auth", "State", "Expires")
	ttlF := c.P.Field("internal/auth", "State", "TTL")
	if fn == nil || expF == nil || ttlF == nil {
		if expF == nil {
			c.Anchor("internal/auth.State.Expires")
		}
		return
	}
	n := 0
	an.Instrs(fn, func(in ssa.Instruction) {
		st, ok := in.(*ssa.Store)
		if !ok {
			return
		}
		fa, ok := st.Addr.(*ssa.FieldAddr)
		if !ok || an.FieldOf(fa) != expF {
			return
		}
		n++
		good := false
		if call, ok := an.Strip(st.Val).(*ssa.Call); ok && an.StdCallee(call, "time", "(Time).Add") {
			good = an.OriginsAll(call.Call.Args[1], func(o ssa.Value) bool {
				b, ok := o.(*ssa.BinOp)
				if !ok || b.Op != token.MUL {
					return false
				}
				isTTL := func(v ssa.Value) bool {
					f, _ := an.LoadedField(an.Strip(v))
					return f == ttlF
				}
				isSec := func(v ssa.Value) bool { k, isC := an.ConstInt(v); return isC && k == 1000000000 }
				return (isTTL(b.X) && isSec(b.Y)) || (isTTL(b.Y) && isSec(b.X))
			})
		}
		c.Check(good, fn, "expiry is now + TTL", st.Pos(), "", "authState.Expires is not time.Now().Add(TTL seconds) (a floor or a different unit): a grant the auth server has withdrawn keeps working after its TTL, without the server being asked again")
	})
	if n == 0 {
		c.Und(fn, "expiry is now + TTL", fn.Pos(), "QueryAuthd never sets Expires")
	}
}

// ---- C14.pernode -----------------------------------------------------------------------------------------------

func c14pernode(c *an.Ctx) {
	fn := c.Fn("nsqlookupd", "(*httpServer).doNodes")
	tf := c.P.Field("nsqlookupd", "node", "Tombstones")
	if fn == nil || tf == nil {
		if tf == nil {
			c.Anchor("nsqlookupd.node.Tombstones")
		}
		return
	}
	loops := an.NaturalLoops(fn)
	n := 0
	an.Instrs(fn, func(in ssa.Instruction) {
		st, ok := in.(*ssa.Store)
		if !ok {
			return
		}
		fa, ok := st.Addr.(*ssa.FieldAddr)
		if !ok || an.FieldOf(fa) != tf {
			return
		}
		n++
		l := an.LoopContaining(loops, st.Block())
		// outermost loop containing the store: the loop over the nodes
		for _, l2 := range loops {
			if l2.Blocks[st.Block()] && (l == nil || len(l2.Blocks) > len(l.Blocks)) {
				l = l2
			}
		}
		good := l != nil
		if l != nil {
			// the slice's backing array is made inside this iteration: every root of the append/slice chain is a MakeSlice
			// (or a nil slice) in the loop
			var roots func(v ssa.Value, d int) bool
			roots = func(v ssa.Value, d int) bool {
				if d > 8 {
					return false
				}
				return an.OriginsAll(v, func(o ssa.Value) bool {
					switch x := o.(type) {
					case *ssa.MakeSlice:
						return l.Blocks[x.Block()]
					case *ssa.Alloc:
						return l.Blocks[x.Block()]
					case *ssa.Const:
						return x.IsNil()
					case *ssa.Call:
						if bi, ok := x.Call.Value.(*ssa.Builtin); ok && bi.Name() == "append" {
							return roots(x.Call.Args[0], d+1)
						}
					}
					return false
				})
			}
			good = roots(st.Val, 0)
		}
		c.Check(good, fn, "tombstone list allocated per node", st.Pos(), "", "the Tombstones slice of a /nodes entry shares its backing array with the other entries (one scratch buffer reused across the loop): every node shows the flags of the last node visited")
	})
	if n == 0 {
		c.Und(fn, "tombstone list allocated per node", fn.Pos(), "doNodes never fills node.Tombstones")
	}
}

// ---- C16.wakeup ------------------------------------------------------------------------------------------------

// c16wakeup: a channel field of package nsqd to which every send is an arm of a select with a default (a wake-up that must
// not block the sender) is made with a buffer – with no buffer the send only succeeds while the receiver is parked in its
// select, and the notification is dropped whenever the receiver is busy.
func c16wakeup(c *an.Ctx) {
	type info struct {
		sends, nonBlocking int
		sizes              []int64
		pos                token.Pos
		fn                 *ssa.Function
	}
	fields := map[*types.Var]*info{}
	get := func(f *types.Var) *info {
		if fields[f] == nil {
			fields[f] = &info{}
		}
		return fields[f]
	}
	for _, fn := range c.P.PkgFuncs("nsqd") {
		an.Instrs(fn, func(in ssa.Instruction) {
			switch x := in.(type) {
			case *ssa.Send:
				if f, _ := an.LoadedField(an.Strip(x.Chan)); f != nil {
					get(f).sends++
				}
			case *ssa.Select:
				for _, st := range x.States {
					if st.Dir != types.SendOnly {
						continue
					}
					if f, _ := an.LoadedField(an.Strip(st.Chan)); f != nil {
						i := get(f)
						i.sends++
						if !x.Blocking {
							i.nonBlocking++
						}
					}
				}
			case *ssa.Store:
				mc, ok := an.Strip(x.Val).(*ssa.MakeChan)
				if !ok {
					return
				}
				// signal channels only (struct{}, int, bool …): a channel of messages that is offered without blocking is a
				// hand-off to whoever is ready, with a fallback when nobody is
				if ch, ok := mc.Type().Underlying().(*types.Chan); ok {
					switch ch.Elem().Underlying().(type) {
					case *types.Pointer, *types.Interface, *types.Slice:
						return
					}
				}
				fa, ok := x.Addr.(*ssa.FieldAddr)
				if !ok {
					return
				}
				i := get(an.FieldOf(fa))
				k, isC := an.ConstInt(mc.Size)
				if !isC {
					k = 1 // sized at run time: a buffer is intended
				}
				i.sizes = append(i.sizes, k)
				i.pos, i.fn = x.Pos(), fn
			}
		})
	}
	n := 0
	for f, i := range fields {
		if i.sends == 0 || i.nonBlocking != i.sends || len(i.sizes) == 0 {
			continue
		}
		n++
		good := true
		for _, k := range i.sizes {
			if k < 1 {
				good = false
			}
		}
		c.Check(good, i.fn, "wake-up channel "+f.Name()+" is buffered", i.pos, "", "every send on "+f.Name()+" is a non-blocking select arm, but the channel has no buffer: a notification sent while the receiving loop is busy (blocked in a lookupd command, say) is dropped and the change it announces is never acted on")
	}
	if n == 0 {
		c.Anchor("a channel of package nsqd that is only sent to without blocking")
	}
}

// ---- C16.stopfirst ---------------------------------------------------------------------------------------------

func c16stopfirst(c *an.Ctx) {
	outer := c.Fn("nsqd", "connectCallback")
	cmd := c.Fn("nsqd", "(*lookupPeer).Command")
	if outer == nil || cmd == nil {
		return
	}
	n := 0
	fns := an.WithAnon(outer)
	if m := returnedFunc(outer); m != nil && m.Parent() == nil {
		fns = append(fns, an.WithAnon(m)...) // the callback is a method value
	}
	for _, fn := range fns {
		calls := an.CallsTo(fn, cmd)
		if len(calls) < 2 {
			continue
		}
		for _, cc := range calls {
			_, fail := an.ErrEdges(cc.Value())
			if len(fail) == 0 {
				continue
			}
			n++
			q := &an.PathQ{Fn: fn, StartEdges: fail, Sink: func(in ssa.Instruction, _ *an.PathState) bool { return isCallToOn(in, cmd, nil) }}
			w, f := q.Find()
			if f {
				c.Bad(fn, "no command after a failed one", cc.Pos(), "after a command to the peer failed the callback sends another: Command already closed the connection, so the next one reconnects and re-enters this callback – the lookup loop recurses against a misbehaving nsqlookupd and never serves the healthy ones", w)
			} else {
				c.OK(fn, "no command after a failed one", cc.Pos(), "")
			}
		}
	}
	if n == 0 {
		c.Und(outer, "no command after a failed one", outer.Pos(), "no checked Command call in connectCallback")
	}
}

// ---- C17.stateless ---------------------------------------------------------------------------------------------

func c17stateless(c *an.Ctx) {
	nt := c.P.Named("internal/http_api", "Client")
	if nt == nil {
		c.Anchor("internal/http_api.Client")
		return
	}
	st, ok := nt.Underlying().(*types.Struct)
	if !ok {
		return
	}
	isClientField := func(f *types.Var) bool {
		for i := 0; i < st.NumFields(); i++ {
			if st.Field(i) == f {
				return true
			}
		}
		return false
	}
	bad := ""
	var pos token.Pos
	var where *ssa.Function
	for _, fn := range c.P.PkgFuncs("internal/http_api") {
		if fn.Name() == "NewClient" {
			continue
		}
		an.Instrs(fn, func(in ssa.Instruction) {
			switch x := in.(type) {
			case *ssa.Store:
				if fa, ok := x.Addr.(*ssa.FieldAddr); ok && isClientField(an.FieldOf(fa)) {
					if _, fresh := an.Strip(fa.X).(*ssa.Alloc); !fresh {
						bad, pos, where = "store to Client."+an.FName(an.FieldOf(fa)), x.Pos(), fn
					}
				}
			case *ssa.MapUpdate:
				if f, _ := an.LoadedField(an.Strip(x.Map)); f != nil && isClientField(f) {
					bad, pos, where = "write to map Client."+f.Name(), x.Pos(), fn
				}
			case *ssa.FieldAddr:
				// the address of a field handed to anything but a load: a method of the field's type may write it
				// (sync.Map.Store, a mutex-protected cache)
				if !isClientField(an.FieldOf(x)) {
					return
				}
				if _, fresh := an.Strip(x.X).(*ssa.Alloc); fresh {
					return
				}
				for _, r := range an.Referrers(x) {
					if u, ok := r.(*ssa.UnOp); ok && u.Op == token.MUL {
						continue
					}
					if _, ok := r.(*ssa.DebugRef); ok {
						continue
					}
					if st, ok := r.(*ssa.Store); ok && st.Addr == ssa.Value(x) {
						continue // reported above
					}
					bad, pos, where = "the address of Client."+an.FName(an.FieldOf(x))+" is used by "+r.String(), x.Pos(), fn
				}
			}
		})
	}
	anchor := c.Fn("internal/http_api", "(*Client).GETV1")
	if anchor == nil {
		return
	}
	if bad != "" {
		c.Bad(where, "client keeps no state", pos, bad+": what one request learned (an upgrade to https for a host, say) changes where later requests for other daemons go – an action is sent twice to one nsqd and never to its neighbour on the same host", nil)
	} else {
		c.OK(anchor, "client keeps no state", anchor.Pos(), "")
	}
}

// ---- C18.partialfirst ------------------------------------------------------------------------------------------

// c18partialfirst: in nsqadmin's handlers, on the failure edge of a clusterinfo query (a method of *ClusterInfo returning an
// error) nothing is decided – no return, no skipping to the next element – before the error was asserted to PartialErr.
func c18partialfirst(c *an.Ctx) {
	n := 0
	for _, fn := range c.P.PkgFuncs("nsqadmin") {
		loops := an.NaturalLoops(fn)
		an.Instrs(fn, func(in ssa.Instruction) {
			call, ok := in.(*ssa.Call)
			if !ok {
				return
			}
			g := an.StaticCallee(call)
			if g == nil || g.Signature.Recv() == nil || !strings.HasSuffix(g.Signature.Recv().Type().String(), "clusterinfo.ClusterInfo") {
				return
			}
			res := g.Signature.Results()
			if res.Len() == 0 || !an.IsErrorType(res.At(res.Len()-1).Type()) {
				return
			}
			_, fail := an.ErrEdges(call)
			if len(fail) == 0 {
				return // the error is ignored: the data is used as far as it goes
			}
			// a query of exactly one upstream (a one-element literal list) has no partial failures
			for _, a := range call.Call.Args {
				if sl, ok := an.Strip(a).(*ssa.Slice); ok {
					if al, ok := sl.X.(*ssa.Alloc); ok {
						if pt, ok := al.Type().Underlying().(*types.Pointer); ok {
							if arr, ok := pt.Elem().Underlying().(*types.Array); ok && arr.Len() == 1 {
								return
							}
						}
					}
				}
			}
			n++
			l := an.LoopContaining(loops, call.Block())
			q := &an.PathQ{Fn: fn, StartEdges: fail,
				Sink: an.IsReturn,
				SinkEdge: func(e an.Edge, _ *an.PathState) bool {
					return l != nil && e.To == l.Header
				},
				Cut: func(x ssa.Instruction, _ *an.PathState) bool {
					ta, ok := x.(*ssa.TypeAssert)
					return ok && typeStrShort(ta.AssertedType) == "clusterinfo.PartialErr"
				}}
			w, f := q.Find()
			if f {
				c.Bad(fn, "error examined as PartialErr before giving up", call.Pos(), "on an error of "+g.Name()+" the handler returns or skips the element without asking whether it is a PartialErr: with one of several upstreams down the data of the healthy ones is dropped", w)
			} else {
				c.OK(fn, "error examined as PartialErr before giving up", call.Pos(), "")
			}
		})
	}
	if n == 0 {
		c.Anchor("a checked clusterinfo query in nsqadmin")
	}
}

// calleeOfValue: the function whose call produced v (nil if v is not a static call's result).
func calleeOfValue(v ssa.Value) *ssa.Function {
	if call, ok := an.Strip(v).(*ssa.Call); ok {
		return an.StaticCallee(call)
	}
	return nil
}

// ---- C07.decodets ----------------------------------------------------------------------------------------------

func c07decodets(c *an.Ctx) {
	fn := c.Fn("nsqd", "decodeMessage")
	if fn == nil {
		return
	}
	n := 0
	for _, fname := range []string{"Timestamp", "Attempts"} {
		f := c.P.Field("nsqd", "Message", fname)
		if f == nil {
			continue
		}
		an.Instrs(fn, func(in ssa.Instruction) {
			st, ok := in.(*ssa.Store)
			if !ok {
				return
			}
			fa, ok := st.Addr.(*ssa.FieldAddr)
			if !ok || an.FieldOf(fa) != f {
				return
			}
			n++
			good := an.OriginsAll(st.Val, func(o ssa.Value) bool {
				call, ok := o.(*ssa.Call)
				if !ok {
					return false
				}
				g := an.StaticCallee(call)
				return g != nil && g.Pkg != nil && g.Pkg.Pkg.Path() == "encoding/binary" && strings.HasPrefix(g.Name(), "Uint")
			})
			c.Check(good, fn, "decoded "+fname+" comes from the record", st.Pos(), "", "decodeMessage stores a Message."+fname+" that is not read from the record's bytes (a clamp to the current time, say): the envelope of a message that passed through a disk queue differs between channels and between deliveries")
		})
	}
	if n == 0 {
		c.Und(fn, "decoded envelope comes from the record", fn.Pos(), "decodeMessage stores neither Timestamp nor Attempts")
	}
}
