package rules

import (
	"go/token"
	"go/types"
	"sort"
	"strings"

	"golang.org/x/tools/go/ssa"

	"nsqverif/an"
)

// Rules added after the fourth round of independently seeded changes (DESIGN.md §11.10).
func init() {
	for id, extra := range map[string]string{
		"C01": " (winner) the single-winner pop of C02.",
		"C02": " (touchcap) TOUCH never moves a deadline before the one it replaces (deliveryTS re-stamped at every delivery).",
		"C03": " (callers) only the topic pump hands messages to channels, so a paused topic hands over nothing.",
		"C04": " (deferredwriters) Message.deferred is written by the publish paths and the per-channel copy only; (sample) every channel index is eligible in a scan selection.",
		"C05": " (scanlock) the deadline scans move messages only while holding exitMutex, so a graceful close never runs between their pop and their put; (lockfile) the directory lock handle is kept.",
		"C07": " (framing) once a length prefix was read, refusing the command is fatal (the unread body would be parsed as commands); (negotiate) negotiated buffer limits.",
		"C08": " (notify) Empty wakes the consumer's pump.",
		"C13": " (rdy) a negative or oversized RDY is refused, so no reported ready count is negative.",
		"C14": " (ping) every PING of an identified peer refreshes lastUpdate.",
		"C15": " (accept) temporary accept failures are retried; (decode) protocol bodies are decoded into a struct, never through a pointer that JSON null can reset.",
		"C16": " (httpaddrs) every lookupd whose address is known is asked for channels, connected or not.",
		"C17": " (adminlist) the admin list is used as configured; (escape) names are query-escaped in every upstream URL.",
		"C18": " (escape) as C17; (whole) upstream answers are read whole.",
		"C19": " (record) no rotation between a body and its newline.",
		"C20": " (getescape) the GET publisher query-escapes the message.",
	} {
		p := Props[id]
		p.Explanation += extra
		Props[id] = p
	}
	reg("C01.winner", "LOCK+GUARD+CALLS", "a refused FIN/REQ/TOUCH changes nothing: the in-flight entry is removed only for its owner (shared with C02.winner)", 9, c02winner)
	reg("C02.touchcap", "GUARD+PATH", "a TOUCH extends, never shortens: the cap is counted from this delivery (shared with C04.touchcap)", 2, c04touchcap)
	reg("C03.callers", "CALLS", "messages reach a channel only through the topic pump (the Channel.PutMessage* rows of C13.callers)", 1,
		only(c13callers, func(n string) bool { return strings.Contains(n, "Channel).PutMessage") }))
	reg("C05.lockfile", "PATH+ORIG", "the data-path lock lives as long as the daemon (shared with C06.lockfile)", 2, c06lockfile)
	reg("C07.framing", "GUARD", "a publish refused after its size prefix was read is refused fatally (the size obligations of C09.limits on the TCP publish commands)", 3,
		only(c09limits, func(n string) bool { return strings.Contains(n, "protocolV2") || strings.Contains(n, "readMPUB") }))
	reg("C07.negotiate", "GUARD", "negotiated output buffer / heartbeat limits (the clientV2 setter obligations of C09.limits)", 2,
		only(c09limits, func(n string) bool { return strings.Contains(n, "clientV2") }))
	reg("C08.notify", "PATH", "emptying a channel wakes every consumer's pump so that the subscription keeps being served (the Empty obligation of C03.notify)", 1,
		only(c03notify, func(n string) bool { return strings.Contains(n, "clientV2).Empty") }))
	reg("C13.rdy", "GUARD", "RDY is refused outside [0, max-rdy-count] (shared with C03.rdy): no reported ready count is negative", 3, c03rdy)
	reg("C15.accept", "PATH", "a temporary Accept failure does not end nsqlookupd's TCP server (shared with C09.accept)", 2, c09accept)

	reg("C04.deferredwriters", "CALLS", "Message.deferred is written only where a publish sets it and where the topic pump copies it", 3, c04deferredwriters)
	reg("C04.sample", "IVAL", "UniqRands can select every index below maxval (the scan samples every channel)", 1, c04sample)
	reg("C05.scanlock", "LOCK", "processInFlightQueue / processDeferredQueue hold exitMutex from the pop to the put", 2, c05scanlock)
	reg("C14.ping", "PATH", "PING of an identified peer stores lastUpdate on every path", 1, c14ping)
	reg("C15.decode", "SHAPE", "IDENTIFY bodies are decoded into a struct value (json null cannot reset the target)", 2, c15decode)
	reg("C09.decode", "SHAPE", "IDENTIFY bodies are decoded into a struct value (shared with C15.decode)", 2, c15decode)
	reg("C16.httpaddrs", "PATH", "lookupdHTTPAddrs leaves out a peer only because its address is not known yet", 1, c16httpaddrs)
	reg("C17.adminlist", "CALLS", "Options.AdminUsers is not rewritten after option parsing", 1, c17adminlist)
	reg("C17.escape", "ORIG", "topic/channel names are query-escaped wherever clusterinfo puts them into an upstream URL", 10, c17escape)
	reg("C18.escape", "ORIG", "topic/channel names are query-escaped wherever clusterinfo puts them into an upstream URL (shared with C17.escape)", 10, c17escape)
	reg("C18.whole", "ORIG", "http_api.Client decodes the whole upstream body (no size cap that turns a big, healthy answer into a failed upstream)", 2, c18whole)
	reg("C19.record", "CALLS+PATH", "a record's body and newline go to the same file: Write cannot rotate, and nothing rotates between the two writes", 1, c19record)
	reg("C20.getescape", "ORIG", "nsq_to_http GET mode substitutes the query-escaped message", 1, c20getescape)
}

// ---- C04.deferredwriters ---------------------------------------------------------------------------------------

func c04deferredwriters(c *an.Ctx) {
	f := c.P.Field("nsqd", "Message", "deferred")
	if f == nil {
		c.Anchor("nsqd.Message.deferred")
		return
	}
	allowed := map[string]string{
		"(*nsqd.protocolV2).DPUB":     "DPUB sets the requested delay on the message it just built",
		"(*nsqd.httpServer).doPUB":    "/pub?defer= sets the requested delay on the message it just built",
		"(*nsqd.Topic).messagePump":   "the per-channel copy carries the delay over",
		"nsqd.decodeMessage":          "a decoded record starts with deferred 0",
		"nsqd.NewMessage":             "constructor",
		"(*nsqd.Message).clone":       "copy helper",
		"(*nsqd.Topic).PutMessage":    "",
		"(*nsqd.Channel).PutMessage_": "",
	}
	n := 0
	for _, a := range fieldAccesses(c.P.PkgFuncs("nsqd"), f) {
		if !a.write {
			continue
		}
		n++
		name := an.FnName(a.fn)
		_, ok := allowed[name]
		// a store on a message object created in the same function (fresh copy) is a copy, wherever it lives
		if !ok {
			if st, isStore := a.instr.(*ssa.Store); isStore {
				if fa, isFA := st.Addr.(*ssa.FieldAddr); isFA {
					if call, isCall := an.Strip(fa.X).(*ssa.Call); isCall {
						if g := an.StaticCallee(call); g != nil && an.BaseName(g) == "NewMessage" {
							ok = true
						}
					}
				}
			}
		}
		c.Check(ok, a.fn, "writer of Message.deferred", a.instr.Pos(), "", name+" writes Message.deferred: the topic pump reads the field of the shared original when it builds the copies for the other channels, so clearing or changing it on one channel's path changes the delay the others get")
	}
	if n == 0 {
		c.Anchor("a writer of nsqd.Message.deferred")
	}
}

// ---- C04.sample ------------------------------------------------------------------------------------------------

// lin is a*maxval + b*i + k for the entry value of parameter maxval and loop counter i.
type lin struct {
	a, b, k int64
	ok      bool
}

func c04sample(c *an.Ctx) {
	fn := c.Fn("internal/util", "UniqRands")
	if fn == nil {
		return
	}
	if len(fn.Params) < 2 {
		c.Und(fn, "every index selectable", fn.Pos(), "unexpected signature")
		return
	}
	maxval := fn.Params[1]
	// the swap: stores into the slice at a non-counter index j; j's largest value must be maxval-1 in every iteration
	var counters []*ssa.Phi
	for _, b := range fn.Blocks {
		for _, in := range b.Instrs {
			if phi, ok := in.(*ssa.Phi); ok {
				if isCounterPhi(phi) {
					counters = append(counters, phi)
				}
			}
		}
	}
	var eval func(v ssa.Value, i *ssa.Phi, depth int) lin
	eval = func(v ssa.Value, i *ssa.Phi, depth int) lin {
		if depth > 8 {
			return lin{}
		}
		if k, isC := an.ConstInt(v); isC {
			return lin{0, 0, k, true}
		}
		if v == ssa.Value(maxval) {
			return lin{1, 0, 0, true}
		}
		if v == ssa.Value(i) {
			return lin{0, 1, 0, true}
		}
		switch x := v.(type) {
		case *ssa.Convert:
			return eval(x.X, i, depth+1)
		case *ssa.Phi:
			// maxval decremented once per iteration of i's loop: maxval - i
			if x.Block() == i.Block() && len(x.Edges) == 2 {
				var init ssa.Value
				dec := false
				for _, e := range x.Edges {
					if b, ok := e.(*ssa.BinOp); ok && b.Op == token.SUB && b.X == ssa.Value(x) {
						if k, isC := an.ConstInt(b.Y); isC && k == 1 {
							dec = true
							continue
						}
					}
					init = e
				}
				if dec && init != nil {
					l := eval(init, i, depth+1)
					if l.ok {
						l.b -= 1
						return l
					}
				}
			}
		case *ssa.BinOp:
			switch x.Op {
			case token.ADD, token.SUB:
				l, r := eval(x.X, i, depth+1), eval(x.Y, i, depth+1)
				if l.ok && r.ok {
					if x.Op == token.ADD {
						return lin{l.a + r.a, l.b + r.b, l.k + r.k, true}
					}
					return lin{l.a - r.a, l.b - r.b, l.k - r.k, true}
				}
			case token.REM:
				// largest value of X % M (X >= 0) is M-1
				m := eval(x.Y, i, depth+1)
				if m.ok {
					m.k -= 1
					return m
				}
			}
		case *ssa.Call:
			if an.StdCallee(x, "math/rand", "Intn") || an.StdCallee(x, "math/rand", "Int63n") || an.StdCallee(x, "math/rand", "Int31n") {
				m := eval(x.Call.Args[0], i, depth+1)
				if m.ok {
					m.k -= 1
					return m
				}
			}
		}
		return lin{}
	}
	found, good := false, true
	worst := ""
	an.Instrs(fn, func(in ssa.Instruction) {
		st, ok := in.(*ssa.Store)
		if !ok {
			return
		}
		ia, ok := st.Addr.(*ssa.IndexAddr)
		if !ok {
			return
		}
		idx := an.Strip(ia.Index)
		for _, i := range counters {
			if idx == ssa.Value(i) {
				return // the slot being filled, not its partner
			}
		}
		for _, i := range counters {
			if !i.Block().Dominates(st.Block()) {
				continue
			}
			l := eval(idx, i, 0)
			if !l.ok {
				continue
			}
			found = true
			if !(l.a == 1 && l.b == 0 && l.k == -1) {
				good = false
				worst = sprintf("%d*maxval %+d*i %+d", l.a, l.b, l.k)
			}
		}
	})
	if !found {
		c.Und(fn, "every index selectable", fn.Pos(), "the random partner index of the shuffle was not recognised (expected i + rand%(maxval-i) or an equivalent)")
		return
	}
	c.Check(good, fn, "every index selectable", fn.Pos(), "", "the largest partner index the shuffle can draw is "+worst+" instead of maxval-1: the last index is never selected, so one channel is never handed to a scan worker until the list is refreshed – its timeouts and deferred messages are late by seconds")
}

// isCounterPhi: phi = [const, phi+1].
func isCounterPhi(phi *ssa.Phi) bool {
	if len(phi.Edges) != 2 {
		return false
	}
	init, inc := false, false
	for _, e := range phi.Edges {
		if _, isC := an.ConstInt(e); isC {
			init = true
			continue
		}
		if b, ok := e.(*ssa.BinOp); ok && b.Op == token.ADD && b.X == ssa.Value(phi) {
			if k, isC := an.ConstInt(b.Y); isC && k == 1 {
				inc = true
			}
		}
	}
	return init && inc
}

// ---- C05.scanlock ----------------------------------------------------------------------------------------------

func c05scanlock(c *an.Ctx) {
	put := c.Fn("nsqd", "(*Channel).put")
	pop := c.Fn("nsqd", "(*Channel).popInFlightMessage")
	popDef := c.Fn("nsqd", "(*Channel).popDeferredMessage")
	if put == nil || pop == nil || popDef == nil {
		return
	}
	la := c.P.Locks()
	for _, name := range []string{"(*Channel).processInFlightQueue", "(*Channel).processDeferredQueue"} {
		fn := c.Fn("nsqd", name)
		if fn == nil {
			continue
		}
		fl := la.Fns[fn]
		good, n := true, 0
		where := ""
		an.Instrs(fn, func(in ssa.Instruction) {
			ci, ok := in.(ssa.CallInstruction)
			if !ok || !(an.IsCallTo(ci, put) || an.IsCallTo(ci, pop) || an.IsCallTo(ci, popDef)) {
				return
			}
			n++
			held := false
			if fl != nil {
				must, _ := fl.At(in)
				for _, cl := range must.Classes() {
					if cl == "Channel.exitMutex" {
						held = true
					}
				}
			}
			if !held {
				good = false
				where = c.P.Pos(in.Pos())
			}
		})
		c.Check(good && n >= 2, fn, "scan moves messages under exitMutex", fn.Pos(), "", "the scan takes a message out of its container or puts it back without holding exitMutex (at "+where+"): Channel.exit(false) can flush the queues between the pop and the put, and the message in the scan's hands is written nowhere – lost by the restart")
	}
}

// ---- C14.ping --------------------------------------------------------------------------------------------------

func c14ping(c *an.Ctx) {
	fn := c.Fn("nsqlookupd", "(*LookupProtocolV1).PING")
	lu := c.P.Field("nsqlookupd", "PeerInfo", "lastUpdate")
	pi := c.P.Field("nsqlookupd", "ClientV1", "peerInfo")
	if fn == nil || lu == nil || pi == nil {
		if lu == nil {
			c.Anchor("nsqlookupd.PeerInfo.lastUpdate")
		}
		return
	}
	isRefresh := func(in ssa.Instruction, _ *an.PathState) bool {
		call, ok := in.(*ssa.Call)
		if !ok || !(an.StdCallee(call, "sync/atomic", "StoreInt64") || an.StdCallee(call, "sync/atomic", "SwapInt64")) {
			return false
		}
		fa, ok := call.Call.Args[0].(*ssa.FieldAddr)
		return ok && an.FieldOf(fa) == lu
	}
	q := &an.PathQ{Fn: fn, StartEntry: true, Sink: sinkSuccessReturn, Cut: isRefresh,
		CutEdge: func(e an.Edge, st *an.PathState) bool {
			// not identified yet: nothing to refresh
			for _, f := range st.FactsOnEdge(e) {
				cmp, ok := f.AsCmp()
				if !ok || cmp.Op != token.EQL {
					continue
				}
				if (isLoadOfField(cmp.X, pi) && an.IsNilConst(cmp.Y)) || (isLoadOfField(cmp.Y, pi) && an.IsNilConst(cmp.X)) {
					return true
				}
			}
			return false
		}}
	w, f := q.Find()
	if f {
		c.Bad(fn, "PING refreshes lastUpdate", fn.Pos(), "PING can answer OK for an identified peer without storing lastUpdate (e.g. only at some log levels): a regularly pinging nsqd drops out of /lookup and /nodes after the inactivity threshold", w)
	} else {
		c.OK(fn, "PING refreshes lastUpdate", fn.Pos(), "")
	}
}

// ---- C15.decode ------------------------------------------------------------------------------------------------

func c15decode(c *an.Ctx) {
	for _, spec := range []struct{ pkg, fn string }{{"nsqlookupd", "(*LookupProtocolV1).IDENTIFY"}, {"nsqd", "(*protocolV2).IDENTIFY"}} {
		fn := c.Fn(spec.pkg, spec.fn)
		if fn == nil {
			continue
		}
		n := 0
		an.Instrs(fn, func(in ssa.Instruction) {
			call, ok := in.(*ssa.Call)
			if !ok || !an.StdCallee(call, "encoding/json", "Unmarshal") {
				return
			}
			n++
			t := an.Strip(call.Call.Args[1]).Type()
			good := false
			if p, ok := t.Underlying().(*types.Pointer); ok {
				switch p.Elem().Underlying().(type) {
				case *types.Struct, *types.Map, *types.Slice, *types.Basic:
					good = true
				}
			}
			c.Check(good, fn, "body decoded into a value", call.Pos(), "", "the IDENTIFY body is decoded through "+t.String()+": the JSON literal null sets the pointer to nil without an error, and the next field access panics on the connection goroutine (no recover) – one request takes the daemon down")
		})
		if n == 0 {
			c.Und(fn, "body decoded into a value", fn.Pos(), "no json.Unmarshal in IDENTIFY")
		}
	}
}

// ---- C16.httpaddrs ---------------------------------------------------------------------------------------------

func c16httpaddrs(c *an.Ctx) {
	fn := c.Fn("nsqd", "(*NSQD).lookupdHTTPAddrs")
	ba := c.P.Field("nsqd", "peerInfo", "BroadcastAddress")
	if fn == nil || ba == nil {
		if ba == nil {
			c.Anchor("nsqd.peerInfo.BroadcastAddress")
		}
		return
	}
	n := 0
	for _, l := range an.NaturalLoops(fn) {
		il, ok := an.AsIndexLoop(l)
		if !ok {
			continue
		}
		n++
		onlyEx, _ := il.OnlyExhaustionExit()
		isAppend := func(in ssa.Instruction, _ *an.PathState) bool {
			call, ok := in.(*ssa.Call)
			if !ok {
				return false
			}
			bi, ok := call.Call.Value.(*ssa.Builtin)
			return ok && bi.Name() == "append"
		}
		q := &an.PathQ{Fn: fn, StartEdges: []an.Edge{{From: il.Header, To: il.Body}},
			SinkEdge: func(e an.Edge, _ *an.PathState) bool { return e.To == il.Header },
			Cut:      isAppend,
			CutEdge: func(e an.Edge, st *an.PathState) bool {
				// the address is not known yet: len(BroadcastAddress) <= 0 / == 0 / == ""
				for _, cmp := range st.CmpsOnEdge(e) {
					if a := lenArgOf(cmp.X); a != nil {
						if f, _ := an.LoadedField(an.Strip(a)); f == ba {
							k, isC := an.ConstInt(cmp.Y)
							if isC && ((cmp.Op == token.LEQ && k == 0) || (cmp.Op == token.EQL && k == 0) || (cmp.Op == token.LSS && k == 1)) {
								return true
							}
						}
						continue
					}
					if f, _ := an.LoadedField(an.Strip(cmp.X)); f == ba && cmp.Op == token.EQL {
						if s, ok := an.ConstString(cmp.Y); ok && s == "" {
							return true
						}
					}
				}
				return false
			}}
		w, f := q.Find()
		if !onlyEx || f {
			c.Bad(fn, "every known lookupd is asked", fn.Pos(), "a lookupd whose HTTP address is known can be left out of the list GetTopic queries (e.g. because its TCP registration connection is down): the channels it knows are not pre-created and miss the topic's first messages", w)
		} else {
			c.OK(fn, "every known lookupd is asked", fn.Pos(), "")
		}
	}
	if n == 0 {
		c.Und(fn, "every known lookupd is asked", fn.Pos(), "no loop over the peers")
	}
}

// ---- C17.adminlist ---------------------------------------------------------------------------------------------

func c17adminlist(c *an.Ctx) {
	f := c.P.Field("nsqadmin", "Options", "AdminUsers")
	if f == nil {
		c.Anchor("nsqadmin.Options.AdminUsers")
		return
	}
	n := 0
	for _, pkg := range []string{"nsqadmin", "apps/nsqadmin"} {
		for _, a := range fieldAccesses(c.P.PkgFuncs(pkg), f) {
			if !a.write {
				continue
			}
			name := an.FnName(a.fn)
			ok := strings.HasSuffix(name, ".NewOptions")
			n++
			c.Check(ok, a.fn, "writer of Options.AdminUsers", a.instr.Pos(), "", name+" rewrites the configured admin list: whatever it adds (an empty string from a stray comma, a lower-cased duplicate …) is then accepted by the admin check – an empty entry matches every request that carries no identity")
		}
	}
	if n == 0 {
		// only the constructor's literal (a fresh object) and the flag/config resolver (reflection) fill the list
		if fn := c.Fn("nsqadmin", "NewOptions"); fn != nil {
			c.OK(fn, "writer of Options.AdminUsers", fn.Pos(), "no function rewrites the list")
		}
	}
}

// ---- C17.escape ------------------------------------------------------------------------------------------------

// c17escape: in internal/clusterinfo, wherever a constant URL piece ending in "topic=" or "channel=" is followed by a
// dynamic string (fmt.Sprintf verb or concatenation), that string is the result of url.QueryEscape.
func c17escape(c *an.Ctx) {
	isEscaped := func(v ssa.Value) bool {
		return an.OriginsAll(v, func(o ssa.Value) bool {
			call, ok := o.(*ssa.Call)
			return ok && an.StdCallee(call, "net/url", "QueryEscape")
		})
	}
	wantsEscape := func(prefix string) bool {
		return strings.HasSuffix(prefix, "topic=") || strings.HasSuffix(prefix, "channel=")
	}
	n := 0
	for _, fn := range c.P.PkgFuncs("internal/clusterinfo") {
		an.Instrs(fn, func(in ssa.Instruction) {
			switch x := in.(type) {
			case *ssa.Call:
				if !an.StdCallee(x, "fmt", "Sprintf") || len(x.Call.Args) < 2 {
					return
				}
				format, ok := an.ConstString(x.Call.Args[0])
				if !ok {
					return
				}
				args := variadicElems(x.Call.Args[1])
				// walk the verbs
				ai := 0
				for i := 0; i < len(format); i++ {
					if format[i] != '%' {
						continue
					}
					if i+1 < len(format) && format[i+1] == '%' {
						i++
						continue
					}
					if wantsEscape(format[:i]) && ai < len(args) {
						n++
						c.Check(isEscaped(args[ai]), fn, "name query-escaped", x.Pos(), "", "a topic/channel name is put into an upstream URL without url.QueryEscape: '#' (as in name#ephemeral) starts the fragment, which the HTTP client strips – the action reaches the durable sibling, or the channel parameter is swallowed")
					}
					ai++
				}
			case *ssa.BinOp:
				if x.Op != token.ADD {
					return
				}
				if s, ok := an.ConstString(x.X); ok && wantsEscape(s) {
					n++
					c.Check(isEscaped(x.Y), fn, "name query-escaped", x.Pos(), "", "a topic/channel name is appended to an upstream URL without url.QueryEscape: '#' (as in name#ephemeral) starts the fragment, which the HTTP client strips")
				}
			}
		})
	}
	if n == 0 {
		c.Anchor("an upstream URL with a topic= or channel= parameter in internal/clusterinfo")
	}
}

// variadicElems returns the values stored into the backing array of a variadic argument slice.
func variadicElems(v ssa.Value) []ssa.Value {
	sl, ok := v.(*ssa.Slice)
	if !ok {
		return nil
	}
	al, ok := sl.X.(*ssa.Alloc)
	if !ok {
		return nil
	}
	m := map[int64]ssa.Value{}
	max := int64(-1)
	for _, r := range an.Referrers(al) {
		ia, ok := r.(*ssa.IndexAddr)
		if !ok {
			continue
		}
		k, isC := an.ConstInt(ia.Index)
		if !isC {
			continue
		}
		for _, r2 := range an.Referrers(ia) {
			if st, ok := r2.(*ssa.Store); ok && st.Addr == ssa.Value(ia) {
				m[k] = an.Strip(st.Val)
				if k > max {
					max = k
				}
			}
		}
	}
	out := make([]ssa.Value, max+1)
	for k, v := range m {
		out[k] = v
	}
	return out
}

// ---- C18.whole -------------------------------------------------------------------------------------------------

func c18whole(c *an.Ctx) {
	bodyF := c.P.Field("net/http", "Response", "Body")
	for _, name := range []string{"(*Client).GETV1", "(*Client).POSTV1"} {
		fn := c.Fn("internal/http_api", name)
		if fn == nil {
			continue
		}
		n := 0
		an.Instrs(fn, func(in ssa.Instruction) {
			call, ok := in.(*ssa.Call)
			if !ok || !an.StdCallee(call, "encoding/json", "Unmarshal") {
				return
			}
			n++
			// the decoded bytes are io.ReadAll(resp.Body), read in this function
			good := an.OriginsAll(call.Call.Args[0], func(o ssa.Value) bool {
				ex, ok := o.(*ssa.Extract)
				if !ok {
					return false
				}
				rd, ok := ex.Tuple.(*ssa.Call)
				if !ok || !(an.StdCallee(rd, "io", "ReadAll") || an.StdCallee(rd, "io/ioutil", "ReadAll")) {
					return false
				}
				return an.OriginsAll(rd.Call.Args[0], func(src ssa.Value) bool {
					f, _ := an.LoadedField(src)
					return f != nil && (bodyF == nil || f == bodyF) && f.Name() == "Body"
				})
			})
			c.Check(good, fn, "whole upstream body decoded", call.Pos(), "", "the bytes handed to json.Unmarshal are not io.ReadAll(resp.Body) of this response (size-capped or pre-processed): a large answer of a healthy nsqd is treated as a failed upstream and its topics, depth and clients vanish from the views")
		})
		if n == 0 {
			c.Und(fn, "whole upstream body decoded", fn.Pos(), "no json.Unmarshal")
		}
	}
}

// ---- C19.record ------------------------------------------------------------------------------------------------

func c19record(c *an.Ctx) {
	we := fileWriteEffect(c)
	router := c.Fn("apps/nsq_to_file", "(*FileLogger).router")
	update := c.Fn("apps/nsq_to_file", "(*FileLogger).updateFile")
	closeF := c.Fn("apps/nsq_to_file", "(*FileLogger).Close")
	if router == nil || update == nil || closeF == nil {
		return
	}
	// (a) no function that writes for the router (FileLogger.Write on the pinned tree) reaches updateFile or Close
	var wrappers []*ssa.Function
	for w := range we.fns {
		if w != router && w != update && w != closeF && len(an.CallsTo(router, w)) > 0 {
			wrappers = append(wrappers, w)
		}
	}
	sort.Slice(wrappers, func(i, j int) bool { return wrappers[i].Name() < wrappers[j].Name() })
	for _, write := range wrappers {
		seen := map[*ssa.Function]bool{}
		reaches := false
		var walk func(f *ssa.Function, d int)
		walk = func(f *ssa.Function, d int) {
			if seen[f] || d > 6 {
				return
			}
			seen[f] = true
			an.Instrs(f, func(in ssa.Instruction) {
				ci, ok := in.(ssa.CallInstruction)
				if !ok {
					return
				}
				g := an.StaticCallee(ci)
				if g == nil || g.Pkg != write.Pkg {
					return
				}
				if g == update || g == closeF {
					reaches = true
				}
				walk(g, d+1)
			})
		}
		walk(write, 0)
		c.Check(!reaches, write, "Write never rotates", write.Pos(), "", "FileLogger."+write.Name()+" can rotate or close the file: it is called once for the body and once for the newline, so a rotation triggered by the second call leaves the old file ending in an unterminated record and starts the next file with an empty one")
	}
	// (b) in the router nothing rotates between a body write and the newline write that follows it
	writes := we.callsIn(router)
	if len(writes) < 2 {
		c.Und(router, "body and newline written back to back", router.Pos(), "expected a body write and a newline write in the router")
		return
	}
	first := writes[0].(ssa.Instruction)
	last := writes[len(writes)-1].(ssa.Instruction)
	q := &an.PathQ{Fn: router, StartAfter: []ssa.Instruction{first},
		Sink: func(in ssa.Instruction, _ *an.PathState) bool {
			return isCallToOn(in, update, nil) || isCallToOn(in, closeF, nil)
		},
		Cut: func(in ssa.Instruction, _ *an.PathState) bool { return in == last || an.IsReturn(in, nil) }}
	// failure arms end in os.Exit (no-return): the path engine stops there
	w, f := q.Find()
	if f {
		c.Bad(router, "body and newline written back to back", first.Pos(), "between writing a record's body and its newline the router can rotate or close the file", w)
	} else {
		c.OK(router, "body and newline written back to back", first.Pos(), "")
	}
}

// ---- C20.getescape ---------------------------------------------------------------------------------------------

func c20getescape(c *an.Ctx) {
	fn := c.Fn("apps/nsq_to_http", "(*GetPublisher).Publish")
	if fn == nil {
		return
	}
	n := 0
	an.Instrs(fn, func(in ssa.Instruction) {
		call, ok := in.(*ssa.Call)
		if !ok || !an.StdCallee(call, "fmt", "Sprintf") || len(call.Call.Args) < 2 {
			return
		}
		if !isParam(call.Call.Args[0], fn, 1) {
			return
		}
		n++
		args := variadicElems(call.Call.Args[1])
		good := len(args) == 1 && an.OriginsAll(args[0], func(o ssa.Value) bool {
			e, ok := o.(*ssa.Call)
			if !ok || !an.StdCallee(e, "net/url", "QueryEscape") {
				return false
			}
			// of the message itself
			return an.OriginsAll(e.Call.Args[0], func(m ssa.Value) bool { return isParam(m, fn, 2) })
		})
		c.Check(good, fn, "message query-escaped into the address", call.Pos(), "", "the message substituted into the GET address is not url.QueryEscape(msg): with path escaping '+' arrives as a space and '&' ends the parameter, so the endpoint answers 200 for different bytes and the source message is finished")
	})
	if n == 0 {
		c.Und(fn, "message query-escaped into the address", fn.Pos(), "GetPublisher.Publish does not format its address with the message")
	}
}
