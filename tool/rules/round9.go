package rules

import (
	"go/token"
	"go/types"
	"sort"
	"strings"

	"golang.org/x/tools/go/ssa"

	"nsqverif/an"
)

// Rules added after the eighth round of independently seeded changes (DESIGN.md §11.18).
func init() {
	for id, extra := range map[string]string{
		"C01": " (nochans) the topic pump receives from its queues only while it knows a channel; (popcallers) the in-flight set is emptied only by FIN/REQ/TOUCH and the timeout scan; (inflightreg) registering a delivery fails only for a duplicate id; (msgtimeout) the negotiated timeout is bounded by max-msg-timeout.",
		"C02": " (flushcallers) flush – which copies, not moves, what is in flight – runs only at exit; (popcallers) as C01.",
		"C03": " (winner) the ownership obligations of C02.winner.",
		"C04": " (popcallers) as C01.",
		"C05": " (flushcallers) as C02; (inflightreg) as C01.",
		"C06": " (deadline) a mute nsqlookupd cannot stall the lookup loop, which every persist of Notify waits behind; (lockid) the lock object is never unlinked.",
		"C07": " (readerr) a body whose read failed is refused; (backendname) as C01.",
		"C08": " (nonfatal) a refused FIN leaves the counters alone.",
		"C11": " (freshstate) every auth answer is decoded into a fresh State.",
		"C14": " (getonce) a registration is created only if found absent under the same write lock; (namerule) the shared name predicate.",
		"C16": " (deadline) every read from and write to nsqlookupd has a deadline; (block, readfull) as C08/C07.",
		"C17": " (legacyinfo) a nsqd whose /info lacks its address is addressed as configured.",
		"C18": " (legacyinfo) as C17.",
		"C20": " (exacttrim) a record is the line minus exactly its delimiter.",
	} {
		p := Props[id]
		p.Explanation += extra
		Props[id] = p
	}
	has := func(subs ...string) func(string) bool {
		return func(n string) bool {
			for _, s := range subs {
				if strings.Contains(n, s) {
					return true
				}
			}
			return false
		}
	}
	reg("C01.msgtimeout", "GUARD", "SetMsgTimeout stores only values within [1ms, max-msg-timeout]: a larger one keeps a vanished consumer's messages in flight for as long (the SetMsgTimeout rows of C09.limits)", 1, only(c09limits, has("SetMsgTimeout")))
	reg("C03.winner", "LOCK+GUARD+CALLS", "the in-flight entry is removed once, by the one who then adjusts the owner's count (shared with C02.winner)", 9, c02winner)
	reg("C07.backendname", "SHAPE", "two queues never share a disk-queue name (shared with C01.backendname)", 1, c01backendname)
	reg("C08.nonfatal", "ETYPE+PATH", "a refused FIN/REQ/TOUCH changes no counter (shared with C02.nonfatal)", 5, c02nonfatal)
	reg("C14.namerule", "GUARD", "the name predicate behind REGISTER and the create endpoints (the isValidName obligations of C09.limits)", 1, only(c09limits, has("internal/protocol")))
	reg("C16.block", "LOCK", "no blocking hand-off to the lookup loop while a registry lock is held: a slow nsqlookupd would stop every publisher (shared with C08.block)", 0, c08block)
	reg("C16.readfull", "CALLS", "replies of nsqlookupd are read whole (shared with C07.readfull)", 1, c07readfull)

	reg("C01.nochans", "PATH", "after every channel-list or pause token the topic pump arms its queues only on an edge where len(chans) != 0", 1, c01nochans)
	reg("C01.popcallers", "CALLS", "popInFlightMessage / popDeferredMessage are called only by FIN, REQ, TOUCH and the two scans", 5, c01popcallers)
	reg("C02.popcallers", "CALLS", "who may take a message out of the in-flight set (shared with C01.popcallers)", 5, c01popcallers)
	reg("C04.popcallers", "CALLS", "nothing but an answer or the deadline scan ends a message's time in flight (shared with C01.popcallers)", 5, c01popcallers)
	reg("C01.inflightreg", "ORIG", "StartInFlightTimeout / StartDeferredTimeout fail only with the error of their push (a duplicate id): the delivery pump does not look at the result", 2, c01inflightreg)
	reg("C05.inflightreg", "ORIG", "a delivery is always registered in flight, also while the channel is closing, so that flush finds it (shared with C01.inflightreg)", 2, c01inflightreg)
	reg("C02.flushcallers", "CALLS", "Channel.flush / Topic.flush are called only by exit", 2, c02flushcallers)
	reg("C05.flushcallers", "CALLS", "Channel.flush / Topic.flush are called only by exit (shared with C02.flushcallers)", 2, c02flushcallers)
	reg("C06.lockid", "CALLS", "package dirlock removes and renames nothing", 0, c06lockid)
	reg("C06.deadline", "PATH+ORIG", "lookupPeer reads and writes set a deadline first, and Command reads its reply through the peer", 3, c16deadline)
	reg("C16.deadline", "PATH+ORIG", "lookupPeer reads and writes set a deadline first, and Command reads its reply through the peer (shared with C06.deadline)", 3, c16deadline)
	reg("C07.readerr", "PATH", "after a failed io.ReadAll / io.ReadFull of a request body nothing is put", 2, c07readerr)
	reg("C10.readerr", "PATH", "after a failed io.ReadAll / io.ReadFull of a request body nothing is put (shared with C07.readerr)", 2, c07readerr)
	reg("C11.freshstate", "ORIG", "the State an auth server's answer is decoded into is allocated for that one request", 1, c11freshstate)
	reg("C14.getonce", "LOCK+GUARD", "AddRegistration / AddProducer create a registration's producer map only after finding it absent under the same write lock", 2, c14getonce)
	reg("C17.legacyinfo", "ORIG", "GetNSQDTopicProducers fills address and HTTP port of a producer from the configured address when /info omits them", 1, c17legacyinfo)
	reg("C18.legacyinfo", "ORIG", "GetNSQDTopicProducers fills address and HTTP port of a producer from the configured address when /info omits them (shared with C17.legacyinfo)", 1, c17legacyinfo)
	reg("C20.exacttrim", "SHAPE", "to_nsq shortens a record only by its one delimiter", 1, c20exacttrim)
	reg("C09.readdeadline", "PATH", "IOLoop (re)sets the read deadline before every command read: a deadline armed elsewhere (the TLS handshake's) never outlives its purpose", 1, c09readdeadline)
}

// ---- C09.readdeadline ----------------------------------------------------------------------------------------

func c09readdeadline(c *an.Ctx) {
	fn := c.Fn("nsqd", "(*protocolV2).IOLoop")
	if fn == nil {
		return
	}
	var reads []ssa.Instruction
	for _, ci := range an.CallsIn(fn, func(ci ssa.CallInstruction) bool {
		return an.StdCallee(ci, "bufio", "(*Reader).ReadSlice") || an.StdCallee(ci, "bufio", "(*Reader).ReadString") || an.StdCallee(ci, "bufio", "(*Reader).ReadBytes")
	}) {
		reads = append(reads, ci.(ssa.Instruction))
	}
	if len(reads) == 0 {
		c.Und(fn, "deadline set before every command read", fn.Pos(), "the command read of IOLoop was not found")
		return
	}
	isRead := func(in ssa.Instruction, _ *an.PathState) bool {
		for _, r := range reads {
			if r == in {
				return true
			}
		}
		return false
	}
	setsDeadline := func(in ssa.Instruction, _ *an.PathState) bool {
		ci, ok := in.(ssa.CallInstruction)
		if !ok {
			return false
		}
		cm := ci.Common()
		name := ""
		if cm.IsInvoke() {
			name = cm.Method.Name()
		} else if f := an.StaticCallee(ci); f != nil {
			name = f.Name()
		}
		return name == "SetReadDeadline" || name == "SetDeadline"
	}
	q := &an.PathQ{Fn: fn, StartEntry: true, StartAfter: reads, Sink: isRead, Cut: setsDeadline}
	w, f := q.Find()
	if f {
		c.Bad(fn, "deadline set before every command read", reads[0].Pos(), "IOLoop can wait for a command without having set the read deadline in this iteration (to now+2×heartbeat, or to none when heartbeats are off): whatever deadline was armed last stays in force – the five seconds of the TLS handshake, for a client that negotiated tls_v1 and heartbeat_interval=-1 – and a healthy connection is dropped", w)
	} else {
		c.OK(fn, "deadline set before every command read", reads[0].Pos(), "")
	}
}

// ---- C01.nochans ---------------------------------------------------------------------------------------------

func c01nochans(c *an.Ctx) {
	fn := c.Fn("nsqd", "(*Topic).messagePump")
	if fn == nil {
		return
	}
	sel, srcs := msgSelect(c, fn)
	if sel == nil {
		c.Und(fn, "queues armed only with channels", fn.Pos(), "no select receiving *Message in the topic pump")
		return
	}
	chanT := c.P.Named("nsqd", "Channel")
	live := func(st *an.PathState) bool {
		for _, i := range srcs {
			k, ok := st.ConstOf(sel.States[i].Chan)
			if !ok || k.Value != nil {
				return true
			}
		}
		return false
	}
	isLenChans := func(v ssa.Value) bool {
		a := lenArgOf(v)
		if a == nil {
			return false
		}
		sl, ok := a.Type().Underlying().(*types.Slice)
		if !ok {
			return false
		}
		pt, ok := sl.Elem().(*types.Pointer)
		return ok && chanT != nil && types.Identical(pt.Elem(), chanT)
	}
	nonEmpty := func(e an.Edge, st *an.PathState) bool {
		for _, cmp := range st.CmpsOnEdge(e) {
			oc, ok := cmp.Oriented(isLenChans)
			if !ok {
				continue
			}
			k, isC := an.ConstInt(oc.Y)
			if !isC {
				continue
			}
			if (k == 0 && (oc.Op == token.NEQ || oc.Op == token.GTR)) || (k >= 1 && oc.Op == token.GEQ) {
				return true
			}
		}
		return false
	}
	var tokens []an.Edge
	for _, fname := range []string{"pauseChan", "channelUpdateChan"} {
		f := c.P.Field("nsqd", "Topic", fname)
		for _, s := range an.Selects(fn) {
			for _, st := range an.SelectStates(s) {
				if st.State.Dir == types.RecvOnly && isLoadOfField(st.State.Chan, f) {
					tokens = append(tokens, st.Chosen...)
				}
			}
		}
	}
	atSel := func(in ssa.Instruction, st *an.PathState) bool { return in == ssa.Instruction(sel) && live(st) }
	q := &an.PathQ{Fn: fn, StartEntry: true, StartEdges: tokens, AllConsts: true, Sink: atSel,
		Cut:     func(in ssa.Instruction, st *an.PathState) bool { return in == ssa.Instruction(sel) && !live(st) },
		CutEdge: nonEmpty}
	w, f := q.Find()
	if f || len(tokens) == 0 {
		c.Bad(fn, "queues armed only with channels", sel.Pos(), "after a start, pause or channel-list token the topic pump can select on its queues without having seen len(chans) != 0: with no channel known it takes messages off the memory and disk queue and hands them to nobody – a publish acknowledged between the creation of the first channel and the pump learning of it is lost", w)
	} else {
		c.OK(fn, "queues armed only with channels", sel.Pos(), "")
	}
}

// ---- C01.popcallers ------------------------------------------------------------------------------------------

func c01popcallers(c *an.Ctx) {
	for _, spec := range []struct {
		fn      string
		allowed []string
	}{
		{"(*Channel).popInFlightMessage", []string{"(*nsqd.Channel).FinishMessage", "(*nsqd.Channel).RequeueMessage", "(*nsqd.Channel).TouchMessage", "(*nsqd.Channel).processInFlightQueue"}},
		{"(*Channel).popDeferredMessage", []string{"(*nsqd.Channel).processDeferredQueue"}},
	} {
		target := c.Fn("nsqd", spec.fn)
		if target == nil {
			continue
		}
		users := usersOf(c, target)
		var names []string
		for n := range users {
			names = append(names, n)
		}
		sort.Strings(names)
		for _, n := range names {
			c.Check(contains(spec.allowed, n), target, "caller of "+target.Name()+": "+n, users[n].Pos(), "",
				n+" takes messages out of the in-flight/deferred set: only an answer of the holder (FIN, REQ, TOUCH) or the deadline scan may end a delivery – released on disconnect, say, a message reaches a second consumer at once, before its timeout and without counting one")
		}
		c.Check(len(names) > 0, target, "callers of "+target.Name()+" found", target.Pos(), "", "no caller of "+target.Name())
	}
}

// ---- C01.inflightreg -----------------------------------------------------------------------------------------

func c01inflightreg(c *an.Ctx) {
	for _, spec := range []struct{ fn, push string }{
		{"(*Channel).StartInFlightTimeout", "(*Channel).pushInFlightMessage"},
		{"(*Channel).StartDeferredTimeout", "(*Channel).pushDeferredMessage"},
	} {
		fn := c.Fn("nsqd", spec.fn)
		push := c.Fn("nsqd", spec.push)
		if fn == nil || push == nil {
			continue
		}
		good := true
		for _, rc := range returnCases(fn, 0) {
			if an.IsNilConst(rc.val) {
				continue
			}
			if an.CallResultOf(rc.val, push) == nil {
				good = false
			}
		}
		c.Check(good, fn, "fails only when the push fails", fn.Pos(), "", fn.Name()+" can refuse for a reason of its own (the channel is exiting, say): the delivery pump ignores the result and sends the message anyway – it is then in no queue and not in flight, flush does not see it, and a shutdown at that moment loses it")
	}
}

// ---- C02.flushcallers ----------------------------------------------------------------------------------------

func c02flushcallers(c *an.Ctx) {
	for _, spec := range []struct{ fn, allowed string }{
		{"(*Channel).flush", "(*nsqd.Channel).exit"},
		{"(*Topic).flush", "(*nsqd.Topic).exit"},
	} {
		target := c.Fn("nsqd", spec.fn)
		if target == nil {
			continue
		}
		users := usersOf(c, target)
		var names []string
		for n := range users {
			names = append(names, n)
		}
		sort.Strings(names)
		for _, n := range names {
			c.Check(n == spec.allowed, target, "caller of "+target.Name()+": "+n, users[n].Pos(), "",
				n+" calls flush on a live object: flush writes the in-flight and deferred messages to the backend and leaves them where they are (it was written for exit), so each of them now exists twice – the copy is delivered again after the holder's FIN was accepted")
		}
		c.Check(len(names) > 0, target, "callers of "+target.Name()+" found", target.Pos(), "", "nothing calls "+target.Name())
	}
}

// ---- C06.lockid ----------------------------------------------------------------------------------------------

func c06lockid(c *an.Ctx) {
	fns := c.P.PkgFuncs("internal/dirlock")
	for _, fn := range fns {
		for _, ci := range an.CallsIn(fn, func(ci ssa.CallInstruction) bool {
			for _, n := range []string{"Remove", "RemoveAll", "Rename"} {
				if an.StdCallee(ci, "os", n) {
					return true
				}
			}
			return an.StdCallee(ci, "syscall", "Unlink") || an.StdCallee(ci, "syscall", "Rename")
		}) {
			c.Bad(fn, "the lock object is never unlinked", ci.Pos(), "package dirlock removes or renames a file: whoever unlinks the object the owner holds its flock on (a refused second start cleaning up after itself) lets the next starter lock a fresh inode and run alongside the owner", nil)
		}
	}
	if lock := c.Fn("internal/dirlock", "(*DirLock).Lock"); lock != nil {
		c.OK(lock, "the lock object is never unlinked", lock.Pos(), "")
	}
}

// ---- C16.deadline --------------------------------------------------------------------------------------------

func c16deadline(c *an.Ctx) {
	for _, spec := range []struct{ m, io, dl string }{{"Read", "Read", "SetReadDeadline"}, {"Write", "Write", "SetWriteDeadline"}} {
		fn := c.Fn("nsqd", "(*lookupPeer)."+spec.m)
		if fn == nil {
			continue
		}
		var ios []ssa.Instruction
		an.Instrs(fn, func(in ssa.Instruction) {
			if isInvokeOn(in, "Conn", spec.io, nil) {
				ios = append(ios, in)
			}
		})
		q := &an.PathQ{Fn: fn, StartEntry: true, Sink: func(in ssa.Instruction, _ *an.PathState) bool { return isInvokeOn(in, "Conn", spec.io, nil) },
			Cut: func(in ssa.Instruction, _ *an.PathState) bool { return isInvokeOn(in, "Conn", spec.dl, nil) }}
		w, f := q.Find()
		if f || len(ios) == 0 {
			c.Bad(fn, spec.dl+" before every "+spec.io, fn.Pos(), "lookupPeer."+spec.m+" can touch the connection without a deadline: an nsqlookupd that accepts and then says nothing blocks the lookup loop for ever – it stops draining notifyChan, so no Notify goroutine reaches its PersistMetadata and no creation is recorded", w)
		} else {
			c.OK(fn, spec.dl+" before every "+spec.io, fn.Pos(), "")
		}
	}
	cmd := c.Fn("nsqd", "(*lookupPeer).Command")
	rrb := c.Fn("nsqd", "readResponseBounded")
	if cmd == nil || rrb == nil {
		return
	}
	n := 0
	for _, rc := range an.CallsTo(cmd, rrb) {
		n++
		// the reader is the peer itself (whose Read sets the deadline), not its raw connection or a wrapper around it
		r := an.Strip(arg(rc, 0))
		ok := isParam(r, cmd, 0)
		if mi, isMI := arg(rc, 0).(*ssa.MakeInterface); isMI && isParam(an.Strip(mi.X), cmd, 0) {
			ok = true
		}
		c.Check(ok, cmd, "reply read through the peer", rc.Pos(), "", "Command reads the reply from something other than the lookupPeer itself: lookupPeer.Read is what sets the read deadline")
	}
	c.Check(n > 0, cmd, "reply read located", cmd.Pos(), "", "Command no longer calls readResponseBounded")
}

// ---- C07.readerr ---------------------------------------------------------------------------------------------

func c07readerr(c *an.Ctx) {
	putM := c.Fn("nsqd", "(*Topic).PutMessage")
	putMs := c.Fn("nsqd", "(*Topic).PutMessages")
	if putM == nil || putMs == nil {
		return
	}
	n := 0
	for _, name := range []string{"(*httpServer).doPUB", "(*httpServer).doMPUB", "(*protocolV2).PUB", "(*protocolV2).DPUB", "(*protocolV2).MPUB", "readMPUB"} {
		fn := c.Fn("nsqd", name)
		if fn == nil {
			continue
		}
		for _, ci := range an.CallsIn(fn, func(ci ssa.CallInstruction) bool {
			return an.StdCallee(ci, "io", "ReadAll") || an.StdCallee(ci, "io", "ReadFull") || an.StdCallee(ci, "io", "ReadAtLeast")
		}) {
			n++
			// per path: between the read and a put (or a success answer) lies the edge on which the read's own error –
			// not a variable it was copied into and that was reset since – was found nil
			var errV ssa.Value
			if rs := an.ErrResult(ci.Value()); len(rs) > 0 {
				errV = rs[0]
			}
			if errV == nil {
				c.Bad(fn, "failed body read refuses", ci.Pos(), "the error of "+an.StaticCallee(ci).Name()+" is not used", nil)
				continue
			}
			q := &an.PathQ{Fn: fn, StartAfter: []ssa.Instruction{ci.(ssa.Instruction)}, AllAlias: true, FullOnly: true,
				Sink: func(in ssa.Instruction, st *an.PathState) bool {
					if ci2, ok := in.(ssa.CallInstruction); ok && (an.IsCallTo(ci2, putM) || an.IsCallTo(ci2, putMs)) {
						return true
					}
					return sinkSuccessReturn(in, st)
				},
				CutEdge: func(e an.Edge, st *an.PathState) bool {
					for _, cmp := range st.CmpsOnEdge(e) {
						if cmp.Op != token.EQL {
							continue
						}
						x, y := cmp.X, cmp.Y
						if an.IsNilConst(x) {
							x, y = y, x
						}
						if an.IsNilConst(y) && an.Resolve(st.Selected(x)) == errV {
							return true
						}
					}
					return false
				}}
			w, f := q.Find()
			if f {
				c.Bad(fn, "failed body read refuses", ci.Pos(), "after "+an.StaticCallee(ci).Name()+" failed the handler can still publish or answer success: io.ErrUnexpectedEOF is how a client that vanished mid-body shows up, and the prefix received so far would be delivered as a whole message", w)
			} else {
				c.OK(fn, "failed body read refuses", ci.Pos(), "")
			}
		}
	}
	c.Check(n >= 2, nil, "body reads located", token.NoPos, "", "fewer than two io.ReadAll/io.ReadFull body reads found in the publish paths")
}

// ---- C11.freshstate ------------------------------------------------------------------------------------------

func c11freshstate(c *an.Ctx) {
	stateT := c.P.Named("internal/auth", "State")
	get := c.P.Func("internal/http_api", "(*Client).GETV1")
	if stateT == nil || get == nil {
		c.Anchor("auth.State / http_api.Client.GETV1")
		return
	}
	n := 0
	for _, fn := range c.P.PkgFuncs("internal/auth") {
		loops := an.NaturalLoops(fn)
		for _, gc := range an.CallsTo(fn, get) {
			target := arg(gc, 1)
			mi, ok := target.(*ssa.MakeInterface)
			if !ok {
				continue
			}
			pt, ok := mi.X.Type().(*types.Pointer)
			if !ok || !types.Identical(pt.Elem(), stateT) {
				continue
			}
			n++
			al, isAlloc := mi.X.(*ssa.Alloc)
			good := isAlloc
			if isAlloc {
				// allocated in the innermost loop that contains the request (a fresh one per iteration)
				if l := an.LoopContaining(loops, gc.Block()); l != nil && !l.Blocks[al.Block()] {
					good = false
				}
			}
			c.Check(good, fn, "auth answer decoded into a fresh State", gc.Pos(), "", "the State handed to GETV1 is not allocated for this request (a parameter, or a variable shared by the iterations of the server loop): json.Unmarshal leaves absent keys untouched, so the grants of an answer that was then rejected stay in it and are accepted with the next server's answer that names none")
		}
	}
	c.Check(n >= 1, nil, "auth request located", token.NoPos, "", "no GETV1 into an auth.State found in internal/auth")
}

// ---- C17.legacyinfo ------------------------------------------------------------------------------------------

func c17legacyinfo(c *an.Ctx) {
	fn := c.Fn("internal/clusterinfo", "(*ClusterInfo).GetNSQDTopicProducers")
	if fn == nil {
		return
	}
	port, addr := false, false
	for _, g := range an.WithAnon(fn) {
		an.Instrs(g, func(in ssa.Instruction) {
			st, ok := in.(*ssa.Store)
			if !ok {
				return
			}
			fa, ok := st.Addr.(*ssa.FieldAddr)
			if !ok {
				return
			}
			switch an.FName(an.FieldOf(fa)) {
			case "HTTPPort":
				for _, o := range an.Origins(st.Val) {
					if ex, ok := o.(*ssa.Extract); ok {
						if call, ok := ex.Tuple.(*ssa.Call); ok && an.StdCallee(call, "strconv", "Atoi") {
							port = true
						}
					}
				}
			case "BroadcastAddress":
				for _, o := range an.Origins(st.Val) {
					if ex, ok := o.(*ssa.Extract); ok {
						if call, ok := ex.Tuple.(*ssa.Call); ok && an.StdCallee(call, "net", "SplitHostPort") {
							addr = true
						}
					}
				}
			}
		})
	}
	c.Check(port && addr, fn, "address and port fall back to the configured address", fn.Pos(), "", sprintf("GetNSQDTopicProducers does not fill BroadcastAddress (found=%v) and HTTPPort (found=%v) from the configured nsqd address when /info omits them: such a node becomes `host:0`, its statistics are missing from every view and no admin action reaches it – nsqadmin still answers 200", addr, port))
}

// ---- C20.exacttrim -------------------------------------------------------------------------------------------

func c20exacttrim(c *an.Ctx) {
	fn := c.Fn("apps/to_nsq", "readAndPublish")
	if fn == nil {
		return
	}
	// the value read from the reader, and every re-slice of it
	var line ssa.Value
	an.Instrs(fn, func(in ssa.Instruction) {
		if call, ok := in.(*ssa.Call); ok && (an.StdCallee(call, "bufio", "(*Reader).ReadBytes") || an.StdCallee(call, "bufio", "(*Reader).ReadSlice")) {
			line = call
		}
	})
	if line == nil {
		c.Und(fn, "one delimiter trimmed", fn.Pos(), "the read of a record was not found")
		return
	}
	n := 0
	an.Instrs(fn, func(in ssa.Instruction) {
		sl, ok := in.(*ssa.Slice)
		if !ok {
			return
		}
		if _, isBytes := sl.X.Type().Underlying().(*types.Slice); !isBytes {
			return
		}
		fromLine := false
		for _, o := range an.Origins(sl.X) {
			if ex, ok := o.(*ssa.Extract); ok && ex.Tuple == line {
				fromLine = true
			}
			if s2, ok := o.(*ssa.Slice); ok && s2 != sl {
				fromLine = true // a re-slice of a re-slice: counted itself
			}
		}
		if !fromLine {
			return
		}
		n++
	})
	c.Check(n == 1, fn, "one delimiter trimmed", fn.Pos(), "", sprintf("readAndPublish re-slices the record %d times (expected once, for the delimiter): anything else trimmed – a trailing carriage return, surrounding blanks – is a byte of the record that the destinations never get", n))
}
