package rules

import (
	"go/token"
	"go/types"
	"strings"

	"golang.org/x/tools/go/ssa"

	"nsqverif/an"
)

func init() {
	Props["C06"] = PropInfo{
		Explanation: "Decides the metadata write protocol and its triggers: (atomic) PersistMetadata returns nil only after write+fsync of a temp file and rename over the real name, and nothing else in nsqd writes files; " +
			"(after) every change of the topic/channel registries is followed by (or ordered before, via the registry lock) a persist: creations notify under the registry's write lock that GetMetadata must take, deletions persist after the map delete; " +
			"(locked) every PersistMetadata call holds NSQD.RWMutex for writing; (pause) pause/unpause handlers persist synchronously before answering; (load) a missing file is a fresh start and invalid names are skipped; " +
			"(dirlock) nsqd.New succeeds only after an exclusive non-blocking flock on the data path, taken before any listener is opened; (ephemeral) ephemeral objects are excluded from the document and never trigger a persist.",
		NotDecided:  "what the file system does between rename and the next directory fsync; that the persisted set equals a state the daemon passed through under arbitrary concurrent churn.",
		Assumptions: []string{"rename(2) is atomic; fsync persists file contents; flock(LOCK_EX|LOCK_NB) fails when another process holds the lock", "on windows/illumos DirLock is a documented no-op (upstream limitation)"},
	}
	reg("C06.atomic", "PATH+CALLS", "metadata is written to a temp file, fsynced and renamed over the real file; no other file writer in package nsqd", 6, c06atomic)
	reg("C06.after", "PATH+LOCK", "every registry mutation of a durable object is ordered before a metadata persist", 4, c06after)
	reg("C06.locked", "LOCK", "every call of PersistMetadata holds NSQD.RWMutex for writing", 4, c06locked)
	reg("C06.pause", "PATH", "HTTP pause/unpause: Pause|UnPause then PersistMetadata under n.Lock before the success answer", 2, c06pause)
	reg("C06.load", "GUARD", "missing metadata file = fresh start; invalid names are skipped, not fatal", 4, c06load)
	reg("C06.dirlock", "PATH+SHAPE", "nsqd.New returns a daemon only after dl.Lock() succeeded, before any Listen; flock is LOCK_EX|LOCK_NB", 3, c06dirlock)
	reg("C06.ephemeral", "GUARD", "ephemeral topics/channels are skipped by GetMetadata(false) and their Notify never requests a persist", 6, c06ephemeral)
}

func c06atomic(c *an.Ctx) {
	persist := c.Fn("nsqd", "(*NSQD).PersistMetadata")
	nmf := c.Fn("nsqd", "newMetadataFile")
	if persist == nil || nmf == nil {
		return
	}
	isOpen := func(ci ssa.CallInstruction) bool {
		return an.StdCallee(ci, "os", "OpenFile") || an.StdCallee(ci, "os", "Create")
	}
	// the write unit: the helper PersistMetadata calls to write+fsync the temp file, or
	// PersistMetadata itself when it opens the file inline
	wsf := c.P.Func("nsqd", "writeSyncFile")
	inline := false
	if wsf == nil && len(an.CallsIn(persist, isOpen)) > 0 {
		wsf, inline = persist, true
	}
	if wsf == nil {
		for _, ci := range an.CallsIn(persist, func(ssa.CallInstruction) bool { return true }) {
			if callee := an.StaticCallee(ci); callee != nil && callee.Pkg != nil && callee.Pkg.Pkg.Path() == an.ModPath+"/nsqd" && len(an.CallsIn(callee, isOpen)) > 0 {
				wsf = callee
			}
		}
	}
	if wsf == nil {
		c.Bad(persist, "temp file then rename", persist.Pos(), "PersistMetadata neither opens a file nor calls a helper of package nsqd that does", nil)
		return
	}
	// PersistMetadata
	var wcalls, rcalls []ssa.CallInstruction
	if inline {
		wcalls = an.CallsIn(persist, isOpen)
	} else {
		wcalls = an.CallsTo(persist, wsf)
	}
	rcalls = an.CallsIn(persist, func(ci ssa.CallInstruction) bool { return an.StdCallee(ci, "os", "Rename") })
	if len(wcalls) != 1 || len(rcalls) != 1 {
		c.Bad(persist, "temp file then rename", persist.Pos(), sprintf("expected one write of the temp file and one os.Rename, found %d/%d", len(wcalls), len(rcalls)), nil)
	} else {
		wc, rc := wcalls[0], rcalls[0]
		rSucc, _ := an.ErrEdges(rc.Value())
		// the edges that witness "the temp file was written and fsynced": the helper's success
		// edge, or (inline) the success edges of Write and of Sync, each required on the way
		var need [][]an.Edge
		dataArg := ssa.Value(nil)
		if inline {
			for _, m := range []string{"Write", "Sync"} {
				var es []an.Edge
				for _, ci := range an.CallsIn(persist, func(ci ssa.CallInstruction) bool { return an.StdCallee(ci, "os", "(*File)."+m) }) {
					s, _ := an.ErrEdgesPhi(ci.(*ssa.Call))
					es = append(es, s...)
					if m == "Write" && len(ci.Common().Args) > 1 {
						dataArg = ci.Common().Args[1]
					}
				}
				need = append(need, es)
			}
		} else {
			wSucc, _ := an.ErrEdges(wc.Value())
			need = append(need, wSucc)
			dataArg = wc.Common().Args[1]
		}
		// success return cut by rename success; rename cut by write success
		// (a return of the rename's own error is nil exactly when the rename succeeded)
		q1 := &an.PathQ{Fn: persist, StartEntry: true, Marked: an.ResultN(rc.Value(), 0),
			Sink: func(in ssa.Instruction, st *an.PathState) bool {
				if !sinkSuccessReturn(in, st) {
					return false
				}
				e := errOperand(in.(*ssa.Return))
				return e == nil || !st.Marked(e)
			},
			CutEdge: func(e an.Edge, _ *an.PathState) bool { return an.EdgeIn(e, rSucc) }}
		w1, f1 := q1.Find()
		var w2 []string
		f2 := false
		for _, es := range need {
			es := es
			q2 := &an.PathQ{Fn: persist, StartEntry: true, Sink: func(in ssa.Instruction, _ *an.PathState) bool { return in == rc.(ssa.Instruction) },
				CutEdge: func(e an.Edge, _ *an.PathState) bool { return an.EdgeIn(e, es) }}
			if w, f := q2.Find(); f || len(es) == 0 {
				w2, f2 = w, true
			}
		}
		if inline {
			// and the calls themselves lie on every path to the rename (the success edge of a
			// merged error variable says nothing when the call was skipped)
			for _, m := range []string{"Write", "Sync"} {
				m := m
				q3 := &an.PathQ{Fn: persist, StartEntry: true, Sink: func(in ssa.Instruction, _ *an.PathState) bool { return in == rc.(ssa.Instruction) },
					Cut: func(in ssa.Instruction, _ *an.PathState) bool { return isStdCall(in, "os", "(*File)."+m) }}
				if w, f := q3.Find(); f {
					w2, f2 = w, true
				}
			}
		}
		if f1 {
			c.Bad(persist, "nil only after rename succeeded", rc.Pos(), "PersistMetadata can report success although the rename over nsqd.dat failed or did not happen", w1)
		} else {
			c.OK(persist, "nil only after rename succeeded", rc.Pos(), "")
		}
		if f2 {
			c.Bad(persist, "rename only after write+sync succeeded", rc.Pos(), "the temp file can be renamed over nsqd.dat although writing/fsyncing it failed: a truncated document replaces the good one", w2)
		} else {
			c.OK(persist, "rename only after write+sync succeeded", rc.Pos(), "")
		}
		// names: rename(tmp, fileName): fileName = newMetadataFile(...), tmp = written name != fileName, derived from it
		fileName := rc.Common().Args[1]
		tmp := rc.Common().Args[0]
		okNames := an.CallResultOf(fileName, nmf) != nil && an.SameValue(tmp, wc.Common().Args[0]) && !an.SameValue(tmp, fileName) && an.CallResultOf(tmp, nmf) == nil
		derived := false
		if call, ok := an.Strip(tmp).(*ssa.Call); ok && an.StdCallee(call, "fmt", "Sprintf") {
			for _, e := range appendedElems(call.Call.Args[1]) {
				if an.SameValue(an.Strip(e), an.Strip(fileName)) {
					derived = true
				}
			}
		}
		c.Check(okNames && derived, persist, "written file is a sibling temp name, renamed onto the metadata file", rc.Pos(), "",
			"the file that is written is not a distinct temp name derived from the metadata file name, or the rename target is not newMetadataFile(): a crash mid-write leaves a partial nsqd.dat")
		// the data written is json.Marshal(GetMetadata(false))
		getMeta := c.P.Func("nsqd", "(*NSQD).GetMetadata")
		goodData := false
		for _, o := range originsOrNone(dataArg) {
			if ex, ok := o.(*ssa.Extract); ok {
				if mc, ok := ex.Tuple.(*ssa.Call); ok && an.StdCallee(mc, "encoding/json", "Marshal") {
					if getMeta != nil && an.CallResultOf(mc.Call.Args[0], getMeta) != nil {
						goodData = true
					}
				}
			}
		}
		c.Check(goodData, persist, "document is json(GetMetadata)", wc.Pos(), "", "the bytes written are not json.Marshal(n.GetMetadata(...))")
	}
	// writeSyncFile: open -> write -> sync, close always
	{
		fn := wsf
		isFileM := func(name string) func(ssa.Instruction) bool {
			return func(in ssa.Instruction) bool { return isStdCall(in, "os", "(*File)."+name) }
		}
		var wSucc, sSucc []an.Edge
		var opens []ssa.CallInstruction
		an.Instrs(fn, func(in ssa.Instruction) {
			ci, ok := in.(*ssa.Call)
			if !ok {
				return
			}
			switch {
			case an.StdCallee(ci, "os", "(*File).Write"):
				s, _ := an.ErrEdgesPhi(ci)
				wSucc = append(wSucc, s...)
			case an.StdCallee(ci, "os", "(*File).Sync"):
				s, _ := an.ErrEdgesPhi(ci)
				sSucc = append(sSucc, s...)
			case an.StdCallee(ci, "os", "OpenFile"), an.StdCallee(ci, "os", "Create"):
				opens = append(opens, ci)
			}
		})
		// the idiom `_, err = f.Write(); if err == nil { err = f.Sync() }; f.Close(); return err`
		// => a nil return requires: Write returned nil (edge err==nil) and Sync returned nil (returned value)
		good := true
		why := ""
		syncs := an.CallsIn(fn, func(ci ssa.CallInstruction) bool { return an.StdCallee(ci, "os", "(*File).Sync") })
		writes := an.CallsIn(fn, func(ci ssa.CallInstruction) bool { return an.StdCallee(ci, "os", "(*File).Write") })
		if len(syncs) == 0 {
			good, why = false, "the file is never fsynced"
		}
		if len(writes) == 0 {
			good, why = false, "the data is never written"
		}
		for _, r := range an.Returns(fn) {
			if !isSuccessReturn(r) {
				continue
			}
			e := errOperand(r)
			// every origin of the returned error must be Sync's result (pass-through) or a failed Write/Open's error
			for _, o := range an.Origins(e) {
				okO := false
				for _, sc := range syncs {
					if o == sc.Value() {
						okO = true
					}
				}
				if ex, ok := o.(*ssa.Extract); ok {
					if call, ok := ex.Tuple.(*ssa.Call); ok && (an.StdCallee(call, "os", "(*File).Write") || an.StdCallee(call, "os", "OpenFile")) {
						// allowed only on the edge where it is non-nil: the phi edge into the return comes from the err != nil arm
						okO = errOriginOnlyWhenNonNil(e, ex)
					}
				}
				if !okO {
					good = false
					why = "a return value that may be nil does not come from f.Sync() (origin: " + o.String() + ")"
				}
			}
		}
		// Sync only after Write success
		for _, sc := range syncs {
			q := &an.PathQ{Fn: fn, StartEntry: true, Sink: func(in ssa.Instruction, _ *an.PathState) bool { return in == sc.(ssa.Instruction) },
				CutEdge: func(e an.Edge, _ *an.PathState) bool { return an.EdgeIn(e, wSucc) }}
			if _, f := q.Find(); f || len(wSucc) == 0 {
				good, why = false, "Sync is reachable without a successful Write"
			}
		}
		if inline {
			// decided above, in PersistMetadata's own flow: the rename is reached only through the
			// success edges of Write and Sync
			good = len(syncs) > 0 && len(writes) > 0
		}
		c.Check(good, fn, "nil only after write and fsync succeeded", fn.Pos(), "", an.FnName(fn)+" can return nil without the data being written and fsynced: "+why)
		// Close on every path after a successful open
		for _, oc := range opens {
			succ, _ := an.ErrEdges(oc.Value())
			q := &an.PathQ{Fn: fn, StartEdges: succ, Sink: an.IsReturn, Cut: func(in ssa.Instruction, _ *an.PathState) bool { return isFileM("Close")(in) }}
			w, f := q.Find()
			if f {
				c.Bad(fn, "file closed on every path", oc.Pos(), "the temp file can be left open", w)
			} else {
				c.OK(fn, "file closed on every path", oc.Pos(), "")
			}
		}
	}
	// who may touch files in package nsqd: exactly one OpenFile in writeSyncFile and one Rename in PersistMetadata
	allowed := map[string][]string{an.FnName(wsf): {"OpenFile"}}
	allowed["(*nsqd.NSQD).PersistMetadata"] = append(allowed["(*nsqd.NSQD).PersistMetadata"], "Rename")
	for _, fn := range c.P.PkgFuncs("nsqd") {
		for _, ci := range an.CallsIn(fn, func(ci ssa.CallInstruction) bool {
			for _, n := range []string{"OpenFile", "Create", "WriteFile", "Rename", "Remove", "RemoveAll", "Truncate", "Link", "Symlink"} {
				if an.StdCallee(ci, "os", n) {
					return true
				}
			}
			return false
		}) {
			name := an.StaticCallee(ci).Name()
			c.Check(contains(allowed[an.FnName(fn)], name), fn, "file mutation os."+name, ci.Pos(), "",
				"os."+name+" in "+an.FnName(fn)+": the metadata protocol is exactly `write+fsync a temp file (writeSyncFile), rename it over nsqd.dat (PersistMetadata)`; any other file mutation (e.g. removing nsqd.dat before the rename) opens a window in which a crash leaves no or a partial document")
		}
	}
}

// errOriginOnlyWhenNonNil: origin o reaches e only through phi edges on which o is known non-nil.
func errOriginOnlyWhenNonNil(e ssa.Value, o ssa.Value) bool {
	phi, ok := e.(*ssa.Phi)
	if !ok {
		return false
	}
	for i, ed := range phi.Edges {
		carries := false
		for _, oo := range an.Origins(ed) {
			if oo == o {
				carries = true
			}
		}
		if !carries {
			continue
		}
		if ed != o {
			if !errOriginOnlyWhenNonNil(ed, o) {
				return false
			}
			continue
		}
		nonNil := false
		for _, cmp := range an.CmpsOnEdge(an.Edge{From: phi.Block().Preds[i], To: phi.Block()}) {
			if cmp.Op == token.NEQ && cmp.X == o && an.IsNilConst(cmp.Y) {
				nonNil = true
			}
		}
		if !nonNil {
			return false
		}
	}
	return true
}

func c06after(c *an.Ctx) {
	persist := c.Fn("nsqd", "(*NSQD).PersistMetadata")
	notify := c.Fn("nsqd", "(*NSQD).Notify")
	if persist == nil || notify == nil {
		return
	}
	la := c.P.Locks()
	// deletions: after the map delete every path persists (unless the object is ephemeral)
	for _, spec := range []struct{ fn, mapT, mapF, objT string }{
		{"(*NSQD).DeleteExistingTopic", "NSQD", "topicMap", "Topic"},
		{"(*Topic).DeleteExistingChannel", "Topic", "channelMap", "Channel"},
	} {
		fn := c.Fn("nsqd", spec.fn)
		if fn == nil {
			continue
		}
		mapF := c.P.Field("nsqd", spec.mapT, spec.mapF)
		ephF := c.P.Field("nsqd", spec.objT, "ephemeral")
		var dels []ssa.Instruction
		an.Instrs(fn, func(in ssa.Instruction) {
			if call, ok := isBuiltinCall(in, "delete"); ok && isLoadOfField(call.Call.Args[0], mapF) {
				dels = append(dels, in)
			}
		})
		if len(dels) == 0 {
			c.Bad(fn, "persist after unlink", fn.Pos(), "no delete from "+spec.mapF, nil)
			continue
		}
		q := &an.PathQ{Fn: fn, StartAfter: dels, Sink: an.IsReturn,
			Cut: func(in ssa.Instruction, _ *an.PathState) bool {
				if !isCallToOn(in, persist, nil) {
					return false
				}
				must, _ := la.Fns[fn].At(in)
				return must.Holds("NSQD.RWMutex", "", true)
			},
			CutEdge: func(e an.Edge, _ *an.PathState) bool {
				for _, f := range an.FactsOnEdge(e) {
					if fv, _ := an.LoadedField(f.V); fv == ephF && f.True {
						return true
					}
				}
				return false
			}}
		w, f := q.Find()
		if f {
			c.Bad(fn, "persist after unlink", dels[0].Pos(),
				"after the durable "+strings.ToLower(spec.objT)+" is removed from "+spec.mapF+" no metadata persist follows: the only persist was requested by exit(true) *before* the removal and may serialise the registry while it still lists the object. "+
					"History: delete, daemon idle, SIGKILL, restart => the deleted "+strings.ToLower(spec.objT)+" exists again", w)
		} else {
			c.OK(fn, "persist after unlink", dels[0].Pos(), "")
		}
	}
	// creations: constructor (which notifies) and map insert happen in one critical section of the registry's write lock
	for _, spec := range []struct{ ctor, mapT, mapF, lock string }{
		{"NewTopic", "NSQD", "topicMap", "NSQD.RWMutex"},
		{"NewChannel", "Topic", "channelMap", "Topic.RWMutex"},
	} {
		ctor := c.Fn("nsqd", spec.ctor)
		if ctor == nil {
			continue
		}
		mapF := c.P.Field("nsqd", spec.mapT, spec.mapF)
		// the constructor notifies
		c.Check(len(an.CallsTo(ctor, notify)) == 1, ctor, "constructor notifies", ctor.Pos(), "", spec.ctor+" does not call Notify exactly once: creation is never persisted / registered")
		n := 0
		for _, fn := range c.P.PkgFuncs("nsqd") {
			for _, cc := range an.CallsTo(fn, ctor) {
				n++
				fl := la.Fns[fn]
				must, _ := fl.At(cc.(ssa.Instruction))
				held := must.Holds(spec.lock, "", true)
				// insert of the result into the map before the lock is released
				inserted := false
				var unlocks []ssa.Instruction
				for _, o := range fl.Ops {
					if !o.Acquire && o.Class == spec.lock && !o.Deferred {
						unlocks = append(unlocks, o.Instr)
					}
				}
				q := &an.PathQ{Fn: fn, StartAfter: []ssa.Instruction{cc.(ssa.Instruction)},
					Sink: func(in ssa.Instruction, _ *an.PathState) bool {
						for _, u := range unlocks {
							if u == in {
								return true
							}
						}
						return an.IsReturn(in, nil) && len(fl.Entry) == 0
					},
					Cut: func(in ssa.Instruction, _ *an.PathState) bool {
						mu, ok := in.(*ssa.MapUpdate)
						return ok && isLoadOfField(mu.Map, mapF) && an.SameValue(mu.Value, cc.Value())
					}}
				_, f := q.Find()
				inserted = !f
				c.Check(held && inserted, fn, "creation registered under the registry write lock", cc.Pos(), "",
					spec.ctor+" (which requests the persist) and the insert into "+spec.mapF+" are not inside one hold of "+spec.lock+": the asynchronous persist can serialise the registry before the new object is in it")
			}
		}
		if n == 0 {
			c.Bad(ctor, "creation registered under the registry write lock", ctor.Pos(), spec.ctor+" has no caller", nil)
		}
	}
	// Notify: persists iff asked, after handing the value to lookupLoop, under n.Lock
	{
		var clos *ssa.Function
		for _, a := range notify.AnonFuncs {
			if len(an.CallsTo(a, persist)) > 0 {
				clos = a
			}
		}
		if clos == nil {
			c.Bad(notify, "Notify persists when asked", notify.Pos(), "Notify's goroutine never calls PersistMetadata", nil)
		} else {
			pc := an.CallsTo(clos, persist)[0]
			must, _ := la.Fns[clos].At(pc.(ssa.Instruction))
			okLock := must.Holds("NSQD.RWMutex", "", true)
			// skipped only when loading || !persist
			skippedOK := true
			asked := map[ssa.Value]bool{}
			if len(notify.Params) >= 3 {
				asked[notify.Params[2]] = true // persist requested
			}
			loadingF := c.P.Field("nsqd", "NSQD", "isLoading")
			an.Instrs(notify, func(in ssa.Instruction) {
				// `atomic.LoadInt32(&n.isLoading) == 1` is false, `!= 1` / `== 0` true
				b, ok := in.(*ssa.BinOp)
				if !ok || (b.Op != token.EQL && b.Op != token.NEQ) {
					return
				}
				if !atomicLoadOf(b.X, loadingF) {
					return
				}
				if k, isC := an.ConstInt(b.Y); isC {
					asked[b] = (k == 1) != (b.Op == token.EQL)
				}
			})
			q := &an.PathQ{Fn: clos, StartEntry: true, Sink: an.IsReturn,
				Cut: func(in ssa.Instruction, _ *an.PathState) bool { return in == pc.(ssa.Instruction) },
				CutEdge: func(e an.Edge, ps *an.PathState) bool {
					// a skip is legitimate only because the caller did not ask (persist == false) or the daemon is loading: under
					// the assumption "persist requested and not loading" the branch must be known to go the other way. The tested
					// value is a variable captured from Notify; it is resolved to what Notify stored into it.
					for _, f := range ps.FactsOnEdge(e) {
						var fv *ssa.FreeVar
						if x, ok := f.V.(*ssa.FreeVar); ok {
							fv = x
						} else if u, ok := f.V.(*ssa.UnOp); ok && u.Op == token.MUL {
							fv, _ = u.X.(*ssa.FreeVar)
						}
						var b ssa.Value
						if fv != nil {
							b = capturedValue(clos, fv)
						}
						if b == nil {
							// a field of a captured parameter struct (`req := notification{persist: persist, loading: …}`)
							if sfv, fld := capturedField(f.V); sfv != nil {
								b = capturedFieldValue(clos, sfv, fld)
							}
						}
						if b == nil {
							continue
						}
						if val, known := an.EvalBoolUnder(b, asked); known && val != f.True {
							return true
						}
					}
					return false
				}}
			// the exitChan arm is legitimate: cut it
			exitF := c.P.Field("nsqd", "NSQD", "exitChan")
			var exitEdges []an.Edge
			for _, sel := range an.Selects(clos) {
				for _, st := range an.SelectStates(sel) {
					if st.State.Dir == types.RecvOnly && isLoadOfField(st.State.Chan, exitF) {
						exitEdges = append(exitEdges, st.Chosen...)
					}
				}
			}
			base := q.CutEdge
			q.CutEdge = func(e an.Edge, ps *an.PathState) bool { return an.EdgeIn(e, exitEdges) || base(e, ps) }
			w, f := q.Find()
			if f {
				skippedOK = false
			}
			if okLock && skippedOK {
				c.OK(notify, "Notify persists when asked", pc.Pos(), "")
			} else {
				c.Bad(notify, "Notify persists when asked", pc.Pos(), sprintf("Notify's goroutine does not always persist under n.Lock when persist was requested and the daemon is not loading (lock held=%v)", okLock), w)
			}
		}
	}
}

func c06locked(c *an.Ctx) {
	persist := c.Fn("nsqd", "(*NSQD).PersistMetadata")
	if persist == nil {
		return
	}
	la := c.P.Locks()
	n := 0
	for _, fn := range c.P.RepoFuncs() {
		for _, pc := range an.CallsTo(fn, persist) {
			n++
			if why := an.SingleThreadedCallers[an.FnName(fn)]; why != "" {
				c.OK(fn, "PersistMetadata under n.Lock", pc.Pos(), "allowed: "+why)
				continue
			}
			must, _ := la.Fns[fn].At(pc.(ssa.Instruction))
			c.Check(must.Holds("NSQD.RWMutex", "", true), fn, "PersistMetadata under n.Lock", pc.Pos(), "",
				"PersistMetadata is called without NSQD.RWMutex held for writing (held: "+must.String()+"): two persists can interleave their renames and leave the older document, and GetMetadata iterates topicMap unlocked")
		}
	}
}

func c06pause(c *an.Ctx) {
	persist := c.Fn("nsqd", "(*NSQD).PersistMetadata")
	if persist == nil {
		return
	}
	la := c.P.Locks()
	for _, spec := range []struct{ fn, typ string }{{"(*httpServer).doPauseTopic", "Topic"}, {"(*httpServer).doPauseChannel", "Channel"}} {
		fn := c.Fn("nsqd", spec.fn)
		pause := c.Fn("nsqd", "(*"+spec.typ+").Pause")
		unpause := c.Fn("nsqd", "(*"+spec.typ+").UnPause")
		if fn == nil || pause == nil || unpause == nil {
			continue
		}
		steps := []step{
			{"Pause/UnPause", func(in ssa.Instruction) bool { return isCallToOn(in, pause, nil) || isCallToOn(in, unpause, nil) }},
			{"PersistMetadata under n.Lock", func(in ssa.Instruction) bool {
				if !isCallToOn(in, persist, nil) {
					return false
				}
				must, _ := la.Fns[fn].At(in)
				return must.Holds("NSQD.RWMutex", "", true)
			}},
		}
		ok, missing, w := seqOnAllPaths(fn, nil, sinkSuccessReturn, steps)
		if ok {
			c.OK(fn, "pause persisted before the answer", fn.Pos(), "")
		} else {
			c.Bad(fn, "pause persisted before the answer", fn.Pos(), "a 200 answer is reachable without: "+missing+" (an acknowledged pause/unpause is lost by a crash)", w)
		}
		// unpause selected by the path test
		var upEdges []an.Edge
		an.Instrs(fn, func(in ssa.Instruction) {
			call, ok := in.(*ssa.Call)
			if !ok || !an.StdCallee(call, "strings", "Contains") {
				return
			}
			if s, ok := an.ConstString(call.Call.Args[1]); ok && s == "unpause" {
				for _, t := range an.BoolTests(call) {
					upEdges = append(upEdges, t.True)
				}
			}
		})
		goodSel := len(upEdges) > 0
		// the callee is judged on the path, so that a method value selected by the same test counts as the call it makes
		callsOnPath := func(target *ssa.Function) func(in ssa.Instruction, st *an.PathState) bool {
			return func(in ssa.Instruction, st *an.PathState) bool {
				ci, ok := in.(*ssa.Call)
				if !ok {
					return false
				}
				g := calleeOnPath(ci, st)
				return g != nil && (g == target || g.Origin() == target)
			}
		}
		if len(an.CallsTo(fn, unpause)) == 0 || len(an.CallsTo(fn, pause)) == 0 {
			goodSel = false
		}
		qu := &an.PathQ{Fn: fn, StartEntry: true, AllAlias: true, Sink: callsOnPath(unpause),
			CutEdge: func(e an.Edge, _ *an.PathState) bool { return an.EdgeIn(e, upEdges) }}
		if _, f := qu.Find(); f {
			goodSel = false
		}
		qp := &an.PathQ{Fn: fn, StartEdges: upEdges, AllAlias: true, Sink: callsOnPath(pause)}
		if _, f := qp.Find(); f {
			goodSel = false
		}
		c.Check(goodSel, fn, "unpause iff the path says so", fn.Pos(), "", "Pause/UnPause are not selected by the request path containing \"unpause\"")
	}
}

func c06load(c *an.Ctx) {
	roe := c.Fn("nsqd", "readOrEmpty")
	load := c.Fn("nsqd", "(*NSQD).LoadMetadata")
	if roe == nil || load == nil {
		return
	}
	// readOrEmpty: every error return is dominated by !os.IsNotExist(err)
	good := true
	an.Instrs(roe, func(in ssa.Instruction) {
		r, ok := in.(*ssa.Return)
		if !ok || isSuccessReturn(r) {
			return
		}
		dom := false
		for _, f := range an.FactsAt(r.Block()) {
			if call, ok := f.V.(*ssa.Call); ok && !f.True && an.StdCallee(call, "os", "IsNotExist") {
				dom = true
			}
		}
		if !dom {
			good = false
		}
	})
	c.Check(good, roe, "missing file is not an error", roe.Pos(), "", "readOrEmpty returns an error that is not dominated by !os.IsNotExist(err): a fresh data path cannot start")
	// LoadMetadata: nil data => return nil before Unmarshal
	var unm []ssa.CallInstruction
	unm = an.CallsIn(load, func(ci ssa.CallInstruction) bool { return an.StdCallee(ci, "encoding/json", "Unmarshal") })
	okNil := len(unm) > 0
	for _, uc := range unm {
		data := uc.Common().Args[0]
		dom := false
		for _, cmp := range an.CmpsAt(uc.Block()) {
			if cmp.Op == token.NEQ && an.IsNilConst(cmp.Y) && an.SameValue(cmp.X, data) {
				dom = true
			}
			if cmp.Op == token.NEQ || cmp.Op == token.GTR {
				if a := lenArgOf(cmp.X); a != nil && an.SameValue(a, data) {
					dom = true
				}
			}
		}
		if !dom {
			okNil = false
		}
	}
	c.Check(okNil, load, "empty document is a fresh start", load.Pos(), "", "LoadMetadata parses the document without first returning nil for a missing (nil) one")
	// GetTopic / GetChannel only with validated names
	for _, spec := range []struct{ callee, valid string }{{"(*NSQD).GetTopic", "IsValidTopicName"}, {"(*Topic).GetChannel", "IsValidChannelName"}} {
		callee := c.P.Func("nsqd", spec.callee)
		valid := c.P.Func("internal/protocol", spec.valid)
		if callee == nil || valid == nil {
			c.Anchor(spec.callee)
			continue
		}
		for _, cc := range an.CallsTo(load, callee) {
			name := arg(cc, 0)
			dom := false
			for _, f := range an.FactsAt(cc.Block()) {
				if call, ok := f.V.(*ssa.Call); ok && f.True && an.IsCallTo(call, valid) && an.SameValue(call.Call.Args[0], name) {
					dom = true
				}
			}
			c.Check(dom, load, "loads only valid names: "+spec.valid, cc.Pos(), "", "a name from the metadata file reaches "+spec.callee+" without passing "+spec.valid+" (an invalid name must be skipped, not created or fatal)")
		}
	}
	// an invalid name continues the loop (does not return an error)
	for _, spec := range []string{"IsValidTopicName", "IsValidChannelName"} {
		valid := c.P.Func("internal/protocol", spec)
		for _, vc := range an.CallsTo(load, valid) {
			var bad []an.Edge
			for _, t := range an.BoolTests(vc.Value()) {
				bad = append(bad, t.False)
			}
			q := &an.PathQ{Fn: load, StartEdges: bad, Sink: func(in ssa.Instruction, _ *an.PathState) bool {
				r, ok := in.(*ssa.Return)
				return ok && !isSuccessReturn(r)
			}, Cut: func(in ssa.Instruction, _ *an.PathState) bool {
				return isCallToOn(in, valid, nil) // next entry
			}}
			_, f := q.Find()
			c.Check(!f, load, "invalid name is skipped: "+spec, vc.Pos(), "", "an invalid name in the metadata file makes LoadMetadata fail: nsqd cannot start on that data path")
		}
	}
}

func c06dirlock(c *an.Ctx) {
	fn := c.Fn("nsqd", "New")
	if fn == nil {
		return
	}
	lock := c.P.Func("internal/dirlock", "(*DirLock).Lock")
	if lock == nil {
		c.Anchor("internal/dirlock.(*DirLock).Lock")
		return
	}
	locks := an.CallsTo(fn, lock)
	if len(locks) == 0 {
		c.Bad(fn, "data path locked before serving", fn.Pos(), "nsqd.New never locks the data path", nil)
		return
	}
	var succ []an.Edge
	for _, lc := range locks {
		s, _ := an.ErrEdges(lc.Value())
		succ = append(succ, s...)
	}
	// (a) success return cut by Lock success
	q := &an.PathQ{Fn: fn, StartEntry: true, Sink: sinkSuccessReturn, CutEdge: func(e an.Edge, _ *an.PathState) bool { return an.EdgeIn(e, succ) }}
	w, f := q.Find()
	if f || len(succ) == 0 {
		c.Bad(fn, "data path locked before serving", locks[0].Pos(), "nsqd.New can return a daemon although locking the data path failed (or its result is ignored): two nsqd share one data path", w)
	} else {
		c.OK(fn, "data path locked before serving", locks[0].Pos(), "")
	}
	// (b) no Listen before the lock
	q2 := &an.PathQ{Fn: fn, StartEntry: true, Sink: func(in ssa.Instruction, _ *an.PathState) bool {
		return isStdCall(in, "net", "Listen") || isStdCall(in, "crypto/tls", "Listen")
	}, CutEdge: func(e an.Edge, _ *an.PathState) bool { return an.EdgeIn(e, succ) }}
	w, f = q2.Find()
	if f {
		c.Bad(fn, "no listener before the lock", locks[0].Pos(), "a listener is opened before the data path lock is held", w)
	} else {
		c.OK(fn, "no listener before the lock", locks[0].Pos(), "")
	}
	// (c) the lock object is for the data path
	// (d) flock flags
	if strings.HasPrefix(c.P.Config, "windows") || strings.HasPrefix(c.P.Config, "illumos") {
		c.OK(lock, "flock LOCK_EX|LOCK_NB", lock.Pos(), "not provided on this platform (documented upstream no-op)")
		return
	}
	flagsOK := false
	for _, ci := range an.CallsIn(lock, func(ci ssa.CallInstruction) bool { return an.StdCallee(ci, "syscall", "Flock") }) {
		if k, isC := an.ConstInt(ci.Common().Args[1]); isC && k&2 != 0 && k&4 != 0 { // LOCK_EX=2, LOCK_NB=4
			s, _ := an.ErrEdges(ci.Value())
			q := &an.PathQ{Fn: lock, StartEntry: true, Sink: sinkSuccessReturn, CutEdge: func(e an.Edge, _ *an.PathState) bool { return an.EdgeIn(e, s) }}
			if _, f := q.Find(); !f && len(s) > 0 {
				flagsOK = true
			}
		}
	}
	c.Check(flagsOK, lock, "flock LOCK_EX|LOCK_NB", lock.Pos(), "", "DirLock.Lock does not succeed only after flock(LOCK_EX|LOCK_NB) succeeded: a second nsqd is not refused (or blocks for ever)")
}

func c06ephemeral(c *an.Ctx) {
	get := c.Fn("nsqd", "(*NSQD).GetMetadata")
	notify := c.Fn("nsqd", "(*NSQD).Notify")
	persist := c.Fn("nsqd", "(*NSQD).PersistMetadata")
	if get == nil || notify == nil || persist == nil {
		return
	}
	// PersistMetadata asks for the non-ephemeral document
	for _, gc := range an.CallsTo(persist, get) {
		k, ok := an.Strip(arg(gc, 0)).(*ssa.Const)
		c.Check(ok && k.Value != nil && k.Value.String() == "false", persist, "persists the durable document only", gc.Pos(), "", "PersistMetadata asks GetMetadata for ephemeral objects too")
	}
	// GetMetadata: appends are dominated by !ephemeral (topic: unless the parameter says otherwise)
	tEph := c.P.Field("nsqd", "Topic", "ephemeral")
	cEph := c.P.Field("nsqd", "Channel", "ephemeral")
	nameT := c.P.Field("nsqd", "Topic", "name")
	nameC := c.P.Field("nsqd", "Channel", "name")
	an.Instrs(get, func(in ssa.Instruction) {
		st, ok := in.(*ssa.Store)
		if !ok {
			return
		}
		f, _ := an.LoadedField(st.Val)
		if f != nameT && f != nameC {
			return
		}
		eph := tEph
		what := "topic"
		if f == nameC {
			eph, what = cEph, "channel"
		}
		// no path from the start of the iteration reaches this record without having learned, on some edge, that the entry is
		// not ephemeral (or, for topics, that the caller asked for ephemeral ones too). Path-sensitive, so the test may be
		// spelled as a computed boolean (`skip := t.ephemeral && !ephemeral; if skip { continue }`).
		good := false
		loops := an.NaturalLoops(get)
		if l := an.LoopContaining(loops, st.Block()); l != nil {
			if il, ok := an.AsIndexLoop(l); ok {
				isParamTrue := func(f an.Fact) bool {
					p, ok := f.V.(*ssa.Parameter)
					return ok && what == "topic" && len(get.Params) > 1 && p == get.Params[1] && f.True
				}
				q := &an.PathQ{Fn: get, StartEdges: []an.Edge{{From: il.Header, To: il.Body}},
					Sink: func(in ssa.Instruction, _ *an.PathState) bool { return in == ssa.Instruction(st) },
					CutEdge: func(e an.Edge, ps *an.PathState) bool {
						for _, fact := range ps.FactsOnEdge(e) {
							if fv, _ := an.LoadedField(fact.V); fv == eph && !fact.True {
								return true
							}
							if isParamTrue(fact) {
								return true
							}
						}
						return false
					}}
				_, reach := q.Find()
				good = !reach
			}
		}
		c.Check(good, get, "ephemeral "+what+" excluded from the document", st.Pos(), "", "an ephemeral "+what+" can be written to the persisted metadata")
	})
	// the four Notify sites pass !x.ephemeral of the object they announce
	n := 0
	for _, name := range []string{"NewTopic", "NewChannel", "(*Topic).exit", "(*Channel).exit"} {
		fn := c.Fn("nsqd", name)
		if fn == nil {
			continue
		}
		for _, nc := range an.CallsTo(fn, notify) {
			n++
			obj := an.Strip(arg(nc, 0))
			flag := arg(nc, 1)
			good := false
			if u, ok := flag.(*ssa.UnOp); ok && u.Op == token.NOT {
				if f, base := an.LoadedField(u.X); f != nil && f.Name() == "ephemeral" && an.SameValue(base, obj) {
					good = true
				}
				// or the very value the constructor stored into obj.ephemeral (computed once into a local)
				an.Instrs(fn, func(in ssa.Instruction) {
					st, ok := in.(*ssa.Store)
					if !ok || st.Val != u.X {
						return
					}
					if fa, ok := st.Addr.(*ssa.FieldAddr); ok && an.FName(an.FieldOf(fa)) == "ephemeral" && an.SameValue(an.Strip(fa.X), obj) {
						good = true
					}
				})
			}
			c.Check(good, fn, "Notify persists iff durable", nc.Pos(), "", "Notify is not called with persist = !ephemeral of the announced object: ephemeral churn rewrites nsqd.dat, or durable creations are never persisted")
		}
	}
	if n < 4 {
		c.Bad(notify, "Notify sites", notify.Pos(), sprintf("expected Notify in the two constructors and two exit(deleted) paths, found %d", n), nil)
	}
}

// capturedValue: the value the enclosing function stored into the variable that closure clos captures as fv (the variable
// is captured by reference; nil unless it is written exactly once, before the closure is made).
// capturedField: v (a value of closure clos) is field #i of a struct variable captured from the parent – read directly
// through the captured pointer, or through a local copy of the whole struct. Returns the captured variable and the field.
func capturedField(v ssa.Value) (*ssa.FreeVar, int) {
	var agg ssa.Value
	field := -1
	switch x := v.(type) {
	case *ssa.UnOp:
		if fa, ok := x.X.(*ssa.FieldAddr); ok && x.Op == token.MUL {
			agg, field = fa.X, fa.Field
		}
	case *ssa.Field:
		agg, field = x.X, x.Field
	}
	if agg == nil {
		return nil, -1
	}
	// agg: the captured pointer itself, a load of it (struct value), or a local cell holding one copy of it
	for i := 0; i < 3; i++ {
		switch a := agg.(type) {
		case *ssa.FreeVar:
			return a, field
		case *ssa.UnOp:
			if a.Op != token.MUL {
				return nil, -1
			}
			agg = a.X
		case *ssa.Alloc:
			var val ssa.Value
			n := 0
			for _, r := range an.Referrers(a) {
				if st, ok := r.(*ssa.Store); ok && st.Addr == ssa.Value(a) {
					val = st.Val
					n++
				}
			}
			if n != 1 {
				return nil, -1
			}
			agg = val
		default:
			return nil, -1
		}
	}
	return nil, -1
}

// capturedFieldValue: what the parent stored into field #field of the struct variable it hands to clos as fv (nil unless
// there is exactly one such store and the closure does not write the variable).
func capturedFieldValue(clos *ssa.Function, fv *ssa.FreeVar, field int) ssa.Value {
	parent := clos.Parent()
	if parent == nil {
		return nil
	}
	idx := -1
	for i, f := range clos.FreeVars {
		if f == fv {
			idx = i
		}
	}
	if idx < 0 {
		return nil
	}
	var out ssa.Value
	an.Instrs(parent, func(in ssa.Instruction) {
		mc, ok := in.(*ssa.MakeClosure)
		if !ok || mc.Fn != ssa.Value(clos) || idx >= len(mc.Bindings) {
			return
		}
		al, ok := mc.Bindings[idx].(*ssa.Alloc)
		if !ok {
			return
		}
		n := 0
		var val ssa.Value
		for _, r := range an.Referrers(al) {
			switch x := r.(type) {
			case *ssa.Store:
				if x.Addr == ssa.Value(al) {
					n += 2 // whole-struct store: give up
				}
			case *ssa.FieldAddr:
				if x.Field != field {
					continue
				}
				for _, rr := range an.Referrers(x) {
					if st, ok := rr.(*ssa.Store); ok && st.Addr == ssa.Value(x) {
						val = st.Val
						n++
					}
				}
			}
		}
		for _, r := range an.Referrers(fv) {
			if _, ok := r.(*ssa.Store); ok {
				n += 2
			}
			if fa, ok := r.(*ssa.FieldAddr); ok && fa.Field == field {
				for _, rr := range an.Referrers(fa) {
					if st, ok := rr.(*ssa.Store); ok && st.Addr == ssa.Value(fa) {
						n += 2
					}
				}
			}
		}
		if n == 1 {
			out = val
		}
	})
	return out
}

func capturedValue(clos *ssa.Function, fv *ssa.FreeVar) ssa.Value {
	parent := clos.Parent()
	if parent == nil {
		return nil
	}
	idx := -1
	for i, f := range clos.FreeVars {
		if f == fv {
			idx = i
		}
	}
	if idx < 0 {
		return nil
	}
	var out ssa.Value
	an.Instrs(parent, func(in ssa.Instruction) {
		mc, ok := in.(*ssa.MakeClosure)
		if !ok || mc.Fn != ssa.Value(clos) || idx >= len(mc.Bindings) {
			return
		}
		al, ok := mc.Bindings[idx].(*ssa.Alloc)
		if !ok {
			return
		}
		var val ssa.Value
		n := 0
		for _, r := range an.Referrers(al) {
			if st, ok := r.(*ssa.Store); ok && st.Addr == ssa.Value(al) {
				val = st.Val
				n++
			}
		}
		// stores inside the closure itself
		for _, r := range an.Referrers(fv) {
			if st, ok := r.(*ssa.Store); ok && st.Addr == ssa.Value(fv) {
				n++
			}
		}
		if n == 1 {
			out = val
		}
	})
	return out
}

func contains(xs []string, x string) bool {
	for _, y := range xs {
		if y == x {
			return true
		}
	}
	return false
}

func originsOrNone(v ssa.Value) []ssa.Value {
	if v == nil {
		return nil
	}
	return an.Origins(v)
}
