package rules

import (
	"nsqverif/an"
)

func init() {
	Props["C08"] = PropInfo{
		Explanation: "Decides the concurrency-safety skeleton of delete/empty/ephemeral: (order) the lock-class graph of the whole repository is acyclic and has no same-class nesting; " +
			"(guarded) every access to the registries and in-flight/deferred structures holds the mutex the guarded-by table names, in the right mode; " +
			"(block) no blocking channel operation or WaitGroup.Wait runs while a registry lock is held; " +
			"(delete/empty/ephemeral/sub) the delete and empty sequences perform every step in the stated order, ephemeral objects never get a disk queue and are auto-deleted once, SUB backs out of an exiting ephemeral channel; " +
			"(staleindex) a heap index taken from a message is validated against the heap that is current in the critical section that uses it.",
		NotDecided: "that every interleaving leaves counters right; that disk files are gone (go-diskqueue); liveness of each request.",
		Assumptions: []string{
			"callee lock effects are balanced (checked: every repo function returns with the lockset it was entered with)",
			"call graph: static callees + VTA for interface calls; go statements start with an empty lockset",
		},
	}
	reg("C08.order", "LOCK", "lock-class graph of the repository is acyclic with no same-class nested acquisition", 10, c08order)
	reg("C08.guarded", "LOCK", "guarded-by table: registry maps and in-flight/deferred structures are only touched under their mutex", 40, c08guarded)
	reg("C08.block", "LOCK", "no blocking channel operation / WaitGroup.Wait while NSQD, Topic or Channel registry locks are held", 0, c08block)
	reg("C08.balanced", "LOCK", "every function of nsqd returns with exactly the locks it was entered with", 20, c08balanced)
}

var nsqdGuarded = []guardedField{
	{"nsqd", "NSQD", "topicMap", "NSQD.RWMutex", ""},
	{"nsqd", "Topic", "channelMap", "Topic.RWMutex", ""},
	{"nsqd", "Channel", "clients", "Channel.RWMutex", ""},
	{"nsqd", "Channel", "inFlightMessages", "Channel.inFlightMutex", ""},
	{"nsqd", "Channel", "inFlightPQ", "Channel.inFlightMutex", ""},
	{"nsqd", "Channel", "deferredMessages", "Channel.deferredMutex", ""},
	{"nsqd", "Channel", "deferredPQ", "Channel.deferredMutex", ""},
	{"nsqd", "clientV2", "pubCounts", "clientV2.metaLock", ""},
}

func c08order(c *an.Ctx) {
	lockOrderCheck(c, c.P.RepoFuncs(), map[string]string{
		"(*internal/quantile.Quantile).Merge": "locks receiver then argument; its only caller (Topic.AggregateChannelE2eProcessingLatency) merges into a freshly allocated, unshared receiver",
	})
}

func c08guarded(c *an.Ctx) {
	fns := c.P.RepoFuncs()
	for _, g := range nsqdGuarded {
		checkGuarded(c, g, fns)
	}
}

func c08block(c *an.Ctx) {
	classes := map[string]bool{"NSQD.RWMutex": true, "Topic.RWMutex": true, "Channel.RWMutex": true}
	blockingUnderLock(c, c.P.PkgFuncs("nsqd"), classes, map[string]string{
		"(*nsqd.NSQD).Exit":  "shutdown: topic.Close() under n.Lock waits for the topic pump, which never takes n.Lock; listeners are already closed",
		"(*nsqd.Topic).exit": "delete path: channel.Delete() under t.Lock closes consumers; the topic pump has already exited (waitGroup.Wait precedes)",
	})
}

func c08balanced(c *an.Ctx) {
	la := c.P.Locks()
	for _, fn := range c.P.PkgFuncs("nsqd") {
		fl := la.Fns[fn]
		if fl == nil || len(fl.Ops) == 0 {
			continue
		}
		bad := ""
		for _, r := range an.Returns(fn) {
			must, may := fl.At(r)
			// deferred unlocks run at return: remove them
			for _, o := range fl.Ops {
				if o.Deferred && !o.Acquire {
					delete(must, o.Key())
					delete(may, o.Key())
				}
			}
			for k := range may {
				if _, ok := fl.Entry[k]; !ok {
					bad = "returns at " + c.P.Pos(an.InstrPos(r)) + " still (possibly) holding " + k
				}
			}
			for k := range fl.Entry {
				if _, ok := must[k]; !ok {
					bad = "returns at " + c.P.Pos(an.InstrPos(r)) + " having released " + k + " that its callers hold"
				}
			}
		}
		if bad != "" {
			c.Bad(fn, "lock balance", fn.Pos(), "function "+bad+": a leaked lock blocks every later user forever", nil)
		} else {
			c.OK(fn, "lock balance", fn.Pos(), "")
		}
	}
}
