package rules

import (
	"go/token"

	"golang.org/x/tools/go/ssa"

	"nsqverif/an"
)

func init() {
	Props["C20"] = PropInfo{
		Explanation: "Decides: (trim) a record read with bufio's ReadBytes/ReadSlice/ReadString is shortened by one byte only when the read returned no error or the last byte is the delimiter (three sibling sites: nsqd's command reader, /mpub text mode, to_nsq); " +
			"(tonsq) to_nsq publishes every non-empty record to every producer before reporting the read error; (nsq2nsq) the responder finishes a source message exactly on transaction success and requeues it otherwise, and the handler disables auto-response only after the async publish was accepted; " +
			"(nsq2http) the handler returns nil only after every destination publish returned nil (or the message was sampled out), and publishers succeed only on 2xx / 200.",
		NotDecided:  "go-nsq's reconnect/backoff behaviour against flapping destinations; record boundaries inside bufio for all buffer sizes.",
		Assumptions: []string{"bufio.Reader.ReadBytes returns data ending in the delimiter iff err == nil", "go-nsq: handler nil => FIN unless auto-response disabled, error => REQ; PublishAsync delivers exactly one transaction"},
	}
	reg("C20.trim", "GUARD", "delimiter trimmed only when present", 3, c20trim)
	reg("C20.tonsq", "PATH", "to_nsq publishes each non-empty record to every producer", 2, c20tonsq)
	reg("C20.nsq2nsq", "PATH", "nsq_to_nsq: FIN iff transaction succeeded, REQ otherwise; auto-response disabled only after a successful PublishAsync", 4, c20nsq2nsq)
	reg("C20.nsq2http", "PATH", "nsq_to_http: nil only after every publish succeeded; publishers accept only 2xx/200", 4, c20nsq2http)
}

// bufioReads lists calls to bufio.Reader.ReadBytes/ReadSlice/ReadString in fn.
func bufioReads(fn *ssa.Function) []*ssa.Call {
	var out []*ssa.Call
	an.Instrs(fn, func(in ssa.Instruction) {
		call, ok := in.(*ssa.Call)
		if !ok {
			return
		}
		for _, n := range []string{"ReadBytes", "ReadSlice", "ReadString"} {
			if an.StdCallee(call, "bufio", "(*Reader)."+n) {
				out = append(out, call)
			}
		}
	})
	return out
}

func c20trim(c *an.Ctx) {
	sites := []struct{ pkg, fn string }{
		{"nsqd", "(*protocolV2).IOLoop"}, {"nsqd", "(*httpServer).doMPUB"}, {"apps/to_nsq", "readAndPublish"}, {"nsqlookupd", "(*LookupProtocolV1).IOLoop"},
	}
	for _, s := range sites {
		fn := c.Fn(s.pkg, s.fn)
		if fn == nil {
			continue
		}
		for _, rc := range bufioReads(fn) {
			data := an.ResultN(rc, 0)
			if len(data) != 1 {
				continue
			}
			errV := an.ResultN(rc, 1)
			delim := rc.Call.Args[1]
			// trims: Slice instrs x[:len(x)-1] where x derives from data
			n := 0
			an.Instrs(fn, func(in ssa.Instruction) {
				sl, ok := in.(*ssa.Slice)
				if !ok || sl.High == nil || sl.Low != nil {
					return
				}
				hb, ok := sl.High.(*ssa.BinOp)
				if !ok || hb.Op != token.SUB {
					return
				}
				if k, isC := an.ConstInt(hb.Y); !isC || k != 1 {
					return
				}
				a := lenArgOf(hb.X)
				if a == nil || !an.SameValue(a, sl.X) {
					return
				}
				// the first trim of the record: sl.X's origins must be exactly the read's data (not an already trimmed slice)
				direct := an.OriginsAll(sl.X, func(o ssa.Value) bool { return o == data[0] })
				if !direct {
					return
				}
				if _, isSlice := an.Strip(sl.X).(*ssa.Slice); isSlice {
					return // second trim (e.g. optional '\r'), guarded on its own
				}
				if phi, isPhi := an.Strip(sl.X).(*ssa.Phi); isPhi {
					// a phi of data and a trimmed data: the '\r' trim
					trimmed := false
					for _, e := range phi.Edges {
						if _, ok := an.Strip(e).(*ssa.Slice); ok {
							trimmed = true
						}
					}
					if trimmed {
						return
					}
				}
				n++
				good := false
				for _, cmp := range an.CmpsAt(sl.Block()) {
					// err == nil of this read
					if cmp.Op == token.EQL && len(errV) == 1 && cmp.X == errV[0] && an.IsNilConst(cmp.Y) {
						good = true
					}
					// last byte == delim
					if cmp.Op == token.EQL {
						if u, ok := an.Strip(cmp.X).(*ssa.UnOp); ok && u.Op == token.MUL {
							if ia, ok := u.X.(*ssa.IndexAddr); ok && an.SameValue(ia.X, sl.X) {
								if ib, ok := ia.Index.(*ssa.BinOp); ok && ib.Op == token.SUB && lenArgOf(ib.X) != nil {
									if an.SameValue(an.Strip(cmp.Y), an.Strip(delim)) {
										good = true
									}
									if k1, ok1 := an.ConstInt(cmp.Y); ok1 {
										if k2, ok2 := an.ConstInt(delim); ok2 && k1 == k2 {
											good = true
										}
									}
								}
							}
						}
					}
				}
				// err == nil may also be established by the read-error arm leaving the loop/function before the trim
				if !good && len(errV) == 1 {
					_, fail := an.ErrEdges(rc)
					q := &an.PathQ{Fn: fn, StartEdges: fail, Sink: func(x ssa.Instruction, _ *an.PathState) bool { return x == ssa.Instruction(sl) }}
					if _, reach := q.Find(); !reach && len(fail) > 0 {
						good = true
					}
				}
				c.Check(good, fn, "delimiter trimmed only when present", sl.Pos(), "",
					"the last byte of a record read with "+an.StaticCallee(rc).Name()+" is dropped without knowing that it is the delimiter (no `err == nil` from that read and no last-byte test): a final record without trailing delimiter loses its last byte")
			})
			if n == 0 {
				c.OK(fn, "no unconditional trim of "+an.StaticCallee(rc).Name()+" data", rc.Pos(), "")
			}
		}
	}
}

func c20tonsq(c *an.Ctx) {
	fn := c.Fn("apps/to_nsq", "readAndPublish")
	publish := c.P.Func("github.com/nsqio/go-nsq", "(*Producer).Publish")
	if fn == nil || publish == nil {
		if publish == nil {
			c.Anchor("go-nsq.Producer.Publish")
		}
		return
	}
	// loop over the producers map: publish on every iteration, early exit only with the publish error
	var il *an.IndexLoop
	for _, l := range an.NaturalLoops(fn) {
		x, ok := an.AsIndexLoop(l)
		if ok && x.Iter != nil && isParam(x.Iter.X, fn, 2) {
			il = x
		}
	}
	if il == nil {
		c.Bad(fn, "record goes to every producer", fn.Pos(), "readAndPublish does not range over all producers", nil)
		return
	}
	var pc ssa.CallInstruction
	for _, x := range an.CallsTo(fn, publish) {
		if il.Blocks[x.Block()] {
			pc = x
		}
	}
	good := pc != nil
	if good {
		elems := il.Elems()
		q := &an.PathQ{Fn: fn, StartEdges: []an.Edge{{From: il.Header, To: il.Body}},
			SinkEdge: func(e an.Edge, _ *an.PathState) bool { return e.To == il.Header },
			Cut: func(in ssa.Instruction, _ *an.PathState) bool {
				return in == pc.(ssa.Instruction) && valueIn(recvArg(pc), elems)
			}}
		if _, skip := q.Find(); skip {
			good = false
		}
		_, fail := an.ErrEdges(pc.Value())
		for _, e := range il.ExitEdges() {
			if e.From == il.Header && e.To == il.Done {
				continue
			}
			if !an.EdgeIn(e, fail) {
				good = false
			}
		}
		// the early exit returns the publish error (fatal in main)
		q2 := &an.PathQ{Fn: fn, StartEdges: fail, Sink: sinkSuccessReturn}
		if _, f := q2.Find(); f {
			good = false
		}
	}
	c.Check(good, fn, "record goes to every producer", fn.Pos(), "", "a record is not published to every destination (the loop skips one, or stops without returning the publish error)")
	// a non-empty record always reaches the loop; an empty one returns the read error
	// published bytes are the record (after the delimiter trim)
	if pc != nil {
		reads := bufioReads(fn)
		okData := len(reads) == 1 && an.OriginsAll(arg(pc, 1), func(o ssa.Value) bool {
			d := an.ResultN(reads[0], 0)
			return len(d) == 1 && o == d[0]
		})
		c.Check(okData, fn, "published bytes are the record read", pc.Pos(), "", "the bytes published are not the record that was just read")
		// reached for every non-empty record: from entry, a return without publishing requires len(line)==0
		q := &an.PathQ{Fn: fn, StartEntry: true, Sink: an.IsReturn,
			CutEdge: func(e an.Edge, _ *an.PathState) bool {
				if e.To == il.Header && !il.Blocks[e.From] {
					return true
				}
				for _, cmp := range an.CmpsOnEdge(e) {
					if cmp.If != nil && cmp.If.Block() == e.From && lenArgOf(cmp.X) != nil {
						// len(line) == 0, or the false side of len(line) > 0 / len(line) >= 1
						if k, isC := an.ConstInt(cmp.Y); isC && ((k == 0 && (cmp.Op == token.EQL || cmp.Op == token.LEQ)) || (k == 1 && cmp.Op == token.LSS)) {
							return true
						}
					}
				}
				return false
			}}
		w, f := q.Find()
		if f {
			c.Bad(fn, "non-empty records are always published", fn.Pos(), "readAndPublish can return without publishing a non-empty record (e.g. the final record when the read hit EOF)", w)
		} else {
			c.OK(fn, "non-empty records are always published", fn.Pos(), "")
		}
	}
}

func c20nsq2nsq(c *an.Ctx) {
	const pkg = "apps/nsq_to_nsq"
	resp := c.Fn(pkg, "(*PublishHandler).responder")
	handle := c.Fn(pkg, "(*PublishHandler).HandleMessage")
	finish := c.P.Func("github.com/nsqio/go-nsq", "(*Message).Finish")
	requeue := c.P.Func("github.com/nsqio/go-nsq", "(*Message).Requeue")
	disable := c.P.Func("github.com/nsqio/go-nsq", "(*Message).DisableAutoResponse")
	pubAsync := c.P.Func("github.com/nsqio/go-nsq", "(*Producer).PublishAsync")
	if resp == nil || handle == nil || finish == nil || requeue == nil || disable == nil || pubAsync == nil {
		if finish == nil || pubAsync == nil {
			c.Anchor("go-nsq Message.Finish/Requeue, Producer.PublishAsync")
		}
		return
	}
	// responder: Finish only on t.Error == nil, Requeue only otherwise
	errIsNil := func(e an.Edge) (isNil, known bool) {
		for _, f := range an.FactsOnEdge(e) {
			// success := t.Error == nil ; if success
			v := f.V
			truth := f.True
			if b, ok := v.(*ssa.BinOp); ok && (b.Op == token.EQL || b.Op == token.NEQ) && an.IsNilConst(b.Y) {
				if fl, _ := an.LoadedField(an.Strip(b.X)); fl != nil && fl.Name() == "Error" {
					if b.Op == token.NEQ {
						truth = !truth
					}
					if f.If != nil && f.If.Block() == e.From {
						return truth, true
					}
				}
			}
		}
		return false, false
	}
	for _, spec := range []struct {
		fn      *ssa.Function
		wantNil bool
		name    string
	}{{finish, true, "Finish"}, {requeue, false, "Requeue"}} {
		calls := an.CallsTo(resp, spec.fn)
		good := len(calls) >= 1
		for _, fc := range calls {
			// find the controlling edge into the block chain
			okEdge := false
			b := fc.Block()
			for b != nil && len(b.Preds) == 1 {
				if v, known := errIsNil(an.Edge{From: b.Preds[0], To: b}); known {
					okEdge = v == spec.wantNil
					break
				}
				b = b.Preds[0]
			}
			if !okEdge {
				// the call sits behind a merge (`if success { if pool != nil {…}; Finish() }`): what dominates it decides
				for _, f := range an.FactsAt(fc.Block()) {
					bo, ok := f.V.(*ssa.BinOp)
					if !ok || (bo.Op != token.EQL && bo.Op != token.NEQ) || !an.IsNilConst(bo.Y) {
						continue
					}
					if fl, _ := an.LoadedField(an.Strip(bo.X)); fl != nil && fl.Name() == "Error" {
						truth := f.True
						if bo.Op == token.NEQ {
							truth = !truth
						}
						okEdge = truth == spec.wantNil
					}
				}
			}
			if !okEdge {
				good = false
			}
		}
		c.Check(good, resp, spec.name+" exactly when the transaction "+map[bool]string{true: "succeeded", false: "failed"}[spec.wantNil], resp.Pos(), "",
			"the responder does not call "+spec.name+" exactly on the `t.Error "+map[bool]string{true: "== nil", false: "!= nil"}[spec.wantNil]+"` edge: failed publishes are finished (message lost) or successful ones requeued (duplicates)")
	}
	// every transaction gets exactly one of them: from loop body entry to back edge passes Finish or Requeue
	for _, l := range an.NaturalLoops(resp) {
		il, ok := an.AsIndexLoop(l)
		if !ok {
			// range over a channel: header has a recv; use the natural loop
			_ = il
		}
		q := &an.PathQ{Fn: resp, SinkEdge: func(e an.Edge, _ *an.PathState) bool { return e.To == l.Header && l.Blocks[e.From] },
			Cut: func(in ssa.Instruction, _ *an.PathState) bool {
				return isCallToOn(in, finish, nil) || isCallToOn(in, requeue, nil)
			}}
		for _, s := range l.Header.Succs {
			if l.Blocks[s] {
				q.StartEdges = append(q.StartEdges, an.Edge{From: l.Header, To: s})
			}
		}
		w, f := q.Find()
		if f {
			c.Bad(resp, "every transaction is answered", resp.Pos(), "a transaction result can be consumed without Finish or Requeue of its source message: the message stays in flight until it times out", w)
		} else {
			c.OK(resp, "every transaction is answered", resp.Pos(), "")
		}
		break
	}
	// HandleMessage: DisableAutoResponse only after PublishAsync success; error returned otherwise
	var succ []an.Edge
	for _, pc := range an.CallsTo(handle, pubAsync) {
		s, _ := an.ErrEdgesPhi(pc.Value())
		succ = append(succ, s...)
		// the source message travels with the transaction so the responder can answer it
		hasMsg := false
		for _, e := range varargsInOrder(pc.Common().Args[len(pc.Common().Args)-1]) {
			if isParam(e, handle, 1) {
				hasMsg = true
			}
		}
		c.Check(hasMsg, handle, "transaction carries the source message", pc.Pos(), "", "PublishAsync is not given the source message as transaction argument: the responder cannot finish/requeue it")
	}
	q := &an.PathQ{Fn: handle, StartEntry: true, Sink: func(in ssa.Instruction, _ *an.PathState) bool { return isCallToOn(in, disable, nil) },
		CutEdge: func(e an.Edge, _ *an.PathState) bool { return an.EdgeIn(e, succ) }}
	w, f := q.Find()
	if f || len(succ) == 0 {
		c.Bad(handle, "auto-response disabled only after the publish was accepted", handle.Pos(), "auto-response is disabled although PublishAsync failed: nobody will ever FIN/REQ the message (no transaction is delivered for it)", w)
	} else {
		c.OK(handle, "auto-response disabled only after the publish was accepted", handle.Pos(), "")
	}
	// and always: once PublishAsync accepted the message, returning nil with auto-response still enabled lets the
	// client library FIN the source message before the destination answered
	var after []ssa.Instruction
	var fails []an.Edge
	for _, pc := range an.CallsTo(handle, pubAsync) {
		after = append(after, pc.(ssa.Instruction))
		_, fl := an.ErrEdgesPhi(pc.Value())
		fails = append(fails, fl...)
	}
	q2 := &an.PathQ{Fn: handle, StartAfter: after, Sink: sinkSuccessReturn,
		CutEdge: func(e an.Edge, _ *an.PathState) bool { return an.EdgeIn(e, fails) },
		Cut: func(in ssa.Instruction, _ *an.PathState) bool {
			return isCallToOn(in, disable, nil) && isParam(recvArg(in.(ssa.CallInstruction)), handle, 1)
		}}
	w2, f2 := q2.Find()
	if f2 || len(succ) == 0 {
		c.Bad(handle, "auto-response disabled whenever the publish was handed off", handle.Pos(), "after a successful PublishAsync (in some publishing mode) HandleMessage returns nil without DisableAutoResponse(): go-nsq finishes the source message at once, and if the destination later rejects or drops the publish the responder's requeue comes too late – the message is lost", w2)
	} else {
		c.OK(handle, "auto-response disabled whenever the publish was handed off", handle.Pos(), "")
	}
}

func c20nsq2http(c *an.Ctx) {
	const pkg = "apps/nsq_to_http"
	handle := c.Fn(pkg, "(*PublishHandler).HandleMessage")
	if handle == nil {
		return
	}
	// every Publish call's failure edge returns the error (non-nil)
	n := 0
	an.Instrs(handle, func(in ssa.Instruction) {
		call, ok := in.(*ssa.Call)
		if !ok || !an.IsInvokeOf(call, "Publisher", "Publish") {
			return
		}
		n++
		_, fail := an.ErrEdges(call)
		q := &an.PathQ{Fn: handle, StartEdges: fail, Sink: sinkSuccessReturn}
		w, f := q.Find()
		bodyF, _ := an.LoadedField(an.Strip(call.Call.Args[1]))
		okBody := bodyF != nil && bodyF.Name() == "Body"
		if f || len(fail) == 0 || !okBody {
			c.Bad(handle, "failed publish fails the handler", call.Pos(), "a destination error does not make HandleMessage return an error (the source message is finished although it was not delivered), or the bytes sent are not m.Body", w)
		} else {
			c.OK(handle, "failed publish fails the handler", call.Pos(), "")
		}
	})
	if n < 3 {
		c.Bad(handle, "publishes in every mode", handle.Pos(), sprintf("expected a Publish call in each of the three modes, found %d", n), nil)
	}
	// ModeAll: every address
	addrsF := c.P.Field(pkg, "PublishHandler", "addresses")
	all := false
	for _, l := range an.NaturalLoops(handle) {
		il, ok := an.AsIndexLoop(l)
		if !ok || il.Slice == nil || !isLoadOfField(il.Slice, addrsF) {
			continue
		}
		var pc *ssa.Call
		an.Instrs(handle, func(in ssa.Instruction) {
			if call, ok := in.(*ssa.Call); ok && an.IsInvokeOf(call, "Publisher", "Publish") && il.Blocks[call.Block()] {
				pc = call
			}
		})
		if pc == nil {
			continue
		}
		_, fail := an.ErrEdges(pc)
		okExit := il.WholeOK
		for _, e := range il.ExitEdges() {
			if e.From == il.Header && e.To == il.Done {
				continue
			}
			if !an.EdgeIn(e, fail) {
				okExit = false
			}
		}
		q := &an.PathQ{Fn: handle, StartEdges: []an.Edge{{From: il.Header, To: il.Body}},
			SinkEdge: func(e an.Edge, _ *an.PathState) bool { return e.To == il.Header },
			Cut:      func(in ssa.Instruction, _ *an.PathState) bool { return in == ssa.Instruction(pc) }}
		if _, skip := q.Find(); !skip && okExit {
			all = true
		}
	}
	c.Check(all, handle, "all-mode delivers to every address", handle.Pos(), "", "in mode 'all' a message is not published to every address before the handler returns nil")
	// publishers: nil only on 2xx / 200
	for _, spec := range []struct {
		name   string
		lo, hi int64
	}{{"(*PostPublisher).Publish", 200, 299}, {"(*GetPublisher).Publish", 200, 200}} {
		fn := c.Fn(pkg, spec.name)
		if fn == nil {
			continue
		}
		for _, rc := range returnCases(fn, 0) {
			r := rc.ret
			// a case that carries an error: a constructed one, or a value a branch on the way found non-nil
			if !an.IsNilConst(rc.val) {
				if provablyNonNil(rc.val, r.Block()) {
					continue
				}
				nonNil := false
				for _, f := range rc.facts {
					if cmp, ok := f.AsCmp(); ok && cmp.Op == token.NEQ && an.IsNilConst(cmp.Y) && an.SameValue(cmp.X, rc.val) {
						nonNil = true
					}
				}
				if nonNil {
					continue
				}
			}
			lo, hi := false, false
			var cmps []an.Cmp
			for _, f := range rc.facts {
				if cmp, ok := f.AsCmp(); ok {
					cmps = append(cmps, cmp)
				}
			}
			for _, cmp := range cmps {
				oc, ok := cmp.Oriented(func(x ssa.Value) bool {
					f, _ := an.LoadedField(an.Strip(x))
					return f != nil && f.Name() == "StatusCode"
				})
				if !ok {
					continue
				}
				k, isC := an.ConstInt(oc.Y)
				if !isC {
					continue
				}
				switch {
				case oc.Op == token.EQL && k == spec.lo && spec.lo == spec.hi:
					lo, hi = true, true
				case oc.Op == token.GEQ && k == spec.lo, oc.Op == token.GTR && k == spec.lo-1:
					lo = true
				case oc.Op == token.LSS && k == spec.hi+1, oc.Op == token.LEQ && k == spec.hi:
					hi = true
				}
			}
			c.Check(lo && hi, fn, "success only for the accepted status range", r.Pos(), "", sprintf("%s returns nil for a response status outside [%d, %d]: messages rejected by the destination are finished", spec.name, spec.lo, spec.hi))
		}
	}
}
