package rules

import (
	"go/constant"
	"go/token"

	"golang.org/x/tools/go/ssa"

	"nsqverif/an"
)

func init() {
	Props["C12"] = PropInfo{
		Explanation: "The structural clauses add up to the safety statement for one factory: (locked) every access to the generator state is inside f.Lock()/f.Unlock() and every return releases the lock; " +
			"(monotone) lastID is written only in NewGUID, with the id that is returned, on the edge where id > lastID, and every error return yields the zero id; hence successive successful calls return strictly increasing ids under every schedule; " +
			"(layout) the bit layout constants are consistent with the node-id range check and sequence exhaustion / clock regression are errors; (retry) GenerateID returns only a successfully generated id; " +
			"(source) each topic owns one factory and every published message gets its id from the topic that receives it.",
		NotDecided:  "which ids are produced (wall clock); uniqueness across topics or restarts (not part of the property).",
		Assumptions: []string{"sync.Mutex provides mutual exclusion and happens-before between critical sections"},
	}
	reg("C12.locked", "LOCK", "guidFactory state is only touched under the factory mutex; every return unlocks", 8, c12locked)
	reg("C12.monotone", "GUARD+CALLS", "lastID := id only when id > lastID; the stored id is the returned id; errors return 0", 2, c12monotone)
	reg("C12.layout", "SHAPE", "id layout constants agree with each other and with the node-id range check; rollover and clock regression are errors", 7, c12layout)
	reg("C12.retry", "PATH", "Topic.GenerateID returns only on the generator's success edge", 1, c12retry)
	reg("C12.source", "ORIG+CALLS", "one factory per topic; a message's id comes from the topic it is published to", 6, c12source)
}

func c12locked(c *an.Ctx) {
	fns := c.P.PkgFuncs("nsqd")
	for _, f := range []string{"sequence", "lastTimestamp", "lastID"} {
		checkGuarded(c, guardedField{"nsqd", "guidFactory", f, "guidFactory.Mutex", ""}, fns)
	}
	fn := c.Fn("nsqd", "(*guidFactory).NewGUID")
	if fn == nil {
		return
	}
	la := c.P.Locks()
	fl := la.Fns[fn]
	for _, r := range an.Returns(fn) {
		_, may := fl.At(r)
		held := false
		for k := range may {
			if len(k) > 0 && k[:len("guidFactory.Mutex")] == "guidFactory.Mutex" {
				held = true
			}
		}
		for _, o := range fl.Ops {
			if o.Deferred && !o.Acquire {
				held = false
			}
		}
		c.Check(!held, fn, "return releases the factory lock", r.Pos(), "", "NewGUID can return with the factory mutex held: every later publish on the topic blocks for ever")
	}
}

func c12monotone(c *an.Ctx) {
	fn := c.Fn("nsqd", "(*guidFactory).NewGUID")
	if fn == nil {
		return
	}
	lastF := c.P.Field("nsqd", "guidFactory", "lastID")
	// writers of lastID
	var stores []*ssa.Store
	for _, g := range c.P.RepoFuncs() {
		an.Instrs(g, func(in ssa.Instruction) {
			st, ok := in.(*ssa.Store)
			if !ok {
				return
			}
			fa, ok := st.Addr.(*ssa.FieldAddr)
			if !ok || an.FieldOf(fa) != lastF {
				return
			}
			if _, fresh := an.Strip(fa.X).(*ssa.Alloc); fresh {
				return
			}
			if g != fn {
				c.Bad(g, "lastID writer", st.Pos(), "guidFactory.lastID is written outside NewGUID", nil)
				return
			}
			stores = append(stores, st)
		})
	}
	if len(stores) != 1 {
		c.Bad(fn, "lastID := id on id > lastID", fn.Pos(), sprintf("expected exactly one store to lastID in NewGUID, found %d", len(stores)), nil)
		return
	}
	st := stores[0]
	id := st.Val
	gt := false
	for _, cmp := range an.CmpsAt(st.Block()) {
		oc, ok := cmp.Oriented(func(x ssa.Value) bool { return x == id })
		if ok && oc.Op == token.GTR && isLoadOfField(oc.Y, lastF) {
			gt = true
		}
	}
	c.Check(gt, fn, "lastID := id on id > lastID", st.Pos(), "", "lastID is updated without the dominating test id > lastID (an equal or smaller id would be handed out again)")
	// success returns return exactly that id and follow the store; error returns return 0 – judged per path, so a single
	// `return id, err` behind a merge of (0, ErrX) and (id, nil) is the same as one return per arm
	for _, r := range an.Returns(fn) {
		r := r
		onlyFailure := !isSuccessReturn(r)
		// (a) a success return reached without the store
		qa := &an.PathQ{Fn: fn, StartEntry: true, AllAlias: true, AllConsts: true,
			Sink: func(in ssa.Instruction, ps *an.PathState) bool {
				return in == ssa.Instruction(r) && sinkSuccessReturn(in, ps)
			},
			Cut: func(in ssa.Instruction, _ *an.PathState) bool { return in == ssa.Instruction(st) }}
		wa, fa := qa.Find()
		// (b) a success return whose id, on that path, is not the recorded one
		qb := &an.PathQ{Fn: fn, StartEntry: true, AllAlias: true, AllConsts: true,
			Sink: func(in ssa.Instruction, ps *an.PathState) bool {
				if in != ssa.Instruction(r) || !sinkSuccessReturn(in, ps) {
					return false
				}
				return an.Resolve(ps.Selected(an.Resolve(r.Results[0]))) != id
			}}
		wb, fb := qb.Find()
		// (c) a failure return whose id, on that path, is not zero
		qc := &an.PathQ{Fn: fn, StartEntry: true, AllAlias: true, AllConsts: true,
			Sink: func(in ssa.Instruction, ps *an.PathState) bool {
				if in != ssa.Instruction(r) {
					return false
				}
				e := errOperand(r)
				if e == nil || !(onlyFailure || ps.NonNil(e)) {
					return false
				}
				k, isC := an.ConstInt(ps.Selected(an.Resolve(r.Results[0])))
				if !isC {
					if kc, ok := ps.ConstOf(an.Resolve(r.Results[0])); ok {
						k, isC = an.ConstInt(kc)
					}
				}
				return !(isC && k == 0)
			}}
		_, fc := qc.Find()
		if !onlyFailure {
			if fa {
				c.Bad(fn, "returned id is the recorded id", r.Pos(), "a successful return is reachable without recording the id in lastID: the next call can return the same or a smaller id", wa)
			} else if fb {
				c.Bad(fn, "returned id is the recorded id", r.Pos(), "a successful return does not return the id that was recorded in lastID", wb)
			} else {
				c.OK(fn, "returned id is the recorded id", r.Pos(), "")
			}
		}
		if onlyFailure || fc {
			c.Check(!fc, fn, "error returns the zero id", r.Pos(), "", "an error return carries a non-zero id")
		}
	}
}

func constVal(c *an.Ctx, pkg, name string) (int64, bool) {
	k := c.P.Const(pkg, name)
	if k == nil {
		return 0, false
	}
	if k.Val().Kind() != constant.Int {
		return 0, false
	}
	v, ok := constant.Int64Val(k.Val())
	if !ok {
		u, ok2 := constant.Uint64Val(k.Val())
		return int64(u), ok2
	}
	return v, ok
}

func c12layout(c *an.Ctx) {
	nb, ok1 := constVal(c, "nsqd", "nodeIDBits")
	sb, ok2 := constVal(c, "nsqd", "sequenceBits")
	ns, ok3 := constVal(c, "nsqd", "nodeIDShift")
	ts, ok4 := constVal(c, "nsqd", "timestampShift")
	sm, ok5 := constVal(c, "nsqd", "sequenceMask")
	fnG := c.Fn("nsqd", "(*guidFactory).NewGUID")
	if !(ok1 && ok2 && ok3 && ok4 && ok5) || fnG == nil {
		c.Anchor("nsqd guid layout constants")
		return
	}
	c.Check(ns == sb, fnG, "nodeIDShift == sequenceBits", fnG.Pos(), "", sprintf("nodeIDShift=%d sequenceBits=%d: node id and sequence fields overlap or leave a gap", ns, sb))
	c.Check(ts == sb+nb, fnG, "timestampShift == sequenceBits + nodeIDBits", fnG.Pos(), "", sprintf("timestampShift=%d but sequenceBits+nodeIDBits=%d: the timestamp overlaps the node id", ts, sb+nb))
	c.Check(sm == (1<<uint(sb))-1, fnG, "sequenceMask == 1<<sequenceBits - 1", fnG.Pos(), "", sprintf("sequenceMask=%d", sm))
	c.Check(nb+sb < 63, fnG, "fields fit in 63 bits", fnG.Pos(), "", "node id + sequence bits leave no room for the timestamp")
	// node id range check in New
	if fn := c.Fn("nsqd", "New"); fn != nil {
		idF := c.P.Field("nsqd", "Options", "ID")
		// no success return of New is reachable without having passed an edge that establishes ID >= 0, and one that
		// establishes ID < 1<<nodeIDBits (path-sensitive: the test may be a computed boolean or split over several ifs)
		establishes := func(lower bool) func(e an.Edge, st *an.PathState) bool {
			return func(e an.Edge, st *an.PathState) bool {
				for _, cmp := range st.CmpsOnEdge(e) {
					oc, ok := cmp.Oriented(func(x ssa.Value) bool { return isLoadOfField(x, idF) })
					if !ok {
						continue
					}
					k, isC := an.ConstInt(oc.Y)
					if !isC {
						continue
					}
					if lower && ((oc.Op == token.GEQ && k == 0) || (oc.Op == token.GTR && k == -1)) {
						return true
					}
					if !lower && ((oc.Op == token.LSS && k == 1<<uint(nb)) || (oc.Op == token.LEQ && k == (1<<uint(nb))-1)) {
						return true
					}
				}
				return false
			}
		}
		qlo := &an.PathQ{Fn: fn, StartEntry: true, Sink: sinkSuccessReturn, CutEdge: establishes(true)}
		_, flo := qlo.Find()
		qhi := &an.PathQ{Fn: fn, StartEntry: true, Sink: sinkSuccessReturn, CutEdge: establishes(false)}
		_, fhi := qhi.Find()
		lo, hi := !flo, !fhi
		c.Check(lo && hi, fn, "node id within [0, 1<<nodeIDBits)", fn.Pos(), "", sprintf("nsqd.New does not reject exactly ID < 0 || ID >= %d (lower ok=%v, upper ok=%v): a larger node id spills into the timestamp bits and two nodes/epochs can collide", 1<<uint(nb), lo, hi))
	}
	// NewGUID: id composition and the two error arms
	seqF := c.P.Field("nsqd", "guidFactory", "sequence")
	ltF := c.P.Field("nsqd", "guidFactory", "lastTimestamp")
	errSeq := c.P.Global("nsqd", "ErrSequenceExpired")
	errBack := c.P.Global("nsqd", "ErrTimeBackwards")
	returnsGlobal := func(edges []an.Edge, g *ssa.Global) bool {
		if g == nil || len(edges) == 0 {
			return false
		}
		q := &an.PathQ{Fn: fnG, StartEdges: edges, Sink: func(in ssa.Instruction, _ *an.PathState) bool {
			r, ok := in.(*ssa.Return)
			if !ok {
				return false
			}
			e := errOperand(r)
			u, isU := e.(*ssa.UnOp)
			return !(isU && u.X == ssa.Value(g))
		}}
		_, f := q.Find()
		return !f
	}
	var backEdges, seqEdges []an.Edge
	maskOK := false
	an.Instrs(fnG, func(in ssa.Instruction) {
		b, ok := in.(*ssa.BinOp)
		if !ok {
			return
		}
		switch b.Op {
		case token.LSS, token.GTR:
			// ts < lastTimestamp
			cmp := an.Cmp{Op: b.Op, X: b.X, Y: b.Y}
			if oc, ok := cmp.Oriented(func(x ssa.Value) bool { return isLoadOfField(x, ltF) }); ok && oc.Op == token.GTR {
				for _, t := range an.BoolTests(b) {
					backEdges = append(backEdges, t.True)
				}
			}
		case token.EQL:
			if isLoadOfField(b.X, seqF) {
				if k, isC := an.ConstInt(b.Y); isC && k == 0 {
					for _, t := range an.BoolTests(b) {
						seqEdges = append(seqEdges, t.True)
					}
				}
			}
		case token.AND:
			if k, isC := an.ConstInt(b.Y); isC && k == sm {
				if add, ok := b.X.(*ssa.BinOp); ok && add.Op == token.ADD && isLoadOfField(add.X, seqF) {
					if one, isC := an.ConstInt(add.Y); isC && one == 1 {
						maskOK = true
					}
				}
			}
		}
	})
	// Both arms are redundant once lastID := id is guarded by id > lastID (C12.monotone): a regressed clock or a
	// wrapped sequence yields an id <= lastID, which that guard turns into an error. Accept either form.
	monoGuard := false
	lastF := c.P.Field("nsqd", "guidFactory", "lastID")
	an.Instrs(fnG, func(in ssa.Instruction) {
		st, ok := in.(*ssa.Store)
		if !ok {
			return
		}
		fa, ok := st.Addr.(*ssa.FieldAddr)
		if !ok || an.FieldOf(fa) != lastF {
			return
		}
		for _, cmp := range an.CmpsAt(st.Block()) {
			if oc, ok := cmp.Oriented(func(x ssa.Value) bool { return x == st.Val }); ok && oc.Op == token.GTR && isLoadOfField(oc.Y, lastF) {
				monoGuard = true
			}
		}
	})
	c.Check(monoGuard || returnsGlobal(backEdges, errBack), fnG, "clock regression is an error", fnG.Pos(), "", "ts < lastTimestamp does not return ErrTimeBackwards: ids from the past are reissued")
	c.Check(maskOK && (monoGuard || returnsGlobal(seqEdges, errSeq)), fnG, "sequence exhaustion is an error", fnG.Pos(), "", "the per-millisecond sequence is not (sequence+1)&sequenceMask with wrap-to-0 returning ErrSequenceExpired: the 4097th id of a millisecond repeats the first")
	// id = ((ts - twepoch) << timestampShift) | (nodeID << nodeIDShift) | sequence
	shifts := map[int64]bool{}
	an.Instrs(fnG, func(in ssa.Instruction) {
		if b, ok := in.(*ssa.BinOp); ok && b.Op == token.SHL {
			if k, isC := an.ConstInt(b.Y); isC {
				shifts[k] = true
			}
		}
	})
	c.Check(shifts[ts] && shifts[ns], fnG, "id assembled with the layout shifts", fnG.Pos(), "", "NewGUID does not shift the timestamp by timestampShift and the node id by nodeIDShift")
}

// errReturnsAny: every return reachable from edges returns a provably non-nil error.
func errReturnsAny(fn *ssa.Function, edges []an.Edge) (bool, string, []string) {
	q := &an.PathQ{Fn: fn, StartEdges: edges, Sink: func(in ssa.Instruction, _ *an.PathState) bool {
		r, ok := in.(*ssa.Return)
		return ok && isSuccessReturn(r)
	}}
	w, f := q.Find()
	return !f, "", w
}

func c12retry(c *an.Ctx) {
	fn := c.Fn("nsqd", "(*Topic).GenerateID")
	newGUID := c.Fn("nsqd", "(*guidFactory).NewGUID")
	if fn == nil || newGUID == nil {
		return
	}
	var succ []an.Edge
	var ids []ssa.Value
	for _, gc := range an.CallsTo(fn, newGUID) {
		s, _ := an.ErrEdges(gc.Value())
		if len(s) == 0 {
			// `id, err := NewGUID(); for err != nil { …; id, err = NewGUID() }`: the test is on the merge of both calls' errors
			s, _ = an.ErrEdgesPhi(gc.Value())
		}
		succ = append(succ, s...)
		ids = append(ids, an.ResultN(gc.Value(), 0)...)
	}
	q := &an.PathQ{Fn: fn, StartEntry: true, Sink: an.IsReturn, CutEdge: func(e an.Edge, _ *an.PathState) bool { return an.EdgeIn(e, succ) }}
	w, f := q.Find()
	if f || len(succ) == 0 {
		c.Bad(fn, "returns only a successfully generated id", fn.Pos(), "GenerateID can return without NewGUID having succeeded: a zero/duplicate id is published", w)
		return
	}
	// the value returned is Hex() of that id
	hex := c.P.Func("nsqd", "(guid).Hex")
	good := true
	for _, r := range an.Returns(fn) {
		call := an.CallResultOf(an.Resolve(r.Results[0]), hex)
		if call == nil || !an.OriginsAll(call.Call.Args[0], func(o ssa.Value) bool { return valueIn(o, ids) }) {
			good = false
		}
	}
	c.Check(good, fn, "returns only a successfully generated id", fn.Pos(), "", "GenerateID does not return Hex() of the id NewGUID just produced")
}

func c12source(c *an.Ctx) {
	gen := c.Fn("nsqd", "(*Topic).GenerateID")
	newMsg := c.Fn("nsqd", "NewMessage")
	putM := c.Fn("nsqd", "(*Topic).PutMessage")
	putMs := c.Fn("nsqd", "(*Topic).PutMessages")
	readMPUB := c.Fn("nsqd", "readMPUB")
	if gen == nil || newMsg == nil || putM == nil || putMs == nil || readMPUB == nil {
		return
	}
	// idFactory written once, in the constructor, from NewGUIDFactory(opts.ID)
	idfF := c.P.Field("nsqd", "Topic", "idFactory")
	n := 0
	for _, g := range c.P.RepoFuncs() {
		an.Instrs(g, func(in ssa.Instruction) {
			st, ok := in.(*ssa.Store)
			if !ok {
				return
			}
			fa, ok := st.Addr.(*ssa.FieldAddr)
			if !ok || an.FieldOf(fa) != idfF {
				return
			}
			n++
			_, fresh := an.Strip(fa.X).(*ssa.Alloc)
			c.Check(an.FnName(g) == "nsqd.NewTopic" && fresh, g, "topic's id factory assigned once at construction", st.Pos(), "", "Topic.idFactory is (re)assigned outside the constructor: ids restart and repeat")
		})
	}
	if n == 0 {
		c.Bad(gen, "topic's id factory assigned once at construction", gen.Pos(), "Topic.idFactory is never assigned", nil)
	}
	// GenerateID uses the receiver's factory
	useOwn := false
	newGUID := c.P.Func("nsqd", "(*guidFactory).NewGUID")
	for _, gc := range an.CallsTo(gen, newGUID) {
		if f, base := an.LoadedField(an.Strip(recvArg(gc))); f == idfF && isParam(base, gen, 0) {
			useOwn = true
		}
	}
	c.Check(useOwn, gen, "GenerateID uses the topic's own factory", gen.Pos(), "", "GenerateID does not draw from t.idFactory")
	// publish sites
	for _, name := range []string{"(*protocolV2).PUB", "(*protocolV2).DPUB", "(*httpServer).doPUB", "(*httpServer).doMPUB", "readMPUB"} {
		fn := c.Fn("nsqd", name)
		if fn == nil {
			continue
		}
		for _, nc := range an.CallsTo(fn, newMsg) {
			idArg := arg(nc, 0)
			gc := an.CallResultOf(idArg, gen)
			if gc == nil {
				c.Bad(fn, "message id from GenerateID", nc.Pos(), "a published message's id is not the result of Topic.GenerateID()", nil)
				continue
			}
			// fresh per message: the GenerateID call is in the same block as NewMessage (not hoisted out of a loop)
			fresh := gc.Block() == nc.Block()
			topic := recvArg(gc)
			sameTopic := false
			if name == "readMPUB" {
				sameTopic = isParam(topic, fn, 2)
			} else {
				for _, pc := range an.CallsTo(fn, putM, putMs) {
					if an.SameValue(recvArg(pc), topic) {
						sameTopic = true
					}
				}
			}
			c.Check(fresh && sameTopic, fn, "message id from the receiving topic, one per message", nc.Pos(), "",
				sprintf("the id handed to NewMessage is not a fresh GenerateID() of the topic the message is put on (fresh per message=%v, same topic=%v)", fresh, sameTopic))
		}
	}
	// MPUB / doMPUB hand readMPUB the topic they put on
	for _, name := range []string{"(*protocolV2).MPUB", "(*httpServer).doMPUB"} {
		fn := c.Fn("nsqd", name)
		if fn == nil {
			continue
		}
		for _, rc := range an.CallsTo(fn, readMPUB) {
			// every PutMessages of this handler goes to the topic whose generator numbered the batch (a retry on a
			// re-resolved topic would carry ids of the old topic object)
			puts := an.CallsTo(fn, putMs)
			same := len(puts) > 0
			for _, pc := range puts {
				if !an.SameValue(recvArg(pc), rc.Common().Args[2]) {
					same = false
				}
			}
			c.Check(same, fn, "batch ids come from the receiving topic", rc.Pos(), "", "readMPUB is given a different topic than the one PutMessages is called on")
		}
	}
}
