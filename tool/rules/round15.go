package rules

import (
	"go/token"
	"go/types"
	"strings"

	"golang.org/x/tools/go/ssa"

	"nsqverif/an"
)

// Rules added after the fourteenth round of independently seeded changes (DESIGN.md §11.31).
func init() {
	for id, extra := range map[string]string{
		"C01": " (range) a REQ delay is clamped to max-req-timeout.",
		"C02": " (ownerbeforepush) a delivery is stamped with its owner before it becomes visible in flight; (statesallowed) FIN/REQ/TOUCH act in both the subscribed and the closing state.",
		"C05": " (winner) an answer from the wrong connection removes nothing.",
		"C06": " (notify) the lookup loop keeps taking notifications.",
		"C08": " (scanset) the scanner's channel list is rebuilt; (after) a deletion is persisted before it is answered.",
		"C09": " (statesallowed) as C02.",
		"C10": " (topicpause) a paused topic's pump arms no source; (range) TCP and HTTP take the same defer range.",
		"C11": " (grantsasgiven) also: nothing rewrites a grant's topic, channels or permissions.",
		"C14": " (unregscope) a channel UNREGISTER touches channel registrations only.",
		"C16": " (hostport) lookupd HTTP addresses are joined with net.JoinHostPort.",
		"C17": " (nogate) no step of a fan-out is conditional on the errors collected so far.",
		"C20": " (jsongate) nsq_to_nsq decodes a body as JSON only when a field filter is configured.",
	} {
		p := Props[id]
		p.Explanation += extra
		Props[id] = p
	}
	has := func(subs ...string) func(string) bool {
		return func(n string) bool {
			for _, s := range subs {
				if strings.Contains(n, s) {
					return true
				}
			}
			return false
		}
	}
	reg("C01.range", "GUARD", "the REQ delay handed to RequeueMessage is the clamped one: an unclamped REQ parks a message for as long as the client says (the REQ rows of C04.range)", 1, only(c04range, has(").REQ")))
	reg("C10.range", "GUARD", "TCP DPUB rejects a delay outside [0, MaxReqTimeout] exactly as /pub?defer does (the DPUB and doPUB rows of C04.range)", 2, only(c04range, has(").DPUB", "doPUB")))
	reg("C05.winner", "LOCK+GUARD+CALLS", "popInFlightMessage deletes only after the ownership check: a foreign answer that removes the entry leaves a message the shutdown flush never sees (shared with C02.winner)", 9, c02winner)
	reg("C06.notify", "PATH", "the lookup loop receives from notifyChan in every iteration of its select: the metadata persist of a creation waits behind that hand-off (shared with C16.notify)", 6, c16notify)
	reg("C08.scanset", "PATH", "the queue scanner rebuilds its channel list on every refresh tick: a re-created channel is a different object (shared with C04.scanset)", 3, c04scanset)
	reg("C08.after", "PATH+LOCK", "a registry deletion is followed by a synchronous persist (shared with C06.after)", 4, c06after)
	reg("C10.topicpause", "ORIG+PATH", "topic pump: paused (or no channels) => queue sources nil, also right after Start (shared with C03.topicpause)", 4, c03topicpause)

	reg("C02.ownerbeforepush", "PATH", "StartInFlightTimeout stores the owner into the message before pushInFlightMessage", 1, c02ownerbeforepush)
	reg("C02.statesallowed", "PATH", "FIN/REQ/TOUCH reach their effect in stateSubscribed and in stateClosing", 6, c02statesallowed)
	reg("C09.statesallowed", "PATH", "FIN/REQ/TOUCH reach their effect in stateSubscribed and in stateClosing (shared with C02.statesallowed)", 6, c02statesallowed)
	reg("C11.grantfields", "ORIG", "nothing in internal/auth stores into Authorization.Topic/Channels/Permissions", 1, c11grantfields)
	reg("C14.unregscope", "GUARD", "UNREGISTER with a channel removes from channel registrations only", 1, c14unregscope)
	reg("C16.hostport", "ORIG", "every address lookupdHTTPAddrs returns is net.JoinHostPort of the peer's broadcast address and HTTP port", 1, c16hostport)
	reg("C17.nogate", "GUARD", "no nsqlookupdPOST/producersPOST call in clusterinfo is guarded by the length of an error list", 8, c17nogate)
	reg("C20.jsongate", "PATH", "nsq_to_nsq HandleMessage reaches json.Unmarshal only past a test of requireJSONField or whitelistJSONFields", 1, c20jsongate)
}

// ---- C02.ownerbeforepush -------------------------------------------------------------------------------------

func c02ownerbeforepush(c *an.Ctx) {
	fn := c.Fn("nsqd", "(*Channel).StartInFlightTimeout")
	push := c.Fn("nsqd", "(*Channel).pushInFlightMessage")
	cf := c.P.Field("nsqd", "Message", "clientID")
	if fn == nil || push == nil || cf == nil {
		if fn != nil {
			c.Anchor("nsqd.Message.clientID / pushInFlightMessage")
		}
		return
	}
	q := &an.PathQ{Fn: fn, StartEntry: true,
		Sink: func(in ssa.Instruction, _ *an.PathState) bool {
			ci, ok := in.(ssa.CallInstruction)
			return ok && an.IsCallTo(ci, push)
		},
		Cut: func(in ssa.Instruction, _ *an.PathState) bool {
			st, ok := in.(*ssa.Store)
			if !ok {
				return false
			}
			fa, ok := st.Addr.(*ssa.FieldAddr)
			return ok && an.FieldOf(fa) == cf
		}}
	w, found := q.Find()
	if found {
		c.Bad(fn, "owner stamped before the message is in flight", fn.Pos(), "StartInFlightTimeout puts the message into the in-flight map before it stores the new owner: for a redelivery the map entry still names the previous holder, whose late FIN/REQ/TOUCH then passes the ownership check and takes the message from the consumer it was just sent to", w)
	} else {
		c.OK(fn, "owner stamped before the message is in flight", fn.Pos(), "")
	}
}

// ---- C02.statesallowed ---------------------------------------------------------------------------------------

func c02statesallowed(c *an.Ctx) {
	stateF := c.P.Field("nsqd", "clientV2", "State")
	if stateF == nil {
		c.Anchor("nsqd.clientV2.State")
		return
	}
	for _, row := range []struct{ cmd, effect string }{{"FIN", "FinishMessage"}, {"REQ", "RequeueMessage"}, {"TOUCH", "TouchMessage"}} {
		fn := c.Fn("nsqd", "(*protocolV2)."+row.cmd)
		eff := c.Fn("nsqd", "(*Channel)."+row.effect)
		if fn == nil || eff == nil {
			continue
		}
		for _, sname := range []string{"stateSubscribed", "stateClosing"} {
			k := c.P.Const("nsqd", sname)
			if k == nil {
				c.Anchor("nsqd." + sname)
				continue
			}
			want, _ := an.ConstInt(ssa.NewConst(k.Val(), k.Type()))
			// an edge that rules this state out: state == other constant, or state != this one
			excludes := func(e an.Edge, ps *an.PathState) bool {
				for _, cmp := range ps.CmpsOnEdge(e) {
					x, y := cmp.X, cmp.Y
					if !atomicLoadOf(x, stateF) {
						x, y = y, x
					}
					if !atomicLoadOf(x, stateF) {
						continue
					}
					v, isC := an.ConstInt(y)
					if !isC {
						continue
					}
					if (cmp.Op == token.EQL && v != want) || (cmp.Op == token.NEQ && v == want) {
						return true
					}
				}
				return false
			}
			q := &an.PathQ{Fn: fn, StartEntry: true, FullOnly: true, NoFold: true, CutEdge: excludes,
				Sink: func(in ssa.Instruction, _ *an.PathState) bool {
					ci, ok := in.(ssa.CallInstruction)
					return ok && an.IsCallTo(ci, eff)
				}}
			_, reach := q.Find()
			c.Check(reach, fn, row.cmd+" acts in "+sname, fn.Pos(), "", row.cmd+" cannot reach "+row.effect+" when the connection is in "+sname+": a consumer that sent CLS and is draining what it holds gets a fatal E_INVALID – and is disconnected – for an answer the protocol allows, instead of OK or the non-fatal E_"+row.cmd+"_FAILED")
		}
	}
}

// ---- C11.grantfields -----------------------------------------------------------------------------------------

func c11grantfields(c *an.Ctx) {
	nt := c.P.Named("internal/auth", "Authorization")
	q := c.Fn("internal/auth", "QueryAuthd")
	if nt == nil || q == nil {
		if q != nil {
			c.Anchor("internal/auth.Authorization")
		}
		return
	}
	st, ok := nt.Underlying().(*types.Struct)
	if !ok {
		return
	}
	isField := func(f *types.Var) bool {
		for i := 0; i < st.NumFields(); i++ {
			if st.Field(i) == f {
				return true
			}
		}
		return false
	}
	for _, fn := range c.P.PkgFuncs("internal/auth") {
		an.Instrs(fn, func(in ssa.Instruction) {
			s, ok := in.(*ssa.Store)
			if !ok {
				return
			}
			fa, ok := s.Addr.(*ssa.FieldAddr)
			if !ok || !isField(an.FieldOf(fa)) || freshStruct(an.Strip(fa.X)) {
				return
			}
			c.Bad(fn, "grant rewritten", s.Pos(), an.FnName(fn)+" stores into Authorization."+an.FieldOf(fa).Name()+": a grant is used as the auth server sent it – an answer nsqd does not understand (an unknown permission) is refused whole, not trimmed into one that authorises", nil)
		})
	}
	c.OK(q, "grants are what the auth server sent", q.Pos(), "")
}

// ---- C14.unregscope ------------------------------------------------------------------------------------------

func c14unregscope(c *an.Ctx) {
	fn := c.Fn("nsqlookupd", "(*LookupProtocolV1).UNREGISTER")
	catF := c.P.Field("nsqlookupd", "Registration", "Category")
	if fn == nil || catF == nil {
		if fn != nil {
			c.Anchor("nsqlookupd.Registration.Category")
		}
		return
	}
	n := 0
	for _, name := range []string{"(*RegistrationDB).RemoveProducer", "(*RegistrationDB).RemoveRegistration"} {
		callee := c.Fn("nsqlookupd", name)
		if callee == nil {
			continue
		}
		for _, rc := range an.CallsTo(fn, callee) {
			// in the channel branch?
			inChannelBranch := false
			for _, cmp := range an.CmpsAt(rc.Block()) {
				if cmp.Op != token.NEQ {
					continue
				}
				for _, v := range []ssa.Value{cmp.X, cmp.Y} {
					if s, ok := an.ConstString(v); ok && s == "" {
						inChannelBranch = true
					}
				}
			}
			if !inChannelBranch {
				continue
			}
			n++
			// the key's category, when the key is built here
			bad := false
			key := arg(rc, 0)
			if ld, ok := an.Strip(key).(*ssa.UnOp); ok && ld.Op == token.MUL {
				if al, ok := ld.X.(*ssa.Alloc); ok {
					for _, r := range an.Referrers(al) {
						fa, ok := r.(*ssa.FieldAddr)
						if !ok || an.FieldOf(fa) != catF {
							continue
						}
						for _, r2 := range an.Referrers(fa) {
							if st, ok := r2.(*ssa.Store); ok {
								if s, isC := an.ConstString(st.Val); isC && s != "channel" {
									bad = true
								}
							}
						}
					}
				}
			}
			c.Check(!bad, fn, "channel UNREGISTER stays with channel registrations", rc.Pos(), "", "UNREGISTER with a channel name removes from a registration of another category: the peer never unregistered its topic, yet it disappears from /lookup and the topic from /topics")
		}
	}
	c.Check(n >= 1, fn, "channel branch located", fn.Pos(), "", "UNREGISTER has no removal under a non-empty channel name")
}

// ---- C16.hostport --------------------------------------------------------------------------------------------

func c16hostport(c *an.Ctx) {
	fn := c.Fn("nsqd", "(*NSQD).lookupdHTTPAddrs")
	if fn == nil {
		return
	}
	isJoin := func(v ssa.Value) bool {
		call, ok := v.(*ssa.Call)
		return ok && an.StdCallee(call, "net", "JoinHostPort")
	}
	n := 0
	an.Instrs(fn, func(in ssa.Instruction) {
		call, ok := in.(*ssa.Call)
		if !ok {
			return
		}
		bi, ok := call.Call.Value.(*ssa.Builtin)
		if !ok || bi.Name() != "append" || len(call.Call.Args) != 2 {
			return
		}
		sl, ok := call.Type().Underlying().(*types.Slice)
		if !ok {
			return
		}
		if b, ok := sl.Elem().Underlying().(*types.Basic); !ok || b.Kind() != types.String {
			return
		}
		n++
		c.Check(builtFrom(call.Call.Args[1], isJoin, 0), fn, "address joined with JoinHostPort", call.Pos(), "", "lookupdHTTPAddrs appends an address that is not net.JoinHostPort(broadcast address, port): an nsqlookupd that announces an IPv6 literal yields a URL that cannot be parsed, the channel query fails, and a new topic starts without the channels nsqlookupd knows")
	})
	c.Check(n >= 1, fn, "address list located", fn.Pos(), "", "lookupdHTTPAddrs appends no address")
}

// ---- C17.nogate ----------------------------------------------------------------------------------------------

func c17nogate(c *an.Ctx) {
	n := 0
	for _, name := range []string{"(*ClusterInfo).nsqlookupdPOST", "(*ClusterInfo).producersPOST"} {
		callee := c.Fn("internal/clusterinfo", name)
		if callee == nil {
			continue
		}
		for _, fn := range c.P.PkgFuncs("internal/clusterinfo") {
			for _, pc := range an.CallsTo(fn, callee) {
				n++
				bad := false
				for _, cmp := range an.CmpsAt(pc.Block()) {
					for _, v := range []ssa.Value{cmp.X, cmp.Y} {
						a := lenArgOf(v)
						if a == nil {
							continue
						}
						if sl, ok := a.Type().Underlying().(*types.Slice); ok && an.IsErrorType(sl.Elem()) {
							bad = true
						}
					}
				}
				c.Check(!bad, fn, "fan-out step not conditional on earlier errors", pc.Pos(), "", an.FnName(fn)+" posts to the next set of nodes only when no error was collected so far: one nsqlookupd that is down makes an authorised create/delete/pause skip the nodes that are up, while nsqadmin answers 200 with a warning")
			}
		}
	}
	c.Check(n >= 8, nil, "fan-out steps located", token.NoPos, "", "fewer than eight nsqlookupdPOST/producersPOST call sites found")
}

// ---- C20.jsongate --------------------------------------------------------------------------------------------

func c20jsongate(c *an.Ctx) {
	fn := c.Fn("apps/nsq_to_nsq", "(*PublishHandler).HandleMessage")
	if fn == nil {
		return
	}
	var decodes []ssa.Instruction
	for _, ci := range an.CallsIn(fn, func(ci ssa.CallInstruction) bool { return an.StdCallee(ci, "encoding/json", "Unmarshal") }) {
		decodes = append(decodes, ci.(ssa.Instruction))
	}
	if len(decodes) == 0 {
		c.Und(fn, "JSON decoding only for field filters", fn.Pos(), "HandleMessage no longer calls json.Unmarshal")
		return
	}
	isGlobal := func(v ssa.Value, name string) bool {
		// *requireJSONField (a *string flag): load of a load of the global; whitelistJSONFields: load of the global
		v = an.Strip(v)
		for i := 0; i < 3; i++ {
			u, ok := v.(*ssa.UnOp)
			if !ok || u.Op != token.MUL {
				return false
			}
			if g, ok := u.X.(*ssa.Global); ok {
				return g.Name() == name
			}
			v = u.X
		}
		return false
	}
	q := &an.PathQ{Fn: fn, StartEntry: true, FullOnly: true,
		Sink: func(in ssa.Instruction, _ *an.PathState) bool { return in == decodes[0] },
		CutEdge: func(e an.Edge, ps *an.PathState) bool {
			for _, cmp := range ps.CmpsOnEdge(e) {
				for _, v := range []ssa.Value{cmp.X, cmp.Y} {
					if isGlobal(v, "requireJSONField") {
						if cmp.Op == token.NEQ {
							return true
						}
					}
					if a := lenArgOf(v); a != nil && isGlobal(a, "whitelistJSONFields") {
						if cmp.Op == token.GTR || cmp.Op == token.NEQ || cmp.Op == token.GEQ {
							return true
						}
					}
				}
			}
			return false
		}}
	w, found := q.Find()
	if found {
		c.Bad(fn, "JSON decoding only for field filters", decodes[0].Pos(), "HandleMessage decodes the body as JSON on a path where neither --require-json-field nor --whitelist-json-field is set (another option alone switches the decoding on): a body that is not a JSON object is then dropped – returned nil and auto-finished – although no filter applies to it", w)
	} else {
		c.OK(fn, "JSON decoding only for field filters", decodes[0].Pos(), "")
	}
}
