package rules

import (
	"go/token"
	"go/types"
	"sort"
	"strings"

	"golang.org/x/tools/go/ssa"

	"nsqverif/an"
)

func init() {
	Props["C09"] = PropInfo{
		Explanation: "Decides, for every path of the command handlers (hence for every byte sequence): (dispatch) the 12-entry command table, unknown => fatal E_INVALID, fatal errors leave the IO loop and non-fatal ones continue, wrong magic => E_BAD_PROTOCOL and close; " +
			"(errtype) everything Exec can return is nil, *ClientErr or *FatalClientErr, which discharges the unchecked ChildErr assertion that would otherwise kill the process; " +
			"(wirelen) every allocation sized by a wire integer is dominated by a positive lower bound and an upper bound against an untainted value; (limits) the exact reject regions, error classes and codes of the limit table for sizes, counts and negotiated options; " +
			"(names) every topic/channel name reaching the registries passed the validator; (state) the connection-state table guards every command effect and every dereference of client.Channel; (params) constant indices into the parameter list are in range; " +
			"(mpub) MPUB validates the whole batch before publishing and a publish command that fails enqueued nothing.",
		NotDecided:  "behaviour on sequences of commands beyond the per-command state guard; that other clients are unaffected (C08's concurrency argument); heartbeat/timeouts.",
		Assumptions: []string{"bytes.Split with a non-empty separator returns >= 1 element", "bufio.Reader.ReadSlice returns data ending in the delimiter iff err == nil"},
	}
	reg("C09.dispatch", "SHAPE", "command table maps each of the 12 names to its handler; unknown => fatal E_INVALID; IOLoop leaves on fatal errors only; bad magic => E_BAD_PROTOCOL", 16, c09dispatch)
	reg("C09.errtype", "ETYPE", "Exec returns only nil, *ClientErr or *FatalClientErr (discharges err.(ChildErr) in IOLoop)", 2, c09errtype)
	reg("C09.wirelen", "GUARD", "allocations sized by a wire integer have a dominating lower and upper bound", 3, c09wirelen)
	reg("C09.limits", "GUARD", "limit table: exact reject regions, fatal class and E_* code for sizes/counts; accept regions for negotiated options; name rule", 30, c09limits)
	reg("C09.names", "GUARD+ORIG", "names reaching GetTopic/GetChannel/registries were validated on a dominating edge", 8, c09names)
	reg("C09.state", "GUARD", "connection-state table guards each command's effect; client.Channel is dereferenced only after SUB", 12, c09state)
	reg("C09.params", "GUARD", "constant indices into params are dominated by a sufficient len(params) test", 10, c09params)
	reg("C09.mpub", "PATH", "MPUB enqueues only after the whole batch validated; failed publish commands enqueued nothing", 6, c09mpub)
}

var nsqdCommands = []string{"IDENTIFY", "FIN", "RDY", "REQ", "PUB", "MPUB", "DPUB", "NOP", "TOUCH", "SUB", "CLS", "AUTH"}

// dispatchTable extracts (command string -> handler name) pairs from an Exec function.
func dispatchTable(fn *ssa.Function) map[string]string {
	out := map[string]string{}
	an.Instrs(fn, func(in ssa.Instruction) {
		// `switch string(params[0]) { case "FIN": … }`: string equality tests
		if b, isB := in.(*ssa.BinOp); isB && b.Op == token.EQL {
			if s, isS := an.ConstString(b.Y); isS && s != "" {
				for _, t := range an.BoolTests(b) {
					out[s] = dispatchedFrom(fn, t.True)
				}
			}
			return
		}
		call, ok := in.(*ssa.Call)
		if !ok || !an.StdCallee(call, "bytes", "Equal") {
			return
		}
		var name string
		for _, a := range call.Call.Args {
			if s, ok := an.ConstString(an.Strip(a)); ok {
				name = s
			}
		}
		if name == "" {
			return
		}
		for _, t := range an.BoolTests(call) {
			out[name] = dispatchedFrom(fn, t.True)
		}
	})
	return out
}

// dispatchedFrom: the method of fn's receiver type that is called first on the paths starting with
// edge e – directly, or through a method value the path bound (`h = p.REGISTER; ...; h(args)`).
// "" when a path returns without calling one, "a|b" when paths disagree.
func dispatchedFrom(fn *ssa.Function, e an.Edge) string {
	names := map[string]bool{}
	isHandler := func(in ssa.Instruction, st *an.PathState) string {
		ci, ok := in.(*ssa.Call)
		if !ok {
			return ""
		}
		f := calleeOnPath(ci, st)
		if f == nil || f.Signature.Recv() == nil || fn.Signature.Recv() == nil || !types.Identical(f.Signature.Recv().Type(), fn.Signature.Recv().Type()) {
			return ""
		}
		return f.Name()
	}
	q := &an.PathQ{Fn: fn, StartEdges: []an.Edge{e}, AllAlias: true, FullOnly: true,
		Cut: func(in ssa.Instruction, st *an.PathState) bool {
			if n := isHandler(in, st); n != "" {
				names[n] = true
				return true
			}
			return false
		},
		Sink: func(in ssa.Instruction, _ *an.PathState) bool {
			if _, ok := in.(*ssa.Return); ok {
				names[""] = true
			}
			return false
		}}
	q.Find()
	var out []string
	for n := range names {
		out = append(out, n)
	}
	sort.Strings(out)
	return strings.Join(out, "|")
}

func c09dispatch(c *an.Ctx) {
	exec := c.Fn("nsqd", "(*protocolV2).Exec")
	ioloop := c.Fn("nsqd", "(*protocolV2).IOLoop")
	handle := c.Fn("nsqd", "(*tcpServer).Handle")
	fatal := c.P.Func("internal/protocol", "NewFatalClientErr")
	if exec == nil || ioloop == nil || handle == nil || fatal == nil {
		return
	}
	tbl := dispatchTable(exec)
	for _, cmd := range nsqdCommands {
		c.Check(tbl[cmd] == cmd, exec, "command "+cmd+" dispatches to its handler", exec.Pos(), "",
			sprintf("command %s is dispatched to %q", cmd, tbl[cmd]))
	}
	for k := range tbl {
		known := false
		for _, cmd := range nsqdCommands {
			if cmd == k {
				known = true
			}
		}
		c.Check(known, exec, "no undocumented command "+k, exec.Pos(), "", "Exec accepts a command that the protocol does not define")
	}
	// fallthrough: fatal E_INVALID
	okFall := false
	for _, r := range an.Returns(exec) {
		e := errOperand(r)
		if call := an.CallResultOf(e, fatal); call != nil {
			if code, ok := an.ConstString(call.Call.Args[1]); ok && code == "E_INVALID" {
				if _, isSprintf := an.Strip(call.Call.Args[2]).(*ssa.Call); isSprintf {
					okFall = true
				}
			}
		}
	}
	c.Check(okFall, exec, "unknown command => fatal E_INVALID", exec.Pos(), "", "an unknown command is not answered with the fatal E_INVALID")
	// IOLoop: loop exits
	loops := an.NaturalLoops(ioloop)
	var execCall ssa.CallInstruction
	for _, ci := range an.CallsTo(ioloop, exec) {
		execCall = ci
	}
	if execCall == nil {
		c.Bad(ioloop, "IOLoop executes commands", ioloop.Pos(), "IOLoop never calls Exec", nil)
		return
	}
	l := an.LoopContaining(loops, execCall.Block())
	if l == nil {
		c.Bad(ioloop, "IOLoop executes commands", execCall.Pos(), "Exec is not called in a loop", nil)
		return
	}
	// the comma-ok assertion to *FatalClientErr decides: true leaves the loop, false stays
	foundFatal := fatalDecides(ioloop, l)
	c.Check(foundFatal, ioloop, "fatal error closes, non-fatal continues", execCall.Pos(), "", "IOLoop does not leave the loop exactly when Exec's error is a *FatalClientErr (a non-fatal error must keep the connection, a fatal one must close it)")
	// error from Exec is sent to the client before deciding
	send := c.P.Func("nsqd", "(*protocolV2).Send")
	_, failE := an.ErrEdges(execCall.Value())
	if send != nil {
		q := &an.PathQ{Fn: ioloop, StartEdges: failE, Sink: an.IsReturn,
			SinkEdge: func(e an.Edge, _ *an.PathState) bool { return e.To == l.Header },
			Cut:      func(in ssa.Instruction, _ *an.PathState) bool { return isCallToOn(in, send, nil) }}
		w, f := q.Find()
		if f || len(failE) == 0 {
			c.Bad(ioloop, "command error is reported to the client", execCall.Pos(), "an error from Exec can be swallowed without an error frame being sent", w)
		} else {
			c.OK(ioloop, "command error is reported to the client", execCall.Pos(), "")
		}
	}
	// on exit: client removed from its channel, ExitChan closed
	remove := c.P.Func("nsqd", "(*Channel).RemoveClient")
	q := &an.PathQ{Fn: ioloop, StartEntry: true, Sink: an.IsReturn, Cut: func(in ssa.Instruction, _ *an.PathState) bool {
		_, ok := isBuiltinCall(in, "close")
		return ok
	}}
	_, f := q.Find()
	c.Check(!f, ioloop, "exit closes ExitChan", ioloop.Pos(), "", "IOLoop can return without closing client.ExitChan: the message pump goroutine leaks and keeps delivering")
	if remove != nil {
		chF := c.P.Field("nsqd", "clientV2", "Channel")
		q := &an.PathQ{Fn: ioloop, StartEntry: true, Sink: an.IsReturn,
			Cut: func(in ssa.Instruction, _ *an.PathState) bool { return isCallToOn(in, remove, nil) },
			CutEdge: func(e an.Edge, _ *an.PathState) bool {
				for _, cmp := range an.CmpsOnEdge(e) {
					if cmp.Op == token.EQL && isLoadOfField(cmp.X, chF) && an.IsNilConst(cmp.Y) {
						return true
					}
				}
				return false
			}}
		_, f := q.Find()
		c.Check(!f, ioloop, "exit unsubscribes the client", ioloop.Pos(), "", "IOLoop can return while the client is still registered on its channel")
	}
	// tcpServer.Handle: magic
	v2ok := false
	an.Instrs(handle, func(in ssa.Instruction) {
		b, ok := in.(*ssa.BinOp)
		if !ok || (b.Op != token.EQL && b.Op != token.NEQ) {
			return
		}
		if s, ok := an.ConstString(b.Y); ok && s == "  V2" {
			for _, t := range an.BoolTests(b) {
				if b.Op == token.NEQ {
					// `if magic != "  V2" { refuse }`: the accepting edge is the false one
					t.True, t.False = t.False, t.True
				}
				// IOLoop invoke only reachable via the true edge
				q := &an.PathQ{Fn: handle, StartEntry: true,
					Sink:    func(in ssa.Instruction, _ *an.PathState) bool { return isInvokeOn(in, "Protocol", "IOLoop", nil) },
					CutEdge: func(e an.Edge, _ *an.PathState) bool { return e == t.True }}
				if _, f := q.Find(); !f {
					// false edge: sends E_BAD_PROTOCOL and closes
					sent, closed := false, false
					q2 := &an.PathQ{Fn: handle, StartEdges: []an.Edge{t.False}, Sink: an.IsReturn, Cut: func(in ssa.Instruction, _ *an.PathState) bool {
						if ci, ok := in.(ssa.CallInstruction); ok {
							if f := an.StaticCallee(ci); f != nil && an.BaseName(f) == "SendFramedResponse" {
								for _, a := range ci.Common().Args {
									if s, ok := an.ConstString(an.Strip(a)); ok && s == "E_BAD_PROTOCOL" {
										sent = true
									}
								}
							}
						}
						return false
					}}
					q2.Find()
					q3 := &an.PathQ{Fn: handle, StartEdges: []an.Edge{t.False}, Sink: an.IsReturn, Cut: func(in ssa.Instruction, _ *an.PathState) bool {
						return isInvokeOn(in, "Conn", "Close", nil)
					}}
					_, f3 := q3.Find()
					closed = !f3
					if sent && closed {
						v2ok = true
					}
				}
			}
		}
	})
	c.Check(v2ok, handle, "bad magic => E_BAD_PROTOCOL and close", handle.Pos(), "", "a connection with a magic other than \"  V2\" is not answered E_BAD_PROTOCOL and closed, or reaches the protocol loop")
}

func typeStrShort(t types.Type) string {
	s := types.TypeString(t, nil)
	if i := strings.LastIndex(s, "/"); i >= 0 {
		pre := ""
		for strings.HasPrefix(s, "*") {
			pre += "*"
			s = s[1:]
			i--
		}
		return pre + s[i+1:]
	}
	return s
}

// reachesHeader: starting on edge e, the loop header can be reached again without leaving the loop.
func reachesHeader(fn *ssa.Function, e an.Edge, l *an.Loop) bool {
	if !l.Blocks[e.To] {
		return false
	}
	q := &an.PathQ{Fn: fn, StartEdges: []an.Edge{e}, NoFold: true,
		SinkEdge: func(x an.Edge, _ *an.PathState) bool { return x.To == l.Header },
		CutEdge:  func(x an.Edge, _ *an.PathState) bool { return !l.Blocks[x.To] }}
	_, f := q.Find()
	return f || e.To == l.Header
}

func errTypeCheck(c *an.Ctx, fn *ssa.Function, idx int, allowed map[string]bool, construct, consequence string) {
	et := an.NewETypes(c.P)
	res := et.Result(fn, idx)
	var bad []string
	var pos token.Pos
	for _, t := range an.SortedTypes(res) {
		if !allowed[t] {
			bad = append(bad, t)
			if !pos.IsValid() {
				pos = res[t]
			}
		}
	}
	if len(bad) == 0 {
		c.OK(fn, construct, fn.Pos(), "dynamic types: "+strings.Join(an.SortedTypes(res), ", "))
	} else {
		if !pos.IsValid() {
			pos = fn.Pos()
		}
		c.Bad(fn, construct, pos, sprintf("%s can return an error of dynamic type %s (produced at %s); %s", an.FnName(fn), strings.Join(bad, ", "), c.P.Pos(pos), consequence), nil)
	}
}

func c09errtype(c *an.Ctx) {
	exec := c.Fn("nsqd", "(*protocolV2).Exec")
	ioloop := c.Fn("nsqd", "(*protocolV2).IOLoop")
	if exec == nil || ioloop == nil {
		return
	}
	allowed := map[string]bool{"nil": true, "*internal/protocol.ClientErr": true, "*internal/protocol.FatalClientErr": true}
	errTypeCheck(c, exec, 1, allowed, "Exec error types", "IOLoop's unchecked err.(protocol.ChildErr) then panics on the connection goroutine, which has no recover: the whole daemon dies")
	// the assertion exists and is applied to Exec's error
	n := 0
	an.Instrs(ioloop, func(in ssa.Instruction) {
		ta, ok := in.(*ssa.TypeAssert)
		if !ok || ta.CommaOk {
			return
		}
		n++
		fromExec := an.OriginsAll(ta.X, func(o ssa.Value) bool { return an.CallResultOf(o, exec) != nil })
		if typeStrShort(ta.AssertedType) == "protocol.ChildErr" {
			c.Check(fromExec, ioloop, "unchecked assertion to ChildErr applies to Exec's error", ta.Pos(), "", "an unchecked type assertion in IOLoop is applied to a value that does not come from Exec")
		}
	})
}

// isWireInt: v originates from an integer read off the wire.
func wireOrigin(c *an.Ctx, v ssa.Value) (ssa.Value, bool) {
	var q ssa.Value
	for _, o := range an.Origins(v) {
		switch x := o.(type) {
		case *ssa.Extract:
			if call, ok := x.Tuple.(*ssa.Call); ok {
				if f := an.StaticCallee(call); f != nil && an.BaseName(f) == "readLen" {
					q = x
				}
			}
		case *ssa.Call:
			if f := an.StaticCallee(x); f != nil && f.Pkg != nil && f.Pkg.Pkg.Path() == "encoding/binary" && strings.HasPrefix(f.Name(), "Uint") {
				q = x
			}
		case *ssa.UnOp:
			if x.Op == token.MUL {
				if al, ok := x.X.(*ssa.Alloc); ok && passedToBinaryRead(al) {
					q = x
				}
			}
		}
	}
	return q, q != nil
}

func passedToBinaryRead(al *ssa.Alloc) bool {
	for _, r := range an.Referrers(al) {
		if mi, ok := r.(*ssa.MakeInterface); ok {
			for _, rr := range an.Referrers(mi) {
				if call, ok := rr.(*ssa.Call); ok && an.StdCallee(call, "encoding/binary", "Read") {
					return true
				}
			}
		}
	}
	return false
}

// sameQty: x denotes the same wire quantity as q.
func sameQty(x, q ssa.Value) bool {
	x, q = an.Strip(x), an.Strip(q)
	if x == q {
		return true
	}
	ux, ok1 := x.(*ssa.UnOp)
	uq, ok2 := q.(*ssa.UnOp)
	if ok1 && ok2 && ux.Op == token.MUL && uq.Op == token.MUL && ux.X == uq.X {
		if _, isAlloc := ux.X.(*ssa.Alloc); isAlloc {
			return true
		}
	}
	return false
}

// wireLenCheck checks every MakeSlice in fns whose length/capacity is a wire integer.
func wireLenCheck(c *an.Ctx, fns []*ssa.Function) int {
	n := 0
	for _, fn := range fns {
		an.Instrs(fn, func(in ssa.Instruction) {
			ms, ok := in.(*ssa.MakeSlice)
			if !ok {
				return
			}
			dims := []struct {
				v    ssa.Value
				what string
			}{{ms.Len, "len"}, {ms.Cap, "cap"}}
			if ms.Len == ms.Cap {
				dims = dims[:1]
			}
			for _, dim := range dims {
				if _, isC := an.ConstInt(dim.v); isC {
					continue
				}
				q, isWire := wireOrigin(c, dim.v)
				if !isWire {
					continue
				}
				n++
				b := an.BoundsOf(ms.Block(), func(x ssa.Value) bool { return sameQty(x, q) })
				lower, upper := false, false
				for _, l := range b.Lower {
					if k, isC := an.ConstInt(l.Y); isC && ((l.Op == token.GTR && k >= -1) || (l.Op == token.GEQ && k >= 0)) {
						lower = true
					}
				}
				for _, u := range b.Upper {
					if _, tainted := wireOrigin(c, u.Y); !tainted {
						upper = true
					}
				}
				construct := "makeslice(" + dim.what + " <- wire integer)"
				if lower && upper {
					c.OK(fn, construct, ms.Pos(), "")
				} else {
					miss := ""
					if !lower {
						miss += "no lower bound (a negative size panics makeslice on a goroutine without recover: the process dies); "
					}
					if !upper {
						miss += "no upper bound against an untainted limit (a peer can demand an allocation of up to 2 GiB per connection); "
					}
					c.Bad(fn, construct, ms.Pos(), "allocation sized by an integer read off the wire: "+miss, nil)
				}
			}
		})
	}
	return n
}

func c09wirelen(c *an.Ctx) {
	var fns []*ssa.Function
	for _, fn := range c.P.PkgFuncs("nsqd") {
		if an.BaseName(fn) == "readResponseBounded" {
			continue // reads nsqlookupd's replies, not client input: decided by C16.bounded
		}
		fns = append(fns, fn)
	}
	wireLenCheck(c, fns)
}

// rejectEdgesOf: edges leaving the guard Ifs that cannot reach `use`.
func rejectEdgesOf(fn *ssa.Function, ifs []*ssa.If, use ssa.Instruction) []an.Edge {
	var rej []an.Edge
	seen := map[an.Edge]bool{}
	for _, ifi := range ifs {
		if ifi == nil {
			continue
		}
		blk := ifi.Block()
		for _, s := range blk.Succs {
			e := an.Edge{From: blk, To: s}
			if seen[e] {
				continue
			}
			seen[e] = true
			q := &an.PathQ{Fn: fn, StartEdges: []an.Edge{e}, Sink: func(in ssa.Instruction, _ *an.PathState) bool { return in == use }}
			if _, f := q.Find(); !f {
				rej = append(rej, e)
			}
		}
	}
	return rej
}

type sizeRow struct {
	fn     string
	nth    int    // which readLen call (0-based, source order)
	use    string // "makeslice" | "readMPUB"
	upper  string // Options field, or "param:<name>" or "maxMessages"
	code   string
	strict bool
}

func c09limits(c *an.Ctx) {
	fatal := c.P.Func("internal/protocol", "NewFatalClientErr")
	readLen := c.Fn("nsqd", "readLen")
	readMPUB := c.Fn("nsqd", "readMPUB")
	if fatal == nil || readLen == nil || readMPUB == nil {
		return
	}
	rows := []sizeRow{
		{"(*protocolV2).PUB", 0, "makeslice", "MaxMsgSize", "E_BAD_MESSAGE", true},
		{"(*protocolV2).DPUB", 0, "makeslice", "MaxMsgSize", "E_BAD_MESSAGE", true},
		{"(*protocolV2).MPUB", 0, "readMPUB", "MaxBodySize", "E_BAD_BODY", true},
		{"(*protocolV2).IDENTIFY", 0, "makeslice", "MaxBodySize", "E_BAD_BODY", true},
		{"(*protocolV2).AUTH", 0, "makeslice", "MaxBodySize", "E_BAD_BODY", true},
		{"readMPUB", 0, "makeslice", "maxMessages", "E_BAD_BODY", true},
		{"readMPUB", 1, "makeslice", "param:maxMessageSize", "E_BAD_MESSAGE", true},
	}
	for _, row := range rows {
		fn := c.Fn("nsqd", row.fn)
		if fn == nil {
			continue
		}
		rls := an.CallsTo(fn, readLen)
		if row.nth >= len(rls) {
			c.Bad(fn, "size row "+row.upper, fn.Pos(), "expected readLen call is missing", nil)
			continue
		}
		rl := rls[row.nth]
		qs := an.ResultN(rl.Value(), 0)
		if len(qs) != 1 {
			c.Und(fn, "size row "+row.upper, rl.Pos(), "readLen result not extracted once")
			continue
		}
		q := qs[0]
		// the use
		var use ssa.Instruction
		an.Instrs(fn, func(in ssa.Instruction) {
			if use != nil {
				return
			}
			switch row.use {
			case "makeslice":
				if ms, ok := in.(*ssa.MakeSlice); ok {
					if sameQty(ms.Len, q) || sameQty(ms.Cap, q) {
						use = in
					}
				}
				// other ways of consuming exactly n bytes: bufio Peek/Discard, io.CopyN, io.LimitReader
				if call, ok := in.(*ssa.Call); ok {
					n := -1
					switch {
					case an.StdCallee(call, "bufio", "(*Reader).Peek"), an.StdCallee(call, "bufio", "(*Reader).Discard"), an.StdCallee(call, "io", "LimitReader"):
						n = 1
					case an.StdCallee(call, "io", "CopyN"):
						n = 2
					}
					if n >= 0 && n < len(call.Call.Args) && sameQty(call.Call.Args[n], q) {
						use = in
					}
				}
			case "readMPUB":
				if isCallToOn(in, readMPUB, nil) && an.Reaches(rl.(ssa.Instruction), in) {
					use = in
				}
			}
		})
		construct := sprintf("%s length #%d in (0, %s]", row.use, row.nth, row.upper)
		if use == nil {
			c.Bad(fn, construct, rl.Pos(), "the length read off the wire is never used to size the body read", nil)
			continue
		}
		b := an.BoundsOf(use.Block(), func(x ssa.Value) bool { return sameQty(x, q) })
		var ifs []*ssa.If
		lower, upper := false, false
		for _, l := range b.Lower {
			if k, isC := an.ConstInt(l.Y); isC && ((l.Op == token.GTR && k == 0) || (l.Op == token.GEQ && k == 1)) {
				lower = true
				ifs = append(ifs, l.If)
			}
		}
		for _, u := range b.Upper {
			if u.Op != token.LEQ {
				continue
			}
			okU := false
			switch {
			case row.upper == "maxMessages":
				// (maxBodySize - 4) / 5
				if qv, ok := an.Strip(u.Y).(*ssa.BinOp); ok && qv.Op == token.QUO {
					if k, isC := an.ConstInt(qv.Y); isC && k == 5 {
						if sv, ok := qv.X.(*ssa.BinOp); ok && sv.Op == token.SUB {
							if k2, isC := an.ConstInt(sv.Y); isC && k2 == 4 {
								if an.NamedInput(sv.X, "maxBodySize") {
									okU = true
								}
							}
						}
					}
				}
			case strings.HasPrefix(row.upper, "param:"):
				if an.NamedInput(u.Y, row.upper[6:]) {
					okU = true
				}
			default:
				okU = isOptsField(c, u.Y, "nsqd", row.upper)
			}
			if okU {
				upper = true
				ifs = append(ifs, u.If)
			}
		}
		if !(lower && upper) {
			c.Bad(fn, construct, use.Pos(), sprintf("the accept region is not exactly 0 < L <= %s (lower ok=%v, upper ok=%v): a boundary value is wrongly accepted or rejected", row.upper, lower, upper), nil)
			continue
		}
		c.OK(fn, construct, use.Pos(), "")
		rej := rejectEdgesOf(fn, ifs, use)
		ok, why, w := errReturnsFrom(fn, rej, fatal, row.code)
		if ok && len(rej) > 0 {
			c.OK(fn, construct+" reject => fatal "+row.code, use.Pos(), "")
		} else {
			c.Bad(fn, construct+" reject => fatal "+row.code, use.Pos(), "an out-of-range size is not answered with the fatal "+row.code+": "+why, w)
		}
	}
	// readMPUB call sites pass (MaxMsgSize, MaxBodySize)
	for _, fn := range c.P.PkgFuncs("nsqd") {
		for _, ci := range an.CallsTo(fn, readMPUB) {
			// positionally or through a parameter object – by the callee's input names
			mm, mb := an.CallInput(ci, readMPUB, "maxMessageSize"), an.CallInput(ci, readMPUB, "maxBodySize")
			good := mm != nil && mb != nil && isOptsField(c, mm, "nsqd", "MaxMsgSize") && isOptsField(c, mb, "nsqd", "MaxBodySize")
			c.Check(good, fn, "readMPUB limits are (MaxMsgSize, MaxBodySize)", ci.Pos(), "", "readMPUB is not given opts.MaxMsgSize and opts.MaxBodySize in that order")
		}
	}
	// negotiated options
	type optRow struct {
		fn, field string
		param     int    // parameter index carrying the client value
		lo        int64  // inclusive lower bound of the scaled range
		hiOpt     string // Options field bounding from above (after /ms when scaled)
		loOpt     string
		scaled    bool
		consts    map[int64]int64 // param value -> stored constant
	}
	opts := []optRow{
		{"(*clientV2).SetHeartbeatInterval", "HeartbeatInterval", 1, 1000, "MaxHeartbeatInterval", "", true, map[int64]int64{-1: 0}},
		{"(*clientV2).SetOutputBuffer", "OutputBufferTimeout", 2, 0, "MaxOutputBufferTimeout", "MinOutputBufferTimeout", true, map[int64]int64{-1: 0}},
		{"(*clientV2).SetOutputBuffer", "OutputBufferSize", 1, 64, "MaxOutputBufferSize", "", false, map[int64]int64{-1: 1}},
		{"(*clientV2).SetMsgTimeout", "MsgTimeout", 1, 1000, "MaxMsgTimeout", "", true, nil},
	}
	for _, row := range opts {
		fn := c.Fn("nsqd", row.fn)
		if fn == nil {
			continue
		}
		fld := c.P.Field("nsqd", "clientV2", row.field)
		param := fn.Params[row.param]
		n := 0
		an.Instrs(fn, func(in ssa.Instruction) {
			st, ok := in.(*ssa.Store)
			if !ok {
				return
			}
			fa, ok := st.Addr.(*ssa.FieldAddr)
			if !ok || an.FieldOf(fa) != fld {
				return
			}
			n++
			construct := "store to " + row.field
			if k, isC := an.ConstInt(st.Val); isC {
				// constant: must be under param == the designated sentinel (or the size==-1 arm that also zeroes the timeout)
				good := false
				for _, cmp := range an.CmpsAt(st.Block()) {
					if cmp.Op != token.EQL {
						continue
					}
					if pk, isC := an.ConstInt(cmp.Y); isC {
						if p, ok := cmp.X.(*ssa.Parameter); ok {
							if p == param && row.consts[pk] == k {
								if _, has := row.consts[pk]; has {
									good = true
								}
							}
							// SetOutputBuffer: desiredSize == -1 also sets OutputBufferTimeout = 0
							if row.field == "OutputBufferTimeout" && p == fn.Params[1] && pk == -1 && k == 0 {
								good = true
							}
						}
					}
				}
				c.Check(good, fn, construct+sprintf(" = %d", k), st.Pos(), "", sprintf("the constant %d is stored into %s outside its sentinel case", k, row.field))
				return
			}
			// derived from the parameter: need lo <= p <= opts.hi(/ms)
			if !dependsOn(st.Val, param, 0) {
				c.Bad(fn, construct, st.Pos(), row.field+" is set from something other than the client's value or a sentinel constant", nil)
				return
			}
			b := an.BoundsOf(st.Block(), func(x ssa.Value) bool { return x == ssa.Value(param) })
			lo, hi := false, false
			for _, l := range b.Lower {
				if l.Op != token.GEQ {
					continue
				}
				if row.loOpt != "" {
					if optBound(c, l.Y, row.loOpt, row.scaled) {
						lo = true
					}
				} else if k, isC := an.ConstInt(l.Y); isC && k == row.lo {
					lo = true
				}
			}
			for _, u := range b.Upper {
				if u.Op == token.LEQ && optBound(c, u.Y, row.hiOpt, row.scaled) {
					hi = true
				}
			}
			c.Check(lo && hi, fn, construct+" within the negotiable range", st.Pos(), "",
				sprintf("%s can be set from a client value outside its documented range (lower ok=%v, upper ok=%v; upper must be opts.%s)", row.field, lo, hi, row.hiOpt))
		})
		if n == 0 {
			c.Bad(fn, "store to "+row.field, fn.Pos(), "the negotiated value is never stored", nil)
		}
		// everything else is an error: the default arm returns a non-nil error
	}
	// sample rate
	if fn := c.Fn("nsqd", "(*clientV2).SetSampleRate"); fn != nil {
		srF := c.P.Field("nsqd", "clientV2", "SampleRate")
		good := false
		an.Instrs(fn, func(in ssa.Instruction) {
			call, ok := in.(*ssa.Call)
			if !ok || !an.StdCallee(call, "sync/atomic", "StoreInt32") {
				return
			}
			fa, ok := call.Call.Args[0].(*ssa.FieldAddr)
			if !ok || an.FieldOf(fa) != srF || !isParam(call.Call.Args[1], fn, 1) {
				return
			}
			b := an.BoundsOf(call.Block(), func(x ssa.Value) bool { return x == ssa.Value(fn.Params[1]) })
			lo, hi := false, false
			for _, l := range b.Lower {
				if k, isC := an.ConstInt(l.Y); isC && ((l.Op == token.GEQ && k == 0) || (l.Op == token.GTR && k == -1)) {
					lo = true
				}
			}
			for _, u := range b.Upper {
				if k, isC := an.ConstInt(u.Y); isC && ((u.Op == token.LEQ && k == 99) || (u.Op == token.LSS && k == 100)) {
					hi = true
				}
			}
			good = lo && hi
		})
		c.Check(good, fn, "sample rate within [0,99]", fn.Pos(), "", "SetSampleRate stores a value that is not proven to be within [0, 99]")
	}
	// Identify: every setter error aborts (returns the error) and IDENTIFY maps it to fatal E_BAD_BODY
	if fn := c.Fn("nsqd", "(*clientV2).Identify"); fn != nil {
		for _, name := range []string{"SetHeartbeatInterval", "SetOutputBuffer", "SetSampleRate", "SetMsgTimeout"} {
			setter := c.P.Func("nsqd", "(*clientV2)."+name)
			calls := an.CallsTo(fn, setter)
			good := len(calls) == 1
			for _, sc := range calls {
				_, fail := an.ErrEdges(sc.Value())
				if len(fail) == 0 {
					good = false
				}
				q := &an.PathQ{Fn: fn, StartEdges: fail, Sink: sinkSuccessReturn}
				if _, f := q.Find(); f {
					good = false
				}
			}
			c.Check(good, fn, "Identify enforces "+name, fn.Pos(), "", "an out-of-range "+name+" value does not fail IDENTIFY")
		}
	}
	if fn := c.Fn("nsqd", "(*protocolV2).IDENTIFY"); fn != nil {
		ident := c.P.Func("nsqd", "(*clientV2).Identify")
		for _, ic := range an.CallsTo(fn, ident) {
			_, fail := an.ErrEdges(ic.Value())
			ok, why, w := errReturnsFrom(fn, fail, fatal, "E_BAD_BODY")
			if ok && len(fail) > 0 {
				c.OK(fn, "invalid negotiation => fatal E_BAD_BODY", ic.Pos(), "")
			} else {
				c.Bad(fn, "invalid negotiation => fatal E_BAD_BODY", ic.Pos(), why, w)
			}
		}
	}
	// name rule
	{
		// the name predicate: IsValidTopicName / IsValidChannelName decide themselves or forward their argument to a shared
		// helper (isValidName on the pinned tree); the predicate is checked where it is decided
		re := c.P.Global("internal/protocol", "validTopicChannelNameRegex")
		deciders := map[*ssa.Function]bool{}
		for _, w := range []string{"IsValidTopicName", "IsValidChannelName"} {
			wf := c.Fn("internal/protocol", w)
			if wf == nil {
				continue
			}
			d := wf
			for _, r := range an.Returns(wf) {
				if call, ok := an.Strip(an.Resolve(r.Results[0])).(*ssa.Call); ok {
					if g := an.StaticCallee(call); g != nil && g.Pkg == wf.Pkg && len(g.Blocks) > 0 && len(call.Call.Args) == 1 && isParam(call.Call.Args[0], wf, 0) {
						d = g
					}
				}
			}
			deciders[d] = true
			c.OK(wf, w+" is isValidName", wf.Pos(), "decided by "+d.Name())
		}
		for fn := range deciders {
			for _, r := range an.Returns(fn) {
				v := an.Resolve(r.Results[0])
				if k, ok := v.(*ssa.Const); ok && k.Value != nil && k.Value.String() == "false" {
					continue
				}
				lenOK64, reOK := false, false
				for _, cmp := range an.CmpsAt(r.Block()) {
					oc, ok := cmp.Oriented(func(x ssa.Value) bool { a := lenArgOf(x); return a != nil && isParam(a, fn, 0) })
					if !ok {
						continue
					}
					k, isC := an.ConstInt(oc.Y)
					if !isC {
						continue
					}
					if (oc.Op == token.LEQ && k == 64) || (oc.Op == token.LSS && k == 65) {
						lenOK64 = true
					}
				}
				if call, ok := v.(*ssa.Call); ok && an.StdCallee(call, "regexp", "(*Regexp).MatchString") && isParam(call.Call.Args[1], fn, 0) {
					if u, ok := call.Call.Args[0].(*ssa.UnOp); ok && re != nil && u.X == ssa.Value(re) {
						reOK = true
					}
				}
				// the regex's `+` already requires one character: an explicit len >= 1 test is redundant
				c.Check(lenOK64 && reOK, fn, "valid name: at most 64 chars matching the name regex", r.Pos(), "", sprintf("%s can accept a name without: len<=64 (%v), regex match (%v)", fn.Name(), lenOK64, reOK))
			}
		}
		// the regex literal
		if init := c.P.Func("internal/protocol", "init"); init != nil && re != nil {
			lit := ""
			an.Instrs(init, func(in ssa.Instruction) {
				if call, ok := in.(*ssa.Call); ok && an.StdCallee(call, "regexp", "MustCompile") {
					for _, r := range an.Referrers(call) {
						if st, ok := r.(*ssa.Store); ok && st.Addr == ssa.Value(re) {
							lit, _ = an.ConstString(call.Call.Args[0])
						}
					}
				}
			})
			c.Check(lit == `^[.a-zA-Z0-9_-]+(#ephemeral)?$`, init, "name regex literal", init.Pos(), "", "the topic/channel name regex is "+lit+", not ^[.a-zA-Z0-9_-]+(#ephemeral)?$")
		}
	}
}

// optBound: v == opts.<field> (unscaled) or int(opts.<field>/time.Millisecond) (scaled).
// dependsOn: v is computed from target through conversions and arithmetic.
func dependsOn(v ssa.Value, target ssa.Value, d int) bool {
	if d > 6 {
		return false
	}
	if v == target {
		return true
	}
	switch x := v.(type) {
	case *ssa.Convert:
		return dependsOn(x.X, target, d+1)
	case *ssa.ChangeType:
		return dependsOn(x.X, target, d+1)
	case *ssa.BinOp:
		return dependsOn(x.X, target, d+1) || dependsOn(x.Y, target, d+1)
	case *ssa.Phi:
		for _, e := range x.Edges {
			if dependsOn(e, target, d+1) {
				return true
			}
		}
	}
	return false
}

func optBound(c *an.Ctx, v ssa.Value, field string, scaled bool) bool {
	v = an.Strip(v)
	if !scaled {
		return isOptsField(c, v, "nsqd", field)
	}
	q, ok := v.(*ssa.BinOp)
	if !ok || q.Op != token.QUO {
		return false
	}
	k, isC := an.ConstInt(q.Y)
	return isC && k == 1000000 && isOptsField(c, q.X, "nsqd", field)
}

func c09names(c *an.Ctx) {
	getTopic := c.Fn("nsqd", "(*NSQD).GetTopic")
	getCh := c.Fn("nsqd", "(*Topic).GetChannel")
	vt := c.P.Func("internal/protocol", "IsValidTopicName")
	vc := c.P.Func("internal/protocol", "IsValidChannelName")
	if getTopic == nil || getCh == nil || vt == nil || vc == nil {
		return
	}
	gtca := c.P.Func("internal/http_api", "GetTopicChannelArgs")
	getExistingTopicQ := c.P.Func("nsqd", "(*httpServer).getExistingTopicFromQuery")
	// helper summaries: results that are validated names when err == nil
	validatedResult := func(v ssa.Value, validator *ssa.Function, blk *ssa.BasicBlock) bool {
		// direct: dominated by validator(v) true
		for _, f := range an.FactsAt(blk) {
			if call, ok := f.V.(*ssa.Call); ok && f.True && an.IsCallTo(call, validator) && an.SameValue(call.Call.Args[0], v) {
				return true
			}
		}
		// via helper results
		if ex, ok := an.Strip(v).(*ssa.Extract); ok {
			if call, ok := ex.Tuple.(*ssa.Call); ok {
				if gtca != nil && an.IsCallTo(call, gtca) && ((ex.Index == 0 && validator == vt) || (ex.Index == 1 && validator == vc)) {
					return true
				}
				if getExistingTopicQ != nil && an.IsCallTo(call, getExistingTopicQ) && ex.Index == 2 && validator == vc {
					return true
				}
			}
		}
		return false
	}
	exempt := map[string]string{
		"(*nsqd.NSQD).GetTopic": "channel names learned from nsqlookupd (peer data, not client input) – advisory only",
	}
	for _, fn := range c.P.PkgFuncs("nsqd") {
		for _, spec := range []struct {
			callee, validator *ssa.Function
			what              string
		}{{getTopic, vt, "topic"}, {getCh, vc, "channel"}} {
			for _, ci := range an.CallsTo(fn, spec.callee) {
				if why := exempt[an.FnName(fn)]; why != "" {
					c.OK(fn, spec.what+" name validated before "+spec.callee.Name(), ci.Pos(), "allowed: "+why)
					continue
				}
				name := arg(ci, 0)
				// closures (deleteCallback) pass an existing object's name
				if f, _ := an.LoadedField(an.Strip(name)); f != nil && f.Name() == "name" {
					c.OK(fn, spec.what+" name validated before "+spec.callee.Name(), ci.Pos(), "name of an existing object")
					continue
				}
				good := validatedResult(name, spec.validator, ci.Block())
				c.Check(good, fn, spec.what+" name validated before "+spec.callee.Name(), ci.Pos(), "",
					"a "+spec.what+" name reaches "+spec.callee.Name()+" without having passed IsValid"+strings.Title(spec.what)+"Name on a dominating edge: names with arbitrary bytes become registry keys, file names and lookupd registrations")
			}
		}
	}
	// helper summaries are obligations themselves
	if gtca != nil {
		okT, okC, w := namesValidatedOnPaths(gtca, vt, vc, false)
		if okT && okC {
			c.OK(gtca, "GetTopicChannelArgs returns validated names", gtca.Pos(), "")
		} else {
			c.Bad(gtca, "GetTopicChannelArgs returns validated names", gtca.Pos(), "GetTopicChannelArgs can return (topic, channel, nil) without both names having been validated", w)
		}
	}
	if getExistingTopicQ != nil && gtca != nil {
		for _, r := range an.Returns(getExistingTopicQ) {
			if !isSuccessReturn(r) {
				continue
			}
			// on every path that ends in this return as a success, the channel name is the validated result of a
			// GetTopicChannelArgs call whose success edge the path took
			var succ []an.Edge
			for _, gc := range an.CallsTo(getExistingTopicQ, gtca) {
				se, _ := an.ErrEdges(gc.Value())
				succ = append(succ, se...)
			}
			validated := func(v ssa.Value) bool {
				ex, ok := an.Strip(an.Resolve(v)).(*ssa.Extract)
				if !ok || ex.Index != 1 {
					return false
				}
				call, ok := ex.Tuple.(*ssa.Call)
				return ok && an.IsCallTo(call, gtca)
			}
			rr := r
			q1 := &an.PathQ{Fn: getExistingTopicQ, StartEntry: true, FullOnly: true, AllAlias: true,
				Sink: func(in ssa.Instruction, ps *an.PathState) bool {
					if in != ssa.Instruction(rr) || !sinkSuccessReturn(in, ps) {
						return false
					}
					v := rr.Results[2]
					if ps != nil {
						v = ps.Selected(v)
					}
					return !validated(v)
				}}
			q2 := &an.PathQ{Fn: getExistingTopicQ, StartEntry: true, FullOnly: true,
				Sink: func(in ssa.Instruction, ps *an.PathState) bool {
					return in == ssa.Instruction(rr) && sinkSuccessReturn(in, ps)
				},
				CutEdge: func(e an.Edge, _ *an.PathState) bool { return an.EdgeIn(e, succ) }}
			_, f1 := q1.Find()
			_, f2 := q2.Find()
			good := len(succ) > 0 && !f1 && !f2
			c.Check(good, getExistingTopicQ, "getExistingTopicFromQuery returns a validated channel name", r.Pos(), "", "the channel name returned on success is not GetTopicChannelArgs' validated result")
		}
	}
}

type stateRow struct {
	cmd     string
	allowed []string
	effects []string // callee names whose call is the command's effect
}

func c09state(c *an.Ctx) {
	stateF := c.P.Field("nsqd", "clientV2", "State")
	chF := c.P.Field("nsqd", "clientV2", "Channel")
	rows := []stateRow{
		{"IDENTIFY", []string{"stateInit"}, []string{"readLen", "Identify"}},
		{"AUTH", []string{"stateInit"}, []string{"readLen", "Auth"}},
		{"SUB", []string{"stateInit"}, []string{"GetTopic", "AddClient"}},
		{"RDY", []string{"stateSubscribed"}, []string{"SetReadyCount"}},
		{"FIN", []string{"stateSubscribed", "stateClosing"}, []string{"FinishMessage"}},
		{"REQ", []string{"stateSubscribed", "stateClosing"}, []string{"RequeueMessage"}},
		{"TOUCH", []string{"stateSubscribed", "stateClosing"}, []string{"TouchMessage"}},
		{"CLS", []string{"stateSubscribed"}, []string{"StartClose"}},
	}
	fatal := c.P.Func("internal/protocol", "NewFatalClientErr")
	for _, row := range rows {
		fn := c.Fn("nsqd", "(*protocolV2)."+row.cmd)
		if fn == nil {
			continue
		}
		var allowed []int64
		for _, a := range row.allowed {
			k := c.P.Const("nsqd", a)
			if k == nil {
				c.Anchor("nsqd." + a)
				continue
			}
			v, _ := an.ConstInt(ssa.NewConst(k.Val(), k.Type()))
			allowed = append(allowed, v)
		}
		isAllowedEdge := func(e an.Edge, st *an.PathState) bool {
			for _, cmp := range st.CmpsOnEdge(e) {
				if cmp.Op != token.EQL || !atomicLoadOf(cmp.X, stateF) {
					continue
				}
				if k, isC := an.ConstInt(cmp.Y); isC {
					for _, a := range allowed {
						if a == k {
							return true
						}
					}
				}
			}
			return false
		}
		var effects []ssa.Instruction
		an.Instrs(fn, func(in ssa.Instruction) {
			ci, ok := in.(ssa.CallInstruction)
			if !ok {
				return
			}
			f := an.StaticCallee(ci)
			if f == nil {
				return
			}
			for _, e := range row.effects {
				if an.BaseName(f) == e {
					effects = append(effects, in)
				}
			}
		})
		// dereferences of client.Channel are effects too
		an.Instrs(fn, func(in ssa.Instruction) {
			if fa, ok := in.(*ssa.FieldAddr); ok && an.FieldOf(fa) == chF && isParam(fa.X, fn, 1) {
				for _, r := range an.Referrers(fa) {
					if u, ok := r.(*ssa.UnOp); ok && u.Op == token.MUL {
						effects = append(effects, u)
					}
				}
			}
		})
		if len(effects) == 0 {
			c.Bad(fn, "state guard "+strings.Join(row.allowed, "|"), fn.Pos(), "the command has no recognisable effect call", nil)
			continue
		}
		q := &an.PathQ{Fn: fn, StartEntry: true, NoFold: true,
			Sink: func(in ssa.Instruction, _ *an.PathState) bool {
				for _, e := range effects {
					if e == in {
						return true
					}
				}
				return false
			},
			CutEdge: func(e an.Edge, st *an.PathState) bool { return isAllowedEdge(e, st) }}
		w, f := q.Find()
		if f {
			c.Bad(fn, "state guard "+strings.Join(row.allowed, "|"), fn.Pos(),
				row.cmd+"'s effect is reachable in a connection state other than "+strings.Join(row.allowed, "/")+" (for FIN/REQ/TOUCH before SUB, client.Channel is nil: nil dereference on the connection goroutine kills nsqd)", w)
		} else {
			c.OK(fn, "state guard "+strings.Join(row.allowed, "|"), fn.Pos(), "")
		}
		// wrong state => fatal E_INVALID (RDY in closing is the documented exception, checked in C03.cls)
		if fatal != nil {
			var rej []an.Edge
			an.Instrs(fn, func(in ssa.Instruction) {
				ifi, ok := in.(*ssa.If)
				if !ok {
					return
				}
				if !condDependsOn(ifi.Cond, func(v ssa.Value) bool { return atomicLoadOf(v, stateF) }, 0) {
					return
				}
				for _, s := range ifi.Block().Succs {
					e := an.Edge{From: ifi.Block(), To: s}
					qq := &an.PathQ{Fn: fn, StartEdges: []an.Edge{e}, NoFold: true, Sink: q.Sink}
					if _, reach := qq.Find(); !reach {
						rej = append(rej, e)
					}
				}
			})
			if row.cmd == "RDY" {
				continue
			}
			ok, why, w := errReturnsFrom(fn, rej, fatal, "E_INVALID")
			if ok && len(rej) > 0 {
				c.OK(fn, "wrong state => fatal E_INVALID", fn.Pos(), "")
			} else {
				c.Bad(fn, "wrong state => fatal E_INVALID", fn.Pos(), row.cmd+" in the wrong state is not answered with the fatal E_INVALID: "+why, w)
			}
		}
	}
	// state writers
	for _, fn := range c.P.PkgFuncs("nsqd") {
		an.Instrs(fn, func(in ssa.Instruction) {
			call, ok := in.(*ssa.Call)
			if !ok || !(an.StdCallee(call, "sync/atomic", "StoreInt32") || an.StdCallee(call, "sync/atomic", "SwapInt32") || an.StdCallee(call, "sync/atomic", "CompareAndSwapInt32")) {
				return
			}
			fa, ok := call.Call.Args[0].(*ssa.FieldAddr)
			if !ok || an.FieldOf(fa) != stateF {
				return
			}
			name := an.FnName(fn)
			c.Check(name == "(*nsqd.protocolV2).SUB" || name == "(*nsqd.clientV2).StartClose", fn, "connection state writer", call.Pos(), "", "clientV2.State is written outside SUB and StartClose")
		})
	}
	// SUB: client.Channel stored before the SubEventChan hand-off; heartbeats required
	if fn := c.Fn("nsqd", "(*protocolV2).SUB"); fn != nil {
		subEvF := c.P.Field("nsqd", "clientV2", "SubEventChan")
		hbF := c.P.Field("nsqd", "clientV2", "HeartbeatInterval")
		q := &an.PathQ{Fn: fn, StartEntry: true,
			Sink: func(in ssa.Instruction, _ *an.PathState) bool {
				s, ok := in.(*ssa.Send)
				return ok && isLoadOfField(s.Chan, subEvF)
			},
			Cut: func(in ssa.Instruction, _ *an.PathState) bool {
				st, ok := in.(*ssa.Store)
				if !ok {
					return false
				}
				fa, ok := st.Addr.(*ssa.FieldAddr)
				return ok && an.FieldOf(fa) == chF
			}}
		w, f := q.Find()
		if f {
			c.Bad(fn, "client.Channel set before the pump is told", fn.Pos(), "the message pump can be handed the channel before client.Channel is stored: it dereferences client.Channel (nil) when counting a delivery", w)
		} else {
			c.OK(fn, "client.Channel set before the pump is told", fn.Pos(), "")
		}
		hb := false
		an.Instrs(fn, func(in ssa.Instruction) {
			b, ok := in.(*ssa.BinOp)
			if ok && isLoadOfField(b.X, hbF) {
				if k, isC := an.ConstInt(b.Y); isC && k == 0 && (b.Op == token.LEQ || b.Op == token.GTR) {
					hb = true
				}
			}
		})
		c.Check(hb, fn, "SUB requires heartbeats", fn.Pos(), "", "SUB no longer refuses clients that disabled heartbeats")
	}
}

func c09params(c *an.Ctx) {
	for _, cmd := range append([]string{"Exec"}, nsqdCommands...) {
		fn := c.Fn("nsqd", "(*protocolV2)."+cmd)
		if fn == nil {
			continue
		}
		params := fn.Params[len(fn.Params)-1]
		n := 0
		an.Instrs(fn, func(in ssa.Instruction) {
			ia, ok := in.(*ssa.IndexAddr)
			if !ok || an.Strip(ia.X) != ssa.Value(params) {
				return
			}
			k, isC := an.ConstInt(ia.Index)
			if !isC {
				return
			}
			n++
			construct := sprintf("params[%d] in range", k)
			if cmd == "Exec" && k == 0 {
				if ne, _ := paramsNonEmpty(c, fn); ne {
					c.OK(fn, construct, ia.Pos(), "every caller passes bytes.Split(_, non-empty sep), which returns >= 1 element")
					return
				}
			}
			good := false
			for _, cmp := range an.CmpsAt(ia.Block()) {
				oc, ok := cmp.Oriented(func(x ssa.Value) bool { a := lenArgOf(x); return a != nil && an.Strip(a) == ssa.Value(params) })
				if !ok {
					continue
				}
				kk, isC := an.ConstInt(oc.Y)
				if !isC {
					continue
				}
				switch oc.Op {
				case token.GEQ:
					good = good || kk >= k+1
				case token.GTR:
					good = good || kk >= k
				case token.EQL:
					good = good || kk >= k+1
				}
			}
			c.Check(good, fn, construct, ia.Pos(), "", sprintf("params[%d] is indexed without a dominating len(params) >= %d test: a short command line panics on the connection goroutine (process-fatal)", k, k+1))
		})
		if n == 0 {
			c.OK(fn, "no constant params index", fn.Pos(), "")
		}
	}
	if fn := c.Fn("nsqd", "getMessageID"); fn != nil {
		idLen := c.P.Const("nsqd", "MsgIDLength")
		good := false
		an.Instrs(fn, func(in ssa.Instruction) {
			ia, ok := in.(*ssa.IndexAddr)
			if !ok {
				return
			}
			for _, cmp := range an.CmpsAt(ia.Block()) {
				oc, ok := cmp.Oriented(func(x ssa.Value) bool { a := lenArgOf(x); return a != nil && isParam(a, fn, 0) })
				if ok && oc.Op == token.EQL && idLen != nil {
					if kk, isC := an.ConstInt(oc.Y); isC {
						want, _ := an.ConstInt(ssa.NewConst(idLen.Val(), idLen.Type()))
						good = kk == want
					}
				}
			}
		})
		c.Check(good, fn, "message id cast after exact length check", fn.Pos(), "", "getMessageID reinterprets the parameter as a 16-byte id without len(p) == MsgIDLength: out-of-bounds read")
	}
}

func c09mpub(c *an.Ctx) {
	mpub := c.Fn("nsqd", "(*protocolV2).MPUB")
	readMPUB := c.Fn("nsqd", "readMPUB")
	putMsgs := c.Fn("nsqd", "(*Topic).PutMessages")
	putMsg := c.Fn("nsqd", "(*Topic).PutMessage")
	if mpub == nil || readMPUB == nil || putMsgs == nil || putMsg == nil {
		return
	}
	// readMPUB enqueues nothing
	bad := false
	for _, name := range []string{"(*Topic).PutMessage", "(*Topic).PutMessages", "(*Topic).put", "(*Channel).PutMessage"} {
		if t := c.P.Func("nsqd", name); t != nil && len(an.CallsTo(readMPUB, t)) > 0 {
			bad = true
		}
	}
	c.Check(!bad, readMPUB, "batch parser enqueues nothing", readMPUB.Pos(), "", "readMPUB publishes while still parsing: a malformed later message leaves the earlier ones enqueued (MPUB must be all-or-nothing)")
	// every message of the batch is appended (loop count == numMessages) – success return carries the whole slice
	for _, fn := range []*ssa.Function{mpub, c.P.Func("nsqd", "(*httpServer).doMPUB")} {
		if fn == nil {
			continue
		}
		for _, pc := range an.CallsTo(fn, putMsgs) {
			var succ []an.Edge
			for _, rc := range an.CallsTo(fn, readMPUB) {
				s, _ := an.ErrEdges(rc.Value())
				succ = append(succ, s...)
			}
			if fn != mpub {
				continue // HTTP text mode has its own loop (checked in C10.parity)
			}
			q := &an.PathQ{Fn: fn, StartEntry: true, Sink: func(in ssa.Instruction, _ *an.PathState) bool { return in == pc.(ssa.Instruction) },
				CutEdge: func(e an.Edge, _ *an.PathState) bool { return an.EdgeIn(e, succ) }}
			w, f := q.Find()
			if f || len(succ) == 0 {
				c.Bad(fn, "enqueue only after the batch validated", pc.Pos(), "PutMessages is reachable without readMPUB having succeeded", w)
			} else {
				c.OK(fn, "enqueue only after the batch validated", pc.Pos(), "")
			}
		}
	}
	// failed publish commands enqueued nothing: after a successful put only success returns follow
	for _, name := range []string{"(*protocolV2).PUB", "(*protocolV2).DPUB", "(*protocolV2).MPUB"} {
		fn := c.Fn("nsqd", name)
		if fn == nil {
			continue
		}
		var succ []an.Edge
		var unchecked []ssa.Instruction
		puts := an.CallsTo(fn, putMsg, putMsgs)
		for _, pc := range puts {
			s, _ := an.ErrEdges(pc.Value())
			succ = append(succ, s...)
			if len(s) == 0 {
				// result not tested: whatever follows the call follows a (possibly) successful put
				unchecked = append(unchecked, pc.(ssa.Instruction))
			}
		}
		q := &an.PathQ{Fn: fn, StartEdges: succ, StartAfter: unchecked, Sink: func(in ssa.Instruction, _ *an.PathState) bool {
			r, ok := in.(*ssa.Return)
			return ok && !isSuccessReturn(r)
		}}
		w, f := q.Find()
		if f || len(puts) == 0 {
			c.Bad(fn, "an error answer means nothing was enqueued", fn.Pos(), "after the message was enqueued the command can still answer with an error: the publisher retries and the message is duplicated", w)
		} else {
			c.OK(fn, "an error answer means nothing was enqueued", fn.Pos(), "")
		}
		// the put comes after the complete body read
		var reads []an.Edge
		n := 0
		an.Instrs(fn, func(in ssa.Instruction) {
			// io.ReadFull(r, buf) and (*bufio.Reader).Peek(n) both fail unless all n bytes were obtained
			if call, ok := in.(*ssa.Call); ok && (an.StdCallee(call, "io", "ReadFull") || an.StdCallee(call, "bufio", "(*Reader).Peek")) {
				n++
				s, _ := an.ErrEdgesPhi(call)
				reads = append(reads, s...)
			}
		})
		if n > 0 {
			q := &an.PathQ{Fn: fn, StartEntry: true, Sink: func(in ssa.Instruction, _ *an.PathState) bool {
				return isCallToOn(in, putMsg, nil) || isCallToOn(in, putMsgs, nil)
			},
				CutEdge: func(e an.Edge, _ *an.PathState) bool { return an.EdgeIn(e, reads) }}
			w, f := q.Find()
			if f {
				c.Bad(fn, "enqueue only after the body was read completely", fn.Pos(), "a truncated body can be enqueued", w)
			} else {
				c.OK(fn, "enqueue only after the body was read completely", fn.Pos(), "")
			}
		}
	}
	// readMPUB: loop appends one message per iteration, count times
	{
		fn := readMPUB
		loops := an.NaturalLoops(fn)
		readLen := c.P.Func("nsqd", "readLen")
		rls := an.CallsTo(fn, readLen)
		good := false
		if len(rls) >= 2 {
			cnt := an.ResultN(rls[0].Value(), 0)
			l := an.LoopContaining(loops, rls[1].Block())
			if l != nil && len(cnt) == 1 {
				if ifi, ok := l.Header.Instrs[len(l.Header.Instrs)-1].(*ssa.If); ok {
					if b, ok := ifi.Cond.(*ssa.BinOp); ok && b.Op == token.LSS && sameQty(b.Y, cnt[0]) {
						good = true
					}
				}
			}
		}
		c.Check(good, fn, "reads exactly the announced number of messages", fn.Pos(), "", "readMPUB's loop is not bounded by the announced message count")
	}
}

// condDependsOn: the branch condition is computed (through !, comparisons and boolean phis) from a value satisfying pred.
func condDependsOn(v ssa.Value, pred func(ssa.Value) bool, depth int) bool {
	if v == nil || depth > 5 {
		return false
	}
	if pred(v) {
		return true
	}
	switch x := v.(type) {
	case *ssa.UnOp:
		return x.Op == token.NOT && condDependsOn(x.X, pred, depth+1)
	case *ssa.BinOp:
		return condDependsOn(x.X, pred, depth+1) || condDependsOn(x.Y, pred, depth+1)
	case *ssa.Phi:
		for _, e := range x.Edges {
			if condDependsOn(e, pred, depth+1) {
				return true
			}
		}
	case *ssa.Convert:
		return condDependsOn(x.X, pred, depth+1)
	}
	return false
}

// fatalDecides: ioloop contains `_, ok := err.(*protocol.FatalClientErr)` and, from that point on, the loop is left on every
// path where ok is true and on no path where ok is false. Judged on paths with ok fixed to a constant, so the verdict may
// travel through a computed boolean or an inlined helper's result (`if p.reportExecError(…) { break }`).
func fatalDecides(ioloop *ssa.Function, l *an.Loop) bool {
	found := false
	an.Instrs(ioloop, func(in ssa.Instruction) {
		ta, ok := in.(*ssa.TypeAssert)
		if !ok || !ta.CommaOk || typeStrShort(ta.AssertedType) != "*protocol.FatalClientErr" || l == nil || !l.Blocks[ta.Block()] {
			return
		}
		for _, okv := range an.ResultN(ta, 1) {
			oki, isInstr := okv.(ssa.Instruction)
			if !isInstr {
				continue
			}
			// fatal: the loop header must not be reachable again
			qStay := &an.PathQ{Fn: ioloop, StartAfter: []ssa.Instruction{oki}, Consts: map[ssa.Value]*ssa.Const{okv: an.BoolConst(true)}, AllConsts: true,
				SinkEdge: func(e an.Edge, _ *an.PathState) bool { return e.To == l.Header },
				CutEdge:  func(e an.Edge, _ *an.PathState) bool { return !l.Blocks[e.To] }}
			_, stays := qStay.Find()
			// non-fatal: no edge out of the loop may be reachable
			qLeave := &an.PathQ{Fn: ioloop, StartAfter: []ssa.Instruction{oki}, Consts: map[ssa.Value]*ssa.Const{okv: an.BoolConst(false)}, AllConsts: true,
				SinkEdge: func(e an.Edge, _ *an.PathState) bool { return l.Blocks[e.From] && !l.Blocks[e.To] },
				CutEdge:  func(e an.Edge, _ *an.PathState) bool { return e.To == l.Header }}
			_, leaves := qLeave.Find()
			if !stays && !leaves {
				found = true
			}
		}
	})
	return found
}
