package rules

import (
	"fmt"
	"go/token"
	"go/types"
	"os"
	"sort"
	"strings"

	"golang.org/x/tools/go/ssa"

	"nsqverif/an"
)

// lenOf: v is len(x) for the given x.
func lenOf(v ssa.Value, x ssa.Value) bool {
	call, ok := an.Strip(v).(*ssa.Call)
	if !ok {
		return false
	}
	bi, ok := call.Call.Value.(*ssa.Builtin)
	if !ok || bi.Name() != "len" || len(call.Call.Args) != 1 {
		return false
	}
	return an.SameValue(call.Call.Args[0], x) || an.Strip(call.Call.Args[0]) == an.Strip(x)
}

// boundedAt: at block b it is known that len(x) > idx (idx a value) or len(x) >= k (constant need).
func boundedAt(b *ssa.BasicBlock, x ssa.Value, idx ssa.Value, need int64) bool {
	for _, cmp := range an.CmpsAt(b) {
		// normalise to  len(x) OP other
		var other ssa.Value
		op := cmp.Op
		switch {
		case lenOf(cmp.X, x):
			other = cmp.Y
		case lenOf(cmp.Y, x):
			other = cmp.X
			switch op {
			case token.LSS:
				op = token.GTR
			case token.LEQ:
				op = token.GEQ
			case token.GTR:
				op = token.LSS
			case token.GEQ:
				op = token.LEQ
			}
		default:
			continue
		}
		if idx != nil {
			if (op == token.GTR) && (an.SameValue(other, idx) || an.Strip(other) == an.Strip(idx)) {
				return true
			}
			continue
		}
		k, isC := an.ConstInt(other)
		if !isC {
			continue
		}
		switch op {
		case token.GEQ:
			if k >= need {
				return true
			}
		case token.GTR:
			if k+1 >= need {
				return true
			}
		case token.EQL:
			if k >= need {
				return true
			}
		}
	}
	return false
}

// unboundedAccesses lists the index and slice expressions of fn on slices and strings whose bound is not established:
// a non-constant index that is neither a range position over the same value nor known to be below its length, and a
// constant index or slice bound beyond what a dominating length test guarantees.
func unboundedAccesses(fn *ssa.Function) []ssa.Instruction {
	var out []ssa.Instruction
	isSeq := func(t types.Type) bool {
		switch u := t.Underlying().(type) {
		case *types.Slice:
			return true
		case *types.Basic:
			return u.Info()&types.IsString != 0
		}
		return false
	}
	rangePos := func(idx ssa.Value, x ssa.Value) bool {
		// rangeindex loop: idx = phi+1 compared with len(x) in the loop header
		b, ok := idx.(*ssa.BinOp)
		if !ok || b.Op != token.ADD {
			return false
		}
		phi, ok := b.X.(*ssa.Phi)
		if !ok || !strings.Contains(phi.Comment, "rangeindex") {
			return false
		}
		for _, r := range an.Referrers(b) {
			if c, ok := r.(*ssa.BinOp); ok && c.Op == token.LSS && c.X == ssa.Value(b) {
				if lenOf(c.Y, x) {
					return true
				}
			}
		}
		return false
	}
	check := func(in ssa.Instruction, x, idx ssa.Value) {
		if !isSeq(x.Type()) {
			return
		}
		if k, isC := an.ConstInt(idx); isC {
			if !boundedAt(in.Block(), x, nil, k+1) {
				out = append(out, in)
			}
			return
		}
		if rangePos(idx, x) || boundedAt(in.Block(), x, idx, 0) {
			return
		}
		out = append(out, in)
	}
	an.Instrs(fn, func(in ssa.Instruction) {
		switch v := in.(type) {
		case *ssa.IndexAddr:
			check(in, v.X, v.Index)
		case *ssa.Index:
			check(in, v.X, v.Index)
		case *ssa.Lookup:
			if !v.CommaOk {
				check(in, v.X, v.Index)
			}
		case *ssa.Slice:
			if !isSeq(v.X.Type()) {
				return
			}
			for _, bd := range []ssa.Value{v.High, v.Low} {
				if bd == nil {
					continue
				}
				if k, isC := an.ConstInt(bd); isC {
					if k > 0 && !boundedAt(in.Block(), v.X, nil, k) {
						out = append(out, in)
					}
				}
			}
		}
	})
	return out
}

// accessDescriptor: what kind of unproven access this is, without names or positions.
func accessDescriptor(in ssa.Instruction) string {
	q := func(t types.Type) string { return strings.ReplaceAll(types.TypeString(t, nil), an.ModPath+"/", "") }
	form := func(v ssa.Value) string {
		if k, ok := an.ConstInt(v); ok {
			return sprintf("const %d", k)
		}
		return "var"
	}
	switch v := in.(type) {
	case *ssa.IndexAddr:
		return "index " + q(v.X.Type()) + " " + form(v.Index)
	case *ssa.Index:
		return "index " + q(v.X.Type()) + " " + form(v.Index)
	case *ssa.Lookup:
		return "index " + q(v.X.Type()) + " " + form(v.Index)
	case *ssa.Slice:
		d := "slice " + q(v.X.Type())
		if v.Low != nil {
			d += " low " + form(v.Low)
		}
		if v.High != nil {
			d += " high " + form(v.High)
		}
		return d
	}
	return "?"
}

// boundsBaseline: per package, how many accesses of each kind the pinned tree has whose bound this (deliberately simple)
// prover does not establish. Generated with VERIF_GENBOUNDS=1, read, frozen. A change that adds an index or slice
// expression on peer-controlled bytes without a length test in front of it raises one of these counts.
var boundsBaseline = map[string]int{
	"nsqd|index []*nsqd.Channel var":          1,
	"nsqd|index [][]byte const 0":             14,
	"nsqd|index []byte var":                   2,
	"nsqd|index []string const 0":             4,
	"nsqd|index []uint64 var":                 1,
	"nsqd|index nsqd.Channels var":            6,
	"nsqd|index nsqd.Topics var":              6,
	"nsqd|index nsqd.Uint64Slice var":         6,
	"nsqd|index nsqd.inFlightPqueue const 0":  1,
	"nsqd|index nsqd.inFlightPqueue var":      15,
	"nsqd|index string var":                   1,
	"nsqd|slice string low const 2":           1,
	"nsqlookupd|index []*nsqlookupd.node var": 1,
	"nsqlookupd|index []bool var":             1,
	"nsqlookupd|index []string const 0":       3,
	"nsqlookupd|index []string var":           2,
	"nsqlookupd|slice []string low const 1":   3,
}

var boundsProps = map[string][]string{
	"C09": {"nsqd", "internal/protocol"},
	"C15": {"nsqlookupd", "internal/protocol"},
	"C16": {"nsqd"},
}

func boundsRule(prop string) func(c *an.Ctx) {
	return func(c *an.Ctx) {
		for _, pkg := range boundsProps[prop] {
			got := map[string][]ssa.Instruction{}
			n := 0
			for _, fn := range c.P.PkgFuncs(pkg) {
				n++
				for _, in := range unboundedAccesses(fn) {
					k := pkg + "|" + accessDescriptor(in)
					got[k] = append(got[k], in)
				}
			}
			var keys []string
			for k := range got {
				keys = append(keys, k)
			}
			sort.Strings(keys)
			for _, k := range keys {
				if os.Getenv("VERIF_GENBOUNDS") != "" {
					fmt.Fprintf(os.Stderr, "BD\t%q: %d,\n", k, len(got[k]))
				}
				sites := got[k]
				extra := len(sites) - boundsBaseline[k]
				if extra <= 0 {
					c.OK(nil, "accesses without an established bound: "+k, token.NoPos, "")
					continue
				}
				// report the sites in functions that had none of this kind... the newest-looking ones: those whose function
				// holds more of this kind than any pinned function could account for is not decidable here; name them all
				var where []string
				for _, in := range sites {
					where = append(where, an.FnName(in.Parent())+" ("+c.P.Fset.Position(in.Pos()).String()+")")
				}
				c.Bad(sites[len(sites)-1].Parent(), "accesses without an established bound: "+k, sites[len(sites)-1].Pos(), sprintf("%d more %s in package %s than on the pinned tree whose index or bound is not covered by a length test (candidates: %s): bytes a peer controls reach an index or slice expression that can be out of range, and a panic on a connection's goroutine takes the daemon down", extra, k[strings.Index(k, "|")+1:], pkg, strings.Join(where, ", ")), nil)
			}
			c.Check(n > 10, nil, "functions scanned in "+pkg, token.NoPos, "", "fewer than ten functions scanned in "+pkg)
		}
	}
}

func init() {
	for _, p := range []string{"C09", "C15", "C16"} {
		reg(p+".bounds", "GUARD", "bounds baseline: no new index or slice expression on a slice or string without an established bound in the packages that parse peer bytes", 1, boundsRule(p))
		pi := Props[p]
		pi.Explanation += " (bounds) no new unguarded index or slice expression in the packages that parse what peers send."
		Props[p] = pi
	}
}

// Rules added after the twelfth round of independently seeded changes (DESIGN.md §11.27).
func init() {
	for id, extra := range map[string]string{
		"C01": " (diskless) only an ephemeral object gets the memory-only backend.",
		"C02": " (clientid) connection ids are 64-bit and never reused; (wireattempts) a message frame is encoded at send time.",
		"C03": " (touchcap) as C04.touchcap.",
		"C04": " (config) every example configuration key is read by its own option.",
		"C05": " (parity) what /pub accepts the disk queue accepts; (prestartdrain) a topic that has not started takes pause and channel tokens.",
		"C06": " (prestartdrain) as C05.",
		"C07": " (parity) HTTP and TCP publish take the same bytes.",
		"C08": " (backendname) as C01; (emptydrains) Empty receives until the queue is empty.",
		"C09": " (identifysetters) IDENTIFY validates every negotiated option.",
		"C10": " (emptydrains) as C08; (mpubonce) /mpub publishes once, after the whole body was validated.",
		"C13": " (codec) as C07.codec.",
		"C14": " (params) as C15.params; (removeuncond) RemoveRegistration removes.",
		"C16": " (delete) a channel is deleted before it is unlinked.",
		"C17": " (nocontext) upstream requests do not hang on the client's connection.",
		"C18": " (topicfilter) a topic view sums that topic only; (clienttimeouts) the upstream client gets connect and request timeouts in that order.",
		"C19": " (noremove) nsq_to_file removes nothing but the work file it just linked into place.",
	} {
		p := Props[id]
		p.Explanation += extra
		Props[id] = p
	}
	has := func(subs ...string) func(string) bool {
		return func(n string) bool {
			for _, s := range subs {
				if strings.Contains(n, s) {
					return true
				}
			}
			return false
		}
	}
	reg("C03.touchcap", "GUARD+PATH", "the max-msg-timeout cap of a TOUCH is counted from this delivery: counted from the first, a touched redelivery expires while its consumer still holds it, and the consumer is sent one more than its RDY (shared with C04.touchcap)", 2, c04touchcap)
	reg("C04.config", "SHAPE", "every key of the example configuration file is read by an option of the program: max_req_timeout read through another option's key leaves the REQ/DPUB limit at its default (shared with C11.config)", 20, configKeys("nsqd", "nsqd.cfg.example"))
	reg("C05.parity", "GUARD", "/pub and /mpub size limits equal the TCP limits: a body one byte over is accepted, lives in memory and is refused by the disk queue at shutdown (shared with C10.parity)", 5, c10parity)
	reg("C07.parity", "GUARD", "/pub and /mpub take the body as sent, within the TCP limits (shared with C10.parity)", 5, c10parity)
	reg("C08.backendname", "SHAPE", "the separator between topic and channel in a disk-queue name is a character no name can contain: a re-created channel must not open another topic's files (shared with C01.backendname)", 1, c01backendname)
	reg("C13.codec", "SHAPE", "the disk queue accepts every message the daemon accepts: a requeue that cannot be written leaves the counters unbalanced (shared with C07.codec)", 8, c07codec)
	reg("C14.params", "GUARD", "constant indices / slices of the parameter list are guarded by its length, and the line is split on single spaces (shared with C15.params)", 3, c15params)
	reg("C16.delete", "PATH", "DeleteExistingChannel deletes the channel before it unlinks it: unlinked first, a new channel of the same name registers before the old one unregisters (the DeleteExistingChannel rows of C08.delete)", 1, only(c08delete, has("DeleteExistingChannel")))

	reg("C01.diskless", "GUARD", "NewChannel/NewTopic choose the memory-only backend only where the object's own ephemeral flag is set", 2, c01diskless)
	reg("C02.clientid", "ORIG", "a connection's id comes from a 64-bit atomic increment of NSQD.clientIDSequence", 1, c02clientid)
	reg("C02.wireattempts", "PATH", "SendMessage reaches Send only past msg.WriteTo", 1, c02wireattempts)
	reg("C05.prestartdrain", "SHAPE", "the select in which Topic.messagePump waits for Start also receives pause and channel-update tokens", 1, c05prestartdrain)
	reg("C06.prestartdrain", "SHAPE", "the select in which Topic.messagePump waits for Start also receives pause tokens: LoadMetadata pauses a topic before it starts it (shared with C05.prestartdrain)", 1, c05prestartdrain)
	reg("C09.identifysetters", "PATH", "clientV2.Identify succeeds only past all four option setters", 4, mustTable("nsqd", "(*clientV2).", map[string][]string{
		"Identify": {"(*clientV2).SetHeartbeatInterval", "(*clientV2).SetOutputBuffer", "(*clientV2).SetSampleRate", "(*clientV2).SetMsgTimeout"},
	}))
	reg("C10.emptydrains", "PATH", "Topic.Empty / Channel.Empty leave their drain loop only when the queue had nothing to receive", 2, c10emptydrains)
	reg("C08.emptydrains", "PATH", "Topic.Empty / Channel.Empty leave their drain loop only when the queue had nothing to receive (shared with C10.emptydrains)", 2, c10emptydrains)
	reg("C10.mpubonce", "SHAPE", "doMPUB calls PutMessages outside every loop", 1, c10mpubonce)
	reg("C14.removeuncond", "PATH", "RegistrationDB.RemoveRegistration deletes the key on every path", 1, c14removeuncond)
	reg("C17.nocontext", "CALLS", "internal/http_api and internal/clusterinfo build requests without a caller's context", 2, c17nocontext)
	reg("C18.topicfilter", "GUARD", "GetNSQDStats appends a topic's stats only where no topic was selected or the name is the selected one", 1, c18topicfilter)
	reg("C18.clienttimeouts", "ORIG", "nsqadmin passes HTTPClientConnectTimeout then HTTPClientRequestTimeout", 1, c18clienttimeouts)
	reg("C19.noremove", "CALLS", "os.Remove/RemoveAll in nsq_to_file only in exclusiveRename", 1, c19noremove)
}

// ---- C01.diskless --------------------------------------------------------------------------------------------

func c01diskless(c *an.Ctx) {
	dummy := c.Fn("nsqd", "newDummyBackendQueue")
	if dummy == nil {
		return
	}
	for _, spec := range [][2]string{{"NewChannel", "Channel"}, {"NewTopic", "Topic"}} {
		fn := c.Fn("nsqd", spec[0])
		ef := c.P.Field("nsqd", spec[1], "ephemeral")
		if fn == nil || ef == nil {
			continue
		}
		// the value stored into the object's ephemeral field, and the object's own name
		var flag, ownName ssa.Value
		nf := c.P.Field("nsqd", spec[1], "name")
		an.Instrs(fn, func(in ssa.Instruction) {
			if st, ok := in.(*ssa.Store); ok {
				if fa, ok := st.Addr.(*ssa.FieldAddr); ok && an.FieldOf(fa) == ef {
					flag = st.Val
				}
				if fa, ok := st.Addr.(*ssa.FieldAddr); ok && nf != nil && an.FieldOf(fa) == nf {
					ownName = st.Val
				}
			}
		})
		calls := an.CallsTo(fn, dummy)
		if len(calls) == 0 {
			c.Und(fn, "memory-only backend for ephemeral objects only", fn.Pos(), spec[0]+" no longer calls newDummyBackendQueue")
			continue
		}
		for _, dc := range calls {
			good := false
			for _, f := range an.FactsAt(dc.Block()) {
				if !f.True {
					continue
				}
				v := an.CanonBool(f.V)
				if ld, ok := v.(*ssa.UnOp); ok && ld.Op == token.MUL {
					if lf, _ := an.LoadedField(ld); lf == ef {
						good = true
					}
				}
				if flag != nil && (v == flag || an.Strip(v) == an.Strip(flag)) {
					good = true
				}
				// `if strings.HasSuffix(<the object's own name>, "#ephemeral") { x.ephemeral = true; backend = dummy }`
				if hs, ok := an.Strip(v).(*ssa.Call); ok && an.StdCallee(hs, "strings", "HasSuffix") && ownName != nil && an.Strip(hs.Call.Args[0]) == an.Strip(ownName) {
					good = true
				}
			}
			c.Check(good, fn, "memory-only backend for ephemeral objects only", dc.Pos(), "", spec[0]+" gives the object the memory-only backend on an edge where its own ephemeral flag is not known to be set (a wider condition): a durable channel's overflow – requeues, expired deferrals, timed-out deliveries beyond mem-queue-size – is then discarded while publishers are told OK")
		}
	}
}

// ---- C02.clientid --------------------------------------------------------------------------------------------

func c02clientid(c *an.Ctx) {
	seq := c.P.Field("nsqd", "NSQD", "clientIDSequence")
	ncl := c.Fn("nsqd", "newClientV2")
	if seq == nil || ncl == nil {
		if ncl != nil {
			c.Anchor("nsqd.NSQD.clientIDSequence")
		}
		return
	}
	n := 0
	for _, fn := range c.P.PkgFuncs("nsqd") {
		for _, ci := range an.CallsTo(fn, ncl) {
			n++
			good := true
			for _, o := range originsOrNone(ci.Common().Args[0]) {
				call, ok := an.Strip(o).(*ssa.Call)
				if !ok || !an.StdCallee(call, "sync/atomic", "AddInt64") {
					good = false
					continue
				}
				fa, ok := call.Call.Args[0].(*ssa.FieldAddr)
				if !ok || an.FieldOf(fa) != seq {
					good = false
				}
			}
			c.Check(good, fn, "connection id is a fresh 64-bit sequence number", ci.Pos(), "", "the id handed to newClientV2 is not atomic.AddInt64(&nsqd.clientIDSequence, 1): the id is the owner recorded in every in-flight message and the key of Channel.clients, so a narrower or reused counter lets a later connection answer (FIN/REQ/TOUCH) for messages a long-lived consumer holds")
		}
	}
	c.Check(n >= 1, nil, "connection constructions located", token.NoPos, "", "no call of newClientV2 found")
}

// ---- C02.wireattempts ----------------------------------------------------------------------------------------

func c02wireattempts(c *an.Ctx) {
	fn := c.Fn("nsqd", "(*protocolV2).SendMessage")
	send := c.Fn("nsqd", "(*protocolV2).Send")
	wt := c.Fn("nsqd", "(*Message).WriteTo")
	if fn == nil || send == nil || wt == nil {
		return
	}
	q := &an.PathQ{Fn: fn, StartEntry: true,
		Sink: func(in ssa.Instruction, _ *an.PathState) bool {
			ci, ok := in.(ssa.CallInstruction)
			return ok && an.IsCallTo(ci, send)
		},
		Cut: func(in ssa.Instruction, _ *an.PathState) bool {
			ci, ok := in.(ssa.CallInstruction)
			return ok && an.IsCallTo(ci, wt) && isParam(an.Strip(ci.Common().Args[0]), fn, 2)
		}}
	w, found := q.Find()
	if found {
		c.Bad(fn, "frame encoded at send time", fn.Pos(), "SendMessage can hand bytes to Send that are not this message's WriteTo (a cached or on-disk record): the attempts count in the frame is the one stored before this delivery, so a redelivered message reaches the consumer with a stale count", w)
	} else {
		c.OK(fn, "frame encoded at send time", fn.Pos(), "")
	}
}

// ---- C05.prestartdrain ---------------------------------------------------------------------------------------

func c05prestartdrain(c *an.Ctx) {
	fn := c.Fn("nsqd", "(*Topic).messagePump")
	startF := c.P.Field("nsqd", "Topic", "startChan")
	pauseF := c.P.Field("nsqd", "Topic", "pauseChan")
	updF := c.P.Field("nsqd", "Topic", "channelUpdateChan")
	if fn == nil || startF == nil || pauseF == nil || updF == nil {
		if fn != nil {
			c.Anchor("nsqd.Topic.startChan/pauseChan/channelUpdateChan")
		}
		return
	}
	n := 0
	for _, g := range an.WithAnon(fn) {
		for _, sel := range an.Selects(g) {
			fields := map[*types.Var]bool{}
			for _, st := range sel.States {
				if st.Dir == types.RecvOnly {
					if f := an.ChanField(an.Strip(st.Chan)); f != nil {
						fields[f] = true
					}
				}
			}
			if !fields[startF] {
				continue
			}
			n++
			c.Check(fields[pauseF] && fields[updF], fn, "waiting for Start takes pause and channel tokens", sel.Pos(), "", "while it waits for Start the topic pump no longer receives from pauseChan and channelUpdateChan: both are unbuffered, so Pause() or GetChannel() on a topic that has not started blocks for ever – LoadMetadata pauses a persisted-paused topic before it starts it, and the daemon never comes up again")
		}
	}
	c.Check(n >= 1, fn, "wait for Start located", fn.Pos(), "", "no select receiving from Topic.startChan found in the topic pump")
}

// ---- C10.emptydrains -----------------------------------------------------------------------------------------

func c10emptydrains(c *an.Ctx) {
	msgT := c.P.Named("nsqd", "Message")
	for _, name := range []string{"(*Topic).Empty", "(*Channel).Empty"} {
		fn := c.Fn("nsqd", name)
		if fn == nil {
			continue
		}
		n := 0
		for _, sel := range an.Selects(fn) {
			if sel.Blocking {
				continue
			}
			var recvEdges []an.Edge
			for _, ss := range an.SelectStates(sel) {
				if ss.State.Dir != types.RecvOnly {
					continue
				}
				if pt, ok := an.ChanElem(ss.State.Chan).(*types.Pointer); !ok || msgT == nil || !types.Identical(pt.Elem(), msgT) {
					continue
				}
				recvEdges = append(recvEdges, ss.Chosen...)
				if ss.After != nil {
					recvEdges = append(recvEdges, an.Edge{})
				}
			}
			if len(recvEdges) == 0 {
				continue
			}
			n++
			var starts []an.Edge
			for _, e := range recvEdges {
				if e.From != nil {
					starts = append(starts, e)
				}
			}
			// what the loop condition established on the way into the body still holds after a receive: a flag-controlled
			// loop (`for drained := false; !drained; {… default: drained = true }`) goes round again
			consts := map[ssa.Value]*ssa.Const{}
			for _, f := range an.FactsAt(sel.Block()) {
				if phi, ok := f.V.(*ssa.Phi); ok {
					if b, ok := phi.Type().Underlying().(*types.Basic); ok && b.Kind() == types.Bool {
						consts[phi] = an.BoolConst(f.True)
					}
				}
			}
			q := &an.PathQ{Fn: fn, StartEdges: starts, Consts: consts,
				Sink: func(in ssa.Instruction, _ *an.PathState) bool {
					if _, ok := in.(*ssa.Return); ok {
						return true
					}
					ci, ok := in.(ssa.CallInstruction)
					return ok && an.IsInvokeOf(ci, "BackendQueue", "Empty")
				},
				Cut: func(in ssa.Instruction, _ *an.PathState) bool { return in == ssa.Instruction(sel) }}
			w, found := q.Find()
			if found || len(starts) == 0 {
				c.Bad(fn, "drain loop ends only on an empty queue", sel.Pos(), fn.Name()+" can leave its drain loop right after a successful receive (a counted loop whose bound shrinks as it drains): part of the in-memory backlog survives an empty that answered 200, and is delivered later", w)
			} else {
				c.OK(fn, "drain loop ends only on an empty queue", sel.Pos(), "")
			}
		}
		c.Check(n >= 1, fn, "drain select located", fn.Pos(), "", fn.Name()+" has no non-blocking select receiving messages")
	}
}

// ---- C10.mpubonce --------------------------------------------------------------------------------------------

func c10mpubonce(c *an.Ctx) {
	fn := c.Fn("nsqd", "(*httpServer).doMPUB")
	pm := c.Fn("nsqd", "(*Topic).PutMessages")
	if fn == nil || pm == nil {
		return
	}
	calls := an.CallsTo(fn, pm)
	if len(calls) == 0 {
		c.Und(fn, "one publish per request", fn.Pos(), "doMPUB no longer calls Topic.PutMessages")
		return
	}
	loops := an.NaturalLoops(fn)
	for _, pc := range calls {
		c.Check(an.LoopContaining(loops, pc.Block()) == nil, fn, "one publish per request", pc.Pos(), "", "doMPUB publishes from inside its parsing loop: a body that is refused further on (a line over max-msg-size, a body over max-body-size) has already enqueued the messages before it, while the same batch over TCP MPUB enqueues nothing")
	}
}

// ---- C14.removeuncond ----------------------------------------------------------------------------------------

func c14removeuncond(c *an.Ctx) {
	fn := c.Fn("nsqlookupd", "(*RegistrationDB).RemoveRegistration")
	mf := c.P.Field("nsqlookupd", "RegistrationDB", "registrationMap")
	if fn == nil || mf == nil {
		if fn != nil {
			c.Anchor("nsqlookupd.RegistrationDB.registrationMap")
		}
		return
	}
	q := &an.PathQ{Fn: fn, StartEntry: true, Sink: an.IsReturn,
		Cut: func(in ssa.Instruction, _ *an.PathState) bool {
			call, ok := in.(*ssa.Call)
			if !ok {
				return false
			}
			bi, ok := call.Call.Value.(*ssa.Builtin)
			if !ok || bi.Name() != "delete" || len(call.Call.Args) < 2 {
				return false
			}
			f, _ := an.LoadedField(call.Call.Args[0])
			return f == mf && isParam(an.Strip(call.Call.Args[1]), fn, 1)
		}}
	w, found := q.Find()
	if found {
		c.Bad(fn, "the registration is removed", fn.Pos(), "RemoveRegistration can return without deleting the key (a guard for registrations that still have producers): the delete endpoints answer 200 and the topic or channel stays in /topics, /channels and /lookup for as long as a producer is registered", w)
	} else {
		c.OK(fn, "the registration is removed", fn.Pos(), "")
	}
}

// ---- C17.nocontext -------------------------------------------------------------------------------------------

func c17nocontext(c *an.Ctx) {
	n := 0
	for _, pkg := range []string{"internal/http_api", "internal/clusterinfo"} {
		for _, fn := range c.P.PkgFuncs(pkg) {
			for _, ci := range an.CallsIn(fn, func(ci ssa.CallInstruction) bool {
				return an.StdCallee(ci, "net/http", "NewRequest") || an.StdCallee(ci, "net/http", "NewRequestWithContext") || an.StdCallee(ci, "net/http", "(*Request).WithContext")
			}) {
				f := an.StaticCallee(ci)
				if f.Name() == "NewRequest" {
					n++
					c.OK(fn, "request built without a caller's context", ci.Pos(), "")
					continue
				}
				c.Bad(fn, "request built without a caller's context", ci.Pos(), an.FnName(fn)+" ties an upstream request to a context it was handed: nsqadmin's fan-outs (pause, delete, tombstone on every nsqd and nsqlookupd) are then cut short when the browser that asked goes away, and the action is applied to some nodes only", nil)
			}
		}
	}
	c.Check(n >= 2, nil, "request constructions located", token.NoPos, "", "fewer than two http.NewRequest calls found in internal/http_api")
}

// ---- C18.topicfilter -----------------------------------------------------------------------------------------

func c18topicfilter(c *an.Ctx) {
	fn := c.Fn("internal/clusterinfo", "(*ClusterInfo).GetNSQDStats")
	ts := c.P.Named("internal/clusterinfo", "TopicStats")
	nameF := c.P.Field("internal/clusterinfo", "TopicStats", "TopicName")
	if fn == nil || ts == nil || nameF == nil {
		if fn != nil {
			c.Anchor("internal/clusterinfo.TopicStats.TopicName")
		}
		return
	}
	selIdx := -1
	for i, p := range fn.Params {
		if p.Name() == "selectedTopic" {
			selIdx = i
		}
	}
	if selIdx < 0 {
		// by position: (c, producers, selectedTopic, selectedChannel, includeClients)
		selIdx = 2
	}
	n := 0
	for _, w := range an.WithAnon(fn) {
		an.Instrs(w, func(in ssa.Instruction) {
			call, ok := in.(*ssa.Call)
			if !ok {
				return
			}
			bi, ok := call.Call.Value.(*ssa.Builtin)
			if !ok || bi.Name() != "append" || len(call.Call.Args) != 2 {
				return
			}
			sl, ok := call.Type().Underlying().(*types.Slice)
			if !ok {
				return
			}
			pt, ok := sl.Elem().(*types.Pointer)
			if !ok || !types.Identical(pt.Elem(), ts) {
				return
			}
			n++
			isSel := func(v ssa.Value) bool {
				v = an.Strip(v)
				if isParam(v, fn, selIdx) {
					return true
				}
				if fv, ok := v.(*ssa.FreeVar); ok {
					return fv.Name() == fn.Params[selIdx].Name()
				}
				if ld, ok := v.(*ssa.UnOp); ok && ld.Op == token.MUL {
					if fv, ok := ld.X.(*ssa.FreeVar); ok {
						return fv.Name() == fn.Params[selIdx].Name()
					}
				}
				// the filter kept in a field of a state struct the enclosing function filled from its parameter
				if fv, fld := capturedField(v); fv != nil {
					if val := capturedFieldValue(w, fv, fld); val != nil && isParam(an.Strip(val), fn, selIdx) {
						return true
					}
				}
				return false
			}
			q := &an.PathQ{Fn: w, StartEntry: true, FullOnly: true,
				Sink: func(i2 ssa.Instruction, _ *an.PathState) bool { return i2 == ssa.Instruction(call) },
				CutEdge: func(e an.Edge, ps *an.PathState) bool {
					// `allTopics := selectedTopic == ""` computed by the enclosing function and captured
					for _, f := range ps.FactsOnEdge(e) {
						if !f.True {
							continue
						}
						for _, o := range capturedOrigins(w, f.V) {
							if b, ok := an.Strip(o).(*ssa.BinOp); ok && b.Op == token.EQL {
								if s, isC := an.ConstString(b.Y); isC && s == "" && isParam(an.Strip(b.X), fn, selIdx) {
									return true
								}
							}
						}
					}
					for _, cmp := range ps.CmpsOnEdge(e) {
						if cmp.Op != token.EQL {
							continue
						}
						x, y := cmp.X, cmp.Y
						if isSel(y) {
							x, y = y, x
						}
						if !isSel(x) {
							continue
						}
						if s, isC := an.ConstString(y); isC && s == "" {
							return true
						}
						if f, _ := an.LoadedField(an.Strip(y)); f == nameF {
							return true
						}
					}
					return false
				}}
			_, reach := q.Find()
			good := !reach
			c.Check(good, fn, "topic stats filtered by the selected topic", call.Pos(), "", "GetNSQDStats appends a topic's stats where it is not known that no topic was selected or that the topic is the selected one: an nsqd that ignores the ?topic= filter of /stats then adds other topics' depth, counts and channels into the selected topic's view")
		})
	}
	c.Check(n >= 1, fn, "topic stats appends located", fn.Pos(), "", "GetNSQDStats appends no *TopicStats")
}

// ---- C18.clienttimeouts --------------------------------------------------------------------------------------

func c18clienttimeouts(c *an.Ctx) {
	fn := c.Fn("nsqadmin", "NewHTTPServer")
	nc := c.P.Func("internal/http_api", "NewClient")
	ct := c.P.Field("nsqadmin", "Options", "HTTPClientConnectTimeout")
	rt := c.P.Field("nsqadmin", "Options", "HTTPClientRequestTimeout")
	if fn == nil || nc == nil || ct == nil || rt == nil {
		if fn != nil {
			c.Anchor("http_api.NewClient / nsqadmin.Options.HTTPClient*Timeout")
		}
		return
	}
	n := 0
	for _, pkgFn := range c.P.PkgFuncs("nsqadmin") {
		for _, ci := range an.CallsTo(pkgFn, nc) {
			n++
			args := ci.Common().Args
			good := len(args) == 3 && isLoadOfField(args[1], ct) && isLoadOfField(args[2], rt)
			c.Check(good, pkgFn, "connect timeout, then request timeout", ci.Pos(), "", "nsqadmin builds its upstream client with something other than (HTTPClientConnectTimeout, HTTPClientRequestTimeout) in that order: swapped, a healthy upstream that answers within the request timeout but after the connect timeout is cut off and silently drops out of every view")
		}
	}
	c.Check(n >= 1, fn, "upstream client construction located", fn.Pos(), "", "nsqadmin no longer calls http_api.NewClient")
}

// ---- C19.noremove --------------------------------------------------------------------------------------------

func c19noremove(c *an.Ctx) {
	n := 0
	for _, fn := range c.P.PkgFuncs("apps/nsq_to_file") {
		for _, ci := range an.CallsIn(fn, func(ci ssa.CallInstruction) bool {
			return an.StdCallee(ci, "os", "Remove") || an.StdCallee(ci, "os", "RemoveAll")
		}) {
			n++
			ok := true
			for _, o := range ownersOf(c, fn, 0) {
				if o != "apps/nsq_to_file.exclusiveRename" {
					ok = false
				}
			}
			c.Check(ok, fn, "nothing removed but the linked work file", ci.Pos(), "", an.FnName(fn)+" removes a file outside exclusiveRename (which removes the work file only after it was linked under its final name): output files hold records already acknowledged to nsqd – also the ones written through an earlier handle of the same file")
		}
	}
	c.Check(n >= 1, nil, "removals located", token.NoPos, "", "no os.Remove found in nsq_to_file")
}
