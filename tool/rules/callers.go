package rules

import (
	"fmt"
	"go/types"
	"os"
	"regexp"
	"sort"
	"strings"

	"golang.org/x/tools/go/ssa"

	"nsqverif/an"
)

// Who-may-call baseline (DESIGN.md §11.19). A state-changing helper of the pinned tree is called from the few places that
// own its transition; a change that calls it from somewhere else (flush on pause, a pop on disconnect, RemoveRegistration
// at connection teardown) changes what the helper's preconditions meant. The source normaliser inlines functions that are
// not in the baseline before the rules run, so extracting or inlining helpers does not change these sets.
//
// Rows: package, function, the properties the function's transition belongs to, the callers on the pinned tree (read and
// confirmed one by one; VERIF_GENCALLERS=1 prints the current sets in this format).
type callersRow struct {
	pkg, fn string
	props   []string
	allowed []string
	why     string
}

// callersVia: the callers, on the pinned tree, of the functions that appear as allowed callers above. When such a function
// has been inlined into its callers and deleted, they inherit its place.
var callersVia = map[string][]string{
	"(*apps/nsq_to_file.FileLogger).Close":      {"(*apps/nsq_to_file.FileLogger).router", "(*apps/nsq_to_file.FileLogger).updateFile"},
	"(*apps/nsq_to_file.FileLogger).router":     {"(*apps/nsq_to_file.TopicDiscoverer).updateTopics"},
	"(*apps/nsq_to_file.FileLogger).updateFile": {"(*apps/nsq_to_file.FileLogger).router"},
	"(*nsqd.Channel).Close":                     {"(*nsqd.Topic).exit", "(*nsqd.tcpServer).Close", "(*nsqd.tcpServer).Handle", "(*nsqlookupd.tcpServer).Close", "(*nsqlookupd.tcpServer).Handle"},
	"(*nsqd.Channel).Delete":                    {"(*nsqd.Topic).DeleteExistingChannel", "(*nsqd.Topic).exit"},
	"(*nsqd.Channel).Empty":                     {"(*nsqd.Channel).exit", "(*nsqd.httpServer).doEmptyChannel"},
	"(*nsqd.Channel).FinishMessage":             {"(*nsqd.protocolV2).FIN"},
	"(*nsqd.Channel).Pause":                     {"(*nsqd.NSQD).LoadMetadata", "(*nsqd.httpServer).doPauseChannel"},
	"(*nsqd.Channel).PutMessage":                {"(*nsqd.Topic).messagePump"},
	"(*nsqd.Channel).PutMessageDeferred":        {"(*nsqd.Topic).messagePump"},
	"(*nsqd.Channel).RequeueMessage":            {"(*nsqd.protocolV2).REQ"},
	"(*nsqd.Channel).StartDeferredTimeout":      {"(*nsqd.Channel).PutMessageDeferred", "(*nsqd.Channel).RequeueMessage"},
	"(*nsqd.Channel).StartInFlightTimeout":      {"(*nsqd.protocolV2).messagePump"},
	"(*nsqd.Channel).TouchMessage":              {"(*nsqd.protocolV2).TOUCH"},
	"(*nsqd.Channel).UnPause":                   {"(*nsqd.httpServer).doPauseChannel"},
	"(*nsqd.Channel).exit":                      {"(*nsqd.Channel).Close", "(*nsqd.Channel).Delete"},
	"(*nsqd.Channel).flush":                     {"(*nsqd.Channel).exit"},
	"(*nsqd.Channel).processDeferredQueue":      {"(*nsqd.NSQD).queueScanWorker"},
	"(*nsqd.Channel).processInFlightQueue":      {"(*nsqd.NSQD).queueScanWorker"},
	"(*nsqd.Channel).put":                       {"(*nsqd.Channel).PutMessage", "(*nsqd.Channel).RequeueMessage", "(*nsqd.Channel).processDeferredQueue", "(*nsqd.Channel).processInFlightQueue"},
	"(*nsqd.NSQD).DeleteExistingTopic":          {"(*nsqd.NSQD).GetTopic", "(*nsqd.httpServer).doDeleteTopic"},
	"(*nsqd.NSQD).Exit":                         {"(*apps/nsqd.program).Stop"},
	"(*nsqd.NSQD).GetTopic":                     {"(*nsqd.NSQD).LoadMetadata", "(*nsqd.httpServer).getTopicFromQuery", "(*nsqd.protocolV2).DPUB", "(*nsqd.protocolV2).MPUB", "(*nsqd.protocolV2).PUB", "(*nsqd.protocolV2).SUB", "(*nsqd.NSQD).GetTopic"},
	"(*nsqd.NSQD).LoadMetadata":                 {"(*apps/nsqd.program).Start"},
	"(*nsqd.Topic).Close":                       {"(*nsqd.NSQD).Exit", "(*nsqd.tcpServer).Close", "(*nsqd.tcpServer).Handle", "(*nsqlookupd.tcpServer).Close", "(*nsqlookupd.tcpServer).Handle"},
	"(*nsqd.Topic).Delete":                      {"(*nsqd.NSQD).DeleteExistingTopic"},
	"(*nsqd.Topic).DeleteExistingChannel":       {"(*nsqd.Topic).getOrCreateChannel", "(*nsqd.httpServer).doDeleteChannel"},
	"(*nsqd.Topic).GenerateID":                  {"(*nsqd.httpServer).doMPUB", "(*nsqd.httpServer).doPUB", "(*nsqd.protocolV2).DPUB", "(*nsqd.protocolV2).PUB", "nsqd.readMPUB"},
	"(*nsqd.Topic).GetChannel":                  {"(*nsqd.NSQD).GetTopic", "(*nsqd.NSQD).LoadMetadata", "(*nsqd.httpServer).doCreateChannel", "(*nsqd.protocolV2).SUB"},
	"(*nsqd.Topic).Pause":                       {"(*nsqd.NSQD).LoadMetadata", "(*nsqd.httpServer).doPauseTopic"},
	"(*nsqd.Topic).PutMessage":                  {"(*nsqd.httpServer).doPUB", "(*nsqd.protocolV2).DPUB", "(*nsqd.protocolV2).PUB"},
	"(*nsqd.Topic).PutMessages":                 {"(*nsqd.httpServer).doMPUB", "(*nsqd.protocolV2).MPUB"},
	"(*nsqd.Topic).UnPause":                     {"(*nsqd.httpServer).doPauseTopic"},
	"(*nsqd.Topic).exit":                        {"(*nsqd.Topic).Close", "(*nsqd.Topic).Delete"},
	"(*nsqd.Topic).flush":                       {"(*nsqd.Topic).exit"},
	"(*nsqd.Topic).getOrCreateChannel":          {"(*nsqd.Topic).getOrCreateChannel"},
	"(*nsqd.Topic).put":                         {"(*nsqd.Topic).PutMessage", "(*nsqd.Topic).PutMessages"},
	"(*nsqd.clientV2).Auth":                     {"(*nsqd.protocolV2).AUTH"},
	"(*nsqd.clientV2).IsAuthorized":             {"(*nsqd.protocolV2).CheckAuth"},
	"(*nsqd.clientV2).StartClose":               {"(*nsqd.protocolV2).CLS"},
	"(*nsqd.protocolV2).CLS":                    {"(*nsqd.protocolV2).Exec"},
	"(*nsqd.protocolV2).FIN":                    {"(*nsqd.protocolV2).Exec"},
	"(*nsqd.protocolV2).IDENTIFY":               {"(*nsqd.protocolV2).Exec"},
	"(*nsqd.protocolV2).IOLoop":                 {"(*nsqd.tcpServer).Handle", "(*nsqlookupd.tcpServer).Handle"},
	"(*nsqd.protocolV2).RDY":                    {"(*nsqd.protocolV2).Exec"},
	"(*nsqd.protocolV2).REQ":                    {"(*nsqd.protocolV2).Exec"},
	"(*nsqd.protocolV2).SUB":                    {"(*nsqd.protocolV2).Exec"},
	"(*nsqd.protocolV2).TOUCH":                  {"(*nsqd.protocolV2).Exec"},
	"(*nsqd.protocolV2).messagePump":            {"(*nsqd.protocolV2).IOLoop"},
	"(*nsqd.protocolV2).Send":                   {"(*nsqd.protocolV2).IOLoop", "(*nsqd.protocolV2).SendMessage", "(*nsqd.protocolV2).messagePump"},
	"(*nsqd.tcpServer).Close":                   {"(*nsqd.tcpServer).Close"},
	"(*nsqd.tcpServer).Handle":                  {"internal/protocol.TCPServer"},
	"(*nsqlookupd.LookupProtocolV1).IDENTIFY":   {"(*nsqlookupd.LookupProtocolV1).Exec"},
	"(*nsqlookupd.LookupProtocolV1).IOLoop":     {"(*nsqd.tcpServer).Handle", "(*nsqlookupd.tcpServer).Handle"},
	"(*nsqlookupd.LookupProtocolV1).REGISTER":   {"(*nsqlookupd.LookupProtocolV1).Exec"},
	"(*nsqlookupd.LookupProtocolV1).UNREGISTER": {"(*nsqlookupd.LookupProtocolV1).Exec"},
	"(*nsqlookupd.tcpServer).Close":             {"(*nsqlookupd.tcpServer).Close"},
	"(*nsqlookupd.tcpServer).Handle":            {"internal/protocol.TCPServer"},
	"nsqd.New":                                  {"(*apps/nsqd.program).Init"},
	"nsqd.NewChannel":                           {"(*nsqd.Topic).getOrCreateChannel"},
}

var callersTable = []callersRow{
	{"nsqd", "(*Channel).put", []string{"C01", "C02", "C13"}, []string{"(*nsqd.Channel).PutMessage", "(*nsqd.Channel).RequeueMessage", "(*nsqd.Channel).processDeferredQueue", "(*nsqd.Channel).processInFlightQueue"},
		"a message enters a channel's queue from the topic pump, a requeue or a scan – anything else duplicates it"},
	{"nsqd", "(*Topic).put", []string{"C01", "C12", "C13"}, []string{"(*nsqd.Topic).PutMessage", "(*nsqd.Topic).PutMessages"},
		"a message enters the topic queue from a publish"},
	{"nsqd", "writeMessageToBackend", []string{"C01", "C05", "C07"}, []string{"(*nsqd.Channel).flush", "(*nsqd.Channel).put", "(*nsqd.Topic).flush", "(*nsqd.Topic).put"},
		"only put (overflow) and flush (exit) write messages to disk"},
	{"nsqd", "decodeMessage", []string{"C05", "C07"}, []string{"(*nsqd.Topic).messagePump", "(*nsqd.protocolV2).messagePump"},
		"only the two pumps read messages back from disk"},
	{"nsqd", "(*Channel).pushInFlightMessage", []string{"C01", "C02", "C03"}, []string{"(*nsqd.Channel).StartInFlightTimeout", "(*nsqd.Channel).TouchMessage"},
		"a message becomes in flight when it is delivered or touched"},
	{"nsqd", "(*Channel).addToInFlightPQ", []string{"C02", "C04"}, []string{"(*nsqd.Channel).StartInFlightTimeout", "(*nsqd.Channel).TouchMessage"},
		"the deadline entry is added with the in-flight entry"},
	{"nsqd", "(*Channel).removeFromInFlightPQ", []string{"C02", "C04"}, []string{"(*nsqd.Channel).FinishMessage", "(*nsqd.Channel).RequeueMessage", "(*nsqd.Channel).TouchMessage"},
		"the deadline entry is removed by the answer that removed the in-flight entry"},
	{"nsqd", "(*Channel).pushDeferredMessage", []string{"C01", "C04"}, []string{"(*nsqd.Channel).StartDeferredTimeout"},
		"a message is deferred by a deferred publish or a delayed requeue"},
	{"nsqd", "(*Channel).addToDeferredPQ", []string{"C04"}, []string{"(*nsqd.Channel).StartDeferredTimeout"},
		"the deferred deadline entry is added with the deferred entry"},
	{"nsqd", "(*Channel).StartInFlightTimeout", []string{"C01", "C02", "C03", "C04"}, []string{"(*nsqd.protocolV2).messagePump"},
		"a delivery (or a TOUCH) starts a message's time in flight"},
	{"nsqd", "(*Channel).StartDeferredTimeout", []string{"C01", "C04"}, []string{"(*nsqd.Channel).PutMessageDeferred", "(*nsqd.Channel).RequeueMessage"},
		"a deferred publish or a delayed requeue starts a deferral"},
	{"nsqd", "(*Channel).FinishMessage", []string{"C01", "C02", "C13"}, []string{"(*nsqd.protocolV2).FIN"},
		"only the holder's FIN finishes a message"},
	{"nsqd", "(*Channel).RequeueMessage", []string{"C02", "C04", "C13"}, []string{"(*nsqd.protocolV2).REQ"},
		"only the holder's REQ requeues a message"},
	{"nsqd", "(*Channel).TouchMessage", []string{"C02", "C04"}, []string{"(*nsqd.protocolV2).TOUCH"},
		"only the holder's TOUCH extends a deadline"},
	{"nsqd", "(*Channel).initPQ", []string{"C01", "C02", "C08"}, []string{"(*nsqd.Channel).Empty", "nsqd.NewChannel"},
		"the in-flight and deferred structures are reset at creation and by Empty"},
	{"nsqd", "(*Channel).exit", []string{"C05", "C08"}, []string{"(*nsqd.Channel).Close", "(*nsqd.Channel).Delete"},
		"a channel exits through Close or Delete"},
	{"nsqd", "(*Topic).exit", []string{"C05", "C08"}, []string{"(*nsqd.Topic).Close", "(*nsqd.Topic).Delete"},
		"a topic exits through Close or Delete"},
	{"nsqd", "(*Channel).Empty", []string{"C01", "C08", "C10", "C13"}, []string{"(*nsqd.Channel).exit", "(*nsqd.httpServer).doEmptyChannel"},
		"a channel is emptied by the empty endpoint and by its deletion"},
	{"nsqd", "(*Topic).Empty", []string{"C01", "C08", "C10"}, []string{"(*nsqd.Topic).exit", "(*nsqd.httpServer).doEmptyTopic"},
		"a topic is emptied by the empty endpoint and by its deletion"},
	{"nsqd", "(*Channel).Delete", []string{"C01", "C06", "C08", "C10"}, []string{"(*nsqd.Topic).DeleteExistingChannel", "(*nsqd.Topic).exit"},
		"a channel is deleted by DeleteExistingChannel, its topic's deletion and the ephemeral clean-up"},
	{"nsqd", "(*Topic).Delete", []string{"C01", "C06", "C08", "C10"}, []string{"(*nsqd.NSQD).DeleteExistingTopic"},
		"a topic is deleted by DeleteExistingTopic and the ephemeral clean-up"},
	{"nsqd", "(*Topic).DeleteExistingChannel", []string{"C06", "C08", "C10", "C16"}, []string{"(*nsqd.Topic).getOrCreateChannel", "(*nsqd.httpServer).doDeleteChannel"},
		"a channel leaves its topic by the delete endpoint or the ephemeral clean-up"},
	{"nsqd", "(*NSQD).DeleteExistingTopic", []string{"C06", "C08", "C10", "C16"}, []string{"(*nsqd.NSQD).GetTopic", "(*nsqd.httpServer).doDeleteTopic"},
		"a topic leaves the daemon by the delete endpoint or the ephemeral clean-up"},
	{"nsqd", "(*Topic).getOrCreateChannel", []string{"C08"}, []string{"(*nsqd.Topic).GetChannel"},
		"channels are created through GetChannel"},
	{"nsqd", "(*Channel).AddClient", []string{"C03", "C08"}, []string{"(*nsqd.protocolV2).SUB"},
		"a consumer joins a channel by SUB"},
	{"nsqd", "(*Channel).RemoveClient", []string{"C03", "C08"}, []string{"(*nsqd.protocolV2).IOLoop", "(*nsqd.protocolV2).SUB"},
		"a consumer leaves its channel when its connection ends (or SUB backs out)"},
	{"nsqd", "(*Channel).doPause", []string{"C03", "C06"}, []string{"(*nsqd.Channel).Pause", "(*nsqd.Channel).UnPause"},
		"the pause flag of a channel changes by Pause/UnPause"},
	{"nsqd", "(*Topic).doPause", []string{"C03", "C06"}, []string{"(*nsqd.Topic).Pause", "(*nsqd.Topic).UnPause"},
		"the pause flag of a topic changes by Pause/UnPause"},
	{"nsqd", "(*Channel).Pause", []string{"C03", "C06", "C10"}, []string{"(*nsqd.NSQD).LoadMetadata", "(*nsqd.httpServer).doPauseChannel"},
		"a channel is paused by the endpoint and by the metadata loader"},
	{"nsqd", "(*Channel).UnPause", []string{"C03", "C06", "C10"}, []string{"(*nsqd.httpServer).doPauseChannel"},
		"a channel is unpaused by the endpoint"},
	{"nsqd", "(*Topic).Pause", []string{"C03", "C06", "C10"}, []string{"(*nsqd.NSQD).LoadMetadata", "(*nsqd.httpServer).doPauseTopic"},
		"a topic is paused by the endpoint and by the metadata loader"},
	{"nsqd", "(*Topic).UnPause", []string{"C03", "C06", "C10"}, []string{"(*nsqd.httpServer).doPauseTopic"},
		"a topic is unpaused by the endpoint"},
	{"nsqd", "(*Topic).Start", []string{"C05", "C16"}, []string{"(*nsqd.NSQD).GetTopic", "(*nsqd.NSQD).LoadMetadata"},
		"a topic's pump is released once, after its channels exist"},
	{"nsqd", "(*NSQD).LoadMetadata", []string{"C05", "C06"}, []string{"(*apps/nsqd.program).Start"},
		"metadata is loaded once at start-up"},
	{"nsqd", "(*NSQD).swapOpts", []string{"C10"}, []string{"(*nsqd.httpServer).doConfig", "nsqd.New"},
		"options change at construction and by /config"},
	{"nsqd", "(*guidFactory).NewGUID", []string{"C12"}, []string{"(*nsqd.Topic).GenerateID"},
		"ids are drawn through Topic.GenerateID"},
	{"nsqd", "(*clientV2).SetReadyCount", []string{"C03", "C13"}, []string{"(*nsqd.clientV2).StartClose", "(*nsqd.protocolV2).RDY"},
		"RDY changes by the RDY command and CLS"},
	{"nsqd", "(*clientV2).StartClose", []string{"C03", "C09"}, []string{"(*nsqd.protocolV2).CLS"},
		"closing starts with CLS"},
	{"nsqd", "(*clientV2).Empty", []string{"C03", "C13"}, []string{"(*nsqd.Channel).Empty"},
		"a consumer's in-flight count is zeroed by Channel.Empty"},
	{"nsqd", "(*clientV2).UpgradeTLS", []string{"C11"}, []string{"(*nsqd.protocolV2).IDENTIFY"},
		"TLS is negotiated in IDENTIFY"},
	{"nsqd", "(*clientV2).QueryAuthd", []string{"C11"}, []string{"(*nsqd.clientV2).Auth", "(*nsqd.clientV2).IsAuthorized"},
		"authorizations are fetched by AUTH and refreshed by the authorization check"},
	{"nsqlookupd", "(*RegistrationDB).AddProducer", []string{"C14", "C15", "C16"}, []string{"(*nsqlookupd.LookupProtocolV1).IDENTIFY", "(*nsqlookupd.LookupProtocolV1).REGISTER"},
		"a producer is added by its own REGISTER"},
	{"nsqlookupd", "(*RegistrationDB).AddRegistration", []string{"C14", "C15"}, []string{"(*nsqlookupd.httpServer).doCreateChannel", "(*nsqlookupd.httpServer).doCreateTopic"},
		"a registration without producer is created by the create endpoints"},
	{"nsqlookupd", "(*RegistrationDB).RemoveProducer", []string{"C14", "C15", "C16"}, []string{"(*nsqlookupd.LookupProtocolV1).IOLoop", "(*nsqlookupd.LookupProtocolV1).UNREGISTER"},
		"a producer is removed by its own UNREGISTER and its connection's teardown"},
	{"nsqlookupd", "(*RegistrationDB).RemoveRegistration", []string{"C14", "C15"}, []string{"(*nsqlookupd.LookupProtocolV1).UNREGISTER", "(*nsqlookupd.httpServer).doDeleteChannel", "(*nsqlookupd.httpServer).doDeleteTopic"},
		"a registration is removed by the delete endpoints and by the last producer of an ephemeral one"},
	{"nsqlookupd", "(*Producer).Tombstone", []string{"C14"}, []string{"(*nsqlookupd.httpServer).doTombstoneTopicProducer"},
		"a producer is tombstoned by the tombstone endpoint"},
	{"internal/protocol", "SendFramedResponse", []string{"C07", "C09"}, []string{"(*nsqd.protocolV2).Send", "(*nsqd.tcpServer).Handle"},
		"every frame goes out through Send, which takes the write lock and flushes everything but messages; a frame written anywhere else sits in the buffer until something else flushes it"},
	{"nsqd", "(*NSQD).Main", []string{"C05", "C06", "C16"}, []string{"(*apps/nsqd.program).Start"},
		"the daemon starts to serve after the metadata was loaded and persisted"},
	{"apps/nsq_to_file", "(*FileLogger).Close", []string{"C19"}, []string{"(*apps/nsq_to_file.FileLogger).router", "(*apps/nsq_to_file.FileLogger).updateFile"},
		"the output file is closed by rotation and at the end of the router"},
	{"apps/nsq_to_file", "(*FileLogger).updateFile", []string{"C19"}, []string{"(*apps/nsq_to_file.FileLogger).router"},
		"the output file changes only in the router, between records"},
	{"apps/nsq_to_file", "(*FileLogger).Sync", []string{"C19"}, []string{"(*apps/nsq_to_file.FileLogger).router"},
		"the router syncs before it finishes messages; Close syncs before the hand-off"},
	{"apps/nsq_to_file", "exclusiveRename", []string{"C19"}, []string{"(*apps/nsq_to_file.FileLogger).Close"},
		"the hand-off to the output directory is the only rename"},
}

func init() {
	byProp := map[string]bool{}
	for _, r := range callersTable {
		for _, p := range r.props {
			byProp[p] = true
		}
	}
	var props []string
	for p := range byProp {
		props = append(props, p)
	}
	sort.Strings(props)
	for _, p := range props {
		p := p
		n := 0
		for _, r := range callersTable {
			if contains(r.props, p) {
				n += len(r.allowed)
			}
		}
		reg(p+".callset", "CALLS", "who-may-call baseline: the state-changing helpers behind this property are called only from the transitions that own them", n/2, func(c *an.Ctx) { callset(c, p) })
		pi := Props[p]
		pi.Explanation += " (callset) the helpers that change this property's state keep their callers."
		Props[p] = pi
	}
	if os.Getenv("VERIF_GENCALLERS") != "" {
		reg("C01.gencallers", "CALLS", "generator", 0, genCallers)
	}
}

func callset(c *an.Ctx, prop string) {
	for _, r := range callersTable {
		if !contains(r.props, prop) {
			continue
		}
		target := c.P.Func(r.pkg, r.fn)
		if target == nil {
			continue // inlined away or renamed: nothing to protect under this name
		}
		users := userFuncsOf(c, target)
		type site struct {
			owner string
			at    ssa.Instruction
		}
		var sites []site
		for u, at := range users {
			for _, o := range ownersOf(c, u, 0) {
				sites = append(sites, site{o, at})
			}
		}
		sort.Slice(sites, func(i, j int) bool { return sites[i].owner < sites[j].owner })
		seen := map[string]bool{}
		for _, st := range sites {
			if seen[st.owner] {
				continue
			}
			seen[st.owner] = true
			ok := contains(r.allowed, st.owner)
			if !ok {
				// the caller took over from an allowed caller that was inlined into it and no longer exists
				for _, a := range r.allowed {
					if contains(callersVia[a], st.owner) && !funcExists(c, a) {
						ok = true
					}
				}
			}
			c.Check(ok, target, "caller of "+target.Name()+": "+st.owner, st.at.Pos(), "",
				st.owner+" calls "+an.FnName(target)+", which on the pinned tree is called only by "+strings.Join(r.allowed, ", ")+": "+r.why)
		}
	}
}

// ownersOf: the baseline function a call site belongs to – the function itself (closures count as their enclosing function),
// or, for a function that is not part of the pinned tree and could not be inlined (a callback handed over as a method
// value), the functions that use it.
func ownersOf(c *an.Ctx, fn *ssa.Function, depth int) []string {
	root := fn
	for root.Parent() != nil {
		root = root.Parent()
	}
	if an.Baseline == nil || baselineHas(root) || depth >= 3 {
		return []string{an.FnName(root)}
	}
	var out []string
	for u := range userFuncsOf(c, root) {
		out = append(out, ownersOf(c, u, depth+1)...)
	}
	// taken as a method value: `x.m` is a closure over the synthetic wrapper m$bound
	for _, g := range c.P.RepoFuncs() {
		an.Instrs(g, func(in ssa.Instruction) {
			if mc, ok := in.(*ssa.MakeClosure); ok {
				if f, ok := mc.Fn.(*ssa.Function); ok && an.BoundMethod(f) == root {
					out = append(out, ownersOf(c, g, depth+1)...)
				}
			}
		})
	}
	if len(out) == 0 {
		// a method nothing in the repository calls by name may still be reached through an interface the outside world
		// holds (a go-nsq Handler): whoever boxes the receiver owns it
		if recv := root.Signature.Recv(); recv != nil {
			for _, g := range c.P.RepoFuncs() {
				if g == root {
					continue
				}
				an.Instrs(g, func(in ssa.Instruction) {
					if mi, ok := in.(*ssa.MakeInterface); ok && types.Identical(mi.X.Type(), recv.Type()) {
						out = append(out, ownersOf(c, g, depth+1)...)
					}
				})
			}
		}
	}
	if len(out) == 0 {
		if depth == 0 && root.Pkg != nil && (root.Name() == "main" || root.Name() == "init" || strings.HasPrefix(root.Name(), "init#")) {
			return []string{an.FnName(root)}
		}
		// nothing refers to it: the copy the normaliser left behind after inlining, or dead code – it has no effect to own
		return nil
	}
	sort.Strings(out)
	return out
}

func baselineHas(fn *ssa.Function) bool {
	if fn.Synthetic != "" {
		return false // a bound-method or interface wrapper: belongs to whoever takes the method value
	}
	if fn.Pkg == nil {
		return true
	}
	key := fn.Pkg.Pkg.Path() + "."
	if recv := fn.Signature.Recv(); recv != nil {
		t := recv.Type()
		if pt, ok := t.(*types.Pointer); ok {
			t = pt.Elem()
		}
		if nt, ok := t.(*types.Named); ok {
			key += nt.Obj().Name() + "."
		}
	}
	return an.InBaseline(key + fn.Name())
}

// funcExists: name is an.FnName of a function of the current tree.
func funcExists(c *an.Ctx, name string) bool {
	for _, f := range c.P.RepoFuncs() {
		if an.FnName(f) == name {
			return true
		}
	}
	return false
}

var genCallersList = []callersRow{}

var closureSuffix = regexp.MustCompile(`\$\d+`)

func genCallers(c *an.Ctx) {
	via := map[string][]string{}
	for _, r := range genCallersList {
		target := c.P.Func(r.pkg, r.fn)
		if target == nil {
			fmt.Fprintf(os.Stderr, "// MISSING %s %s\n", r.pkg, r.fn)
			continue
		}
		users := usersOf(c, target)
		var names []string
		for n := range users {
			names = append(names, n)
		}
		sort.Strings(names)
		fmt.Fprintf(os.Stderr, "\t{%q, %q, []string{%s}, []string{%s},\n\t\t%q},\n", r.pkg, r.fn, quoteList(r.props), quoteList(names), r.why)
		for _, n := range names {
			if _, done := via[n]; done {
				continue
			}
			via[n] = nil
			for _, f := range c.P.RepoFuncs() {
				if an.FnName(f) != n {
					continue
				}
				var up []string
				for u := range usersOf(c, f) {
					up = append(up, closureSuffix.ReplaceAllString(u, ""))
				}
				sort.Strings(up)
				via[n] = up
			}
		}
	}
	var keys []string
	for k := range via {
		keys = append(keys, k)
	}
	sort.Strings(keys)
	for _, k := range keys {
		if len(via[k]) > 0 {
			fmt.Fprintf(os.Stderr, "VIA\t%q: {%s},\n", k, quoteList(via[k]))
		}
	}
}

func quoteList(xs []string) string {
	var out []string
	for _, x := range xs {
		out = append(out, fmt.Sprintf("%q", x))
	}
	return strings.Join(out, ", ")
}
