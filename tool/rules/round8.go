package rules

import (
	"go/token"
	"sort"
	"strings"

	"golang.org/x/tools/go/ssa"

	"nsqverif/an"
)

// Must-pass-through rules for entry points (DESIGN.md §11.17): an endpoint that answers success has performed its effect.
// C10.effects/C17.fanout decide *which* operations an endpoint may reach; these decide that every successful path reaches
// the one it is documented to perform (a shortcut – "already exists", "nothing to do" – that answers 200 without it is
// what an idempotence tweak introduces).
func init() {
	for id, extra := range map[string]string{
		"C10": " (must) every 200 of a state-changing endpoint lies behind the operation it names.",
		"C09": " (must) every success of FIN/REQ/TOUCH/SUB/CLS/PUB/MPUB/DPUB lies behind the channel/topic operation it names.",
		"C17": " (must) every successful admin action lies behind the clusterinfo call that carries it out, chosen by the action name.",
		"C02": " (must) as C09, for FIN/REQ/TOUCH.",
	} {
		p := Props[id]
		p.Explanation += extra
		Props[id] = p
	}
	reg("C10.must", "PATH", "every successful path of a state-changing nsqd HTTP endpoint passes the operation it is documented to perform", 10, mustTable("nsqd", "(*httpServer).", nsqdHTTPMust))
	reg("C09.must", "PATH", "every successful path of a TCP command passes the operation it is documented to perform", 8, mustTable("nsqd", "(*protocolV2).", nsqdTCPMust))
	reg("C02.must", "PATH", "FIN/REQ/TOUCH succeed only through Channel.FinishMessage/RequeueMessage/TouchMessage (the rows of C09.must)", 3,
		only(mustTable("nsqd", "(*protocolV2).", nsqdTCPMust), func(n string) bool {
			return strings.HasSuffix(n, ").FIN") || strings.HasSuffix(n, ").REQ") || strings.HasSuffix(n, ").TOUCH")
		}))
	reg("C17.must", "PATH", "every successful path of an nsqadmin action handler passes the clusterinfo call of that action", 7, c17must)
}

// alternatives are separated by "|"; every group must be passed
var nsqdHTTPMust = map[string][]string{
	"doCreateTopic":   {"(*NSQD).GetTopic"},
	"doDeleteTopic":   {"(*NSQD).DeleteExistingTopic"},
	"doEmptyTopic":    {"(*Topic).Empty"},
	"doPauseTopic":    {"(*Topic).Pause|(*Topic).UnPause", "(*NSQD).PersistMetadata"},
	"doCreateChannel": {"(*Topic).GetChannel"},
	"doDeleteChannel": {"(*Topic).DeleteExistingChannel"},
	"doEmptyChannel":  {"(*Channel).Empty"},
	"doPauseChannel":  {"(*Channel).Pause|(*Channel).UnPause", "(*NSQD).PersistMetadata"},
	"doPUB":           {"(*Topic).PutMessage"},
	"doMPUB":          {"(*Topic).PutMessages"},
}

var nsqdTCPMust = map[string][]string{
	"PUB":   {"(*Topic).PutMessage"},
	"DPUB":  {"(*Topic).PutMessage"},
	"MPUB":  {"(*Topic).PutMessages"},
	"FIN":   {"(*Channel).FinishMessage", "(*clientV2).FinishedMessage"},
	"REQ":   {"(*Channel).RequeueMessage", "(*clientV2).RequeuedMessage"},
	"TOUCH": {"(*Channel).TouchMessage"},
	"SUB":   {"(*Channel).AddClient"},
	"CLS":   {"(*clientV2).StartClose"},
}

// passesCall: on every path of fn from its start (entry, or the given edges) to a success return a call of one of targets is
// passed – directly, or as a call of a function of the same package that itself passes one on every successful path.
func passesCall(fn *ssa.Function, start []an.Edge, targets map[*ssa.Function]bool, memo map[*ssa.Function]int, depth int) (bool, []string) {
	isTarget := func(in ssa.Instruction, st *an.PathState) bool {
		ci, ok := in.(ssa.CallInstruction)
		if !ok {
			return false
		}
		if _, isGo := in.(*ssa.Go); isGo {
			return false
		}
		callee := calleeOnPath(ci, st)
		if callee == nil {
			return false
		}
		if targets[callee] {
			return true
		}
		if depth >= 3 || callee.Pkg != fn.Pkg || len(callee.Blocks) == 0 {
			return false
		}
		switch memo[callee] {
		case 1:
			return true
		case 2:
			return false
		}
		memo[callee] = 2 // recursion: assume no
		ok, _ = passesCall(callee, nil, targets, memo, depth+1)
		if ok {
			memo[callee] = 1
		}
		return ok
	}
	q := &an.PathQ{Fn: fn, StartEntry: len(start) == 0, StartEdges: start, AllAlias: true, FullOnly: true, Sink: sinkSuccessReturn, Cut: isTarget}
	w, f := q.Find()
	return !f, w
}

func mustTable(pkg, recv string, table map[string][]string) func(*an.Ctx) {
	return func(c *an.Ctx) {
		var names []string
		for k := range table {
			names = append(names, k)
		}
		sort.Strings(names)
		for _, h := range names {
			fn := c.Fn(pkg, recv+h)
			if fn == nil {
				continue
			}
			for _, group := range table[h] {
				targets := map[*ssa.Function]bool{}
				for _, alt := range strings.Split(group, "|") {
					if f := c.P.Func(pkg, alt); f != nil {
						targets[f] = true
					}
				}
				if len(targets) == 0 {
					c.Anchor(pkg + " " + group)
					continue
				}
				ok, w := passesCall(fn, nil, targets, map[*ssa.Function]int{}, 0)
				if ok {
					c.OK(fn, "success only through "+group, fn.Pos(), "")
				} else {
					c.Bad(fn, "success only through "+group, fn.Pos(), h+" can answer success on a path that never calls "+group+": the request is acknowledged and its effect did not happen (a shortcut for a case that looks already handled – the object exists, the value did not change – skips the part of the operation that was still needed)", w)
				}
			}
		}
	}
}

func c17must(c *an.Ctx) {
	ciFn := func(n string) *ssa.Function { return c.P.Func("internal/clusterinfo", "(*ClusterInfo)."+n) }
	// plain handlers
	for h, target := range map[string]string{
		"tombstoneNodeForTopicHandler": "TombstoneNodeForTopic",
		"createTopicChannelHandler":    "CreateTopicChannel",
		"deleteTopicHandler":           "DeleteTopic",
		"deleteChannelHandler":         "DeleteChannel",
	} {
		fn := c.Fn("nsqadmin", "(*httpServer)."+h)
		t := ciFn(target)
		if fn == nil {
			continue
		}
		if t == nil {
			c.Anchor("clusterinfo." + target)
			continue
		}
		ok, w := passesCall(fn, nil, map[*ssa.Function]bool{t: true}, map[*ssa.Function]int{}, 0)
		if ok {
			c.OK(fn, "success only through "+target, fn.Pos(), "")
		} else {
			c.Bad(fn, "success only through "+target, fn.Pos(), h+" can answer success without having called ClusterInfo."+target+": the action is reported done and reached no nsqd or nsqlookupd", w)
		}
	}
	// the action switch: from the edge that decided body.Action == "<a>", the <A>Topic / <A>Channel call is passed, and the
	// channel variant exactly when a channel was named
	fn := c.Fn("nsqadmin", "(*httpServer).topicChannelAction")
	if fn == nil {
		return
	}
	want := map[string][2]string{"pause": {"PauseTopic", "PauseChannel"}, "unpause": {"UnPauseTopic", "UnPauseChannel"}, "empty": {"EmptyTopic", "EmptyChannel"}}
	seen := map[string]bool{}
	an.Instrs(fn, func(in ssa.Instruction) {
		b, ok := in.(*ssa.BinOp)
		if !ok || (b.Op != token.EQL && b.Op != token.NEQ) {
			return
		}
		s, ok := an.ConstString(b.Y)
		if !ok {
			return
		}
		w, known := want[s]
		if !known {
			return
		}
		for _, t := range an.BoolTests(b) {
			e := t.True
			if b.Op == token.NEQ {
				e = t.False
			}
			seen[s] = true
			tt, tc := ciFn(w[0]), ciFn(w[1])
			if tt == nil || tc == nil {
				c.Anchor("clusterinfo." + w[0] + "/" + w[1])
				continue
			}
			ok, wit := passesCall(fn, []an.Edge{e}, map[*ssa.Function]bool{tt: true, tc: true}, map[*ssa.Function]int{}, 0)
			// no other action's call on the way
			other := false
			for a, ow := range want {
				if a == s {
					continue
				}
				for _, on := range ow {
					o := ciFn(on)
					if o == nil {
						continue
					}
					q := &an.PathQ{Fn: fn, StartEdges: []an.Edge{e}, AllAlias: true, FullOnly: true, Sink: func(x ssa.Instruction, st *an.PathState) bool {
						ci, isCall := x.(ssa.CallInstruction)
						return isCall && calleeOnPath(ci, st) == o
					}, CutEdge: func(ed an.Edge, _ *an.PathState) bool { return false }}
					if _, f := q.Find(); f {
						other = true
					}
				}
			}
			if ok && !other {
				c.OK(fn, "action "+s+" carried out by "+w[0]+"/"+w[1], b.Pos(), "")
			} else {
				c.Bad(fn, "action "+s+" carried out by "+w[0]+"/"+w[1], b.Pos(), "the \""+s+"\" action can succeed without "+w[0]+"/"+w[1]+", or reaches another action's call", wit)
			}
		}
	})
	for a := range want {
		if !seen[a] {
			c.Bad(fn, "action "+a+" dispatched", fn.Pos(), "topicChannelAction has no case for \""+a+"\"", nil)
		}
	}
}
