package rules

import (
	"go/token"
	"go/types"
	"sort"
	"strings"

	"golang.org/x/tools/go/ssa"

	"nsqverif/an"
)

// Rules added after the eleventh round of independently seeded changes (DESIGN.md §11.25).
func init() {
	for id, extra := range map[string]string{
		"C01": " (handoff) a scan takes a message out of its container before it re-queues it; (batch) a multi-publish is acknowledged only if every put succeeded.",
		"C02": " (monotone) ids never repeat; (early) a scan times a message out only at its deadline.",
		"C03": " (meta) each channel's pause flag is restored from its own entry.",
		"C04": " (must) TOUCH succeeds only through TouchMessage.",
		"C05": " (copy) each channel has its own message object.",
		"C07": " (reqbody) HTTP handlers see the request body itself.",
		"C08": " (consumernolock) what a channel calls on its consumers while it holds its own locks takes no connection write lock.",
		"C09": " (linebound) a command line is read into the connection's fixed read buffer; (readersize) that buffer has the default size.",
		"C10": " (fanout) a channel deletion reaches the topic pump; (reqbody) as C07; (configput) only the two writable options reach the option swap.",
		"C11": " (patternsasgiven) a grant's patterns are compiled as the auth server sent them; (tlsoption) --tls-required is parsed into one of the three named policies.",
		"C13": " (copy) as C05.",
		"C14": " (badnamefatal) an invalid name ends the peer's connection.",
		"C15": " (peerinfonil) a peer record is dereferenced only where it is known to exist; (lineread) a command line of any length is read whole.",
		"C19": " (bodyintact) the body written is the body received.",
		"C20": " (bodyintact) the body relayed is the body received.",
		"C16": " (start) a new topic's pump waits for Start.",
		"C17": " (postpartial) a failed nsqlookupd POST is a partial error, so the nsqd step still runs.",
		"C18": " (tlsskip) the upstream client honours insecure-skip-verify on its own; (unionasis) what an nsqlookupd reports is merged unfiltered.",
	} {
		p := Props[id]
		p.Explanation += extra
		Props[id] = p
	}
	has := func(subs ...string) func(string) bool {
		return func(n string) bool {
			for _, s := range subs {
				if strings.Contains(n, s) {
					return true
				}
			}
			return false
		}
	}
	reg("C01.handoff", "PATH", "the deferred/timeout scans take the message out of its container before they re-queue it: re-queued first, a consumer can answer it while its old entry still exists (shared with C13.handoff)", 2, c13handoff)
	reg("C01.batch", "PATH", "PutMessages counts and acknowledges only on the success side of every put (the PutMessages rows of C13.pairing)", 1, only(c13pairing, has("PutMessages")))
	reg("C02.monotone", "GUARD+CALLS", "an id is handed out only when it is greater than the last one: two messages with one id are one in-flight entry (shared with C12.monotone)", 2, c12monotone)
	reg("C02.early", "GUARD+ORIG", "the scans remove a heap head only when its deadline has passed by the scan worker's own clock (shared with C04.early)", 8, c04early)
	reg("C03.meta", "SHAPE+PATH", "LoadMetadata restores each channel's pause flag from that channel's entry (the LoadMetadata rows of C05.meta)", 1, only(c05meta, has("LoadMetadata")))
	reg("C04.must", "PATH", "TOUCH succeeds only through Channel.TouchMessage: an accepted TOUCH that moved no deadline lets the message time out (the TOUCH row of C09.must)", 1,
		only(mustTable("nsqd", "(*protocolV2).", nsqdTCPMust), func(n string) bool { return strings.HasSuffix(n, ").TOUCH") }))
	reg("C05.copy", "ORIG", "each channel gets its own message object: a shared one carries the sum of the channels' attempts to disk (shared with C02.copy)", 1, c02copy)
	reg("C13.copy", "ORIG", "each channel gets its own message object: a shared one is owned by whichever channel delivered last, and the other consumer's counters never settle (shared with C02.copy)", 1, c02copy)
	reg("C10.fanout", "PATH+ORIG", "DeleteExistingChannel tells the topic pump (blocking, or the topic is exiting): a lost token leaves the pump copying into the deleted channel (the DeleteExistingChannel rows of C01.fanout)", 1, only(c01fanout, has("DeleteExistingChannel")))
	reg("C16.start", "PATH", "the topic pump reads no queue before Start: channels pre-created from nsqlookupd all get the first message (shared with C05.start)", 1, c05start)

	reg("C07.reqbody", "ORIG", "no store into http.Request.Body in nsqd, nsqlookupd, nsqadmin", 1, c07reqbody)
	reg("C10.reqbody", "ORIG", "no store into http.Request.Body: the handlers' own max+1 reads decide 413 (shared with C07.reqbody)", 1, c07reqbody)
	reg("C08.consumernolock", "LOCK", "the Consumer methods of clientV2 do not take clientV2.writeLock", 5, c08consumernolock)
	reg("C09.linebound", "CALLS", "protocolV2.IOLoop reads command lines with ReadSlice only", 1, c09linebound)
	reg("C09.readersize", "ORIG", "every reader stored in clientV2.Reader is sized by a constant", 4, c09readersize)
	reg("C10.configput", "GUARD", "nsqd's doConfig reaches swapOpts only past an equality test of the option name", 1, c10configput)
	reg("C11.tlsoption", "ORIG", "tlsRequiredOption.Set stores named constants only, tcp-https's only under s == \"tcp-https\"", 2, c11tlsoption)
	reg("C11.patternsasgiven", "ORIG", "the patterns a grant is matched with are its Topic and the elements of its Channels, as given", 2, c11patternsasgiven)
	reg("C14.badnamefatal", "ETYPE", "every error of nsqlookupd's getTopicChan is a FatalClientErr", 1, c14badnamefatal)
	reg("C15.peerinfonil", "GUARD", "ClientV1.peerInfo is dereferenced only under a non-nil test of it", 4, c15peerinfonil)
	reg("C15.lineread", "CALLS", "LookupProtocolV1.IOLoop reads command lines with ReadString/ReadBytes", 1, c15lineread)
	reg("C17.postpartial", "ETYPE", "nsqlookupdPOST and producersPOST return partial errors only", 2, c17postpartial)
	reg("C18.postpartial", "ETYPE", "nsqlookupdPOST and producersPOST return partial errors only (shared with C17.postpartial)", 2, c17postpartial)
	reg("C18.tlsskip", "PATH", "nsqadmin's upstream TLS config takes InsecureSkipVerify from the option on every path that builds the daemon", 1, c18tlsskip)
	reg("C19.bodyintact", "ORIG", "nsq_to_file never stores into a consumed message's Body", 1, c19bodyintact("apps/nsq_to_file"))
	reg("C20.bodyintact", "ORIG", "the relay tools never store into a consumed message's Body", 1, c19bodyintact("apps/nsq_to_http", "apps/nsq_to_nsq", "apps/nsq_tail"))
	reg("C18.unionasis", "PATH", "GetLookupdTopics/GetLookupdTopicChannels append the whole reported list", 2, c18unionasis)
}

// ---- C07.reqbody ---------------------------------------------------------------------------------------------

func c07reqbody(c *an.Ctx) {
	n := 0
	for _, pkg := range []string{"nsqd", "nsqlookupd", "nsqadmin", "internal/http_api"} {
		for _, fn := range c.P.PkgFuncs(pkg) {
			n++
			an.Instrs(fn, func(in ssa.Instruction) {
				st, ok := in.(*ssa.Store)
				if !ok {
					return
				}
				fa, ok := st.Addr.(*ssa.FieldAddr)
				if !ok {
					return
				}
				f := an.FieldOf(fa)
				if f == nil || f.Name() != "Body" || f.Pkg() == nil || f.Pkg().Path() != "net/http" {
					return
				}
				if pt, ok := fa.X.Type().Underlying().(*types.Pointer); !ok || !strings.HasSuffix(pt.Elem().String(), "net/http.Request") {
					return
				}
				c.Bad(fn, "request body replaced", st.Pos(), an.FnName(fn)+" replaces http.Request.Body: /pub and /mpub tell an oversized body from an acceptable one by reading one byte past the limit, and a body capped (or otherwise rewritten) on the way in reads as a clean end of input – the request is accepted and the record that straddles the cut is published truncated", nil)
			})
		}
	}
	c.Check(n > 50, nil, "functions scanned", token.NoPos, "", "fewer than 50 functions scanned for stores into http.Request.Body")
}

// ---- C08.consumernolock --------------------------------------------------------------------------------------

// c08consumernolock: Channel calls its consumers (Close, Pause, UnPause, TimedOutMessage, Empty, Stats) while it holds
// exitMutex or its RWMutex. clientV2.writeLock is held by the consumer pump across socket writes, for as long as a peer
// that stopped reading lets the write deadline run; a Consumer method that takes it makes the channel – and the topic pump
// and queue scanner behind the channel's locks – wait that long.
func c08consumernolock(c *an.Ctx) {
	cons := c.P.Named("nsqd", "Consumer")
	cl := c.P.Named("nsqd", "clientV2")
	if cons == nil || cl == nil {
		c.Anchor("nsqd.Consumer / nsqd.clientV2")
		return
	}
	it, ok := cons.Underlying().(*types.Interface)
	if !ok {
		c.Anchor("nsqd.Consumer is an interface")
		return
	}
	takes := func(fn *ssa.Function) ssa.Instruction {
		var at ssa.Instruction
		seen := map[*ssa.Function]bool{}
		var walk func(f *ssa.Function, d int)
		walk = func(f *ssa.Function, d int) {
			if f == nil || seen[f] || d > 3 || f.Blocks == nil || at != nil {
				return
			}
			seen[f] = true
			an.Instrs(f, func(in ssa.Instruction) {
				ci, ok := in.(ssa.CallInstruction)
				if !ok || at != nil {
					return
				}
				if op := an.LockOpOf(in); op != nil && op.Class == "clientV2.writeLock" && op.Acquire {
					at = in
					return
				}
				if g := an.StaticCallee(ci); g != nil && g.Pkg != nil && strings.HasPrefix(g.Pkg.Pkg.Path(), an.ModPath) {
					walk(g, d+1)
				}
			})
		}
		walk(fn, 0)
		return at
	}
	for i := 0; i < it.NumMethods(); i++ {
		m := it.Method(i)
		fn := c.P.Func("nsqd", "(*clientV2)."+m.Name())
		if fn == nil {
			// promoted from the embedded net.Conn (Close on the pinned tree): no repository code runs
			c.OK(nil, "Consumer."+m.Name()+" takes no write lock", token.NoPos, "")
			continue
		}
		at := takes(fn)
		pos := fn.Pos()
		if at != nil {
			pos = at.Pos()
		}
		c.Check(at == nil, fn, "Consumer."+m.Name()+" takes no write lock", pos, "", "clientV2."+m.Name()+" – called by Channel on its consumers while it holds exitMutex / its RWMutex – takes clientV2.writeLock, which the consumer pump holds while it writes to the socket: one consumer that stopped reading stalls the channel's delete/close, and with it the topic pump and the queue scanner, for the length of the write deadline")
	}
}

// ---- C09.linebound / C15.lineread ----------------------------------------------------------------------------

func bufioLineReads(fn *ssa.Function) map[string]ssa.Instruction {
	out := map[string]ssa.Instruction{}
	for _, g := range an.WithAnon(fn) {
		an.Instrs(g, func(in ssa.Instruction) {
			ci, ok := in.(ssa.CallInstruction)
			if !ok {
				return
			}
			f := an.StaticCallee(ci)
			if f == nil || f.Pkg == nil || f.Pkg.Pkg.Path() != "bufio" || f.Signature.Recv() == nil {
				return
			}
			switch f.Name() {
			case "ReadSlice", "ReadBytes", "ReadString", "ReadLine", "ReadRune", "ReadByte":
				out[f.Name()] = in
			}
		})
	}
	return out
}

func c09linebound(c *an.Ctx) {
	fn := c.Fn("nsqd", "(*protocolV2).IOLoop")
	if fn == nil {
		return
	}
	reads := bufioLineReads(fn)
	var names []string
	for k := range reads {
		names = append(names, k)
	}
	sort.Strings(names)
	_, slice := reads["ReadSlice"]
	ok := slice
	pos := fn.Pos()
	for _, k := range names {
		if k != "ReadSlice" {
			ok = false
			pos = reads[k].Pos()
		}
	}
	c.Check(ok, fn, "command line read into the fixed buffer", pos, "", "protocolV2.IOLoop reads the command line with "+strings.Join(names, ", ")+" instead of ReadSlice alone: ReadSlice fails once the connection's 16 KiB read buffer is full, which is the only bound on a line – a peer that never sends a newline makes nsqd buffer without limit, and an over-long line is parsed instead of ending the connection")
}

func c15lineread(c *an.Ctx) {
	fn := c.Fn("nsqlookupd", "(*LookupProtocolV1).IOLoop")
	if fn == nil {
		return
	}
	reads := bufioLineReads(fn)
	var names []string
	for k := range reads {
		names = append(names, k)
	}
	sort.Strings(names)
	ok := len(names) > 0
	pos := fn.Pos()
	for _, k := range names {
		if k != "ReadString" && k != "ReadBytes" {
			ok = false
			pos = reads[k].Pos()
		}
	}
	c.Check(ok, fn, "command line read whole", pos, "", "LookupProtocolV1.IOLoop reads the command line with "+strings.Join(names, ", ")+": ReadSlice/ReadLine fail with ErrBufferFull on a line longer than the buffer, the loop takes that for a dead connection and hangs up without the E_INVALID / E_BAD_TOPIC frame a malformed command is owed")
}

// ---- C09.readersize ------------------------------------------------------------------------------------------

func c09readersize(c *an.Ctx) {
	rf := c.P.Field("nsqd", "clientV2", "Reader")
	if rf == nil {
		c.Anchor("nsqd.clientV2.Reader")
		return
	}
	n := 0
	for _, fn := range c.P.PkgFuncs("nsqd") {
		an.Instrs(fn, func(in ssa.Instruction) {
			st, ok := in.(*ssa.Store)
			if !ok {
				return
			}
			fa, ok := st.Addr.(*ssa.FieldAddr)
			if !ok || an.FieldOf(fa) != rf {
				return
			}
			n++
			good := false
			for _, o := range originsOrNone(st.Val) {
				call, ok := an.Strip(o).(*ssa.Call)
				if !ok {
					continue
				}
				if an.StdCallee(call, "bufio", "NewReaderSize") && len(call.Call.Args) == 2 {
					if k, isC := an.ConstInt(call.Call.Args[1]); isC && k >= 4096 {
						good = true
					}
				}
			}
			c.Check(good, fn, "read buffer has the default size", st.Pos(), "", an.FnName(fn)+" stores a reader into clientV2.Reader that is not bufio.NewReaderSize(…, constant): the read buffer is the limit on a command line, and one sized by a negotiated value (the client's output_buffer_size) refuses legal commands after an upgrade or accepts lines far beyond 16 KiB")
		})
	}
	c.Check(n >= 4, nil, "reader stores located", token.NoPos, "", "fewer than four stores into clientV2.Reader found")
}

// ---- C10.configput -------------------------------------------------------------------------------------------

func c10configput(c *an.Ctx) {
	fn := c.Fn("nsqd", "(*httpServer).doConfig")
	swap := c.Fn("nsqd", "(*NSQD).swapOpts")
	if fn == nil || swap == nil {
		return
	}
	calls := an.CallsTo(fn, swap)
	if len(calls) == 0 {
		c.Und(fn, "only writable options are written", fn.Pos(), "doConfig no longer calls swapOpts")
		return
	}
	q := &an.PathQ{Fn: fn, StartEntry: true, FullOnly: true,
		Sink: func(in ssa.Instruction, _ *an.PathState) bool {
			ci, ok := in.(ssa.CallInstruction)
			return ok && an.IsCallTo(ci, swap)
		},
		CutEdge: func(e an.Edge, st *an.PathState) bool {
			for _, cmp := range st.CmpsOnEdge(e) {
				if cmp.Op != token.EQL {
					continue
				}
				for _, v := range []ssa.Value{cmp.X, cmp.Y} {
					if s, ok := an.ConstString(v); ok && s != "" && s != "PUT" && s != "GET" && s != "POST" {
						return true
					}
				}
			}
			return false
		}}
	w, found := q.Find()
	if found {
		c.Bad(fn, "only writable options are written", calls[0].Pos(), "doConfig can reach swapOpts without the option name having matched one of the writable options: a PUT to a read-only or unknown option is answered 200 instead of 400 INVALID_OPTION, swaps in a fresh options copy and wakes the lookup loop", w)
	} else {
		c.OK(fn, "only writable options are written", calls[0].Pos(), "")
	}
}

// ---- C11.tlsoption -------------------------------------------------------------------------------------------

func c11tlsoption(c *an.Ctx) {
	fn := c.Fn("apps/nsqd", "(*tlsRequiredOption).Set")
	exc := c.P.Const("nsqd", "TLSRequiredExceptHTTP")
	if fn == nil || exc == nil {
		if fn != nil {
			c.Anchor("nsqd.TLSRequiredExceptHTTP")
		}
		return
	}
	excV, _ := an.ConstInt(ssa.NewConst(exc.Val(), exc.Type()))
	n := 0
	var stores []*ssa.Store
	an.Instrs(fn, func(in ssa.Instruction) {
		st, ok := in.(*ssa.Store)
		if !ok || !isParam(an.Strip(st.Addr), fn, 0) {
			return
		}
		n++
		stores = append(stores, st)
		allConst := true
		for _, o := range originsOrNone(st.Val) {
			if _, isC := an.ConstInt(o); !isC {
				allConst = false
			}
		}
		c.Check(allConst, fn, "policy is a named constant", st.Pos(), "", "tlsRequiredOption.Set stores a value computed from its input instead of one of TLSNotRequired/TLSRequiredExceptHTTP/TLSRequired: a spelling that used to mean \"required\" (1) can select tcp-https, and plain-text HTTP is served on a daemon configured to require TLS")
	})
	c.Check(n >= 1, fn, "policy stores located", fn.Pos(), "", "no store through the receiver in tlsRequiredOption.Set")
	if n == 0 {
		return
	}
	// tcp-https's constant reaches the store only along an edge on which the text equalled "tcp-https"
	var marked []ssa.Value
	for _, st := range stores {
		marked = append(marked, st.Val)
	}
	q := &an.PathQ{Fn: fn, StartEntry: true, FullOnly: true, AllConsts: true, AllAlias: true, Marked: marked,
		Sink: func(in ssa.Instruction, ps *an.PathState) bool {
			st, ok := in.(*ssa.Store)
			if !ok || !isParam(an.Strip(st.Addr), fn, 0) {
				return false
			}
			if k, isC := an.ConstInt(st.Val); isC {
				return k == excV
			}
			if cv, known := ps.ConstOf(st.Val); known {
				k, _ := an.ConstInt(cv)
				return k == excV
			}
			if sel := ps.Selected(st.Val); sel != nil {
				if k, isC := an.ConstInt(sel); isC {
					return k == excV
				}
			}
			return false
		},
		CutEdge: func(e an.Edge, ps *an.PathState) bool {
			for _, cmp := range ps.CmpsOnEdge(e) {
				if cmp.Op != token.EQL {
					continue
				}
				for _, v := range []ssa.Value{cmp.X, cmp.Y} {
					if s, ok := an.ConstString(v); ok && s == "tcp-https" {
						return true
					}
				}
			}
			return false
		}}
	w, found := q.Find()
	if found {
		c.Bad(fn, "tcp-https only when asked for", stores[0].Pos(), "tlsRequiredOption.Set can store TLSRequiredExceptHTTP on a path where the value was not \"tcp-https\"", w)
	} else {
		c.OK(fn, "tcp-https only when asked for", stores[0].Pos(), "")
	}
}

// ---- C14.badnamefatal / C17.postpartial ----------------------------------------------------------------------

func c14badnamefatal(c *an.Ctx) {
	fn := c.Fn("nsqlookupd", "getTopicChan")
	if fn == nil {
		return
	}
	et := an.NewETypes(c.P)
	idx := fn.Signature.Results().Len() - 1
	types_ := et.Result(fn, idx)
	var bad []string
	n := 0
	for t := range types_ {
		if t == "nil" {
			continue
		}
		n++
		if !strings.HasSuffix(t, "internal/protocol.FatalClientErr") {
			bad = append(bad, t)
		}
	}
	sort.Strings(bad)
	c.Check(len(bad) == 0 && n > 0, fn, "name errors are fatal", fn.Pos(), "", "getTopicChan returns "+strings.Join(bad, ", ")+" where the pinned tree returns *FatalClientErr only: an invalid topic or channel name in REGISTER/UNREGISTER is answered but no longer ends the connection, so the peer and all it registered stay listed")
}

func c17postpartial(c *an.Ctx) {
	pe := c.P.Named("internal/clusterinfo", "PartialErr")
	if pe == nil {
		c.Anchor("internal/clusterinfo.PartialErr")
		return
	}
	pit, _ := pe.Underlying().(*types.Interface)
	et := an.NewETypes(c.P)
	for _, name := range []string{"(*ClusterInfo).nsqlookupdPOST", "(*ClusterInfo).producersPOST"} {
		fn := c.Fn("internal/clusterinfo", name)
		if fn == nil {
			continue
		}
		var bad []string
		for t := range et.Result(fn, fn.Signature.Results().Len()-1) {
			if t == "nil" {
				continue
			}
			ok := false
			tn := strings.TrimPrefix(t, "*")
			if i := strings.LastIndex(tn, "."); i >= 0 && pit != nil {
				if nt := c.P.Named(tn[:i], tn[i+1:]); nt != nil {
					ok = types.Implements(nt, pit) || types.Implements(types.NewPointer(nt), pit)
				}
			}
			if !ok {
				bad = append(bad, t)
			}
		}
		sort.Strings(bad)
		c.Check(len(bad) == 0, fn, "failures are partial errors", fn.Pos(), "", fn.Name()+" can return "+strings.Join(bad, ", ")+", which is not a PartialErr: DeleteTopic/DeleteChannel/TombstoneNodeForTopic stop at a non-partial error of the nsqlookupd step, so the nsqds are never told (with no nsqlookupd configured, \"all of zero failed\" is such an error)")
	}
}

// ---- C15.peerinfonil -----------------------------------------------------------------------------------------

func c15peerinfonil(c *an.Ctx) {
	pf := c.P.Field("nsqlookupd", "ClientV1", "peerInfo")
	if pf == nil {
		c.Anchor("nsqlookupd.ClientV1.peerInfo")
		return
	}
	n := 0
	for _, fn := range c.P.PkgFuncs("nsqlookupd") {
		an.Instrs(fn, func(in ssa.Instruction) {
			fa, ok := in.(*ssa.FieldAddr)
			if !ok {
				return
			}
			ld, ok := an.Strip(fa.X).(*ssa.UnOp)
			if !ok || ld.Op != token.MUL {
				return
			}
			if f, _ := an.LoadedField(ld); f != pf {
				return
			}
			n++
			good := false
			for _, cmp := range an.CmpsAt(fa.Block()) {
				if cmp.Op != token.NEQ {
					continue
				}
				x, y := cmp.X, cmp.Y
				if an.IsNilConst(x) {
					x, y = y, x
				}
				if !an.IsNilConst(y) {
					continue
				}
				if f, _ := an.LoadedField(an.Strip(x)); f == pf {
					good = true
				}
			}
			if !good {
				// stored in this function on every path to here (IDENTIFY attaches the record and goes on using it)
				for _, r := range fn.Blocks {
					for _, i2 := range r.Instrs {
						if st, ok := i2.(*ssa.Store); ok {
							if sfa, ok := st.Addr.(*ssa.FieldAddr); ok && an.FieldOf(sfa) == pf && !an.IsNilConst(st.Val) && (st.Block().Dominates(fa.Block()) && (st.Block() != fa.Block() || an.IndexInBlock(st) < an.IndexInBlock(fa))) {
								good = true
							}
						}
					}
				}
			}
			c.Check(good, fn, "peer record known to exist", fa.Pos(), "", an.FnName(fn)+" dereferences client.peerInfo where it is not known to be non-nil: a command sent before IDENTIFY (PING is allowed there) panics in the connection's goroutine, which nothing recovers – nsqlookupd exits")
		})
	}
	c.Check(n >= 4, nil, "peer record dereferences located", token.NoPos, "", "fewer than four dereferences of ClientV1.peerInfo found")
}

// ---- C18.tlsskip ---------------------------------------------------------------------------------------------

func c18tlsskip(c *an.Ctx) {
	opt := c.P.Field("nsqadmin", "Options", "HTTPClientTLSInsecureSkipVerify")
	if opt == nil {
		c.Anchor("nsqadmin.Options.HTTPClientTLSInsecureSkipVerify")
		return
	}
	isSkipStore := func(in ssa.Instruction, _ *an.PathState) bool {
		st, ok := in.(*ssa.Store)
		if !ok {
			return false
		}
		fa, ok := st.Addr.(*ssa.FieldAddr)
		if !ok {
			return false
		}
		f := an.FieldOf(fa)
		if f == nil || f.Name() != "InsecureSkipVerify" || f.Pkg() == nil || f.Pkg().Path() != "crypto/tls" {
			return false
		}
		return isLoadOfField(st.Val, opt)
	}
	var host *ssa.Function
	for _, fn := range c.P.PkgFuncs("nsqadmin") {
		an.Instrs(fn, func(in ssa.Instruction) {
			if isSkipStore(in, nil) && fn.Parent() == nil {
				host = fn
			}
		})
	}
	if host == nil {
		nf := c.Fn("nsqadmin", "New")
		c.Bad(nf, "skip-verify reaches the upstream client", token.NoPos, "nothing in nsqadmin stores Options.HTTPClientTLSInsecureSkipVerify into a tls.Config: --http-client-tls-insecure-skip-verify is ignored and every TLS nsqd with a private certificate drops out of the views", nil)
		return
	}
	errIdx := host.Signature.Results().Len() - 1
	q := &an.PathQ{Fn: host, StartEntry: true, Cut: isSkipStore, AllAlias: true,
		Sink: func(in ssa.Instruction, st *an.PathState) bool {
			r, ok := in.(*ssa.Return)
			if !ok {
				return false
			}
			if errIdx >= 0 && errIdx < len(r.Results) && an.IsErrorType(r.Results[errIdx].Type()) {
				return an.IsNilConst(errOperandOn2(r, errIdx, st))
			}
			return true
		}}
	w, found := q.Find()
	if found {
		c.Bad(host, "skip-verify reaches the upstream client", host.Pos(), an.FnName(host)+" can succeed without having stored the insecure-skip-verify option into the upstream client's TLS config (the config is only built when a certificate or CA is given): with the option alone, requests to a TLS nsqd with a private certificate fail and the node silently drops out of every sum and list", w)
	} else {
		c.OK(host, "skip-verify reaches the upstream client", host.Pos(), "")
	}
}

// errOperandOn2: result #idx of the return as selected on this path.
func errOperandOn2(r *ssa.Return, idx int, st *an.PathState) ssa.Value {
	v := r.Results[idx]
	if st != nil {
		if s := st.Selected(v); s != nil {
			return s
		}
	}
	return v
}

// ---- C18.unionasis -------------------------------------------------------------------------------------------

func c18unionasis(c *an.Ctx) {
	for _, name := range []string{"GetLookupdTopics", "GetLookupdTopicChannels"} {
		fn := c.Fn("internal/clusterinfo", "(*ClusterInfo)."+name)
		if fn == nil {
			continue
		}
		construct := "reported list merged whole"
		n := 0
		workers := an.WithAnon(fn)
		// a worker started as `go c.method(…)` instead of a closure
		an.Instrs(fn, func(in ssa.Instruction) {
			if g, ok := in.(*ssa.Go); ok {
				if h := an.StaticCallee(g); h != nil && h.Pkg == fn.Pkg && h.Blocks != nil {
					workers = append(workers, an.WithAnon(h)...)
				}
			}
		})
		for _, w := range workers {
			loops := an.NaturalLoops(w)
			an.Instrs(w, func(in ssa.Instruction) {
				call, ok := in.(*ssa.Call)
				if !ok {
					return
				}
				bi, ok := call.Call.Value.(*ssa.Builtin)
				if !ok || bi.Name() != "append" || len(call.Call.Args) != 2 {
					return
				}
				sl, ok := call.Type().Underlying().(*types.Slice)
				if !ok {
					return
				}
				if b, ok := sl.Elem().Underlying().(*types.Basic); !ok || b.Kind() != types.String {
					return
				}
				n++
				// `append(xs, ys...)` hands the slice over; `append(xs, y)` builds a one-element array first
				one := false
				if s2, ok := an.Strip(call.Call.Args[1]).(*ssa.Slice); ok {
					if _, isArr := an.Strip(s2.X).(*ssa.Alloc); isArr {
						one = true
					}
				}
				if !one {
					c.OK(fn, construct, call.Pos(), "")
					return
				}
				each := false
				if l := an.LoopContaining(loops, call.Block()); l != nil {
					if il, ok := an.AsIndexLoop(l); ok && il != nil {
						each, _ = loopDoesEach(w, il, func(i2 ssa.Instruction, _ []ssa.Value) bool { return i2 == ssa.Instruction(call) })
					}
				}
				c.Check(each, fn, construct, call.Pos(), "", name+" copies a reported list element by element and can skip elements (a filter): nsqadmin's view is then no longer the union of what the nsqlookupds know")
			})
		}
		c.Check(n > 0, fn, "list appends located", fn.Pos(), "", name+" appends no string list")
	}
}

// ---- C19.bodyintact / C20.bodyintact -------------------------------------------------------------------------

func c19bodyintact(pkgs ...string) func(c *an.Ctx) {
	return func(c *an.Ctx) {
		n := 0
		for _, pkg := range pkgs {
			for _, fn := range c.P.PkgFuncs(pkg) {
				n++
				an.Instrs(fn, func(in ssa.Instruction) {
					st, ok := in.(*ssa.Store)
					if !ok {
						return
					}
					fa, ok := st.Addr.(*ssa.FieldAddr)
					if !ok {
						return
					}
					f := an.FieldOf(fa)
					if f == nil || f.Name() != "Body" || f.Pkg() == nil || !strings.HasSuffix(f.Pkg().Path(), "go-nsq") {
						return
					}
					if freshStruct(an.Strip(fa.X)) {
						return
					}
					c.Bad(fn, "message body rewritten", st.Pos(), an.FnName(fn)+" stores into the Body of a message it consumed: what is written (or relayed) and then finished is no longer the message nsqd delivered – a trimmed or normalised body is a different record", nil)
				})
			}
		}
		c.Check(n > 5, nil, "functions scanned", token.NoPos, "", "fewer than six functions scanned for stores into Message.Body")
	}
}

// ---- C11.patternsasgiven -------------------------------------------------------------------------------------

// c11patternsasgiven: what internal/auth hands to regexp.MustCompile/Compile is the grant's Topic, or one element of the
// grant's Channels – not a string computed from them (an alternation built from an empty list matches everything).
func c11patternsasgiven(c *an.Ctx) {
	topicF := c.P.Field("internal/auth", "Authorization", "Topic")
	chansF := c.P.Field("internal/auth", "Authorization", "Channels")
	if topicF == nil || chansF == nil {
		c.Anchor("internal/auth.Authorization.Topic/Channels")
		return
	}
	var given func(v ssa.Value, fn *ssa.Function, depth int) bool
	given = func(v ssa.Value, fn *ssa.Function, depth int) bool {
		for _, o := range originsOrNone(v) {
			o = an.Strip(o)
			ok := false
			switch x := o.(type) {
			case *ssa.UnOp:
				if f, _ := an.LoadedField(x); f == topicF {
					ok = true
				}
				// element of Channels: load through an index into the loaded slice
				if ia, isIA := x.X.(*ssa.IndexAddr); isIA && x.Op == token.MUL {
					if f, _ := an.LoadedField(an.Strip(ia.X)); f == chansF {
						ok = true
					}
				}
			case *ssa.Index:
				if f, _ := an.LoadedField(an.Strip(x.X)); f == chansF {
					ok = true
				}
			case *ssa.Parameter:
				// a helper's parameter: every caller hands it a given pattern
				if depth < 2 {
					idx := -1
					for i, p := range fn.Params {
						if p == x {
							idx = i
						}
					}
					users := userFuncsOf(c, fn)
					ok = idx >= 0 && len(users) > 0
					for u := range users {
						for _, ci := range an.CallsTo(u, fn) {
							if idx >= len(ci.Common().Args) || !given(ci.Common().Args[idx], u, depth+1) {
								ok = false
							}
						}
					}
				}
			}
			if !ok {
				// an element of a slice parameter that is itself given as Channels
				if ld, isLd := o.(*ssa.UnOp); isLd && ld.Op == token.MUL {
					if ia, isIA := ld.X.(*ssa.IndexAddr); isIA && depth < 2 {
						if pr, isP := an.Strip(ia.X).(*ssa.Parameter); isP {
							idx := -1
							for i, p := range fn.Params {
								if p == pr {
									idx = i
								}
							}
							users := userFuncsOf(c, fn)
							ok = idx >= 0 && len(users) > 0
							for u := range users {
								for _, ci := range an.CallsTo(u, fn) {
									if idx >= len(ci.Common().Args) {
										ok = false
										continue
									}
									if f, _ := an.LoadedField(an.Strip(ci.Common().Args[idx])); f != chansF {
										ok = false
									}
								}
							}
						}
					}
				}
			}
			if !ok {
				return false
			}
		}
		return true
	}
	n := 0
	for _, fn := range c.P.PkgFuncs("internal/auth") {
		for _, ci := range an.CallsIn(fn, func(ci ssa.CallInstruction) bool {
			return an.StdCallee(ci, "regexp", "MustCompile") || an.StdCallee(ci, "regexp", "Compile")
		}) {
			n++
			c.Check(given(ci.Common().Args[0], fn, 0), fn, "pattern compiled as given", ci.Pos(), "", an.FnName(fn)+" compiles a pattern that is not the grant's Topic or one element of its Channels as the auth server sent them: a pattern assembled from the list (an alternation, a joined string) changes what an empty or odd list grants – an empty alternation matches every channel")
		}
	}
	c.Check(n >= 2, nil, "pattern compilations located", token.NoPos, "", "fewer than two regexp compilations found in internal/auth")
}
