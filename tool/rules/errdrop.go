package rules

import (
	"fmt"
	"os"
	"sort"
	"strings"

	"golang.org/x/tools/go/ssa"

	"nsqverif/an"
)

// Dropped-error baseline (DESIGN.md §11.19). The pinned tree discards the error of some calls on purpose (a log write, a
// best-effort Close). The pairs (function, callee whose error it discards) are frozen below; a change that stops looking at
// an error it used to look at – or calls a fallible operation without looking – adds a pair. The source normaliser inlines
// new helpers first, so extracting a helper does not create pairs.
var errdropBaseline = map[string]bool{
	"apps/nsq_to_file|(*apps/nsq_to_file.FileLogger).Sync|compress/gzip.NewWriterLevel":                            true,
	"apps/nsq_to_file|(*apps/nsq_to_file.FileLogger).updateFile|compress/gzip.NewWriterLevel":                      true,
	"apps/nsq_to_file|apps/nsq_to_file.main|(*flag.FlagSet).Parse":                                                 true,
	"apps/nsq_to_file|apps/nsq_to_file.main|(*github.com/nsqio/go-nsq.ConfigFlag).Set":                             true,
	"apps/nsq_to_http|(*apps/nsq_to_http.GetPublisher).Publish|io.Copy":                                            true,
	"apps/nsq_to_http|(*apps/nsq_to_http.PostPublisher).Publish|io.Copy":                                           true,
	"internal/clusterinfo|(*internal/clusterinfo.ClusterInfo).GetLookupdProducers|github.com/blang/semver.Parse":   true,
	"internal/clusterinfo|(*internal/clusterinfo.ClusterInfo).GetNSQDProducers|github.com/blang/semver.Parse":      true,
	"internal/clusterinfo|(*internal/clusterinfo.ClusterInfo).GetNSQDTopicProducers|github.com/blang/semver.Parse": true,
	"internal/clusterinfo|(*internal/clusterinfo.ClusterInfo).GetNSQDTopicProducers|net.SplitHostPort":             true,
	"internal/clusterinfo|(*internal/clusterinfo.ClusterInfo).GetNSQDTopicProducers|strconv.Atoi":                  true,
	"internal/clusterinfo|(*internal/clusterinfo.Producer).UnmarshalJSON|github.com/blang/semver.Parse":            true,
	"internal/http_api|internal/http_api.CompressHandler|compress/flate.NewWriter":                                 true,
	"internal/http_api|internal/http_api.PlainText|(http.ResponseWriter).Write":                                    true,
	"internal/http_api|internal/http_api.PlainText|io.WriteString":                                                 true,
	"internal/http_api|internal/http_api.RespondV1|(http.ResponseWriter).Write":                                    true,
	"internal/http_api|internal/http_api.RespondV1|encoding/json.Marshal":                                          true,
	"nsqadmin|(*nsqadmin.httpServer).doConfig|net.ParseCIDR":                                                       true,
	"nsqadmin|(*nsqadmin.httpServer).indexHandler|(*html/template.Template).Execute":                               true,
	"nsqadmin|(*nsqadmin.httpServer).indexHandler|(*html/template.Template).Parse":                                 true,
	"nsqadmin|(*nsqadmin.httpServer).indexHandler|nsqadmin.staticAsset":                                            true,
	"nsqadmin|(*nsqadmin.httpServer).notifyAdminAction|os.Hostname":                                                true,
	"nsqadmin|(*nsqadmin.httpServer).topicsHandler|(*internal/clusterinfo.ClusterInfo).GetLookupdTopicChannels":    true,
	"nsqadmin|(*nsqadmin.httpServer).topicsHandler|(*internal/clusterinfo.ClusterInfo).GetLookupdTopicProducers":   true,
	"nsqadmin|(*nsqadmin.httpServer).topicsHandler|(*internal/http_api.ReqParams).Get":                             true,
	"nsqd|(*nsqd.Channel).PutMessageDeferred|(*nsqd.Channel).StartDeferredTimeout":                                 true,
	"nsqd|(*nsqd.Channel).exit|(*nsqd.Channel).Empty":                                                              true,
	"nsqd|(*nsqd.Channel).exit|(*nsqd.Channel).flush":                                                              true,
	"nsqd|(*nsqd.Channel).processDeferredQueue|(*nsqd.Channel).put":                                                true,
	"nsqd|(*nsqd.Channel).processInFlightQueue|(*nsqd.Channel).put":                                                true,
	"nsqd|(*nsqd.NSQD).DeleteExistingTopic|(*nsqd.Topic).Delete":                                                   true,
	"nsqd|(*nsqd.NSQD).Exit|(*internal/dirlock.DirLock).Unlock":                                                    true,
	"nsqd|(*nsqd.NSQD).GetTopic|(*nsqd.NSQD).DeleteExistingTopic":                                                  true,
	"nsqd|(*nsqd.NSQD).LoadMetadata|(*nsqd.Channel).Pause":                                                         true,
	"nsqd|(*nsqd.NSQD).LoadMetadata|(*nsqd.Topic).Pause":                                                           true,
	"nsqd|(*nsqd.NSQD).lookupLoop|(*nsqd.lookupPeer).Command":                                                      true,
	"nsqd|(*nsqd.NSQD).statsdLoop|(*internal/statsd.Client).Gauge":                                                 true,
	"nsqd|(*nsqd.NSQD).statsdLoop|(*internal/statsd.Client).Incr":                                                  true,
	"nsqd|(*nsqd.NSQD).statsdLoop|(*internal/writers.BoundaryBufferedWriter).Flush":                                true,
	"nsqd|(*nsqd.Topic).DeleteExistingChannel|(*nsqd.Channel).Delete":                                              true,
	"nsqd|(*nsqd.Topic).exit|(*nsqd.Channel).Delete":                                                               true,
	"nsqd|(*nsqd.Topic).exit|(*nsqd.Topic).Empty":                                                                  true,
	"nsqd|(*nsqd.Topic).exit|(*nsqd.Topic).flush":                                                                  true,
	"nsqd|(*nsqd.Topic).getOrCreateChannel|(*nsqd.Topic).DeleteExistingChannel":                                    true,
	"nsqd|(*nsqd.clientV2).UpgradeDeflate|compress/flate.NewWriter":                                                true,
	"nsqd|(*nsqd.httpServer).ServeHTTP|io.WriteString":                                                             true,
	"nsqd|(*nsqd.httpServer).doPauseChannel|(*nsqd.NSQD).PersistMetadata":                                          true,
	"nsqd|(*nsqd.httpServer).doPauseTopic|(*nsqd.NSQD).PersistMetadata":                                            true,
	"nsqd|(*nsqd.httpServer).doStats|(*internal/http_api.ReqParams).Get":                                           true,
	"nsqd|(*nsqd.protocolV2).messagePump|(*nsqd.Channel).StartInFlightTimeout":                                     true,
	"nsqd|(*nsqd.tcpServer).Handle|internal/protocol.SendFramedResponse":                                           true,
	"nsqd|(nsqd.ClientV2Stats).String|net.SplitHostPort":                                                           true,
	"nsqd|nsqd.NewOptions|io.WriteString":                                                                          true,
	"nsqd|nsqd.New|os.Getwd":                                                                                       true,
	"nsqd|nsqd.newClientV2|net.SplitHostPort":                                                                      true,
	"nsqlookupd|(*nsqlookupd.tcpServer).Handle|internal/protocol.SendResponse":                                     true,
}

// errdropProps: which properties a package's fallible operations serve
var errdropProps = map[string][]string{
	"nsqd":                 {"C01", "C05", "C06", "C07", "C09", "C16"},
	"nsqlookupd":           {"C14", "C15"},
	"internal/protocol":    {"C07", "C09", "C15"},
	"internal/http_api":    {"C10", "C17", "C18"},
	"internal/clusterinfo": {"C17", "C18"},
	"nsqadmin":             {"C17", "C18"},
	"internal/dirlock":     {"C06"},
	"internal/auth":        {"C11"},
	"apps/nsq_to_file":     {"C19"},
	"apps/to_nsq":          {"C20"},
	"apps/nsq_to_nsq":      {"C20"},
	"apps/nsq_to_http":     {"C20"},
}

func init() {
	props := map[string]bool{}
	for _, ps := range errdropProps {
		for _, p := range ps {
			props[p] = true
		}
	}
	var ids []string
	for p := range props {
		ids = append(ids, p)
	}
	sort.Strings(ids)
	for _, p := range ids {
		p := p
		reg(p+".errdrop", "CALLS", "dropped-error baseline: no function discards the error of an operation whose error it examined (or did not call) on the pinned tree", 0, func(c *an.Ctx) { errdrop(c, p) })
		pi := Props[p]
		pi.Explanation += " (errdrop) no newly discarded error in the packages behind this property."
		Props[p] = pi
	}
	if os.Getenv("VERIF_GENERRDROP") != "" {
		reg("C01.generrdrop", "CALLS", "generator", 0, func(c *an.Ctx) {
			var all []string
			for pkg := range errdropProps {
				for k := range errdropPairs(c, pkg) {
					all = append(all, k)
				}
			}
			sort.Strings(all)
			for _, k := range all {
				fmt.Fprintf(os.Stderr, "\t%q: true,\n", k)
			}
		})
	}
}

// errdropPairs: "pkg|caller|callee" for every call in pkg whose error result has no reader.
func errdropPairs(c *an.Ctx, pkg string) map[string]ssa.Instruction {
	out := map[string]ssa.Instruction{}
	for _, fn := range c.P.PkgFuncs(pkg) {
		owners := ownersOf(c, fn, 0)
		an.Instrs(fn, func(in ssa.Instruction) {
			ci, ok := in.(ssa.CallInstruction)
			if !ok {
				return
			}
			cm := ci.Common()
			sig := cm.Signature()
			if sig == nil || sig.Results().Len() == 0 || !an.IsErrorType(sig.Results().At(sig.Results().Len()-1).Type()) {
				return
			}
			name := ""
			if cm.IsInvoke() {
				name = "(" + typeStrShort(cm.Value.Type()) + ")." + cm.Method.Name()
			} else if f := an.StaticCallee(ci); f != nil {
				name = an.FnName(f)
			} else {
				return // dynamic call through a value
			}
			if errdropBestEffort(name) {
				return
			}
			read := false
			switch x := in.(type) {
			case *ssa.Call:
				if sig.Results().Len() == 1 {
					read = len(an.Referrers(x)) > 0
				} else {
					for _, r := range an.Referrers(x) {
						if ex, ok := r.(*ssa.Extract); ok && ex.Index == sig.Results().Len()-1 && len(an.Referrers(ex)) > 0 {
							read = true
						}
					}
				}
			case *ssa.Defer, *ssa.Go:
				read = false
			}
			if !read {
				for _, owner := range owners {
					out[pkg+"|"+owner+"|"+name] = in
				}
			}
		})
	}
	return out
}

func errdrop(c *an.Ctx, prop string) {
	var pkgs []string
	for pkg, ps := range errdropProps {
		if contains(ps, prop) {
			pkgs = append(pkgs, pkg)
		}
	}
	sort.Strings(pkgs)
	for _, pkg := range pkgs {
		pairs := errdropPairs(c, pkg)
		var keys []string
		for k := range pairs {
			keys = append(keys, k)
		}
		sort.Strings(keys)
		for _, k := range keys {
			if errdropBaseline[k] {
				continue
			}
			parts := strings.SplitN(k, "|", 3)
			// the pair of a helper that was inlined into this function and deleted
			inherited := false
			for b := range errdropBaseline {
				bp := strings.SplitN(b, "|", 3)
				if bp[0] == parts[0] && bp[2] == parts[2] && !funcExists(c, bp[1]) {
					inherited = true
				}
			}
			if inherited {
				continue
			}
			fn := pairs[k].Parent()
			c.Bad(fn, "error of "+parts[2]+" examined", pairs[k].Pos(), parts[1]+" discards the error of "+parts[2]+", which no function of the pinned tree's "+pkg+" did at this place: a failure there (a write that did not happen, a queue that refused, a peer that hung up) now goes unnoticed and the caller reports success", nil)
		}
	}
}

// errdropBestEffort: callees whose error is discarded as an idiom everywhere (printing, closing, arming a deadline); a new
// site of these says nothing.
func errdropBestEffort(name string) bool {
	if strings.HasPrefix(name, "fmt.") || strings.HasPrefix(name, "log.") || strings.HasPrefix(name, "(*log.Logger)") {
		return true
	}
	// in-memory writers: documented never to fail
	if strings.HasPrefix(name, "(*strings.Builder).") || strings.HasPrefix(name, "(*bytes.Buffer).Write") {
		return true
	}
	for _, suf := range []string{").Close", ").SetDeadline", ").SetReadDeadline", ").SetWriteDeadline"} {
		if strings.HasSuffix(name, suf) {
			return true
		}
	}
	return false
}
