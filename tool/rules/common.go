package rules

import (
	"fmt"
	"go/token"
	"go/types"
	"strings"

	"golang.org/x/tools/go/ssa"

	"nsqverif/an"
)

func reg(id, engine, doc string, floor int, run func(c *an.Ctx)) {
	an.Register(&an.Rule{ID: id, Prop: id[:strings.Index(id, ".")], Engine: engine, Doc: doc, Floor: floor, Run: run})
}

func init() {
	an.ExtraNonNil = func(v ssa.Value) bool {
		switch x := v.(type) {
		case *ssa.UnOp:
			if g, ok := x.X.(*ssa.Global); ok && x.Op == token.MUL && sentinelError(g) {
				return true
			}
		case *ssa.Call:
			if f := an.StaticCallee(x); f != nil && f.Pkg != nil && f.Pkg.Pkg.Path() == an.ModPath+"/internal/protocol" {
				return f.Name() == "NewFatalClientErr" || f.Name() == "NewClientErr"
			}
		}
		return false
	}
}

func regSweep(id, engine, doc string, floor int, run func(c *an.Ctx)) {
	an.Register(&an.Rule{ID: id, Prop: id[:strings.Index(id, ".")], Engine: engine, Doc: doc, Floor: floor, Run: run, Sweep: true})
}

// provablyNonNil: v (an error/interface/pointer value) cannot be nil at block b.
func provablyNonNil(v ssa.Value, b *ssa.BasicBlock) bool {
	switch x := v.(type) {
	case *ssa.MakeInterface:
		return true
	case *ssa.Alloc:
		return true
	case *ssa.Const:
		return x.Value != nil
	case *ssa.ChangeInterface:
		return provablyNonNil(x.X, b)
	case *ssa.UnOp:
		if g, ok := x.X.(*ssa.Global); ok && x.Op == token.MUL && sentinelError(g) {
			return true
		}
	case *ssa.Call:
		// constructors known to return non-nil
		if f := an.StaticCallee(x); f != nil {
			switch f.Name() {
			case "New", "Errorf", "NewFatalClientErr", "NewClientErr":
				if f.Pkg != nil {
					switch f.Pkg.Pkg.Path() {
					case "errors", "fmt", an.ModPath + "/internal/protocol":
						return true
					}
				}
			}
		}
	}
	for _, cmp := range an.CmpsAt(b) {
		if cmp.Op == token.NEQ && ((cmp.X == v && an.IsNilConst(cmp.Y)) || (cmp.Y == v && an.IsNilConst(cmp.X))) {
			return true
		}
	}
	if phi, ok := v.(*ssa.Phi); ok {
		for i, e := range phi.Edges {
			if !provablyNonNil(e, phi.Block().Preds[i]) {
				return false
			}
		}
		return true
	}
	return false
}

// provablyNil: v is the nil constant, or known == nil at b.
func provablyNil(v ssa.Value, b *ssa.BasicBlock) bool {
	if an.IsNilConst(v) {
		return true
	}
	for _, cmp := range an.CmpsAt(b) {
		if cmp.Op == token.EQL && ((cmp.X == v && an.IsNilConst(cmp.Y)) || (cmp.Y == v && an.IsNilConst(cmp.X))) {
			return true
		}
	}
	return false
}

// errOperand returns the error-typed (last) result operand of a return, or nil.
func errOperand(r *ssa.Return) ssa.Value {
	if len(r.Results) == 0 {
		return nil
	}
	v := r.Results[len(r.Results)-1]
	if an.IsErrorType(v.Type()) {
		return an.Resolve(v)
	}
	return nil
}

// isSuccessReturn: a return whose error result may be nil (i.e. not provably non-nil).
func isSuccessReturn(in ssa.Instruction) bool {
	r, ok := in.(*ssa.Return)
	if !ok {
		return false
	}
	e := errOperand(r)
	if e == nil {
		return true
	}
	return !provablyNonNil(e, r.Block())
}

// sinkSuccessReturn: a return that may report success, judged with what the path knows: an error value that a branch
// on the path found non-nil, or that a phi selected from a freshly built error, is not a success.
func sinkSuccessReturn(in ssa.Instruction, st *an.PathState) bool {
	if !isSuccessReturn(in) {
		return false
	}
	if e := errOperand(in.(*ssa.Return)); e != nil && st != nil && st.NonNil(e) {
		return false
	}
	return true
}

// successEdgesOfCalls collects the success edges of every call in fn satisfying pred.
func successEdgesOfCalls(fn *ssa.Function, pred func(ssa.CallInstruction) bool) (edges []an.Edge, calls []ssa.CallInstruction) {
	for _, ci := range an.CallsIn(fn, pred) {
		calls = append(calls, ci)
		if v, ok := ci.(*ssa.Call); ok {
			s, _ := an.ErrEdges(v)
			edges = append(edges, s...)
		}
	}
	return
}

// passThroughReturn: return whose error operand is directly the result of call (return K(...)).
func passThroughOf(r *ssa.Return, call ssa.Value) bool {
	e := errOperand(r)
	if e == nil {
		return false
	}
	for _, o := range an.Origins(e) {
		if o == call {
			return true
		}
		if ex, ok := o.(*ssa.Extract); ok && ex.Tuple == call {
			return true
		}
	}
	return false
}

// recvOf returns the receiver argument of a static method call.
func recvArg(ci ssa.CallInstruction) ssa.Value {
	c := ci.Common()
	if c.IsInvoke() {
		return c.Value
	}
	if r := an.BoundReceiver(ci); r != nil {
		return r
	}
	if len(c.Args) > 0 {
		return c.Args[0]
	}
	return nil
}

// arg returns the i-th explicit argument of a call (skipping the receiver for static method calls).
func arg(ci ssa.CallInstruction, i int) ssa.Value {
	c := ci.Common()
	off := 0
	if !c.IsInvoke() {
		if f := an.StaticCallee(ci); f != nil && f.Signature.Recv() != nil && an.BoundReceiver(ci) == nil {
			off = 1
		}
		if f := an.StaticCallee(ci); f != nil {
			// a pinned function that became a method (or the other way round): count as the pinned signature did
			if had, renamed := an.RenamedHadRecv(f); renamed && an.BoundReceiver(ci) == nil {
				off = 0
				if had {
					off = 1
				}
			}
		}
	}
	if i+off < len(c.Args) {
		return c.Args[i+off]
	}
	return nil
}

func fieldName(v *types.Var) string {
	if v == nil {
		return "?"
	}
	return v.Name()
}

func describeCall(ci ssa.CallInstruction) string {
	if f := an.StaticCallee(ci); f != nil {
		return "call " + an.FnName(f)
	}
	if m := an.InvokeMethod(ci); m != nil {
		return "invoke " + m.Name()
	}
	return "call ?"
}

func sprintf(f string, a ...interface{}) string { return fmt.Sprintf(f, a...) }

// isParam reports whether v is parameter #i of fn (counting the receiver as 0).
func isParam(v ssa.Value, fn *ssa.Function, i int) bool {
	if i >= len(fn.Params) {
		return false
	}
	v = an.Strip(v)
	if v == ssa.Value(fn.Params[i]) {
		return true
	}
	// a parameter captured by a closure is spilled to a heap cell and re-loaded
	if u, ok := v.(*ssa.UnOp); ok && u.Op == token.MUL {
		if al, ok := u.X.(*ssa.Alloc); ok {
			if sv := an.SingleStore(al); sv != nil && sv == ssa.Value(fn.Params[i]) {
				return true
			}
		}
	}
	return false
}

// loadOfField: v is a load of field `f` from base (any base when base==nil).
func isLoadOfField(v ssa.Value, f *types.Var) bool {
	lf, _ := an.LoadedField(an.Strip(v))
	return lf != nil && lf == f
}

// mustPassSuccess: every path from entry to a sink must traverse a success edge of a call matching pred.
// Returns the witness path if one avoids them.
func pathAvoidingSuccess(fn *ssa.Function, sink func(ssa.Instruction, *an.PathState) bool, pred func(ssa.CallInstruction) bool) ([]string, bool, int) {
	edges, calls := successEdgesOfCalls(fn, pred)
	q := &an.PathQ{Fn: fn, StartEntry: true, Sink: sink,
		CutEdge: func(e an.Edge, _ *an.PathState) bool { return an.EdgeIn(e, edges) }}
	w, found := q.Find()
	return w, found, len(calls)
}

type step struct {
	name string
	is   func(ssa.Instruction) bool
}

// stepState is the path environment of the instruction a step predicate is being asked about (constants selected at
// phis on the way); predicates that need it read it, all others ignore it. Rules are evaluated sequentially.
var stepState *an.PathState

// stepAny is the environment used when seqOnAllPaths merely collects candidate instructions: path-aware predicates
// must answer "could match on some path".
var stepAny = &an.PathState{}

func (s step) match(in ssa.Instruction, st *an.PathState) bool {
	stepState = st
	defer func() { stepState = nil }()
	return s.is(in)
}

// seqOnAllPaths: on every path (under consts) from entry to a sink, the steps occur in this order.
func seqOnAllPaths(fn *ssa.Function, consts map[ssa.Value]*ssa.Const, sink func(ssa.Instruction, *an.PathState) bool, steps []step) (ok bool, missing string, w []string) {
	for i, s := range steps {
		q := &an.PathQ{Fn: fn, Consts: consts, Sink: sink, AllConsts: true,
			Cut: func(in ssa.Instruction, st *an.PathState) bool { return s.match(in, st) }}
		if i == 0 {
			q.StartEntry = true
		} else {
			prev := steps[i-1]
			an.Instrs(fn, func(in ssa.Instruction) {
				if !prev.match(in, stepAny) {
					return
				}
				// only instances that can execute under the path constraints (e.g. deleted == true)
				target := in
				rq := &an.PathQ{Fn: fn, Consts: consts, StartEntry: true, AllConsts: true, Sink: func(x ssa.Instruction, st *an.PathState) bool { return x == target && prev.match(x, st) }}
				if _, reach := rq.Find(); reach {
					q.StartAfter = append(q.StartAfter, in)
				}
			})
			if len(q.StartAfter) == 0 {
				return false, prev.name + " (not present)", nil
			}
		}
		if w, found := q.Find(); found {
			if i == 0 {
				return false, s.name, w
			}
			return false, s.name + " after " + steps[i-1].name, w
		}
	}
	return true, "", nil
}

// mapRangeLoops returns the range loops in fn iterating over a load of map field f.
func mapRangeLoops(fn *ssa.Function, f *types.Var) []*an.IndexLoop {
	var out []*an.IndexLoop
	for _, l := range an.NaturalLoops(fn) {
		il, ok := an.AsIndexLoop(l)
		if ok && il.Iter != nil && isLoadOfField(il.Iter.X, f) {
			out = append(out, il)
		}
	}
	return out
}

// loopDoesEach: every iteration of il executes an instruction satisfying pred(instr, elems), and the loop
// leaves only by exhaustion.
func loopDoesEach(fn *ssa.Function, il *an.IndexLoop, pred func(in ssa.Instruction, elems []ssa.Value) bool) (bool, string) {
	if ok, _ := il.OnlyExhaustionExit(); !ok {
		return false, "the loop can be left before every element was visited"
	}
	if !il.WholeOK {
		return false, "the loop does not cover the whole collection"
	}
	elems := il.Elems()
	q := &an.PathQ{Fn: fn, StartEdges: []an.Edge{{From: il.Header, To: il.Body}},
		SinkEdge: func(e an.Edge, _ *an.PathState) bool { return e.To == il.Header },
		Cut:      func(in ssa.Instruction, _ *an.PathState) bool { return pred(in, elems) }}
	if _, found := q.Find(); found {
		return false, "an iteration can complete without the required call on its element"
	}
	return true, ""
}

func valueIn(v ssa.Value, set []ssa.Value) bool {
	rv := an.Resolve(an.Strip(v))
	for _, s := range set {
		if an.SameValue(v, s) || an.SameValue(rv, s) {
			return true
		}
	}
	return false
}

// isCallToOn: instruction is a static call to fn with receiver satisfying recvOK.
func isCallToOn(in ssa.Instruction, target *ssa.Function, recvOK func(ssa.Value) bool) bool {
	ci, ok := in.(ssa.CallInstruction)
	if !ok || !an.IsCallTo(ci, target) {
		return false
	}
	if _, isGo := in.(*ssa.Go); isGo {
		return false
	}
	return recvOK == nil || recvOK(recvArg(ci))
}

// isInvokeOn: instruction is an interface method call `name` on a value satisfying recvOK.
func isInvokeOn(in ssa.Instruction, iface, name string, recvOK func(ssa.Value) bool) bool {
	ci, ok := in.(ssa.CallInstruction)
	if !ok || !an.IsInvokeOf(ci, iface, name) {
		return false
	}
	if _, isGo := in.(*ssa.Go); isGo {
		return false
	}
	return recvOK == nil || recvOK(ci.Common().Value)
}

func isBuiltinCall(in ssa.Instruction, name string) (*ssa.Call, bool) {
	call, ok := in.(*ssa.Call)
	if !ok {
		return nil, false
	}
	bi, ok := call.Call.Value.(*ssa.Builtin)
	if !ok || bi.Name() != name {
		return nil, false
	}
	return call, true
}

// seqFromEdges is seqOnAllPaths starting from the given edges instead of the function entry.
func seqFromEdges(fn *ssa.Function, start []an.Edge, consts map[ssa.Value]*ssa.Const, sink func(ssa.Instruction, *an.PathState) bool, steps []step) (ok bool, missing string, w []string) {
	for i, s := range steps {
		q := &an.PathQ{Fn: fn, Consts: consts, Sink: sink, AllConsts: true,
			Cut: func(in ssa.Instruction, st *an.PathState) bool { return s.match(in, st) }}
		if i == 0 {
			q.StartEdges = start
			if len(start) == 0 {
				return false, "start edge (not found)", nil
			}
		} else {
			prev := steps[i-1]
			an.Instrs(fn, func(in ssa.Instruction) {
				if !prev.match(in, stepAny) {
					return
				}
				// only instances that can execute under the path constraints (e.g. deleted == true)
				target := in
				rq := &an.PathQ{Fn: fn, Consts: consts, StartEntry: true, AllConsts: true, Sink: func(x ssa.Instruction, st *an.PathState) bool { return x == target && prev.match(x, st) }}
				if _, reach := rq.Find(); reach {
					q.StartAfter = append(q.StartAfter, in)
				}
			})
			if len(q.StartAfter) == 0 {
				return false, prev.name + " (not present)", nil
			}
		}
		if w, found := q.Find(); found {
			if i == 0 {
				return false, s.name, w
			}
			return false, s.name + " after " + steps[i-1].name, w
		}
	}
	return true, "", nil
}

// reachableUnder: some instruction satisfying pred is reachable from entry under consts.
func reachableUnder(fn *ssa.Function, consts map[ssa.Value]*ssa.Const, pred func(ssa.Instruction) bool) ([]string, bool) {
	q := &an.PathQ{Fn: fn, StartEntry: true, Consts: consts, Sink: func(in ssa.Instruction, _ *an.PathState) bool { return pred(in) }}
	return q.Find()
}

func isStdCall(in ssa.Instruction, pkg, name string) bool {
	ci, ok := in.(ssa.CallInstruction)
	if !ok {
		return false
	}
	if _, isGo := in.(*ssa.Go); isGo {
		return false
	}
	return an.StdCallee(ci, pkg, name)
}

var sentinelCache = map[*ssa.Global]bool{}

// sentinelError: package-level error variable assigned exactly once, in the package initializer,
// from errors.New / fmt.Errorf (e.g. ErrTimeBackwards): loads of it are non-nil.
func sentinelError(g *ssa.Global) bool {
	if r, ok := sentinelCache[g]; ok {
		return r
	}
	res := false
	if g.Pkg != nil {
		stores, good := 0, 0
		for _, m := range g.Pkg.Members {
			fn, ok := m.(*ssa.Function)
			if !ok {
				continue
			}
			for _, f := range an.WithAnon(fn) {
				an.Instrs(f, func(in ssa.Instruction) {
					st, ok := in.(*ssa.Store)
					if !ok || st.Addr != ssa.Value(g) {
						return
					}
					stores++
					if call, ok := st.Val.(*ssa.Call); ok && fn.Name() == "init" {
						if an.StdCallee(call, "errors", "New") || an.StdCallee(call, "fmt", "Errorf") {
							good++
						}
					}
				})
			}
		}
		// methods are not package members: scan them too for stray stores
		res = stores == 1 && good == 1
	}
	sentinelCache[g] = res
	return res
}

// msgCopyOf recognises "a fresh per-channel copy of message src": v is NewMessage(src.ID, src.Body), or the
// result of a repo helper every return of which is NewMessage(p.ID, p.Body) for one of its parameters p
// (e.g. a (*Message).clone method). It returns the call in the analysed function, the source message value
// in that function, and (for helpers) the NewMessage calls inside the helper with the parameter they copy.
type msgCopy struct {
	Call   *ssa.Call
	Src    ssa.Value
	Helper *ssa.Function  // nil for a direct NewMessage
	Inner  []*ssa.Call    // NewMessage calls inside Helper
	Param  *ssa.Parameter // the copied parameter of Helper
}

func msgCopyOf(v ssa.Value, newMsg *ssa.Function) *msgCopy {
	v = an.Strip(v)
	call, ok := v.(*ssa.Call)
	if !ok {
		return nil
	}
	directSrc := func(nc *ssa.Call) ssa.Value {
		if len(nc.Call.Args) != 2 {
			return nil
		}
		f0, b0 := an.LoadedField(an.Strip(nc.Call.Args[0]))
		f1, b1 := an.LoadedField(an.Strip(nc.Call.Args[1]))
		if f0 == nil || f1 == nil || f0.Name() != "ID" || f1.Name() != "Body" || !an.SameValue(b0, b1) {
			return nil
		}
		return b0
	}
	if an.IsCallTo(call, newMsg) {
		if src := directSrc(call); src != nil {
			return &msgCopy{Call: call, Src: src}
		}
		return nil
	}
	h := an.StaticCallee(call)
	if h == nil || len(h.Blocks) == 0 || h.Signature.Results().Len() != 1 {
		return nil
	}
	mc := &msgCopy{Call: call, Helper: h}
	for _, b := range h.Blocks {
		ret, ok := b.Instrs[len(b.Instrs)-1].(*ssa.Return)
		if !ok {
			continue
		}
		for _, o := range an.Origins(ret.Results[0]) {
			nc, ok := o.(*ssa.Call)
			if !ok || !an.IsCallTo(nc, newMsg) {
				return nil
			}
			src := directSrc(nc)
			if src == nil {
				return nil
			}
			par, ok := src.(*ssa.Parameter)
			if !ok || (mc.Param != nil && mc.Param != par) {
				return nil
			}
			mc.Param = par
			mc.Inner = append(mc.Inner, nc)
		}
	}
	if mc.Param == nil {
		return nil
	}
	for i, p := range h.Params {
		if p == mc.Param && i < len(call.Call.Args) {
			mc.Src = call.Call.Args[i]
		}
	}
	if mc.Src == nil {
		return nil
	}
	return mc
}

// paramsNonEmpty decides whether every caller of exec passes, as its last argument, the result of
// strings.Split / bytes.Split with a provably non-empty separator (such a result always has >= 1 element).
func paramsNonEmpty(c *an.Ctx, exec *ssa.Function) (bool, string) {
	users := usersOf(c, exec)
	if len(users) == 0 {
		return false, "no caller found"
	}
	nonEmptySep := func(v ssa.Value) bool {
		v = an.Strip(v)
		if s, ok := an.ConstString(v); ok {
			return s != ""
		}
		if cv, ok := v.(*ssa.Convert); ok {
			if s, ok := an.ConstString(cv.X); ok {
				return s != ""
			}
		}
		u, ok := v.(*ssa.UnOp)
		if !ok || u.Op != token.MUL {
			return false
		}
		g, ok := u.X.(*ssa.Global)
		if !ok {
			return false
		}
		// the global is assigned exactly once (its initialiser), from a non-empty constant
		stores := 0
		good := false
		for fn := range c.P.AllFuncs() {
			an.Instrs(fn, func(in ssa.Instruction) {
				st, ok := in.(*ssa.Store)
				if !ok || st.Addr != ssa.Value(g) {
					if ia, ok := in.(*ssa.IndexAddr); ok {
						if l, ok := ia.X.(*ssa.UnOp); ok && l.X == ssa.Value(g) {
							for _, r := range an.Referrers(ia) {
								if _, isSt := r.(*ssa.Store); isSt {
									stores += 2
								}
							}
						}
					}
					return
				}
				stores++
				if s, ok := an.ConstString(an.Strip(st.Val)); ok && s != "" {
					good = true
				}
			})
		}
		return stores == 1 && good
	}
	for name, in := range users {
		ci, ok := in.(ssa.CallInstruction)
		if !ok || !an.IsCallTo(ci, exec) {
			return false, name + " uses it other than by a direct call"
		}
		args := ci.Common().Args
		isSplit := func(o ssa.Value) (bool, string) {
			call, ok := o.(*ssa.Call)
			if !ok || !(an.StdCallee(call, "strings", "Split") || an.StdCallee(call, "bytes", "Split")) {
				return false, "in " + name + " the parameter list is not the result of strings.Split/bytes.Split (e.g. strings.Fields returns an empty list for a blank line)"
			}
			if !nonEmptySep(call.Call.Args[1]) {
				return false, "in " + name + " the Split separator is not provably non-empty"
			}
			return true, ""
		}
		allSplit, why := true, ""
		for _, o := range an.Origins(args[len(args)-1]) {
			if ok, w := isSplit(o); !ok {
				allSplit, why = false, w
			}
		}
		if !allSplit {
			// the list may be merged with a placeholder on paths that never reach the call (a reader helper returning
			// (nil, err)): judge the value the call receives on each path that reaches it
			caller := in.Parent()
			q := &an.PathQ{Fn: caller, StartEntry: true, AllAlias: true, FullOnly: true, Sink: func(x ssa.Instruction, st *an.PathState) bool {
				if x != in {
					return false
				}
				for _, o := range an.Origins(st.Selected(args[len(args)-1])) {
					if ok, _ := isSplit(o); !ok {
						return true
					}
				}
				return false
			}}
			if _, found := q.Find(); found {
				return false, why
			}
		}
	}
	return true, ""
}

// edgesWhere lists the branch edges on which a fact satisfying pred becomes known (directly, or through a boolean
// that was computed first: `gone := ch.ephemeral && ch.Exiting(); if gone {…}`).
func edgesWhere(fn *ssa.Function, pred func(an.Fact) bool) []an.Edge {
	var out []an.Edge
	for _, b := range fn.Blocks {
		if len(b.Instrs) == 0 || len(b.Succs) != 2 || b.Succs[0] == b.Succs[1] {
			continue
		}
		ifi, ok := b.Instrs[len(b.Instrs)-1].(*ssa.If)
		if !ok {
			continue
		}
		for _, s := range b.Succs {
			e := an.Edge{From: b, To: s}
			for _, f := range an.FactsOnEdge(e) {
				if f.If == ifi && pred(f) {
					out = append(out, e)
					break
				}
			}
		}
	}
	return out
}

// ---- effects: what a helper does, not what it is called ------------------------------------------------------------
//
// Several clauses speak about small helpers of the pinned tree ("addToDeferredPQ", "tryUpdateReadyState"). A refactoring may
// inline such a helper into its callers, rename it or turn a method into a function. An effect is therefore defined by the
// instruction that does the work (direct), closed under "a call of a function of the same package that does it on every path
// to its returns". Where the effect acts on an object (the item pushed on a heap) direct returns it; through a wrapper the
// object is the argument bound to the parameter the wrapper passes on.
type effect struct {
	direct func(in ssa.Instruction) (bool, ssa.Value)
	fns    map[*ssa.Function]int // wrapper -> index into Params of the object (-1: none / not a parameter)
	sites  []ssa.Instruction     // the direct sites found in the package
}

func newEffect(c *an.Ctx, pkg string, direct func(in ssa.Instruction) (bool, ssa.Value)) *effect {
	e := &effect{direct: direct, fns: map[*ssa.Function]int{}}
	var cands []*ssa.Function
	for _, g := range c.P.RepoFuncs() {
		if g.Pkg == nil || g.Pkg.Pkg.Path() != an.ModPath+"/"+pkg || len(g.Blocks) == 0 {
			continue
		}
		cands = append(cands, g)
		an.Instrs(g, func(in ssa.Instruction) {
			if ok, _ := direct(in); ok {
				e.sites = append(e.sites, in)
			}
		})
	}
	for changed := true; changed; {
		changed = false
		for _, g := range cands {
			if _, done := e.fns[g]; done {
				continue
			}
			var objs []ssa.Value
			any := false
			an.Instrs(g, func(in ssa.Instruction) {
				if ok, o := e.at(in); ok {
					any = true
					objs = append(objs, o)
				}
			})
			if !any {
				continue
			}
			q := &an.PathQ{Fn: g, StartEntry: true, Sink: an.IsReturn, Cut: func(in ssa.Instruction, _ *an.PathState) bool { return e.is(in) }}
			if _, f := q.Find(); f {
				continue
			}
			idx := -1
			for i := range g.Params {
				all := len(objs) > 0
				for _, o := range objs {
					if o == nil || !isParam(o, g, i) {
						all = false
					}
				}
				if all {
					idx = i
				}
			}
			e.fns[g] = idx
			changed = true
		}
	}
	return e
}

// at: does in perform the effect, and on which object (nil when unknown).
func (e *effect) at(in ssa.Instruction) (bool, ssa.Value) {
	if _, isGo := in.(*ssa.Go); isGo {
		return false, nil
	}
	if ok, o := e.direct(in); ok {
		return true, o
	}
	if ci, ok := in.(ssa.CallInstruction); ok {
		if f := an.StaticCallee(ci); f != nil {
			if idx, ok := e.fns[f]; ok {
				if idx >= 0 && idx < len(ci.Common().Args) {
					return true, ci.Common().Args[idx]
				}
				return true, nil
			}
		}
	}
	return false, nil
}

func (e *effect) is(in ssa.Instruction) bool {
	ok, _ := e.at(in)
	return ok
}

// on: in performs the effect on an object satisfying objOK.
func (e *effect) on(in ssa.Instruction, objOK func(ssa.Value) bool) bool {
	ok, o := e.at(in)
	return ok && o != nil && objOK(o)
}

// fieldAddrOf: v (through conversions/boxing) is the address of field f of some object.
func fieldAddrOf(v ssa.Value, f *types.Var) bool {
	fa, ok := an.Strip(v).(*ssa.FieldAddr)
	return ok && f != nil && an.FieldOf(fa) == f
}

// heapInsert: the effect "insert into the deadline heap stored in field Channel.<field>": heap.Push(&c.deferredPQ, item) for
// the container/heap based deferred queue, c.inFlightPQ.Push(msg) for the hand-written in-flight queue.
func heapInsert(c *an.Ctx, field string) *effect {
	f := c.P.Field("nsqd", "Channel", field)
	inPush := c.P.Func("nsqd", "(*inFlightPqueue).Push")
	return newEffect(c, "nsqd", func(in ssa.Instruction) (bool, ssa.Value) {
		call, ok := in.(*ssa.Call)
		if !ok || f == nil {
			return false, nil
		}
		if an.StdCallee(call, "container/heap", "Push") && len(call.Call.Args) == 2 && fieldAddrOf(call.Call.Args[0], f) {
			return true, an.Strip(call.Call.Args[1])
		}
		if inPush != nil && an.IsCallTo(call, inPush) && len(call.Call.Args) == 2 && fieldAddrOf(call.Call.Args[0], f) {
			return true, call.Call.Args[1]
		}
		return false, nil
	})
}

// ---- return cases: one per way a function can return a value --------------------------------------------------------
//
// `return a` in three places and a single `return result` behind a merge are the same function. returnCases splits every
// return whose result idx is a phi into one case per incoming edge (recursively), each with the facts that hold when the
// function returns that way: the facts dominating the edge's source, the facts of the edge itself, and – for a boolean leaf
// that is not a constant – the leaf itself being true.
type retCase struct {
	ret   *ssa.Return
	val   ssa.Value // leaf value (never a phi unless the depth bound was hit)
	facts []an.Fact
}

func returnCases(fn *ssa.Function, idx int) []retCase {
	var out []retCase
	var split func(r *ssa.Return, v ssa.Value, facts []an.Fact, depth int)
	split = func(r *ssa.Return, v ssa.Value, facts []an.Fact, depth int) {
		v = an.Resolve(v)
		phi, ok := v.(*ssa.Phi)
		if !ok || depth > 4 {
			out = append(out, retCase{ret: r, val: v, facts: facts})
			return
		}
		for i, e := range phi.Edges {
			pred := phi.Block().Preds[i]
			fs := append([]an.Fact{}, facts...)
			fs = append(fs, an.FactsAt(pred)...)
			fs = append(fs, an.FactsOnEdge(an.Edge{From: pred, To: phi.Block()})...)
			split(r, e, fs, depth+1)
		}
	}
	for _, r := range an.Returns(fn) {
		if idx >= len(r.Results) {
			continue
		}
		split(r, r.Results[idx], an.FactsAt(r.Block()), 0)
	}
	return out
}

// calleeOnPath: the function a call invokes on this path – the static callee, or, for a call through a method value
// chosen at run time (`f := c.Pause; if unpause { f = c.UnPause }; f()`), the method the path selected (needs
// PathQ.AllAlias). nil when unknown.
func calleeOnPath(ci ssa.CallInstruction, st *an.PathState) *ssa.Function {
	if f := an.StaticCallee(ci); f != nil {
		return f
	}
	c := ci.Common()
	if c.IsInvoke() || st == nil {
		return nil
	}
	v := st.Selected(c.Value)
	// a method value kept in a variable of a named function type (`type handler func(…)`; `h = p.FIN`) sits behind a type change
	for i := 0; i < 4; i++ {
		ct, ok := v.(*ssa.ChangeType)
		if !ok {
			break
		}
		v = st.Selected(ct.X)
	}
	if mc, ok := v.(*ssa.MakeClosure); ok {
		if f, ok := mc.Fn.(*ssa.Function); ok {
			if m := an.BoundMethod(f); m != nil {
				return m
			}
			return f
		}
	}
	if f, ok := v.(*ssa.Function); ok {
		return f
	}
	return nil
}

// rangeLiteralElems: v is the element variable of `for _, e := range L` where L is an array or
// slice literal built in this function; returns L's elements in iteration order. nil unless the
// loop visits every index exactly once in increasing order (a range loop or its classic spelling
// over the whole literal) and the literal is written only by its constant-index initialisers.
func rangeLiteralElems(v ssa.Value) []ssa.Value {
	var agg, idx ssa.Value
	switch x := v.(type) {
	case *ssa.Index:
		agg, idx = x.X, x.Index
	case *ssa.UnOp:
		if ia, ok := x.X.(*ssa.IndexAddr); ok && x.Op == token.MUL {
			agg, idx = ia.X, ia.Index
		}
	}
	if agg == nil {
		return nil
	}
	var al *ssa.Alloc
	isSlice := false
	switch a := agg.(type) {
	case *ssa.UnOp:
		if a.Op == token.MUL {
			al, _ = a.X.(*ssa.Alloc)
		}
	case *ssa.Slice:
		if a.Low == nil && a.High == nil && a.Max == nil {
			al, _ = a.X.(*ssa.Alloc)
			isSlice = true
		}
	case *ssa.Alloc:
		al = a
	}
	if al == nil {
		return nil
	}
	arr, ok := al.Type().Underlying().(*types.Pointer).Elem().Underlying().(*types.Array)
	if !ok {
		return nil
	}
	n := arr.Len()
	elems := make([]ssa.Value, n)
	for _, r := range an.Referrers(al) {
		switch r := r.(type) {
		case *ssa.IndexAddr:
			k, isC := an.ConstInt(r.Index)
			if !isC {
				if ssa.Value(r) != v && !usedOnlyAsLoad(r) {
					return nil
				}
				continue
			}
			for _, r2 := range an.Referrers(r) {
				st, ok := r2.(*ssa.Store)
				if !ok || st.Addr != ssa.Value(r) || k < 0 || k >= n || elems[k] != nil {
					return nil
				}
				elems[k] = st.Val
			}
		case *ssa.UnOp, *ssa.Slice:
		default:
			return nil
		}
	}
	for _, e := range elems {
		if e == nil {
			return nil
		}
	}
	// the index: i = phi+1 with phi = [-1 outside, i inside] (range), or phi = [0 outside, phi+1 inside]
	var phi *ssa.Phi
	var cmpX ssa.Value
	start := int64(0)
	if inc, ok := idx.(*ssa.BinOp); ok && inc.Op == token.ADD {
		if k, isC := an.ConstInt(inc.Y); isC && k == 1 {
			phi, _ = inc.X.(*ssa.Phi)
			cmpX, start = inc, -1
		}
	} else if p, ok := idx.(*ssa.Phi); ok {
		phi, cmpX = p, p
	}
	if phi == nil {
		return nil
	}
	h := phi.Block()
	ifi, ok := h.Instrs[len(h.Instrs)-1].(*ssa.If)
	if !ok {
		return nil
	}
	cmp, ok := ifi.Cond.(*ssa.BinOp)
	if !ok || cmp.Op != token.LSS || cmp.X != cmpX {
		return nil
	}
	if k, isC := an.ConstInt(cmp.Y); isC {
		if k != n {
			return nil
		}
	} else if a := lenArgOf(cmp.Y); a == nil || !isSlice || a != agg {
		return nil
	}
	for i, e := range phi.Edges {
		if k, isC := an.ConstInt(e); isC {
			if k != start {
				return nil
			}
			continue
		}
		inc, ok := e.(*ssa.BinOp)
		if !ok || inc.Op != token.ADD || inc.X != ssa.Value(phi) {
			return nil
		}
		if k, isC := an.ConstInt(inc.Y); !isC || k != 1 {
			return nil
		}
		_ = i
	}
	return elems
}

func usedOnlyAsLoad(v ssa.Value) bool {
	for _, r := range an.Referrers(v) {
		if u, ok := r.(*ssa.UnOp); !ok || u.Op != token.MUL {
			return false
		}
	}
	return true
}

// backendWriterFn: the function that writes one message to a BackendQueue – writeMessageToBackend on the pinned tree; after
// a rename (a method of Message, say) the one function of package nsqd that calls BackendQueue.Put. Anchor failure only when
// there is no such function or several.
func backendWriterFn(c *an.Ctx) *ssa.Function {
	if f := c.P.Func("nsqd", "writeMessageToBackend"); f != nil {
		return f
	}
	var found []*ssa.Function
	for _, fn := range c.P.PkgFuncs("nsqd") {
		n := 0
		an.Instrs(fn, func(in ssa.Instruction) {
			if isInvokeOn(in, "BackendQueue", "Put", nil) {
				n++
			}
		})
		if n > 0 && fn.Parent() == nil {
			found = append(found, fn)
		}
	}
	if len(found) == 1 {
		return found[0]
	}
	return c.Fn("nsqd", "writeMessageToBackend") // records the anchor failure
}

// errOperandOn: the error a return carries on this path – a merged result variable (single exit) is resolved to the operand
// the path selected (needs PathQ.AllAlias).
func errOperandOn(r *ssa.Return, st *an.PathState) ssa.Value {
	if len(r.Results) == 0 {
		return nil
	}
	v := r.Results[len(r.Results)-1]
	if !an.IsErrorType(v.Type()) {
		return nil
	}
	if st != nil {
		v = st.Selected(v)
	}
	return an.Resolve(v)
}
