package rules

import (
	"strings"

	"nsqverif/an"
)

// Clauses that two properties state in their own words are armed under both, so that each property's check
// stands on its own (a change that breaks the clause must be reported by the check of either property).
func init() {
	reg("C09.rdy", "GUARD", "RDY count outside [0, max-rdy-count] is refused with the fatal E_INVALID (shared clause with C03.rdy)", 3, c03rdy)
	reg("C09.cls", "PATH", "CLS answers CLOSE_WAIT after starting the close; RDY after CLS is ignored (shared clause with C03.cls)", 4, c03cls)
	reg("C09.nonfatal", "ETYPE+PATH", "FIN/REQ/TOUCH for a message the connection does not hold: non-fatal E_FIN_FAILED/E_REQ_FAILED/E_TOUCH_FAILED (shared with C02.nonfatal)", 5, c02nonfatal)
	reg("C09.parse", "IVAL", "numbers in TCP commands cannot overflow between parsing and use (the TCP sites of C04.parse)", 6, only(c04parse, func(n string) bool { return !strings.Contains(n, "httpServer") }))
	reg("C10.defer", "GUARD", "/pub?defer is rejected outside [0, max-req-timeout] exactly like DPUB, and the topic pump honours the delay (the HTTP and fan-out sites of C04.range)", 2, only(c04range, func(n string) bool {
		return strings.Contains(n, "httpServer") || strings.Contains(n, "Topic).messagePump")
	}))
	reg("C10.parse", "IVAL", "the defer argument cannot overflow between parsing and use (the HTTP site of C04.parse)", 1, only(c04parse, func(n string) bool { return strings.Contains(n, "httpServer") }))
	reg("C10.names", "GUARD+ORIG", "topic/channel names in HTTP requests are validated by the same predicate as TCP (shared with C09.names)", 8, c09names)
	reg("C15.own", "ORIG", "a connection can only add/remove its own producer (shared with C14.own)", 6, c14own)
	reg("C05.codec", "SHAPE", "attempts, id, timestamp and body survive the disk encoding (shared with C07.codec)", 8, c07codec)
	reg("C13.count", "PATH", "client in-flight/finish/requeue counters move only with their transition (shared with C03.count, all counters)", 3, c13count)
	reg("C13.nonfatal", "ETYPE+PATH", "a rejected FIN/REQ does not touch the consumer's counters (shared with C02.nonfatal)", 5, c02nonfatal)
	reg("C08.winner", "LOCK+GUARD+CALLS", "single-winner in-flight pop under concurrent FIN/REQ/TOUCH/timeout (shared with C02.winner)", 9, c02winner)
	reg("C01.copy", "ORIG", "each channel gets its own message object, so one channel's delivery state cannot hide the message from another (shared with C02.copy)", 1, c02copy)
	reg("C03.order", "PATH", "a message is counted in the consumer's in-flight count before it is written to the consumer (the SendingMessage half of C02.order)", 1, c03order)
}

// only restricts a shared clause to the sites relevant for the aliasing property.
func only(run func(*an.Ctx), keep func(fnName string) bool) func(*an.Ctx) {
	return func(c *an.Ctx) {
		c.Only = keep
		run(c)
	}
}
