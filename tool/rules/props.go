// Package rules holds the rule instances: engines + slots filled from the repository.
package rules

// PropInfo is the per-property text that goes into evidence.
type PropInfo struct {
	Explanation string
	NotDecided  string
	Assumptions []string
}

var TrustedBase = []string{
	"go/types, go/ssa, go/packages, x/tools callgraph (cha, vta) v0.29.0",
	"the checker's own engines under /verif/tool/an",
	"Go memory model for sync.Mutex/RWMutex/Once, sync/atomic, channels",
	"documented contracts of go-diskqueue, go-nsq, httprouter, net/http, bufio, io, encoding/json (DESIGN.md §4.1)",
	"the OS: fsync, rename(2) atomicity, flock, link(2) EEXIST",
}

// Props is filled by the per-property files.
var Props = map[string]PropInfo{}

// NotApplicable holds the reason for every property that has no rule registered.
var NotApplicable = map[string]string{}
