package rules

import (
	"go/token"
	"go/types"
	"strings"

	"golang.org/x/tools/go/ssa"

	"nsqverif/an"
)

func init() {
	Props["C02"] = PropInfo{
		Explanation: "Decides the single-winner discipline: (winner) popInFlightMessage looks up, checks ownership and deletes in one critical section of inFlightMutex, the delete is dominated by found && owner==caller, and the only writers of the in-flight map are push/pop/initPQ; every consumer answer and the timeout scan act on the message returned by that pop; " +
			"(order) the pump registers the message in flight and counts it before writing it to the consumer; (attempts) Attempts is written only by the pump's single increment per delivery and by the decoder; " +
			"(nonfatal) a failed FIN/REQ/TOUCH yields the non-fatal E_FIN_FAILED/E_REQ_FAILED/E_TOUCH_FAILED and does not touch the client's counters; " +
			"(copy) each channel beyond the first gets a fresh message object; (final) FIN never re-queues; (backindex) both heaps keep element back-indices consistent with slots.",
		NotDecided:  "the attempts sequence across restarts; heap ordering for all contents (only comparator direction, see C04); interleavings beyond lock discipline.",
		Assumptions: []string{"message ids are unique per topic (C12), so at most one in-flight entry per id"},
	}
	reg("C02.winner", "LOCK+GUARD+CALLS", "in-flight pop is a single critical section gated by found && owner==caller; only push/pop/initPQ write the in-flight map; consumers' answers act on the popped message", 9, c02winner)
	reg("C02.order", "PATH", "consumer pump: StartInFlightTimeout(msg) and SendingMessage precede SendMessage(msg) on every path", 2, c02order)
	reg("C02.attempts", "CALLS+PATH", "Message.Attempts is written only by the pump (exactly one increment per delivery) and the decoder", 3, c02attempts)
	reg("C02.nonfatal", "ETYPE+PATH", "failed FIN/REQ/TOUCH => non-fatal ClientErr with the documented code, counters untouched", 5, c02nonfatal)
	reg("C02.copy", "ORIG", "topic pump hands the original message only to the first channel; others get a fresh NewMessage copy", 1, c02copy)
	reg("C02.final", "CALLS", "FinishMessage never re-inserts the message into any container", 1, c02final)
	reg("C02.backindex", "SHAPE", "priority queues: every slot store is paired with the element's back-index store; removed elements get index -1", 7, c02backindex)
}

func c02winner(c *an.Ctx) {
	pop := c.Fn("nsqd", "(*Channel).popInFlightMessage")
	if pop == nil {
		return
	}
	mapF := c.P.Field("nsqd", "Channel", "inFlightMessages")
	clientIDF := c.P.Field("nsqd", "Message", "clientID")
	la := c.P.Locks()
	// (a)+(b) inside pop
	var lookups []*ssa.Lookup
	var deletes []*ssa.Call
	an.Instrs(pop, func(in ssa.Instruction) {
		if l, ok := in.(*ssa.Lookup); ok && isLoadOfField(l.X, mapF) {
			lookups = append(lookups, l)
		}
		if call, ok := isBuiltinCall(in, "delete"); ok && isLoadOfField(call.Call.Args[0], mapF) {
			deletes = append(deletes, call)
		}
	})
	if len(lookups) != 1 || len(deletes) != 1 {
		c.Bad(pop, "lookup+delete", pop.Pos(), sprintf("expected one lookup and one delete on inFlightMessages, found %d/%d", len(lookups), len(deletes)), nil)
	} else {
		lk, del := lookups[0], deletes[0]
		fl := la.Fns[pop]
		// one critical section: no unlock of inFlightMutex on a path lookup -> delete
		split := false
		for _, o := range fl.Ops {
			if !o.Acquire && o.Class == "Channel.inFlightMutex" && !o.Deferred {
				if an.Reaches(lk, o.Instr) && an.Reaches(o.Instr, del) {
					split = true
				}
			}
		}
		mustL, _ := fl.At(lk)
		mustD, _ := fl.At(del)
		held := mustL.Holds("Channel.inFlightMutex", "p0", true) && mustD.Holds("Channel.inFlightMutex", "p0", true)
		c.Check(held && !split, pop, "lookup and delete in one critical section", del.Pos(), "",
			"the in-flight lookup/ownership test and the delete are not inside one hold of inFlightMutex: two goroutines (FIN vs timeout scan, or two consumers) can both win the same message")
		// delete dominated by ok && owner
		okV := an.ResultN(lk, 1)
		msgV := an.ResultN(lk, 0)
		foundOK, ownerOK := false, false
		for _, f := range an.FactsAt(del.Block()) {
			if len(okV) == 1 && f.V == okV[0] && f.True {
				foundOK = true
			}
			if cmp, ok := f.AsCmp(); ok && cmp.Op == token.EQL {
				for _, pair := range [][2]ssa.Value{{cmp.X, cmp.Y}, {cmp.Y, cmp.X}} {
					lf, base := an.LoadedField(an.Strip(pair[0]))
					if lf == clientIDF && len(msgV) == 1 && an.SameValue(base, msgV[0]) && isParam(pair[1], pop, 1) {
						ownerOK = true
					}
				}
			}
		}
		c.Check(foundOK, pop, "delete gated by found", del.Pos(), "", "delete is not dominated by the comma-ok result of the lookup")
		c.Check(ownerOK, pop, "delete gated by ownership", del.Pos(), "",
			"delete is not dominated by msg.clientID == clientID: a FIN/REQ/TOUCH from a connection that does not hold the message (late answer after a timeout handed it to someone else) is accepted")
		// the returned message is the looked-up one
		for _, r := range an.Returns(pop) {
			if !isSuccessReturn(r) {
				continue
			}
			// judged per path: a single `return msg, err` behind a merge returns (nil, err) on the refusal arms
			r := r
			q := &an.PathQ{Fn: pop, StartEntry: true, AllAlias: true, AllConsts: true,
				Sink: func(in ssa.Instruction, ps *an.PathState) bool {
					if in != ssa.Instruction(r) || !sinkSuccessReturn(in, ps) {
						return false
					}
					got := an.Resolve(ps.Selected(an.Resolve(r.Results[0])))
					return !(len(msgV) == 1 && an.SameValue(got, msgV[0]))
				}}
			_, wrong := q.Find()
			same := !wrong
			c.Check(same, pop, "returns the removed message", r.Pos(), "", "pop returns something other than the message it removed")
		}
	}
	// (c) writers of the map
	allowed := map[string]string{
		"(*nsqd.Channel).pushInFlightMessage": "map insert", "(*nsqd.Channel).popInFlightMessage": "map delete", "(*nsqd.Channel).initPQ": "store to field",
	}
	for _, a := range fieldAccesses(c.P.RepoFuncs(), mapF) {
		if !a.write {
			continue
		}
		want, ok := allowed[an.FnName(a.fn)]
		c.Check(ok && want == a.what, a.fn, "writer of inFlightMessages: "+a.what, a.instr.Pos(), "",
			"unexpected writer of Channel.inFlightMessages: only pushInFlightMessage (insert), popInFlightMessage (delete) and initPQ (reset) may change in-flight ownership")
	}
	// (d) consumers' answers use the popped message
	remove := c.Fn("nsqd", "(*Channel).removeFromInFlightPQ")
	for _, name := range []string{"(*Channel).FinishMessage", "(*Channel).RequeueMessage", "(*Channel).TouchMessage", "(*Channel).processInFlightQueue"} {
		fn := c.Fn("nsqd", name)
		if fn == nil || remove == nil {
			continue
		}
		pcs := an.CallsTo(fn, pop)
		if len(pcs) == 0 {
			c.Bad(fn, "acts only on the popped message", fn.Pos(), "does not go through popInFlightMessage: it can act on a message it does not own", nil)
			continue
		}
		good := true
		// clientID/id args forwarded from own params (except the scan, which uses the heap entry's own fields)
		if name != "(*Channel).processInFlightQueue" {
			for _, pc := range pcs {
				if !isParam(arg(pc, 0), fn, 1) || !isParam(arg(pc, 1), fn, 2) {
					good = false
				}
			}
			for _, rc := range an.CallsTo(fn, remove) {
				isPopped := false
				for _, pc := range pcs {
					for _, m := range an.ResultN(pc.Value(), 0) {
						if an.SameValue(arg(rc, 0), m) {
							isPopped = true
						}
					}
				}
				if !isPopped {
					good = false
				}
				// and after pop success
				for _, pc := range pcs {
					succ, _ := an.ErrEdges(pc.Value())
					q := &an.PathQ{Fn: fn, StartEntry: true, Sink: func(in ssa.Instruction, _ *an.PathState) bool { return in == rc.(ssa.Instruction) },
						CutEdge: func(e an.Edge, _ *an.PathState) bool { return an.EdgeIn(e, succ) }}
					if _, f := q.Find(); f {
						good = false
					}
				}
			}
		}
		c.Check(good, fn, "acts only on the popped message", fn.Pos(), "", "the message acted upon is not (only) the one returned by a successful popInFlightMessage(clientID, id) with the caller's own arguments")
	}
}

func pumpAcquires(c *an.Ctx, fn *ssa.Function) (edges []an.Edge, tracked []ssa.Value, mainLoop *an.Loop) {
	msgT := c.P.Named("nsqd", "Message")
	decode := c.P.Func("nsqd", "decodeMessage")
	loops := an.NaturalLoops(fn)
	for _, sel := range an.Selects(fn) {
		for _, st := range an.SelectStates(sel) {
			if st.State.Dir != types.RecvOnly || st.Recv == nil {
				continue
			}
			if pt, ok := an.ChanElem(st.State.Chan).(*types.Pointer); ok && types.Identical(pt.Elem(), msgT) {
				edges = append(edges, st.Chosen...)
				tracked = append(tracked, st.Recv)
				mainLoop = an.LoopContaining(loops, sel.Block())
			}
		}
	}
	if decode != nil {
		for _, dc := range an.CallsTo(fn, decode) {
			succ, _ := an.ErrEdges(dc.Value())
			edges = append(edges, succ...)
			tracked = append(tracked, an.ResultN(dc.Value(), 0)...)
		}
	}
	return
}

func c02order(c *an.Ctx) { c02orderOf(c, true, true) }

// c03order: RDY accounting only needs the consumer's in-flight count to be raised before the send.
func c03order(c *an.Ctx) { c02orderOf(c, false, true) }

func c02orderOf(c *an.Ctx, wantRegistered, wantCounted bool) {
	fn := c.Fn("nsqd", "(*protocolV2).messagePump")
	send := c.Fn("nsqd", "(*protocolV2).SendMessage")
	start := c.Fn("nsqd", "(*Channel).StartInFlightTimeout")
	sending := c.Fn("nsqd", "(*clientV2).SendingMessage")
	if fn == nil || send == nil || start == nil || sending == nil {
		return
	}
	edges, tracked, _ := pumpAcquires(c, fn)
	sends := an.CallsTo(fn, send)
	if len(sends) == 0 || len(edges) == 0 {
		c.Und(fn, "send after registration", fn.Pos(), "no SendMessage call / acquire point found in the consumer pump")
		return
	}
	for _, spec := range []struct {
		name string
		cut  func(in ssa.Instruction, st *an.PathState) bool
		msg  string
	}{
		{"StartInFlightTimeout before SendMessage", func(in ssa.Instruction, st *an.PathState) bool {
			ci, ok := in.(ssa.CallInstruction)
			return ok && an.IsCallTo(ci, start) && st.Has(arg(ci, 0)) && isParam(an.Strip(clientOfID(arg(ci, 1))), fn, 1)
		}, "a message can be written to the consumer before it is registered in flight for that consumer (StartInFlightTimeout(msg, client.ID, …)): a FIN that races the registration fails, and a crash of the connection in between loses the message"},
		{"SendingMessage before SendMessage", func(in ssa.Instruction, st *an.PathState) bool {
			ci, ok := in.(ssa.CallInstruction)
			return ok && an.IsCallTo(ci, sending) && isParam(recvArg(ci), fn, 1)
		}, "a message can be written to the consumer before the consumer's in-flight count was incremented: RDY accounting under-counts"},
	} {
		if (strings.HasPrefix(spec.name, "StartInFlightTimeout") && !wantRegistered) || (strings.HasPrefix(spec.name, "SendingMessage") && !wantCounted) {
			continue
		}
		q := &an.PathQ{Fn: fn, StartEdges: edges, Tracked: tracked,
			Sink: func(in ssa.Instruction, st *an.PathState) bool {
				ci, ok := in.(ssa.CallInstruction)
				return ok && an.IsCallTo(ci, send) && st.Has(arg(ci, 1))
			},
			Cut: spec.cut}
		w, f := q.Find()
		if f {
			c.Bad(fn, spec.name, sends[0].Pos(), spec.msg, w)
		} else {
			c.OK(fn, spec.name, sends[0].Pos(), "")
		}
	}
}

// clientOfID: if v is a load of field ID of X, return X; else v.
func clientOfID(v ssa.Value) ssa.Value {
	f, base := an.LoadedField(an.Strip(v))
	if f != nil && f.Name() == "ID" {
		return base
	}
	return v
}

func c02attempts(c *an.Ctx) {
	attF := c.P.Field("nsqd", "Message", "Attempts")
	fn := c.Fn("nsqd", "(*protocolV2).messagePump")
	send := c.Fn("nsqd", "(*protocolV2).SendMessage")
	if attF == nil || fn == nil || send == nil {
		if attF == nil {
			c.Anchor("nsqd.Message.Attempts")
		}
		return
	}
	// who may write
	var incs []ssa.Instruction
	for _, g := range c.P.RepoFuncs() {
		an.Instrs(g, func(in ssa.Instruction) {
			st, ok := in.(*ssa.Store)
			if !ok {
				return
			}
			fa, ok := st.Addr.(*ssa.FieldAddr)
			if !ok || an.FieldOf(fa) != attF {
				return
			}
			name := an.FnName(g)
			switch name {
			case "(*nsqd.protocolV2).messagePump":
				incs = append(incs, st)
				// must be old+1
				b, ok := st.Val.(*ssa.BinOp)
				one := false
				if ok && b.Op == token.ADD {
					if k, isC := an.ConstInt(b.Y); isC && k == 1 {
						if lf, base := an.LoadedField(an.Strip(b.X)); lf == attF && an.SameValue(base, fa.X) {
							one = true
						}
					}
				}
				c.Check(one, g, "Attempts writer: pump increment by one", st.Pos(), "", "the pump's write to Attempts is not `Attempts = Attempts + 1`")
			case "nsqd.decodeMessage":
				c.OK(g, "Attempts writer: decoder", st.Pos(), "")
			default:
				c.Bad(g, "Attempts writer", st.Pos(), "Message.Attempts is written outside the consumer pump and the decoder: deliveries no longer carry previous+1", nil)
			}
		})
	}
	edges, tracked, _ := pumpAcquires(c, fn)
	isInc := func(in ssa.Instruction, st *an.PathState) bool {
		s, ok := in.(*ssa.Store)
		if !ok {
			return false
		}
		fa, ok := s.Addr.(*ssa.FieldAddr)
		return ok && an.FieldOf(fa) == attF && st.Has(fa.X)
	}
	isSend := func(in ssa.Instruction, st *an.PathState) bool {
		ci, ok := in.(ssa.CallInstruction)
		return ok && an.IsCallTo(ci, send) && st.Has(arg(ci, 1))
	}
	// none skipped
	q := &an.PathQ{Fn: fn, StartEdges: edges, Tracked: tracked, Sink: isSend, Cut: isInc}
	w, f := q.Find()
	if f {
		c.Bad(fn, "one increment per delivery", fn.Pos(), "a delivery can reach SendMessage without the Attempts increment", w)
	} else if len(incs) == 0 {
		c.Bad(fn, "one increment per delivery", fn.Pos(), "the pump never increments Attempts", nil)
	} else {
		// none doubled: after an increment, another increment of the same message is not reachable before the send
		q2 := &an.PathQ{Fn: fn, StartAfter: incs, Tracked: tracked, Sink: isInc, Cut: isSend}
		// after the increment the tracked set is lost (StartAfter has no path env) – seed with the stored object's base
		for _, in := range incs {
			q2.Tracked = append(q2.Tracked, in.(*ssa.Store).Addr.(*ssa.FieldAddr).X)
		}
		w, f := q2.Find()
		if f {
			c.Bad(fn, "one increment per delivery", fn.Pos(), "Attempts can be incremented twice for one delivery", w)
		} else {
			c.OK(fn, "one increment per delivery", fn.Pos(), "")
		}
	}
}

func c02nonfatal(c *an.Ctx) {
	newClientErr := c.P.Func("internal/protocol", "NewClientErr")
	newFatal := c.P.Func("internal/protocol", "NewFatalClientErr")
	if newClientErr == nil || newFatal == nil {
		c.Anchor("internal/protocol.NewClientErr")
		return
	}
	for _, spec := range []struct{ cmd, op, code, counter string }{
		{"(*protocolV2).FIN", "(*Channel).FinishMessage", "E_FIN_FAILED", "(*clientV2).FinishedMessage"},
		{"(*protocolV2).REQ", "(*Channel).RequeueMessage", "E_REQ_FAILED", "(*clientV2).RequeuedMessage"},
		{"(*protocolV2).TOUCH", "(*Channel).TouchMessage", "E_TOUCH_FAILED", ""},
	} {
		fn := c.Fn("nsqd", spec.cmd)
		op := c.Fn("nsqd", spec.op)
		if fn == nil || op == nil {
			continue
		}
		ops := an.CallsTo(fn, op)
		if len(ops) != 1 {
			c.Bad(fn, "failed answer is non-fatal "+spec.code, fn.Pos(), sprintf("expected one call to %s, found %d", spec.op, len(ops)), nil)
			continue
		}
		succ, fail := an.ErrEdges(ops[0].Value())
		if len(fail) == 0 {
			c.Bad(fn, "failed answer is non-fatal "+spec.code, ops[0].Pos(), "the result of "+spec.op+" is not checked: a FIN/REQ/TOUCH for a message the connection does not hold is answered as success", nil)
			continue
		}
		// every return reachable from the failure edge returns NewClientErr(_, code, _)
		good := true
		why := ""
		q := &an.PathQ{Fn: fn, StartEdges: fail, AllAlias: true, Sink: func(in ssa.Instruction, st *an.PathState) bool {
			r, ok := in.(*ssa.Return)
			if !ok {
				return false
			}
			e := errOperandOn(r, st)
			if e == nil {
				return true
			}
			for _, o := range an.Origins(e) {
				call, ok := o.(*ssa.Call)
				if !ok || !an.IsCallTo(call, newClientErr) {
					why = "returns " + o.String() + " instead of protocol.NewClientErr (a fatal error closes the connection; the protocol documents a non-fatal one)"
					return true
				}
				if code, ok := an.ConstString(call.Call.Args[1]); !ok || code != spec.code {
					why = "error code is not the constant " + spec.code
					return true
				}
			}
			return false
		}}
		w, f := q.Find()
		if f {
			good = false
		}
		if good {
			c.OK(fn, "failed answer is non-fatal "+spec.code, ops[0].Pos(), "")
		} else {
			c.Bad(fn, "failed answer is non-fatal "+spec.code, ops[0].Pos(), "on the failure edge of "+spec.op+": "+why, w)
		}
		if spec.counter != "" {
			cnt := c.Fn("nsqd", spec.counter)
			if cnt == nil {
				continue
			}
			// counter only after success, and always after success
			q := &an.PathQ{Fn: fn, StartEntry: true, Sink: func(in ssa.Instruction, _ *an.PathState) bool { return isCallToOn(in, cnt, nil) },
				CutEdge: func(e an.Edge, _ *an.PathState) bool { return an.EdgeIn(e, succ) }}
			w, f := q.Find()
			q2 := &an.PathQ{Fn: fn, StartEdges: succ, Sink: an.IsReturn, Cut: func(in ssa.Instruction, _ *an.PathState) bool { return isCallToOn(in, cnt, nil) }}
			w2, f2 := q2.Find()
			if f {
				c.Bad(fn, "counter only on success", ops[0].Pos(), spec.counter+" is reachable without the channel operation having succeeded: a rejected answer changes the consumer's in-flight count", w)
			} else if f2 {
				c.Bad(fn, "counter only on success", ops[0].Pos(), "after a successful channel operation a return is reachable without "+spec.counter+": the consumer's in-flight count leaks and RDY starves", w2)
			} else {
				c.OK(fn, "counter only on success", ops[0].Pos(), "")
			}
		}
	}
}

func c02copy(c *an.Ctx) {
	fn := c.Fn("nsqd", "(*Topic).messagePump")
	chPut := c.Fn("nsqd", "(*Channel).PutMessage")
	chPutD := c.Fn("nsqd", "(*Channel).PutMessageDeferred")
	newMsg := c.Fn("nsqd", "NewMessage")
	if fn == nil || chPut == nil || chPutD == nil || newMsg == nil {
		return
	}
	loops := an.NaturalLoops(fn)
	for _, ci := range an.CallsTo(fn, chPut, chPutD) {
		l := an.LoopContaining(loops, ci.Block())
		var il *an.IndexLoop
		if l != nil {
			il, _ = an.AsIndexLoop(l)
		}
		if il == nil {
			c.Und(fn, "per-channel copy", ci.Pos(), "channel put is not inside a recognised index loop")
			continue
		}
		m := arg(ci, 0)
		good, why := copyOK(m, il, newMsg, 0)
		c.Check(good, fn, "per-channel copy: "+describeCall(ci), ci.Pos(), "",
			"the same *Message object can be handed to more than one channel ("+why+"): channels then share attempts, in-flight owner and timeout state")
	}
}

// copyOK: v is a NewMessage result, or a phi whose non-fresh operands arrive only on edges where idx <= 0.
func copyOK(v ssa.Value, il *an.IndexLoop, newMsg *ssa.Function, depth int) (bool, string) {
	if depth > 4 {
		return false, "too deep"
	}
	if an.CallResultOf(v, newMsg) != nil || msgCopyOf(v, newMsg) != nil {
		return true, ""
	}
	phi, ok := v.(*ssa.Phi)
	if !ok || !il.Blocks[phi.Block()] || phi.Block() == il.Header {
		return false, "argument is not a fresh NewMessage copy"
	}
	for i, e := range phi.Edges {
		if ok, _ := copyOK(e, il, newMsg, depth+1); ok {
			continue
		}
		// original: the incoming edge must imply idx <= 0 (first iteration)
		edge := an.Edge{From: phi.Block().Preds[i], To: phi.Block()}
		first := false
		for _, cmp := range an.CmpsOnEdge(edge) {
			oc, ok := cmp.Oriented(func(x ssa.Value) bool { return x == il.Idx })
			if !ok {
				continue
			}
			k, isC := an.ConstInt(oc.Y)
			if !isC {
				continue
			}
			if (oc.Op == token.LEQ && k == 0) || (oc.Op == token.LSS && k == 1) || (oc.Op == token.EQL && k == 0) {
				first = true
			}
		}
		if !first {
			return false, "the original message reaches the put on an iteration other than the first"
		}
	}
	return true, ""
}

func c02final(c *an.Ctx) {
	fn := c.Fn("nsqd", "(*Channel).FinishMessage")
	if fn == nil {
		return
	}
	bad := ""
	for _, name := range []string{"(*Channel).put", "(*Channel).PutMessage", "(*Channel).StartDeferredTimeout", "(*Channel).StartInFlightTimeout", "(*Channel).pushInFlightMessage", "(*Channel).pushDeferredMessage", "(*Channel).addToInFlightPQ", "(*Channel).addToDeferredPQ", "(*Channel).PutMessageDeferred"} {
		t := c.P.Func("nsqd", name)
		if t != nil && len(an.CallsTo(fn, t)) > 0 {
			bad = name
		}
	}
	addIn, addDef := heapInsert(c, "inFlightPQ"), heapInsert(c, "deferredPQ")
	an.Instrs(fn, func(in ssa.Instruction) {
		if addIn.is(in) || addDef.is(in) {
			bad = "deadline heap insert"
		}
		if _, ok := in.(*ssa.Send); ok {
			bad = "channel send"
		}
		if _, ok := in.(*ssa.Select); ok {
			bad = "select"
		}
	})
	c.Check(bad == "", fn, "FIN is final", fn.Pos(), "", "FinishMessage re-inserts the finished message ("+bad+"): it is delivered again after FIN was accepted")
}

func c02backindex(c *an.Ctx) {
	for _, spec := range []struct{ pkg, typ, idx string }{{"nsqd", "inFlightPqueue", "index"}, {"internal/pqueue", "PriorityQueue", "Index"}} {
		// slot stores paired with index stores
		// Swap and Push must exist; any other method of the queue that stores an element into a slot obeys the same rule
		var methods []*ssa.Function
		for _, m := range []string{"Swap", "Push"} {
			fn := c.Fn(spec.pkg, "("+spec.typ+")."+m)
			if fn == nil {
				fn = c.P.Func(spec.pkg, "(*"+spec.typ+")."+m)
			}
			if fn != nil {
				methods = append(methods, fn)
			}
		}
		for _, fn := range c.P.PkgFuncs(spec.pkg) {
			if fn.Signature.Recv() == nil || fn.Name() == "Swap" || fn.Name() == "Push" {
				continue
			}
			rt := fn.Signature.Recv().Type()
			if pt, ok := rt.(*types.Pointer); ok {
				rt = pt.Elem()
			}
			if nt, ok := rt.(*types.Named); ok && nt.Obj().Name() == spec.typ {
				methods = append(methods, fn)
			}
		}
		for _, fn := range methods {
			required := fn.Name() == "Swap" || fn.Name() == "Push"
			n, good := 0, true
			an.Instrs(fn, func(in ssa.Instruction) {
				st, ok := in.(*ssa.Store)
				if !ok {
					return
				}
				ia, ok := st.Addr.(*ssa.IndexAddr)
				if !ok {
					return
				}
				if _, isPtr := st.Val.Type().Underlying().(*types.Pointer); !isPtr {
					return
				}
				if an.IsNilConst(st.Val) {
					return // clearing a slot
				}
				n++
				// look for store to <elem>.idx = ia.Index where elem is st.Val or a load of the same slot
				found := false
				an.Instrs(fn, func(in2 ssa.Instruction) {
					st2, ok := in2.(*ssa.Store)
					if !ok {
						return
					}
					fa, ok := st2.Addr.(*ssa.FieldAddr)
					if !ok || an.FName(an.FieldOf(fa)) != spec.idx {
						return
					}
					sameIdx := an.SameValue(st2.Val, ia.Index)
					if k1, ok1 := an.ConstInt(st2.Val); ok1 {
						if k2, ok2 := an.ConstInt(ia.Index); ok2 && k1 == k2 {
							sameIdx = true
						}
					}
					if !sameIdx {
						return
					}
					base := an.Strip(fa.X)
					if an.SameValue(base, st.Val) {
						found = true
					}
					if ta, ok := base.(*ssa.TypeAssert); ok && an.SameValue(ta, st.Val) {
						found = true
					}
					if u, ok := base.(*ssa.UnOp); ok && u.Op == token.MUL {
						if ia2, ok := u.X.(*ssa.IndexAddr); ok && an.SameValue(ia2.Index, ia.Index) {
							found = true
						}
					}
				})
				if !found {
					good = false
				}
			})
			if n == 0 && !required {
				continue
			}
			c.Check(n > 0 && good, fn, "slot store paired with back-index store", fn.Pos(), "",
				"an element is stored into a heap slot without recording that slot in the element's back-index: a later Remove(index) removes the wrong element")
		}
		for _, m := range []string{"Pop", "Remove"} {
			fn := c.P.Func(spec.pkg, "(*"+spec.typ+")."+m)
			if fn == nil {
				if spec.typ == "PriorityQueue" && m == "Remove" {
					continue // container/heap.Remove drives Swap+Pop
				}
				c.Fn(spec.pkg, "(*"+spec.typ+")."+m)
				continue
			}
			q := &an.PathQ{Fn: fn, StartEntry: true, Sink: an.IsReturn, Cut: func(in ssa.Instruction, _ *an.PathState) bool {
				st, ok := in.(*ssa.Store)
				if !ok {
					return false
				}
				fa, ok := st.Addr.(*ssa.FieldAddr)
				if !ok || an.FName(an.FieldOf(fa)) != spec.idx {
					return false
				}
				k, isC := an.ConstInt(st.Val)
				return isC && k == -1
			}}
			w, f := q.Find()
			if f {
				c.Bad(fn, "removed element gets index -1", fn.Pos(), "an element can leave the heap without its back-index being set to -1: removeFromInFlightPQ then addresses a slot that now belongs to another message", w)
			} else {
				c.OK(fn, "removed element gets index -1", fn.Pos(), "")
			}
		}
	}
}
