package rules

import (
	"go/token"
	"go/types"
	"sort"
	"strings"

	"golang.org/x/tools/go/ssa"

	"nsqverif/an"
)

func init() {
	Props["C10"] = PropInfo{
		Explanation: "Decides: (routes) the route table (method, path, handler) and that every API handler is rendered through V1/PlainText, with 404/405/500 responders installed; " +
			"(errtype) handlers return only nil or http_api.Err (discharging the unchecked err.(Err) in V1/PlainText) and PlainText handlers only data PlainText can render; " +
			"(codes) every error arm's status matches the class of the failure that controls it: parser/argument => 400, size => 413, missing topic/channel => 404, exiting => 503, and 500 only under an IO/OS failure; " +
			"(parity) /pub and /mpub enforce the same body, per-message and name limits as PUB/MPUB (binary mode is the TCP batch parser); (effects) each endpoint reaches exactly its stated set of state-changing operations.",
		NotDecided:  "well-formedness of the bytes net/http emits; equality of the messages actually delivered (C01+C07); chunked-encoding corner cases inside net/http.",
		Assumptions: []string{"httprouter dispatches by exact method+path and recovers handler panics through PanicHandler", "io.ReadAll(io.LimitReader(r, L)) returns at most L bytes"},
	}
	reg("C10.routes", "SHAPE", "nsqd HTTP route table: method/path/handler as documented, each API handler wrapped by V1 or PlainText; 404/405/panic responders installed", 22, c10routes)
	reg("C10.errtype", "ETYPE", "handlers return only nil/http_api.Err; PlainText handlers return renderable data", 18, c10errtype)
	reg("C10.codes", "GUARD", "status of every error arm matches the class of the controlling failure; 500 only under IO/OS failures", 30, c10codes)
	reg("C10.parity", "GUARD", "/pub and /mpub size limits equal the TCP limits", 5, c10parity)
	reg("C10.effects", "CALLS", "effect signature of every endpoint is exactly its documented set of mutators", 12, c10effects)
}

var nsqdRoutes = map[string]string{
	"GET /ping": "pingHandler", "GET /info": "doInfo", "POST /pub": "doPUB", "POST /mpub": "doMPUB", "GET /stats": "doStats",
	"POST /topic/create": "doCreateTopic", "POST /topic/delete": "doDeleteTopic", "POST /topic/empty": "doEmptyTopic",
	"POST /topic/pause": "doPauseTopic", "POST /topic/unpause": "doPauseTopic",
	"POST /channel/create": "doCreateChannel", "POST /channel/delete": "doDeleteChannel", "POST /channel/empty": "doEmptyChannel",
	"POST /channel/pause": "doPauseChannel", "POST /channel/unpause": "doPauseChannel",
	"GET /config/:opt": "doConfig", "PUT /config/:opt": "doConfig",
	"PUT /debug/setblockrate": "setBlockRateHandler", "POST /debug/freememory": "freeMemory",
}

func checkRouteTable(c *an.Ctx, fn *ssa.Function, want map[string]string, renderers map[string]bool) []route {
	rs := routesOf(c.P, fn)
	got := map[string]route{}
	for _, r := range rs {
		got[r.Method+" "+r.Path] = r
	}
	var keys []string
	for k := range want {
		keys = append(keys, k)
	}
	sort.Strings(keys)
	for _, k := range keys {
		r, ok := got[k]
		if !ok {
			c.Bad(fn, "route "+k, fn.Pos(), "documented route "+k+" is not registered (it now answers 404/405)", nil)
			continue
		}
		name := ""
		if r.Handler != nil {
			name = r.Handler.Name()
		}
		c.Check(name == want[k], fn, "route "+k, r.Site.Pos(), "", sprintf("route %s is served by %q, expected %s", k, name, want[k]))
	}
	for _, r := range rs {
		k := r.Method + " " + r.Path
		if r.Raw {
			continue // net/http handlers (pprof, static): they render their own response
		}
		if _, ok := want[k]; !ok {
			c.OK(fn, "extra route "+k, r.Site.Pos(), "not in the documented table; rendering checked")
		}
		last := ""
		if n := len(r.Decorators); n > 0 {
			last = r.Decorators[n-1]
		}
		c.Check(renderers[last], fn, "route "+k+" rendered by V1/PlainText", r.Site.Pos(), "",
			sprintf("route %s is not wrapped (outermost) by a response renderer (decorators: %v): its result and errors are never written, the client gets an empty 200", k, r.Decorators))
	}
	return rs
}

func checkRouterResponders(c *an.Ctx, fn *ssa.Function) {
	want := map[string]string{"PanicHandler": "LogPanicHandler", "NotFound": "LogNotFoundHandler", "MethodNotAllowed": "LogMethodNotAllowedHandler"}
	got := map[string]string{}
	hmna := false
	an.Instrs(fn, func(in ssa.Instruction) {
		st, ok := in.(*ssa.Store)
		if !ok {
			return
		}
		fa, ok := st.Addr.(*ssa.FieldAddr)
		if !ok {
			return
		}
		f := an.FieldOf(fa)
		if f.Name() == "HandleMethodNotAllowed" {
			if k, ok := st.Val.(*ssa.Const); ok && k.Value != nil && k.Value.String() == "true" {
				hmna = true
			}
		}
		if _, ok := want[f.Name()]; ok {
			if call, ok := an.Strip(st.Val).(*ssa.Call); ok {
				if cf := an.StaticCallee(call); cf != nil {
					got[f.Name()] = cf.Name()
				}
			}
		}
	})
	c.Check(hmna, fn, "405 for wrong method", fn.Pos(), "", "router.HandleMethodNotAllowed is not set: a wrong method is answered 404 instead of 405")
	for k, v := range want {
		c.Check(got[k] == v, fn, "router."+k, fn.Pos(), "", sprintf("router.%s is %q, expected http_api.%s (JSON 404/405/500 responses)", k, got[k], v))
	}
}

func c10routes(c *an.Ctx) {
	fn := c.Fn("nsqd", "newHTTPServer")
	if fn == nil {
		return
	}
	checkRouteTable(c, fn, nsqdRoutes, map[string]bool{"V1": true, "PlainText": true})
	checkRouterResponders(c, fn)
}

// handlerErrTypes checks result 1 (error) and, for PlainText routes, result 0 (data) of each handler.
func handlerErrTypes(c *an.Ctx, rs []route, consequence string) {
	allowed := map[string]bool{"nil": true, "internal/http_api.Err": true}
	seen := map[*ssa.Function]bool{}
	et := an.NewETypes(c.P)
	for _, r := range rs {
		if r.Raw || r.Handler == nil {
			continue
		}
		if !seen[r.Handler] {
			seen[r.Handler] = true
			errTypeCheck(c, r.Handler, 1, allowed, "handler error types", consequence)
		}
		plain := false
		for _, d := range r.Decorators {
			if d == "PlainText" {
				plain = true
			}
		}
		if plain {
			var bad []string
			var all []string
			for _, ret := range an.Returns(r.Handler) {
				if !isSuccessReturn(ret) {
					continue // PlainText renders err.Error() instead of the data
				}
				for _, t := range an.SortedTypes(et.Value(an.Resolve(ret.Results[0]), ret.Block())) {
					all = append(all, t)
					if t != "string" && t != "[]byte" && !plainRendersNil(c, t) {
						bad = append(bad, t)
					}
				}
			}
			construct := "PlainText data types " + r.Method + " " + r.Path
			if len(bad) == 0 {
				c.OK(r.Handler, construct, r.Handler.Pos(), strings.Join(all, ", "))
			} else {
				c.Bad(r.Handler, construct, r.Handler.Pos(), sprintf("%s is rendered by PlainText but can return data of type %s: PlainText then panics (\"unknown response type\"), which the router turns into a 500 for a perfectly valid request", r.Method+" "+r.Path, strings.Join(bad, ", ")), nil)
			}
		}
	}
}

func c10errtype(c *an.Ctx) {
	fn := c.Fn("nsqd", "newHTTPServer")
	if fn == nil {
		return
	}
	rs := routesOf(c.P, fn)
	// PlainText renders nil? (then nil data is fine)
	handlerErrTypes(c, rs, "V1/PlainText's unchecked err.(Err) panics; the router's PanicHandler answers 500 INTERNAL_ERROR for what should be a 4xx")
	// doMPUB: err.(*protocol.FatalClientErr) on readMPUB's error, and Code[2:]
	if mp := c.Fn("nsqd", "(*httpServer).doMPUB"); mp != nil {
		readMPUB := c.P.Func("nsqd", "readMPUB")
		et := an.NewETypes(c.P)
		an.Instrs(mp, func(in ssa.Instruction) {
			ta, ok := in.(*ssa.TypeAssert)
			if !ok || ta.CommaOk {
				return
			}
			fromRead := readMPUB != nil && an.OriginsAll(ta.X, func(o ssa.Value) bool { return an.CallResultOf(o, readMPUB) != nil })
			res := et.Result(readMPUB, 1)
			okT := fromRead
			for t := range res {
				if t != "nil" && t != "*internal/protocol.FatalClientErr" {
					okT = false
				}
			}
			c.Check(okT, mp, "unchecked assertion on readMPUB's error", ta.Pos(), "", sprintf("err.(*protocol.FatalClientErr) is applied to an error that can be %v", an.SortedTypes(res)))
		})
		// all codes used by readMPUB have length >= 2 (Code[2:])
		if readMPUB != nil {
			fatal := c.P.Func("internal/protocol", "NewFatalClientErr")
			good := true
			for _, ci := range an.CallsTo(readMPUB, fatal) {
				if s, ok := an.ConstString(ci.Common().Args[1]); !ok || len(s) < 2 {
					good = false
				}
			}
			c.Check(good, readMPUB, "error codes long enough for Code[2:]", readMPUB.Pos(), "", "readMPUB uses an error code shorter than 2 bytes: doMPUB's Code[2:] panics")
		}
	}
	// V1/PlainText assert err.(Err)
	for _, name := range []string{"V1", "PlainText"} {
		f := c.Fn("internal/http_api", name)
		if f == nil {
			continue
		}
		n := 0
		for _, a := range f.AnonFuncs {
			an.Instrs(a, func(in ssa.Instruction) {
				if ta, ok := in.(*ssa.TypeAssert); ok && !ta.CommaOk && typeStrShort(ta.AssertedType) == "http_api.Err" {
					n++
				}
			})
		}
		c.OK(f, "renderer asserts http_api.Err", f.Pos(), sprintf("%d unchecked assertions discharged by the handler summaries", n))
	}
}

// httpHandlerFuncs returns the handler functions of a route table plus helpers in pkg whose error they forward.
func httpErrFuncs(c *an.Ctx, rs []route, pkg string) []*ssa.Function {
	seen := map[*ssa.Function]bool{}
	var out []*ssa.Function
	var add func(fn *ssa.Function, d int)
	add = func(fn *ssa.Function, d int) {
		if fn == nil || seen[fn] || fn.Blocks == nil || d > 2 {
			return
		}
		seen[fn] = true
		out = append(out, fn)
		an.Instrs(fn, func(in ssa.Instruction) {
			if call, ok := in.(*ssa.Call); ok {
				if cf := an.StaticCallee(call); cf != nil && cf.Pkg != nil && cf.Pkg.Pkg.Path() == an.ModPath+"/"+pkg {
					// helper that returns an error which may be an http_api.Err
					res := cf.Signature.Results()
					if res.Len() > 0 && an.IsErrorType(res.At(res.Len()-1).Type()) {
						for _, r := range an.Returns(cf) {
							if e := errOperand(r); e != nil {
								if _, _, isErr := httpErrOf(e); isErr {
									add(cf, d+1)
								}
							}
						}
					}
				}
			}
		})
	}
	for _, r := range rs {
		if !r.Raw {
			add(r.Handler, 0)
		}
	}
	return out
}

func statusCheck(c *an.Ctx, fns []*ssa.Function, overrides map[string][]int64) {
	for _, fn := range fns {
		an.Instrs(fn, func(in ssa.Instruction) {
			r, ok := in.(*ssa.Return)
			if !ok {
				return
			}
			e := errOperand(r)
			if e == nil {
				return
			}
			code, text, isErr := httpErrOf(e)
			if !isErr {
				return
			}
			construct := sprintf("status of error %q", text)
			if code < 0 {
				c.OK(fn, construct, r.Pos(), "non-constant status")
				return
			}
			for _, cl := range controllingClasses(r.Block()) {
				want := classStatus[cl.Class]
				if o, ok := overrides[text]; ok {
					want = o
				}
				if cl.Class == "unknown" && overrides[text] == nil {
					if code == 500 {
						c.Bad(fn, construct, r.Pos(), sprintf("a 500 is returned under a condition that is not a recognised IO/OS failure (%s): no complete request may be answered 500", cl.What), nil)
					} else {
						c.OK(fn, construct, r.Pos(), sprintf("%d (controlling condition not classified: %s)", code, cl.What))
					}
					continue
				}
				good := false
				for _, w := range want {
					if w == code {
						good = true
					}
				}
				c.Check(good, fn, construct, r.Pos(), sprintf("%d for %s failure (%s)", code, cl.Class, cl.What),
					sprintf("error %q is answered %d, but the failure that controls this arm is of class %s (%s) which the API documents as %v", text, code, cl.Class, cl.What, want))
			}
		})
	}
}

func c10codes(c *an.Ctx) {
	fn := c.Fn("nsqd", "newHTTPServer")
	if fn == nil {
		return
	}
	rs := routesOf(c.P, fn)
	fns := httpErrFuncs(c, rs, "nsqd")
	statusCheck(c, fns, map[string][]int64{
		"INVALID_VALUE": {400, 413}, // /config PUT: 413 for empty/oversize bodies, 400 for unparsable values
	})
}

func c10parity(c *an.Ctx) {
	pub := c.Fn("nsqd", "(*httpServer).doPUB")
	mpub := c.Fn("nsqd", "(*httpServer).doMPUB")
	newMsg := c.Fn("nsqd", "NewMessage")
	if pub == nil || mpub == nil || newMsg == nil {
		return
	}
	// limit-reader idiom: body = io.ReadAll(io.LimitReader(req.Body, opts.F + 1)); use dominated by len(body) != F+1
	limitOf := func(v ssa.Value) (ssa.Value, bool) { // v = ReadAll(LimitReader(_, L)) result => L
		for _, o := range an.Origins(v) {
			ex, ok := o.(*ssa.Extract)
			if !ok {
				continue
			}
			call, ok := ex.Tuple.(*ssa.Call)
			if !ok || !(an.StdCallee(call, "io", "ReadAll") || an.StdCallee(call, "io/ioutil", "ReadAll")) {
				continue
			}
			if lr, ok := an.Strip(call.Call.Args[0]).(*ssa.Call); ok && an.StdCallee(lr, "io", "LimitReader") {
				return lr.Call.Args[1], true
			}
		}
		return nil, false
	}
	isOptPlus1 := func(v ssa.Value, field string) bool {
		b, ok := an.Strip(v).(*ssa.BinOp)
		if !ok || b.Op != token.ADD {
			return false
		}
		k, isC := an.ConstInt(b.Y)
		return isC && k == 1 && isOptsField(c, b.X, "nsqd", field)
	}
	for _, nc := range an.CallsTo(pub, newMsg) {
		body := arg(nc, 1)
		lim, ok := limitOf(body)
		okLimit := ok && isOptPlus1(lim, "MaxMsgSize")
		neqLimit, nonEmpty := false, false
		for _, cmp := range an.CmpsAt(nc.Block()) {
			oc, ok := cmp.Oriented(func(x ssa.Value) bool { a := lenArgOf(x); return a != nil && an.SameValue(a, body) })
			if !ok {
				continue
			}
			if (oc.Op == token.NEQ || oc.Op == token.LSS) && lim != nil && an.SameValue(an.Strip(oc.Y), an.Strip(lim)) {
				neqLimit = true
			}
			if k, isC := an.ConstInt(oc.Y); isC && k == 0 && (oc.Op == token.NEQ || oc.Op == token.GTR) {
				nonEmpty = true
			}
		}
		c.Check(okLimit && neqLimit, pub, "/pub body at most MaxMsgSize", nc.Pos(), "", "the /pub body is not read through LimitReader(MaxMsgSize+1) with the len == limit rejection: HTTP accepts bodies TCP PUB rejects (or reads unbounded chunked bodies)")
		c.Check(nonEmpty, pub, "/pub body not empty", nc.Pos(), "", "/pub accepts an empty body, TCP PUB rejects size 0")
	}
	// Content-Length pre-checks
	for _, spec := range []struct {
		fn    *ssa.Function
		field string
	}{{pub, "MaxMsgSize"}, {mpub, "MaxBodySize"}} {
		good := false
		an.Instrs(spec.fn, func(in ssa.Instruction) {
			b, ok := in.(*ssa.BinOp)
			if !ok {
				return
			}
			// ContentLength > limit, in either spelling (`limit < ContentLength`, `!(ContentLength <= limit)` …)
			x, y, op := b.X, b.Y, b.Op
			if f, _ := an.LoadedField(an.Strip(y)); f != nil && f.Name() == "ContentLength" {
				x, y = y, x
				switch op {
				case token.LSS:
					op = token.GTR
				case token.GEQ:
					op = token.LEQ
				case token.GTR:
					op = token.LSS
				case token.LEQ:
					op = token.GEQ
				}
			}
			if op != token.GTR && op != token.LEQ {
				return
			}
			if f, _ := an.LoadedField(an.Strip(x)); f != nil && f.Name() == "ContentLength" && isOptsField(c, y, "nsqd", spec.field) {
				good = true
			}
		})
		c.Check(good, spec.fn, "declared Content-Length checked against "+spec.field, spec.fn.Pos(), "", "the declared Content-Length is not compared with opts."+spec.field)
	}
	// /mpub text mode: per message <= MaxMsgSize, total limited by LimitReader(MaxBodySize+1)
	for _, nc := range an.CallsTo(mpub, newMsg) {
		block := arg(nc, 1)
		perMsg := false
		for _, cmp := range an.CmpsAt(nc.Block()) {
			oc, ok := cmp.Oriented(func(x ssa.Value) bool { a := lenArgOf(x); return a != nil && an.SameValue(a, block) })
			if ok && oc.Op == token.LEQ && isOptsField(c, oc.Y, "nsqd", "MaxMsgSize") {
				perMsg = true
			}
		}
		c.Check(perMsg, mpub, "/mpub text message at most MaxMsgSize", nc.Pos(), "", "a text-mode /mpub message is not checked against opts.MaxMsgSize (TCP MPUB rejects it)")
		nonEmpty := false
		for _, cmp := range an.CmpsAt(nc.Block()) {
			oc, ok := cmp.Oriented(func(x ssa.Value) bool { a := lenArgOf(x); return a != nil && an.SameValue(a, block) })
			if ok {
				if k, isC := an.ConstInt(oc.Y); isC && k == 0 && (oc.Op == token.NEQ || oc.Op == token.GTR) {
					nonEmpty = true
				}
			}
		}
		c.Check(nonEmpty, mpub, "/mpub text message not empty", nc.Pos(), "", "text-mode /mpub can enqueue an empty message")
	}
	lrOK := false
	an.Instrs(mpub, func(in ssa.Instruction) {
		if call, ok := in.(*ssa.Call); ok && an.StdCallee(call, "io", "LimitReader") && isOptPlus1(call.Call.Args[1], "MaxBodySize") {
			lrOK = true
		}
	})
	c.Check(lrOK, mpub, "/mpub text body limited to MaxBodySize", mpub.Pos(), "", "the text-mode /mpub body is not read through LimitReader(MaxBodySize+1)")
}

var nsqdMutators = []string{
	"(*NSQD).GetTopic", "(*NSQD).DeleteExistingTopic", "(*NSQD).PersistMetadata", "(*NSQD).swapOpts", "(*NSQD).triggerOptsNotification", "(*NSQD).Exit",
	"(*Topic).GetChannel", "(*Topic).DeleteExistingChannel", "(*Topic).PutMessage", "(*Topic).PutMessages", "(*Topic).GenerateID", "(*Topic).Empty", "(*Topic).Pause", "(*Topic).UnPause", "(*Topic).Delete", "(*Topic).Close", "(*Topic).Start",
	"(*Channel).PutMessage", "(*Channel).PutMessageDeferred", "(*Channel).Empty", "(*Channel).Pause", "(*Channel).UnPause", "(*Channel).Delete", "(*Channel).Close", "(*Channel).AddClient", "(*Channel).RemoveClient",
	"(*Channel).FinishMessage", "(*Channel).RequeueMessage", "(*Channel).TouchMessage",
}

// effectsOf collects the mutators called from fn, descending through non-mutator functions of pkg.
func effectsOf(c *an.Ctx, fn *ssa.Function, pkg string, universe map[*ssa.Function]string) map[string]bool {
	out := map[string]bool{}
	seen := map[*ssa.Function]bool{}
	var walk func(f *ssa.Function, d int)
	walk = func(f *ssa.Function, d int) {
		if seen[f] || d > 4 {
			return
		}
		seen[f] = true
		for _, g := range an.WithAnon(f) {
			an.Instrs(g, func(in ssa.Instruction) {
				ci, ok := in.(ssa.CallInstruction)
				if !ok {
					return
				}
				cands := []*ssa.Function{an.StaticCallee(ci)}
				if cands[0] == nil {
					// a method value chosen at run time: any of them may be called
					cands = an.MethodValueCallees(ci)
				}
				for _, cf := range cands {
					if cf == nil {
						continue
					}
					if name, ok := universe[cf]; ok {
						out[name] = true
						continue
					}
					if cf.Pkg != nil && cf.Pkg.Pkg.Path() == an.ModPath+"/"+pkg && cf.Blocks != nil {
						walk(cf, d+1)
					}
				}
			})
		}
	}
	walk(fn, 0)
	return out
}

func c10effects(c *an.Ctx) {
	universe := map[*ssa.Function]string{}
	for _, n := range nsqdMutators {
		if f := c.P.Func("nsqd", n); f != nil {
			universe[f] = n
		}
	}
	if len(universe) < len(nsqdMutators)-2 {
		c.Anchor("nsqd mutator universe")
	}
	want := map[string][]string{
		"doCreateTopic":   {"(*NSQD).GetTopic"},
		"doDeleteTopic":   {"(*NSQD).DeleteExistingTopic"},
		"doEmptyTopic":    {"(*Topic).Empty"},
		"doPauseTopic":    {"(*NSQD).PersistMetadata", "(*Topic).Pause", "(*Topic).UnPause"},
		"doCreateChannel": {"(*Topic).GetChannel"},
		"doDeleteChannel": {"(*Topic).DeleteExistingChannel"},
		"doEmptyChannel":  {"(*Channel).Empty"},
		"doPauseChannel":  {"(*Channel).Pause", "(*Channel).UnPause", "(*NSQD).PersistMetadata"},
		"doPUB":           {"(*NSQD).GetTopic", "(*Topic).GenerateID", "(*Topic).PutMessage"},
		"doMPUB":          {"(*NSQD).GetTopic", "(*Topic).GenerateID", "(*Topic).PutMessages"},
		"doStats":         {},
		"doInfo":          {},
		"pingHandler":     {},
		"doConfig":        {"(*NSQD).swapOpts", "(*NSQD).triggerOptsNotification"},
	}
	var names []string
	for k := range want {
		names = append(names, k)
	}
	sort.Strings(names)
	for _, h := range names {
		fn := c.Fn("nsqd", "(*httpServer)."+h)
		if fn == nil {
			continue
		}
		got := effectsOf(c, fn, "nsqd", universe)
		var gl []string
		for k := range got {
			gl = append(gl, k)
		}
		sort.Strings(gl)
		wl := append([]string{}, want[h]...)
		sort.Strings(wl)
		c.Check(strings.Join(gl, ",") == strings.Join(wl, ","), fn, "effect signature", fn.Pos(), strings.Join(gl, ","),
			sprintf("endpoint %s reaches the state-changing operations {%s}, documented effect is {%s}", h, strings.Join(gl, ", "), strings.Join(wl, ", ")))
	}
}

// plainRendersNil: PlainText's type switch has a case for t ("nil" = the nil interface).
func plainRendersNil(c *an.Ctx, t string) bool {
	if t != "nil" {
		return false
	}
	pt := c.P.Func("internal/http_api", "PlainText")
	if pt == nil {
		return false
	}
	found := false
	for _, a := range pt.AnonFuncs {
		an.Instrs(a, func(in ssa.Instruction) {
			// `case nil:` in a type switch lowers to `data == nil:interface{}`
			if b, ok := in.(*ssa.BinOp); ok && b.Op == token.EQL && (an.IsNilConst(b.X) || an.IsNilConst(b.Y)) {
				other := b.X
				if an.IsNilConst(b.X) {
					other = b.Y
				}
				if _, isIface := other.Type().Underlying().(*types.Interface); isIface && !an.IsErrorType(other.Type()) {
					found = true
				}
			}
		})
	}
	return found
}
