package rules

import (
	"go/token"
	"go/types"
	"sort"
	"strings"

	"golang.org/x/tools/go/ssa"

	"nsqverif/an"
)

// guardedField is one row of the guarded-by table (DESIGN Appendix A.3).
type guardedField struct {
	Pkg, Type, Field string
	LockClass        string // e.g. "Channel.inFlightMutex"
	Why              string
}

// allowUnlocked: function name -> field -> reason (reviewed exceptions).
var allowUnlocked = map[string]map[string]string{
	"(*nsqd.Channel).flush": {
		"inFlightMessages": "log-only len() before the locked loops; runs after every client was closed and under exitMutex.Lock",
		"deferredMessages": "log-only len() before the locked loops; runs after every client was closed and under exitMutex.Lock",
	},
}

type access struct {
	fn    *ssa.Function
	instr ssa.Instruction
	base  string
	write bool
	what  string
}

// fieldAccesses finds every access to struct field f in the given functions, classifying reads/writes.
func fieldAccesses(fns []*ssa.Function, f *types.Var) []access {
	var out []access
	for _, fn := range fns {
		an.Instrs(fn, func(in ssa.Instruction) {
			fa, ok := in.(*ssa.FieldAddr)
			if !ok || an.FieldOf(fa) != f {
				return
			}
			if _, fresh := an.Strip(fa.X).(*ssa.Alloc); fresh {
				return // object under construction, not yet shared
			}
			base := an.AccessPath(fa.X)
			for _, r := range an.Referrers(fa) {
				switch x := r.(type) {
				case *ssa.Store:
					if x.Addr == fa {
						out = append(out, access{fn, x, base, true, "store to field"})
					}
				case *ssa.UnOp:
					if x.Op != token.MUL {
						continue
					}
					out = append(out, access{fn, x, base, false, "load of field"})
					for _, u := range an.Referrers(x) {
						switch y := u.(type) {
						case *ssa.MapUpdate:
							if y.Map == x {
								out = append(out, access{fn, y, base, true, "map insert"})
							}
						case *ssa.Lookup:
							if y.X == x {
								out = append(out, access{fn, y, base, false, "map lookup"})
							}
						case *ssa.Range:
							out = append(out, access{fn, y, base, false, "map range"})
							// the iteration continues at every Next
							for _, nx := range an.Referrers(y) {
								if n, ok := nx.(*ssa.Next); ok {
									out = append(out, access{fn, n, base, false, "map range step"})
								}
							}
						case *ssa.Call:
							if bi, ok := y.Call.Value.(*ssa.Builtin); ok {
								switch bi.Name() {
								case "delete":
									out = append(out, access{fn, y, base, true, "map delete"})
								case "len":
									out = append(out, access{fn, y, base, false, "len"})
								}
							}
						}
					}
				case ssa.CallInstruction:
					// address passed to a method (value-type field such as the in-flight heap): treat as write
					out = append(out, access{fn, r, base, true, "method on field " + describeCall(x)})
				}
			}
		})
	}
	return out
}

// checkGuarded checks one row of the guarded-by table over the given functions.
func checkGuarded(c *an.Ctx, g guardedField, fns []*ssa.Function) int {
	f := c.P.Field(g.Pkg, g.Type, g.Field)
	if f == nil {
		c.Anchor(g.Pkg + "." + g.Type + "." + g.Field)
		return 0
	}
	la := c.P.Locks()
	n := 0
	isRW := true
	// plain Mutex classes have a single mode
	if lf := lockFieldType(c, g); lf != nil {
		if nt, ok := lf.(*types.Named); ok && nt.Obj().Name() == "Mutex" {
			isRW = false
		}
	}
	for _, a := range fieldAccesses(fns, f) {
		fl := la.Fns[a.fn]
		if fl == nil {
			continue
		}
		n++
		must, _ := fl.At(a.instr)
		construct := "field " + g.Type + "." + g.Field + " " + a.what
		if why := allowUnlocked[an.FnName(a.fn)][g.Field]; why != "" && !a.write {
			c.OK(a.fn, construct, a.instr.Pos(), "allowed: "+why)
			continue
		}
		needW := a.write && isRW
		if must.Holds(g.LockClass, a.base, needW) {
			c.OK(a.fn, construct, a.instr.Pos(), "")
			continue
		}
		mode := "read"
		if a.write {
			mode = "write"
		}
		held := must.String()
		c.Bad(a.fn, construct, an.InstrPos(a.instr),
			sprintf("%s access to %s.%s without holding %s of the same object (%s lock required; held here: %s). A concurrent holder of the lock can observe or corrupt the structure mid-update (Go maps fault with 'concurrent map writes').",
				mode, g.Type, g.Field, g.LockClass, map[bool]string{true: "write", false: "read or write"}[needW], held), nil)
	}
	return n
}

func lockFieldType(c *an.Ctx, g guardedField) types.Type {
	i := strings.Index(g.LockClass, ".")
	if i < 0 {
		return nil
	}
	f := c.P.Field(g.Pkg, g.LockClass[:i], g.LockClass[i+1:])
	if f == nil {
		return nil
	}
	return f.Type()
}

// lockOrderCheck builds the class graph over fns and reports cycles / same-class nesting.
func lockOrderCheck(c *an.Ctx, fns []*ssa.Function, allowSelf map[string]string) {
	la := c.P.Locks()
	edges := la.OrderEdges(fns)
	type ce struct{ from, to string }
	first := map[ce]an.OrderEdge{}
	adj := map[string]map[string]bool{}
	for _, e := range edges {
		k := ce{e.From, e.To}
		if _, ok := first[k]; !ok {
			first[k] = e
		}
		if adj[e.From] == nil {
			adj[e.From] = map[string]bool{}
		}
		adj[e.From][e.To] = true
	}
	// reachability for cycle detection
	reach := func(from, to string) bool {
		seen := map[string]bool{}
		stack := []string{from}
		for len(stack) > 0 {
			x := stack[len(stack)-1]
			stack = stack[:len(stack)-1]
			if seen[x] {
				continue
			}
			seen[x] = true
			for y := range adj[x] {
				if y == to {
					return true
				}
				stack = append(stack, y)
			}
		}
		return false
	}
	var keys []ce
	for k := range first {
		keys = append(keys, k)
	}
	sort.Slice(keys, func(i, j int) bool {
		if keys[i].from != keys[j].from {
			return keys[i].from < keys[j].from
		}
		return keys[i].to < keys[j].to
	})
	for _, k := range keys {
		e := first[k]
		construct := "lock order " + k.from + " -> " + k.to
		if k.from == k.to {
			// report each site of same-class nesting separately
			for _, e2 := range edges {
				if e2.From != k.from || e2.To != k.to {
					continue
				}
				if why := allowSelf[an.FnName(e2.Fn)]; why != "" {
					c.OK(e2.Fn, construct, e2.Pos, "allowed: "+why)
					continue
				}
				c.Bad(e2.Fn, construct, e2.Pos,
					sprintf("%s is acquired (%s) while a lock of the same class may already be held: with sync.RWMutex a recursive RLock deadlocks as soon as a writer is waiting; with Mutex it self-deadlocks", k.to, e2.Via), nil)
			}
			continue
		}
		if reach(k.to, k.from) {
			c.Bad(e.Fn, construct, e.Pos,
				sprintf("lock-order cycle: %s is acquired while %s is held (%s), and elsewhere %s is (transitively) acquired while %s is held: two goroutines taking them in opposite order deadlock", k.to, k.from, e.Via, k.from, k.to), nil)
		} else {
			c.OK(e.Fn, construct, e.Pos, e.Via)
		}
	}
}

// blockingUnderLock reports blocking channel operations / WaitGroup.Wait executed (directly or via callees)
// while a lock of one of the given classes is held.
func blockingUnderLock(c *an.Ctx, fns []*ssa.Function, classes map[string]bool, allow map[string]string) int {
	la := c.P.Locks()
	n := 0
	for _, fn := range fns {
		fl := la.Fns[fn]
		if fl == nil || len(fl.Ops) == 0 && len(fl.Entry) == 0 {
			continue
		}
		an.Instrs(fn, func(in ssa.Instruction) {
			var what []string
			switch x := in.(type) {
			case *ssa.Send:
				what = []string{"channel send"}
			case *ssa.UnOp:
				if x.Op == token.ARROW {
					what = []string{"channel receive"}
				}
			case *ssa.Select:
				if x.Blocking {
					what = []string{"blocking select"}
				}
			case ssa.CallInstruction:
				if _, isGo := in.(*ssa.Go); isGo {
					return
				}
				if _, isDefer := in.(*ssa.Defer); isDefer {
					return
				}
				if call, ok := in.(*ssa.Call); ok && an.StdCallee(call, "sync", "(*WaitGroup).Wait") {
					what = []string{"WaitGroup.Wait"}
				} else {
					for _, cal := range la.Callees(x) {
						if la.Fns[cal] != nil {
							if b := la.Blocking(cal); len(b) > 0 {
								what = append(what, "call "+an.FnName(cal)+" ("+b[0]+")")
							}
						}
					}
				}
			}
			if len(what) == 0 {
				return
			}
			_, may := fl.At(in)
			// locks inherited from the callers are reported at the caller's call site, not again here
			for k := range fl.Entry {
				delete(may, k)
			}
			var held []string
			for _, cl := range may.Classes() {
				if classes[cl] {
					held = append(held, cl)
				}
			}
			if len(held) == 0 {
				return
			}
			n++
			construct := "blocking op under " + strings.Join(held, ",") + ": " + what[0]
			if why := allow[an.FnName(fn)+"|"+what[0]]; why != "" {
				c.OK(fn, construct, in.Pos(), "allowed: "+why)
				return
			}
			if why := allow[an.FnName(fn)]; why != "" {
				c.OK(fn, construct, in.Pos(), "allowed: "+why)
				return
			}
			c.Bad(fn, construct, an.InstrPos(in),
				sprintf("%s while %s may be held: every other user of that lock (publishers, consumers, Exit) stalls until the peer goroutine is ready, and deadlocks if the peer needs the lock", what[0], strings.Join(held, ",")), nil)
		})
	}
	return n
}
