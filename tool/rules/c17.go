package rules

import (
	"go/token"
	"sort"
	"strings"

	"golang.org/x/tools/go/ssa"

	"nsqverif/an"
)

func init() {
	Props["C17"] = PropInfo{
		Explanation: "Decides the gate for every route x identity: (gate) in every handler registered for a state-changing route, every call that can reach an upstream POST, every other upstream call and every admin-action notification is cut by the true edge of isAuthorizedAdminRequest(req), whose false edge returns 403; read-only routes do not reach an upstream POST; " +
			"(identity) the check succeeds only with an empty admin list or string equality between an admin user and the configured ACL header's value; (cidr) /config reads and writes are unreachable for addresses outside AllowConfigFromCIDR; " +
			"(fanout) the admin actions POST to every given lookupd and every producer of the topic (no early exit), with the endpoint that matches the action; (routes/errtype) route table and handler error types.",
		NotDecided:  "that upstreams carry the action out; header spoofing upstream of nsqadmin (deployment concern).",
		Assumptions: []string{"net/http's Header.Get canonicalises the header name; httprouter dispatches by method+path"},
	}
	reg("C17.gate", "CALLS+PATH", "state-changing handlers do nothing upstream before the admin check passed; refusal is 403; read-only handlers never POST upstream", 12, c17gate)
	reg("C17.identity", "GUARD+ORIG", "admin check: empty list or exact match of the ACL header value", 2, c17identity)
	reg("C17.cidr", "PATH", "/config is gated by AllowConfigFromCIDR", 2, c17cidr)
	reg("C17.fanout", "SHAPE", "admin actions reach every lookupd and every producer with the matching endpoint", 14, c17fanout)
	reg("C17.routes", "SHAPE+ETYPE", "nsqadmin route table; API handlers rendered by V1; handlers return only nil/http_api.Err", 30, c17routes)
}

var nsqadminRoutes = map[string]string{
	"GET /ping": "pingHandler", "GET /api/topics": "topicsHandler", "GET /api/topics/:topic": "topicHandler", "GET /api/topics/:topic/:channel": "channelHandler",
	"GET /api/nodes": "nodesHandler", "GET /api/nodes/:node": "nodeHandler",
	"POST /api/topics": "createTopicChannelHandler", "POST /api/topics/:topic": "topicActionHandler", "POST /api/topics/:topic/:channel": "channelActionHandler",
	"DELETE /api/nodes/:node": "tombstoneNodeForTopicHandler", "DELETE /api/topics/:topic": "deleteTopicHandler", "DELETE /api/topics/:topic/:channel": "deleteChannelHandler",
	"GET /api/counter": "counterHandler", "GET /api/graphite": "graphiteHandler", "GET /config/:opt": "doConfig", "PUT /config/:opt": "doConfig",
}

// postReach: functions of internal/clusterinfo from which (*http_api.Client).POSTV1 is reachable.
func postReach(c *an.Ctx) map[*ssa.Function]bool {
	post := c.P.Func("internal/http_api", "(*Client).POSTV1")
	out := map[*ssa.Function]bool{}
	if post == nil {
		return out
	}
	memo := map[*ssa.Function]int{}
	var reach func(f *ssa.Function, d int) bool
	reach = func(f *ssa.Function, d int) bool {
		if f == post {
			return true
		}
		if v, ok := memo[f]; ok {
			return v == 1
		}
		memo[f] = 0
		if f.Blocks == nil || f.Pkg == nil || !strings.HasPrefix(f.Pkg.Pkg.Path(), an.ModPath) || d > 8 {
			return false
		}
		res := false
		for _, g := range an.WithAnon(f) {
			an.Instrs(g, func(in ssa.Instruction) {
				if ci, ok := in.(ssa.CallInstruction); ok {
					if cf := an.StaticCallee(ci); cf != nil && reach(cf, d+1) {
						res = true
					}
				}
			})
		}
		if res {
			memo[f] = 1
		}
		return res
	}
	for _, fn := range c.P.PkgFuncs("internal/clusterinfo") {
		if reach(fn, 0) {
			out[fn] = true
		}
	}
	return out
}

func isClusterinfoCall(in ssa.Instruction) *ssa.Function {
	ci, ok := in.(ssa.CallInstruction)
	if !ok {
		return nil
	}
	f := an.StaticCallee(ci)
	if f != nil && f.Pkg != nil && f.Pkg.Pkg.Path() == an.ModPath+"/internal/clusterinfo" && f.Signature.Recv() != nil {
		return f
	}
	return nil
}

func c17gate(c *an.Ctx) {
	newSrv := c.Fn("nsqadmin", "NewHTTPServer")
	authz := c.Fn("nsqadmin", "(*httpServer).isAuthorizedAdminRequest")
	notifyAct := c.Fn("nsqadmin", "(*httpServer).notifyAdminAction")
	if newSrv == nil || authz == nil || notifyAct == nil {
		return
	}
	mut := postReach(c)
	if len(mut) < 8 {
		c.Und(newSrv, "mutating upstream calls", newSrv.Pos(), sprintf("only %d clusterinfo functions reach POSTV1 (expected the admin actions)", len(mut)))
	}
	rs := routesOf(c.P, newSrv)
	// handlers (with one level of forwarding: topicActionHandler -> topicChannelAction)
	expand := func(h *ssa.Function) []*ssa.Function {
		out := []*ssa.Function{h}
		an.Instrs(h, func(in ssa.Instruction) {
			if ci, ok := in.(ssa.CallInstruction); ok {
				if cf := an.StaticCallee(ci); cf != nil && cf.Pkg != nil && cf.Pkg.Pkg.Path() == an.ModPath+"/nsqadmin" && cf.Signature.Recv() != nil && cf != authz && cf != notifyAct {
					if cf.Name() != "logf" && cf.Name() != "getOpts" {
						out = append(out, cf)
					}
				}
			}
		})
		return out
	}
	sort.Slice(rs, func(i, j int) bool { return rs[i].Method+rs[i].Path < rs[j].Method+rs[j].Path })
	seen := map[*ssa.Function]bool{}
	for _, r := range rs {
		if r.Raw || r.Handler == nil {
			continue
		}
		stateChanging := (r.Method == "POST" || r.Method == "DELETE") && strings.Contains(r.Path, "/api/")
		for _, fn := range expand(r.Handler) {
			if seen[fn] && stateChanging {
				continue
			}
			if stateChanging {
				seen[fn] = true
			}
			var upstream []ssa.Instruction
			var posts []ssa.Instruction
			an.Instrs(fn, func(in ssa.Instruction) {
				if f := isClusterinfoCall(in); f != nil {
					upstream = append(upstream, in)
					if mut[f] {
						posts = append(posts, in)
					}
				}
				if isCallToOn(in, notifyAct, nil) {
					upstream = append(upstream, in)
				}
			})
			if !stateChanging {
				// read-only route: must not reach an upstream POST
				c.Check(len(posts) == 0, fn, "read-only route "+r.Method+" "+r.Path+" never POSTs upstream", fn.Pos(), "",
					"a handler of a read-only route calls a state-changing clusterinfo action: it is reachable without the admin check")
				continue
			}
			if fn != r.Handler && len(upstream) == 0 {
				continue
			}
			if len(upstream) == 0 {
				// pure forwarder (topicActionHandler): the callee is checked
				c.OK(fn, "state-changing route "+r.Method+" "+r.Path+" forwards to a gated helper", fn.Pos(), "")
				continue
			}
			var pass, deny []an.Edge
			for _, ac := range an.CallsTo(fn, authz) {
				reqOK := false
				for _, p := range fn.Params {
					if arg(ac, 0) == ssa.Value(p) {
						reqOK = true
					}
				}
				if !reqOK {
					continue
				}
				for _, t := range an.BoolTests(ac.Value()) {
					pass = append(pass, t.True)
					deny = append(deny, t.False)
				}
			}
			q := &an.PathQ{Fn: fn, StartEntry: true,
				Sink: func(in ssa.Instruction, _ *an.PathState) bool {
					for _, u := range upstream {
						if u == in {
							return true
						}
					}
					return false
				},
				CutEdge: func(e an.Edge, _ *an.PathState) bool { return an.EdgeIn(e, pass) }}
			w, f := q.Find()
			construct := "admin check precedes every upstream action in " + fn.Name()
			if f || len(pass) == 0 {
				c.Bad(fn, construct, fn.Pos(), sprintf("a state-changing request (%s %s) reaches an upstream call or admin notification without isAuthorizedAdminRequest(req) having returned true: a non-admin can delete/empty/pause", r.Method, r.Path), w)
			} else {
				c.OK(fn, construct, fn.Pos(), sprintf("%d upstream calls (%d mutating) behind the gate", len(upstream), len(posts)))
			}
			// refusal is 403
			okDeny := len(deny) > 0
			qd := &an.PathQ{Fn: fn, StartEdges: deny, Sink: func(in ssa.Instruction, st *an.PathState) bool {
				r, ok := in.(*ssa.Return)
				if !ok {
					return false
				}
				e := errOperand(r)
				if e == nil {
					return true
				}
				code, _, isErr := httpErrOf(st.Selected(e))
				return !isErr || code != 403
			}}
			if _, bad := qd.Find(); bad {
				okDeny = false
			}
			c.Check(okDeny, fn, "refusal is 403 in "+fn.Name(), fn.Pos(), "", "a request without an admin identity is not answered 403")
		}
	}
}

func c17identity(c *an.Ctx) {
	fn := c.Fn("nsqadmin", "(*httpServer).isAuthorizedAdminRequest")
	if fn == nil {
		return
	}
	usersF := c.P.Field("nsqadmin", "Options", "AdminUsers")
	hdrF := c.P.Field("nsqadmin", "Options", "ACLHTTPHeader")
	n := 0
	for _, rc := range returnCases(fn, 0) {
		r, v := rc.ret, rc.val
		if k, ok := v.(*ssa.Const); ok && k.Value != nil && k.Value.String() == "false" {
			continue
		}
		n++
		good := false
		facts := rc.facts
		if _, isC := v.(*ssa.Const); !isC {
			facts = append(facts, an.ExpandFact(an.Fact{V: v, True: true})...)
		}
		for _, f := range facts {
			cmp, ok := f.AsCmp()
			if !ok || cmp.Op != token.EQL {
				continue
			}
			// len(adminUsers) == 0
			if a := lenArgOf(cmp.X); a != nil && isLoadOfField(a, usersF) {
				if k, isC := an.ConstInt(cmp.Y); isC && k == 0 {
					good = true
				}
			}
			// element == header value
			for _, pair := range [][2]ssa.Value{{cmp.X, cmp.Y}, {cmp.Y, cmp.X}} {
				isElem := false
				if u, ok := an.Strip(pair[0]).(*ssa.UnOp); ok && u.Op == token.MUL {
					if ia, ok := u.X.(*ssa.IndexAddr); ok && isLoadOfField(ia.X, usersF) {
						isElem = true
					}
				}
				isHdr := false
				if call, ok := an.Strip(pair[1]).(*ssa.Call); ok && an.StdCallee(call, "net/http", "(Header).Get") && isLoadOfField(call.Call.Args[1], hdrF) {
					// the header of the request parameter
					if f, base := an.LoadedField(an.Strip(call.Call.Args[0])); f != nil && f.Name() == "Header" && isParam(base, fn, 1) {
						isHdr = true
					}
				}
				if isElem && isHdr {
					good = true
				}
			}
		}
		c.Check(good, fn, "true only for empty admin list or exact header match", r.Pos(), "",
			"isAuthorizedAdminRequest can return true without `len(AdminUsers) == 0` or `adminUser == req.Header.Get(opts.ACLHTTPHeader)` (exact equality): look-alike or absent identities pass")
	}
	c.Check(n >= 2, fn, "both grant arms present", fn.Pos(), "", sprintf("expected the empty-list arm and the match arm, found %d true returns", n))
}

func c17cidr(c *an.Ctx) {
	fn := c.Fn("nsqadmin", "(*httpServer).doConfig")
	if fn == nil {
		return
	}
	swap := c.P.Func("nsqadmin", "(*NSQAdmin).swapOpts")
	getOpt := c.P.Func("nsqadmin", "getOptByCfgName")
	cidrF := c.P.Field("nsqadmin", "Options", "AllowConfigFromCIDR")
	var contained, noCIDR []an.Edge
	an.Instrs(fn, func(in ssa.Instruction) {
		switch x := in.(type) {
		case *ssa.Call:
			if an.StdCallee(x, "net", "(*IPNet).Contains") {
				for _, t := range an.BoolTests(x) {
					contained = append(contained, t.True)
				}
			}
		case *ssa.BinOp:
			if (x.Op == token.NEQ || x.Op == token.EQL) && isLoadOfField(x.X, cidrF) {
				if s, ok := an.ConstString(x.Y); ok && s == "" {
					for _, t := range an.BoolTests(x) {
						if x.Op == token.NEQ {
							noCIDR = append(noCIDR, t.False)
						} else {
							noCIDR = append(noCIDR, t.True)
						}
					}
				}
			}
		}
	})
	// the address the gate tests is the connection's: net.ParseIP(host) with host from net.SplitHostPort(req.RemoteAddr)
	remoteF := c.P.Field("net/http", "Request", "RemoteAddr")
	an.Instrs(fn, func(in ssa.Instruction) {
		call, ok := in.(*ssa.Call)
		if !ok || !an.StdCallee(call, "net", "(*IPNet).Contains") {
			return
		}
		fromConn := an.OriginsAll(arg(call, 0), func(o ssa.Value) bool {
			pc, ok := o.(*ssa.Call)
			if !ok || !an.StdCallee(pc, "net", "ParseIP") {
				return false
			}
			return an.OriginsAll(pc.Call.Args[0], func(h ssa.Value) bool {
				ex, ok := h.(*ssa.Extract)
				if !ok || ex.Index != 0 {
					return false
				}
				sc, ok := ex.Tuple.(*ssa.Call)
				return ok && an.StdCallee(sc, "net", "SplitHostPort") && isLoadOfField(sc.Call.Args[0], remoteF)
			})
		})
		c.Check(fromConn, fn, "gate tests the connection's address", call.Pos(), "", "the address tested against AllowConfigFromCIDR does not come from req.RemoteAddr alone: anything the client can write (X-Forwarded-For, X-Real-IP) lets a request from outside name an address inside")
	})
	for _, target := range []*ssa.Function{swap, getOpt} {
		if target == nil {
			c.Anchor("nsqadmin swapOpts/getOptByCfgName")
			continue
		}
		q := &an.PathQ{Fn: fn, StartEntry: true, Sink: func(in ssa.Instruction, _ *an.PathState) bool { return isCallToOn(in, target, nil) },
			CutEdge: func(e an.Edge, _ *an.PathState) bool { return an.EdgeIn(e, contained) || an.EdgeIn(e, noCIDR) }}
		w, f := q.Find()
		if f || len(contained) == 0 || len(noCIDR) == 0 {
			c.Bad(fn, "config "+target.Name()+" behind the CIDR gate", fn.Pos(), "/config can be read or written from an address outside AllowConfigFromCIDR", w)
		} else {
			c.OK(fn, "config "+target.Name()+" behind the CIDR gate", fn.Pos(), "")
		}
	}
}

func c17fanout(c *an.Ctx) {
	post := c.P.Func("internal/http_api", "(*Client).POSTV1")
	if post == nil {
		c.Anchor("http_api.Client.POSTV1")
		return
	}
	for _, name := range []string{"nsqlookupdPOST", "producersPOST"} {
		fn := c.Fn("internal/clusterinfo", "(*ClusterInfo)."+name)
		if fn == nil {
			continue
		}
		good := false
		for _, l := range an.NaturalLoops(fn) {
			il, ok := an.AsIndexLoop(l)
			if !ok || il.Slice == nil || !isParam(il.Slice, fn, 1) {
				continue
			}
			okEach, _ := loopDoesEach(fn, il, func(in ssa.Instruction, _ []ssa.Value) bool { return isCallToOn(in, post, nil) })
			if okEach {
				good = true
			}
		}
		c.Check(good, fn, "POST to every address", fn.Pos(), "", name+" does not POST to every address it was given (it stops early or skips one): the action is applied to part of the cluster only")
		// endpoint built from (addr, uri, qs)
		usesURI := false
		an.Instrs(fn, func(in ssa.Instruction) {
			if call, ok := in.(*ssa.Call); ok && an.StdCallee(call, "fmt", "Sprintf") {
				u, q := false, false
				for _, e := range varargsInOrder(call.Call.Args[1]) {
					if isParam(e, fn, 2) {
						u = true
					}
					if isParam(e, fn, 3) {
						q = true
					}
				}
				if u && q {
					usesURI = true
				}
			}
		})
		c.Check(usesURI, fn, "endpoint uses the requested uri and query", fn.Pos(), "", name+" does not build the endpoint from its uri and query-string arguments")
	}
	lookupPOST := c.P.Func("internal/clusterinfo", "(*ClusterInfo).nsqlookupdPOST")
	prodPOST := c.P.Func("internal/clusterinfo", "(*ClusterInfo).producersPOST")
	helper := c.P.Func("internal/clusterinfo", "(*ClusterInfo).actionHelper")
	type want struct {
		lookupd, producers []string
		viaHelper          string
	}
	table := map[string]want{
		"CreateTopicChannel":    {[]string{"topic/create", "channel/create"}, []string{"channel/create"}, ""},
		"DeleteTopic":           {[]string{"topic/delete"}, []string{"topic/delete"}, ""},
		"DeleteChannel":         {[]string{"channel/delete"}, []string{"channel/delete"}, ""},
		"TombstoneNodeForTopic": {[]string{"topic/tombstone"}, []string{"topic/delete"}, ""},
		"PauseTopic":            {nil, nil, "topic/pause"}, "UnPauseTopic": {nil, nil, "topic/unpause"},
		"PauseChannel": {nil, nil, "channel/pause"}, "UnPauseChannel": {nil, nil, "channel/unpause"},
		"EmptyTopic": {nil, nil, "topic/empty"}, "EmptyChannel": {nil, nil, "channel/empty"},
	}
	var names []string
	for k := range table {
		names = append(names, k)
	}
	sort.Strings(names)
	for _, name := range names {
		fn := c.Fn("internal/clusterinfo", "(*ClusterInfo)."+name)
		if fn == nil {
			continue
		}
		w := table[name]
		collect := func(target *ssa.Function, idx int) []string {
			var out []string
			for _, ci := range an.CallsTo(fn, target) {
				if s, ok := an.ConstString(arg(ci, idx)); ok {
					out = append(out, s)
				}
			}
			sort.Strings(out)
			return out
		}
		if w.viaHelper != "" {
			got := collect(helper, 3)
			c.Check(len(got) == 1 && got[0] == w.viaHelper, fn, "action endpoint", fn.Pos(), "", sprintf("%s posts to %v, expected %s", name, got, w.viaHelper))
			continue
		}
		gl, gp := collect(lookupPOST, 1), collect(prodPOST, 1)
		wl, wp := append([]string{}, w.lookupd...), append([]string{}, w.producers...)
		sort.Strings(wl)
		sort.Strings(wp)
		c.Check(strings.Join(gl, ",") == strings.Join(wl, ",") && strings.Join(gp, ",") == strings.Join(wp, ","), fn, "action endpoints", fn.Pos(), "",
			sprintf("%s posts %v to lookupds and %v to producers, expected %v and %v", name, gl, gp, wl, wp))
	}
	if helper != nil && prodPOST != nil {
		getTP := c.P.Func("internal/clusterinfo", "(*ClusterInfo).GetTopicProducers")
		good := false
		for _, pc := range an.CallsTo(helper, prodPOST) {
			if getTP != nil && an.OriginsAll(arg(pc, 0), func(o ssa.Value) bool { return an.CallResultOf(o, getTP) != nil }) && isParam(arg(pc, 1), helper, 4) && isParam(arg(pc, 2), helper, 5) {
				good = true
			}
		}
		c.Check(good, helper, "helper posts the action to the topic's producers", helper.Pos(), "", "actionHelper does not post (uri, qs) to the producers of the topic")
	}
}

func c17routes(c *an.Ctx) {
	fn := c.Fn("nsqadmin", "NewHTTPServer")
	if fn == nil {
		return
	}
	rs := routesOf(c.P, fn)
	got := map[string]route{}
	for _, r := range rs {
		got[r.Method+" "+r.Path] = r
	}
	var keys []string
	for k := range nsqadminRoutes {
		keys = append(keys, k)
	}
	sort.Strings(keys)
	for _, k := range keys {
		r, ok := got[k]
		name := ""
		if ok && r.Handler != nil {
			name = an.BaseName(r.Handler)
		}
		c.Check(ok && name == nsqadminRoutes[k], fn, "route "+k, fn.Pos(), "", sprintf("route %s is served by %q, expected %s", k, name, nsqadminRoutes[k]))
		if ok && (strings.Contains(k, "/api/") || strings.Contains(k, "/config/")) {
			last := ""
			if n := len(r.Decorators); n > 0 {
				last = r.Decorators[n-1]
			}
			c.Check(last == "V1", fn, "route "+k+" rendered by V1", r.Site.Pos(), "", "API route is not rendered by V1")
		}
	}
	// no state-changing route outside the table
	for _, r := range rs {
		k := r.Method + " " + r.Path
		if _, ok := nsqadminRoutes[k]; !ok && r.Method != "GET" {
			c.Bad(fn, "undocumented state-changing route "+k, r.Site.Pos(), "a non-GET route outside the documented table exists", nil)
		}
	}
	checkRouterResponders(c, fn)
	handlerErrTypes(c, rs, "V1's unchecked err.(Err) panics; the router answers 500")
}
