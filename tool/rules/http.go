package rules

import (
	"go/token"
	"go/types"
	"sort"
	"strings"

	"golang.org/x/tools/go/ssa"

	"nsqverif/an"
)

// route is one registration `router.Handle(method, path, http_api.Decorate(handler, decorators...))`.
type route struct {
	Method, Path string
	Handler      *ssa.Function
	Decorators   []string // names in application order (first = innermost)
	DecVals      []ssa.Value
	Site         ssa.Instruction
	Raw          bool // registered with HandlerFunc/Handler (no Decorate)
}

// funcOfValue resolves a function value (plain function, bound method closure, closure) to the function.
func funcOfValue(p *an.Prog, v ssa.Value) *ssa.Function {
	switch x := an.Strip(v).(type) {
	case *ssa.Function:
		return x
	case *ssa.MakeClosure:
		fn, ok := x.Fn.(*ssa.Function)
		if !ok {
			return nil
		}
		if strings.HasSuffix(fn.Name(), "$bound") {
			if obj, ok := fn.Object().(*types.Func); ok && obj != nil {
				if real := p.SSA.FuncValue(obj); real != nil {
					return real
				}
			}
		}
		return fn
	}
	return nil
}

// routesOf extracts the route table built by fn.
func routesOf(p *an.Prog, fn *ssa.Function) []route {
	var out []route
	an.Instrs(fn, func(in ssa.Instruction) {
		call, ok := in.(*ssa.Call)
		if !ok {
			return
		}
		f := an.StaticCallee(call)
		if f == nil || f.Pkg == nil || f.Pkg.Pkg.Path() != "github.com/julienschmidt/httprouter" {
			return
		}
		switch f.Name() {
		case "Handle", "HandlerFunc", "Handler":
		default:
			return
		}
		args := call.Call.Args
		if len(args) < 4 {
			return
		}
		m, ok1 := an.ConstString(args[1])
		pa, ok2 := an.ConstString(args[2])
		pathV := args[2]
		if !ok2 {
			// path built by a local helper from a constant: bp("/api/topics")
			if pc, ok := an.Strip(args[2]).(*ssa.Call); ok && len(pc.Call.Args) >= 1 {
				pathV = pc.Call.Args[len(pc.Call.Args)-1]
				pa, ok2 = an.ConstString(pathV)
			}
		}
		if !ok1 || !ok2 {
			// registered in a loop over a literal table of {method, path, handler} rows
			if f.Name() == "Handle" {
				out = append(out, tableRoutes(p, in, args[1], pathV, args[3])...)
			}
			return
		}
		r := route{Method: m, Path: pa, Site: in}
		if f.Name() != "Handle" {
			r.Raw = true
			r.Handler = funcOfValue(p, args[3])
			out = append(out, r)
			return
		}
		dec, ok := an.Strip(args[3]).(*ssa.Call)
		if !ok {
			r.Raw = true
			r.Handler = funcOfValue(p, args[3])
			out = append(out, r)
			return
		}
		if df := an.StaticCallee(dec); df == nil || df.Name() != "Decorate" {
			r.Raw = true
			out = append(out, r)
			return
		}
		r.Handler = funcOfValue(p, dec.Call.Args[0])
		if len(dec.Call.Args) > 1 {
			// variadic array: stores in index order
			type ds struct {
				idx  int64
				name string
				val  ssa.Value
			}
			var decs []ds
			if sl, ok := dec.Call.Args[1].(*ssa.Slice); ok {
				if al, ok := sl.X.(*ssa.Alloc); ok {
					for _, rr := range an.Referrers(al) {
						ia, ok := rr.(*ssa.IndexAddr)
						if !ok {
							continue
						}
						k, _ := an.ConstInt(ia.Index)
						for _, r3 := range an.Referrers(ia) {
							if st, ok := r3.(*ssa.Store); ok && st.Addr == ia {
								decs = append(decs, ds{k, decoratorName(p, st.Val), st.Val})
							}
						}
					}
				}
			}
			sort.Slice(decs, func(i, j int) bool { return decs[i].idx < decs[j].idx })
			for _, d := range decs {
				r.Decorators = append(r.Decorators, d.name)
				r.DecVals = append(r.DecVals, d.val)
			}
		}
		out = append(out, r)
	})
	return out
}

func decoratorName(p *an.Prog, v ssa.Value) string {
	v = an.Strip(v)
	if f, ok := v.(*ssa.Function); ok {
		return f.Name()
	}
	if call, ok := v.(*ssa.Call); ok {
		if f := an.StaticCallee(call); f != nil {
			return f.Name() + "(...)"
		}
	}
	if mc, ok := v.(*ssa.MakeClosure); ok {
		if f, ok := mc.Fn.(*ssa.Function); ok {
			return f.Name()
		}
	}
	return v.String()
}

// httpErrOf: if v is an http_api.Err composite (boxed), return its constant code and text.
func httpErrOf(v ssa.Value) (code int64, text string, ok bool) {
	mi, isMI := v.(*ssa.MakeInterface)
	if !isMI {
		return 0, "", false
	}
	n, isN := mi.X.Type().(*types.Named)
	if !isN || n.Obj().Name() != "Err" || n.Obj().Pkg() == nil || !strings.HasSuffix(n.Obj().Pkg().Path(), "internal/http_api") {
		return 0, "", false
	}
	// X is a load of a local struct alloc whose fields were stored
	u, isU := mi.X.(*ssa.UnOp)
	if !isU || u.Op != token.MUL {
		return 0, "", true
	}
	al, isA := u.X.(*ssa.Alloc)
	if !isA {
		return 0, "", true
	}
	code = -1
	for _, r := range an.Referrers(al) {
		fa, isFA := r.(*ssa.FieldAddr)
		if !isFA {
			continue
		}
		for _, rr := range an.Referrers(fa) {
			st, isSt := rr.(*ssa.Store)
			if !isSt || st.Addr != fa {
				continue
			}
			switch an.FName(an.FieldOf(fa)) {
			case "Code":
				if k, isC := an.ConstInt(st.Val); isC {
					code = k
				}
			case "Text":
				if s, isS := an.ConstString(st.Val); isS {
					text = s
				}
			}
		}
	}
	return code, text, true
}

// failingCallClass classifies the fact that controls an error return.
type failClass struct {
	Class string // parser | size | miss | exiting | io | policy | upstream | unknown
	What  string
}

func calleeName(call *ssa.Call) (pkg, name string) {
	if f := an.StaticCallee(call); f != nil {
		pk := ""
		if f.Pkg != nil {
			pk = f.Pkg.Pkg.Path()
		} else if f.Object() != nil && f.Object().Pkg() != nil {
			pk = f.Object().Pkg().Path()
		}
		return strings.TrimPrefix(pk, an.ModPath+"/"), f.Name()
	}
	if m := an.InvokeMethod(call); m != nil {
		return "iface", m.Name()
	}
	// a method value chosen at run time among siblings (Pause / UnPause): any of them names the class of the call
	if cs := an.MethodValueCallees(call); len(cs) > 0 && cs[0] != nil {
		f := cs[0]
		pk := ""
		if f.Pkg != nil {
			pk = f.Pkg.Pkg.Path()
		}
		return strings.TrimPrefix(pk, an.ModPath+"/"), f.Name()
	}
	return "", ""
}

var parserCallees = map[string]bool{
	"net/url.ParseQuery": true, "internal/http_api.NewReqParams": true, "internal/http_api.GetTopicChannelArgs": true,
	"internal/http_api.Get": true, "internal/http_api.GetAll": true, "strconv.Atoi": true, "strconv.ParseInt": true, "strconv.ParseUint": true, "strconv.ParseBool": true,
	"encoding/json.Unmarshal": true, "encoding/json.Decode": true, "internal/lg.ParseLogLevel": true, "net.SplitHostPort": true, "net.ParseCIDR": true,
	"internal/protocol.IsValidTopicName": true, "internal/protocol.IsValidChannelName": true, "iface.Get": true,
}
var missCallees = map[string]bool{
	"nsqd.GetExistingTopic": true, "nsqd.GetExistingChannel": true, "nsqd.DeleteExistingTopic": true, "nsqd.DeleteExistingChannel": true,
	"nsqd.getExistingTopicFromQuery": false,
}
var ioCallees = map[string]bool{
	"io.ReadAll": true, "io/ioutil.ReadAll": true, "bufio.ReadBytes": true, "nsqd.Empty": true, "nsqd.Pause": true, "nsqd.UnPause": true, "os.Hostname": true, "nsqd.IsHealthy": true,
}
var exitingCallees = map[string]bool{"nsqd.PutMessage": true, "nsqd.PutMessages": true}
var sizeCallees = map[string]bool{"nsqd.readMPUB": true}

func classifyCall(call *ssa.Call) failClass {
	pk, name := calleeName(call)
	key := pk + "." + name
	switch {
	case parserCallees[key]:
		return failClass{"parser", key}
	case missCallees[key]:
		return failClass{"miss", key}
	case ioCallees[key]:
		return failClass{"io", key}
	case exitingCallees[key]:
		return failClass{"exiting", key}
	case sizeCallees[key]:
		return failClass{"size", key}
	}
	return failClass{"unknown", key}
}

// involvesLen: v is computed from a len(...) (through conversions, arithmetic, phis).
func involvesLen(v ssa.Value, d int) bool {
	if d > 5 {
		return false
	}
	switch x := v.(type) {
	case *ssa.Convert:
		return involvesLen(x.X, d+1)
	case *ssa.BinOp:
		return involvesLen(x.X, d+1) || involvesLen(x.Y, d+1)
	case *ssa.Phi:
		for _, e := range x.Edges {
			if involvesLen(e, d+1) {
				return true
			}
		}
	case *ssa.Call:
		if bi, ok := x.Call.Value.(*ssa.Builtin); ok && bi.Name() == "len" {
			return true
		}
	}
	return false
}

func classifyFact(f an.Fact) (failClass, bool) {
	if cmp, ok := f.AsCmp(); ok {
		var other ssa.Value
		if an.IsNilConst(cmp.Y) {
			other = cmp.X
		} else if an.IsNilConst(cmp.X) {
			other = cmp.Y
		}
		if other != nil && cmp.Op == token.NEQ {
			for _, o := range an.Origins(other) {
				if ex, ok := o.(*ssa.Extract); ok {
					if call, ok := ex.Tuple.(*ssa.Call); ok {
						return classifyCall(call), true
					}
				}
				if call, ok := o.(*ssa.Call); ok {
					return classifyCall(call), true
				}
			}
			return failClass{"unknown", "err != nil of " + other.String()}, true
		}
		if other != nil {
			return failClass{}, false // x == nil facts do not control error returns
		}
		if an.IsErrorType(cmp.X.Type()) || an.IsErrorType(cmp.Y.Type()) {
			return failClass{}, false // err != io.EOF: look further out
		}
		for _, side := range []ssa.Value{cmp.X, cmp.Y} {
			if fl, _ := an.LoadedField(an.Strip(side)); fl != nil && fl.Name() == "ContentLength" {
				return failClass{"size", "ContentLength"}, true
			}
		}
		if involvesLen(cmp.X, 0) || involvesLen(cmp.Y, 0) {
			if k, isC := an.ConstInt(cmp.Y); isC && k == 0 && cmp.Op == token.EQL {
				return failClass{"parser", "empty body"}, true
			}
			return failClass{"size", "length compared to a limit"}, true
		}
		return failClass{"parser", "range test"}, true
	}
	if call, ok := f.V.(*ssa.Call); ok && !f.True {
		return classifyCall(call), true
	}
	if ex, ok := f.V.(*ssa.Extract); ok && !f.True {
		switch ex.Tuple.(type) {
		case *ssa.Lookup:
			return failClass{"parser", "missing key"}, true
		case *ssa.Call:
			return failClass{"parser", "lookup helper returned !ok"}, true
		case *ssa.TypeAssert:
			return failClass{"parser", "type test"}, true
		}
	}
	return failClass{}, false
}

// controllingClasses classifies the nearest condition(s) that control entry to block b. A block entered
// from several predecessors (a || chain) yields one class per incoming edge.
func controllingClasses(b *ssa.BasicBlock) []failClass {
	if len(b.Preds) > 1 {
		var out []failClass
		for _, p := range b.Preds {
			facts := an.FactsOnEdge(an.Edge{From: p, To: b})
			// the edge's own fact is last in FactsOnEdge; nearest-first order = reverse of the tail
			found := false
			for i := len(facts) - 1; i >= 0 && !found; i-- {
				if facts[i].If != nil && facts[i].If.Block() == p {
					if cl, ok := classifyFact(facts[i]); ok {
						out = append(out, cl)
						found = true
					}
				}
			}
			if !found {
				for _, f := range an.FactsAt(p) {
					if cl, ok := classifyFact(f); ok {
						out = append(out, cl)
						found = true
						break
					}
				}
			}
			if !found {
				out = append(out, failClass{"unknown", "no controlling fact on an incoming edge"})
			}
		}
		return out
	}
	for _, f := range an.FactsAt(b) {
		if cl, ok := classifyFact(f); ok {
			return []failClass{cl}
		}
	}
	return []failClass{{"unknown", "no controlling fact"}}
}

var classStatus = map[string][]int64{
	"parser": {400}, "size": {413}, "miss": {404}, "exiting": {503}, "io": {500}, "policy": {403}, "upstream": {502},
}

// tableCell: v is field #k of the element a loop reads from a literal array/slice built in this function; returns the array
// and k.
func tableCell(v ssa.Value) (*ssa.Alloc, int) {
	v = an.Strip(v)
	var elemAddr ssa.Value
	k := -1
	switch x := v.(type) {
	case *ssa.Field:
		if ld, ok := an.Strip(x.X).(*ssa.UnOp); ok && ld.Op == token.MUL {
			elemAddr, k = ld.X, x.Field
		}
	case *ssa.UnOp:
		if fa, ok := x.X.(*ssa.FieldAddr); ok && x.Op == token.MUL {
			elemAddr, k = fa.X, fa.Field
		}
	}
	// the range variable is a local copy of the element: `*r = *(&table[i])`
	if loc, isLocal := elemAddr.(*ssa.Alloc); isLocal {
		var src ssa.Value
		n := 0
		for _, r := range an.Referrers(loc) {
			if st, ok := r.(*ssa.Store); ok && st.Addr == ssa.Value(loc) {
				n++
				if ld, ok := st.Val.(*ssa.UnOp); ok && ld.Op == token.MUL {
					src = ld.X
				}
			}
		}
		if n == 1 && src != nil {
			elemAddr = src
		}
	}
	ia, ok := elemAddr.(*ssa.IndexAddr)
	if !ok {
		return nil, -1
	}
	if _, isConst := ia.Index.(*ssa.Const); isConst {
		return nil, -1
	}
	switch a := ia.X.(type) {
	case *ssa.Slice:
		if al, ok := a.X.(*ssa.Alloc); ok {
			return al, k
		}
	case *ssa.Alloc:
		return a, k
	}
	return nil, -1
}

// tableRows: the values the literal's initialisers store, per row and field.
func tableRows(al *ssa.Alloc) map[int64]map[int]ssa.Value {
	rows := map[int64]map[int]ssa.Value{}
	for _, r := range an.Referrers(al) {
		ia, ok := r.(*ssa.IndexAddr)
		if !ok {
			continue
		}
		i, isC := an.ConstInt(ia.Index)
		if !isC {
			continue
		}
		for _, r2 := range an.Referrers(ia) {
			fa, ok := r2.(*ssa.FieldAddr)
			if !ok {
				continue
			}
			for _, r3 := range an.Referrers(fa) {
				if st, ok := r3.(*ssa.Store); ok && st.Addr == ssa.Value(fa) {
					if rows[i] == nil {
						rows[i] = map[int]ssa.Value{}
					}
					rows[i][fa.Field] = st.Val
				}
			}
		}
	}
	return rows
}

func tableRoutes(p *an.Prog, site ssa.Instruction, methodV, pathV, handlerArg ssa.Value) []route {
	alM, km := tableCell(methodV)
	alP, kp := tableCell(pathV)
	if alM == nil || alP != alM {
		return nil
	}
	dec, ok := an.Strip(handlerArg).(*ssa.Call)
	if !ok {
		return nil
	}
	if df := an.StaticCallee(dec); df == nil || df.Name() != "Decorate" || len(dec.Call.Args) == 0 {
		return nil
	}
	alH, kh := tableCell(dec.Call.Args[0])
	if alH != alM {
		return nil
	}
	var decs []string
	var decVals []ssa.Value
	if len(dec.Call.Args) > 1 {
		if sl, ok := dec.Call.Args[1].(*ssa.Slice); ok {
			if al, ok := sl.X.(*ssa.Alloc); ok {
				type ds struct {
					idx int64
					val ssa.Value
				}
				var all []ds
				for _, rr := range an.Referrers(al) {
					if ia, ok := rr.(*ssa.IndexAddr); ok {
						k, _ := an.ConstInt(ia.Index)
						for _, r3 := range an.Referrers(ia) {
							if st, ok := r3.(*ssa.Store); ok && st.Addr == ssa.Value(ia) {
								all = append(all, ds{k, st.Val})
							}
						}
					}
				}
				sort.Slice(all, func(i, j int) bool { return all[i].idx < all[j].idx })
				for _, d := range all {
					decs = append(decs, decoratorName(p, d.val))
					decVals = append(decVals, d.val)
				}
			}
		}
	}
	rows := tableRows(alM)
	var idx []int64
	for i := range rows {
		idx = append(idx, i)
	}
	sort.Slice(idx, func(i, j int) bool { return idx[i] < idx[j] })
	var out []route
	for _, i := range idx {
		m, ok1 := an.ConstString(rows[i][km])
		pa, ok2 := an.ConstString(rows[i][kp])
		if !ok1 || !ok2 {
			continue
		}
		out = append(out, route{Method: m, Path: pa, Handler: funcOfValue(p, rows[i][kh]), Decorators: decs, DecVals: decVals, Site: site})
	}
	return out
}
