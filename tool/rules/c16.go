package rules

import (
	"go/token"
	"go/types"
	"strings"

	"golang.org/x/tools/go/ssa"

	"nsqverif/an"
)

func init() {
	Props["C16"] = PropInfo{
		Explanation: "Decides: (bounded) the reply reader allocates only for 0 <= size <= limit, so no nsqlookupd reply can panic or balloon nsqd; " +
			"(reregister) every (re)connect identifies and then re-registers every topic and channel (or the bare topic), sending every built command, and a failed round trip closes the peer so that the next command reconnects and re-runs the callback; " +
			"(notify) creation and deletion of topics/channels notify the lookup loop, which sends REGISTER/UNREGISTER chosen from the object's exiting state to every peer and PINGs every peer on the ticker; " +
			"(precreate) a new topic is started only after every non-ephemeral channel its lookupds know was created; (faults) protocol-level refusals and undecodable replies close the peer, peers without a broadcast address are skipped; " +
			"(noiolock) no network round trip to a lookupd happens while a registry lock is held, so a stalled lookupd cannot stop publishing or delivery.",
		NotDecided:  "convergence 'within a few heartbeat intervals' (timing; the 15 s ticker is only reported).",
		Assumptions: []string{"go-nsq Command encoders produce the documented wire format", "net.Conn deadlines bound each read/write (1 s, set in lookupPeer.Read/Write)"},
	}
	reg("C16.bounded", "GUARD", "readResponseBounded allocates only within [0, limit]", 1, c16bounded)
	reg("C16.reregister", "PATH", "connect callback re-registers everything; failed round trips close the peer; callback runs on every fresh connect", 7, c16reregister)
	reg("C16.notify", "PATH", "lookup loop: REGISTER/UNREGISTER by exiting state to every peer; PING every peer on the ticker", 6, c16notify)
	reg("C16.peerset", "ORIG", "lookupLoop's address list mirrors its peer list (same accumulators, same elements) through connects and reconfigurations", 4, c16peerset)
	reg("C16.precreate", "PATH", "GetTopic creates the channels lookupd knows before starting the topic pump", 3, c16precreate)
	reg("C16.faults", "ETYPE+GUARD", "E_INVALID and undecodable IDENTIFY replies close the peer; peers without broadcast address are skipped", 3, c16faults)
	reg("C16.noiolock", "LOCK", "no lookupd round trip (TCP command or HTTP query) while NSQD/Topic/Channel locks are held", 3, c16noiolock)
}

func c16bounded(c *an.Ctx) {
	fn := c.Fn("nsqd", "readResponseBounded")
	if fn == nil {
		return
	}
	n := wireLenCheck(c, []*ssa.Function{fn})
	if n == 0 {
		c.Und(fn, "wire-sized allocation", fn.Pos(), "readResponseBounded no longer allocates from the size prefix")
	}
	// the upper bound is the limit parameter
	an.Instrs(fn, func(in ssa.Instruction) {
		ms, ok := in.(*ssa.MakeSlice)
		if !ok {
			return
		}
		q, isWire := wireOrigin(c, ms.Len)
		if !isWire {
			return
		}
		b := an.BoundsOf(ms.Block(), func(x ssa.Value) bool { return sameQty(x, q) })
		good := false
		for _, u := range b.Upper {
			if u.Op == token.LEQ && isParam(u.Y, fn, 1) {
				good = true
			}
		}
		c.Check(good, fn, "reply size bounded by the caller's limit", ms.Pos(), "", "the reply size is not compared with the limit parameter")
	})
	// callers pass MaxBodySize-derived limit
	cmd := c.P.Func("nsqd", "(*lookupPeer).Command")
	if cmd != nil {
		mbF := c.P.Field("nsqd", "lookupPeer", "maxBodySize")
		for _, rc := range an.CallsTo(cmd, fn) {
			c.Check(isLoadOfField(rc.Common().Args[1], mbF), cmd, "limit is the peer's maxBodySize", rc.Pos(), "", "readResponseBounded is not given lp.maxBodySize")
		}
	}
}

func c16reregister(c *an.Ctx) {
	outer := c.Fn("nsqd", "connectCallback")
	cmdFn := c.Fn("nsqd", "(*lookupPeer).Command")
	closeFn := c.Fn("nsqd", "(*lookupPeer).Close")
	if outer == nil || cmdFn == nil || closeFn == nil {
		return
	}
	fn := returnedFunc(outer)
	if fn == nil {
		c.Und(outer, "callback closure", outer.Pos(), "connectCallback does not return a single closure or method value")
		return
	}
	topicMapF := c.P.Field("nsqd", "NSQD", "topicMap")
	chanMapF := c.P.Field("nsqd", "Topic", "channelMap")
	register := c.P.Func("github.com/nsqio/go-nsq", "Register")
	identify := c.P.Func("github.com/nsqio/go-nsq", "Identify")
	if register == nil || identify == nil {
		c.Anchor("go-nsq.Register/Identify")
		return
	}
	// 1. IDENTIFY round trip first
	var identCmds []ssa.CallInstruction
	for _, cc := range an.CallsTo(fn, cmdFn) {
		if an.OriginsAll(arg(cc, 0), func(o ssa.Value) bool { return an.CallResultOf(o, identify) != nil }) {
			identCmds = append(identCmds, cc)
		}
	}
	c.Check(len(identCmds) == 1, fn, "IDENTIFY round trip", fn.Pos(), "", "the connect callback does not send exactly one IDENTIFY built by nsq.Identify")
	// 2. registration list: for every topic: channel-less => Register(topic, ""), else one per channel
	var topicLoop, chanLoop *an.IndexLoop
	for _, il := range mapRangeLoops(fn, topicMapF) {
		topicLoop = il
	}
	for _, il := range mapRangeLoops(fn, chanMapF) {
		chanLoop = il
	}
	if topicLoop == nil || chanLoop == nil {
		c.Bad(fn, "re-registration covers every topic and channel", fn.Pos(), "the callback does not range over n.topicMap and each topic's channelMap", nil)
	} else {
		okT, _ := topicLoop.OnlyExhaustionExit()
		okC, _ := chanLoop.OnlyExhaustionExit()
		// each channel iteration appends Register(channel.topicName, channel.name)
		isRegAppend := func(in ssa.Instruction, wantChan bool) bool {
			call, ok := isBuiltinCall(in, "append")
			if !ok {
				return false
			}
			for _, e := range appendedElems(call.Call.Args[1]) {
				if rc := an.CallResultOf(e, register); rc != nil {
					s, isC := an.ConstString(rc.Call.Args[1])
					if wantChan && !(isC && s == "") {
						return true
					}
					if !wantChan && isC && s == "" {
						return true
					}
				}
			}
			return false
		}
		eachChan, _ := loopDoesEach(fn, chanLoop, func(in ssa.Instruction, _ []ssa.Value) bool { return isRegAppend(in, true) })
		// each topic iteration: either the bare-topic append or the channel loop
		q := &an.PathQ{Fn: fn, StartEdges: []an.Edge{{From: topicLoop.Header, To: topicLoop.Body}},
			SinkEdge: func(e an.Edge, _ *an.PathState) bool { return e.To == topicLoop.Header },
			Cut:      func(in ssa.Instruction, _ *an.PathState) bool { return isRegAppend(in, false) },
			CutEdge:  func(e an.Edge, _ *an.PathState) bool { return e.To == chanLoop.Header && !chanLoop.Blocks[e.From] }}
		_, skip := q.Find()
		// the bare-topic arm only when the topic has no channels
		bareOK := false
		an.Instrs(fn, func(in ssa.Instruction) {
			if isRegAppend(in, false) {
				for _, cmp := range an.CmpsAt(in.Block()) {
					if a := lenArgOf(cmp.X); a != nil && isLoadOfField(a, chanMapF) && cmp.Op == token.EQL {
						bareOK = true
					}
				}
			}
		})
		c.Check(okT && okC && eachChan && !skip && bareOK, fn, "re-registration covers every topic and channel", fn.Pos(), "",
			sprintf("after a (re)connect some topic or channel is not re-registered (topic loop complete=%v, channel loop complete=%v, every channel registered=%v, topic iteration can skip=%v, bare topic only when channel-less=%v): that lookupd never lists this nsqd for it again", okT, okC, eachChan, skip, bareOK))
		// held under the read locks
		la := c.P.Locks()
		must, _ := la.Fns[fn].At(chanLoop.Iter)
		c.Check(must.Holds("NSQD.RWMutex", "", false) && must.Holds("Topic.RWMutex", "", false), fn, "registries read under their locks", chanLoop.Iter.Pos(), "", "the callback reads the registries without n.RLock/topic.RLock")
	}
	// 3. every built command is sent: loop over commands calling lp.Command, leaving early only on error
	sent := false
	for _, l := range an.NaturalLoops(fn) {
		il, ok := an.AsIndexLoop(l)
		if !ok || il.Slice == nil || !il.WholeOK {
			continue
		}
		var cc ssa.CallInstruction
		for _, x := range an.CallsTo(fn, cmdFn) {
			if il.Blocks[x.Block()] {
				cc = x
			}
		}
		if cc == nil || !valueIn(arg(cc, 0), il.Elems()) {
			continue
		}
		_, fail := an.ErrEdges(cc.Value())
		okExit := true
		for _, e := range il.ExitEdges() {
			if e.From == il.Header && e.To == il.Done {
				continue
			}
			if !an.EdgeIn(e, fail) {
				onFail := false
				for _, fe := range fail {
					if fe.To.Dominates(e.From) || fe.To == e.From {
						onFail = true
					}
				}
				if !onFail {
					okExit = false
				}
			}
		}
		q := &an.PathQ{Fn: fn, StartEdges: []an.Edge{{From: il.Header, To: il.Body}},
			SinkEdge: func(e an.Edge, _ *an.PathState) bool { return e.To == il.Header },
			Cut:      func(in ssa.Instruction, _ *an.PathState) bool { return in == cc.(ssa.Instruction) }}
		_, skip := q.Find()
		if okExit && !skip {
			sent = true
		}
	}
	c.Check(sent, fn, "every registration command is sent", fn.Pos(), "", "the built REGISTER commands are not all sent (the send loop can skip one or stop early without an error)")

	// lookupPeer.Command: reconnect discipline
	{
		fn := cmdFn
		stateF := c.P.Field("nsqd", "lookupPeer", "state")
		cbF := c.P.Field("nsqd", "lookupPeer", "connectCallback")
		connect := c.P.Func("nsqd", "(*lookupPeer).Connect")
		var connSucc []an.Edge
		for _, cc := range an.CallsTo(fn, connect) {
			s, _ := an.ErrEdges(cc.Value())
			connSucc = append(connSucc, s...)
		}
		// error returns after a successful connect pass Close(), or sit on a state != connected edge
		q := &an.PathQ{Fn: fn, StartEdges: connSucc,
			Sink: func(in ssa.Instruction, _ *an.PathState) bool {
				r, ok := in.(*ssa.Return)
				return ok && !isSuccessReturn(r)
			},
			Cut: func(in ssa.Instruction, _ *an.PathState) bool { return isCallToOn(in, closeFn, nil) },
			CutEdge: func(e an.Edge, _ *an.PathState) bool {
				for _, cmp := range an.CmpsOnEdge(e) {
					if cmp.Op == token.NEQ && isLoadOfField(cmp.X, stateF) && cmp.If != nil && cmp.If.Block() == e.From {
						return true
					}
				}
				return false
			}}
		// also paths that start when already connected: from entry
		q0 := *q
		q0.StartEdges = nil
		q0.StartEntry = true
		base := q.CutEdge
		q0.CutEdge = func(e an.Edge, ps *an.PathState) bool { return base(e, ps) }
		w, f := q.Find()
		w0, f0 := q0.Find()
		// from entry, error returns before/at Connect failure are fine: exclude returns dominated by Connect's failure
		if f0 {
			// check whether the witness return is the connect-failure return
			f0 = false
			for _, r := range an.Returns(fn) {
				if isSuccessReturn(r) {
					continue
				}
				onConnFail := false
				for _, cc := range an.CallsTo(fn, connect) {
					_, fail := an.ErrEdges(cc.Value())
					for _, fe := range fail {
						if fe.To == r.Block() || fe.To.Dominates(r.Block()) {
							onConnFail = true
						}
					}
				}
				if onConnFail {
					continue
				}
				qq := &an.PathQ{Fn: fn, StartEntry: true, Sink: func(in ssa.Instruction, _ *an.PathState) bool { return in == ssa.Instruction(r) },
					Cut: q.Cut, CutEdge: q.CutEdge}
				if ww, ff := qq.Find(); ff {
					f0, w0 = true, ww
				}
			}
		}
		if f || f0 {
			if !f {
				w = w0
			}
			c.Bad(fn, "a failed round trip closes the peer", fn.Pos(), "Command can return an error on an established connection without Close(): the peer stays 'connected', never reconnects and never re-registers after a lookupd restart", w)
		} else {
			c.OK(fn, "a failed round trip closes the peer", fn.Pos(), "")
		}
		// connectCallback invoked on the initialState == stateDisconnected edge after a successful connect
		cbCalled := false
		an.Instrs(fn, func(in ssa.Instruction) {
			call, ok := in.(*ssa.Call)
			if !ok || call.Call.IsInvoke() || an.StaticCallee(call) != nil {
				return
			}
			if isLoadOfField(call.Call.Value, cbF) {
				qq := &an.PathQ{Fn: fn, StartEntry: true, Sink: func(x ssa.Instruction, _ *an.PathState) bool { return x == in },
					CutEdge: func(e an.Edge, _ *an.PathState) bool { return an.EdgeIn(e, connSucc) }}
				if _, ff := qq.Find(); !ff {
					cbCalled = true
				}
			}
		})
		// and it is reached on every fresh connect: from connect success to the command write, passing the callback unless initialState != disconnected
		c.Check(cbCalled, fn, "callback runs after every fresh connect", fn.Pos(), "", "lookupPeer.Command does not invoke connectCallback after connecting")
		// Close resets the state
		okClose := false
		an.Instrs(closeFn, func(in ssa.Instruction) {
			if st, ok := in.(*ssa.Store); ok {
				if fa, ok := st.Addr.(*ssa.FieldAddr); ok && an.FieldOf(fa) == stateF {
					if k, isC := an.ConstInt(st.Val); isC {
						want, _ := constVal(c, "nsqd", "stateDisconnected")
						okClose = k == want
					}
				}
			}
		})
		c.Check(okClose, closeFn, "Close marks the peer disconnected", closeFn.Pos(), "", "lookupPeer.Close does not reset state to stateDisconnected: the next Command does not reconnect")
	}
}

func c16notify(c *an.Ctx) {
	fn := c.Fn("nsqd", "(*NSQD).lookupLoop")
	cmdFn := c.Fn("nsqd", "(*lookupPeer).Command")
	if fn == nil || cmdFn == nil {
		return
	}
	reg := c.P.Func("github.com/nsqio/go-nsq", "Register")
	unreg := c.P.Func("github.com/nsqio/go-nsq", "UnRegister")
	ping := c.P.Func("github.com/nsqio/go-nsq", "Ping")
	if reg == nil || unreg == nil || ping == nil {
		c.Anchor("go-nsq.Register/UnRegister/Ping")
		return
	}
	// exiting => UnRegister, else Register, for both kinds
	for _, typ := range []string{"Channel", "Topic"} {
		exiting := c.P.Func("nsqd", "(*"+typ+").Exiting")
		if exiting == nil {
			c.Anchor("nsqd." + typ + ".Exiting")
			continue
		}
		good := false
		for _, ec := range an.CallsTo(fn, exiting) {
			for _, t := range an.BoolTests(ec.Value()) {
				// the command constructor reached first on the paths from the edge – called directly, or through a function
				// value the path chose (`build := nsq.Register; if exiting { build = nsq.UnRegister }; build(…)`)
				firstCall := func(e an.Edge) *ssa.Function {
					got := map[*ssa.Function]bool{}
					q := &an.PathQ{Fn: fn, StartEdges: []an.Edge{e}, AllAlias: true, FullOnly: true,
						Sink: func(ssa.Instruction, *an.PathState) bool { return false },
						Cut: func(x ssa.Instruction, st *an.PathState) bool {
							if call, ok := x.(*ssa.Call); ok {
								if f := calleeOnPath(call, st); f == reg || f == unreg {
									got[f] = true
									return true
								}
							}
							return false
						}}
					q.Find()
					if len(got) == 1 {
						for f := range got {
							return f
						}
					}
					return nil
				}
				if firstCall(t.True) == unreg && firstCall(t.False) == reg {
					good = true
				}
			}
		}
		c.Check(good, fn, typ+": UNREGISTER iff exiting", fn.Pos(), "", "the lookup loop does not choose UNREGISTER when the "+strings.ToLower(typ)+" is exiting and REGISTER otherwise: deletions are announced as registrations (or vice versa)")
	}
	// arguments: channel => (topicName, name), topic => (name, "")
	argOK := 0
	type cmdCall struct {
		ci ssa.CallInstruction
		n  int
	}
	var cmdCalls []cmdCall
	for _, ci := range an.CallsIn(fn, func(ssa.CallInstruction) bool { return true }) {
		if f := an.StaticCallee(ci); f != nil {
			if f == reg || f == unreg {
				cmdCalls = append(cmdCalls, cmdCall{ci, 1})
			}
			continue
		}
		// a constructor chosen at run time: every candidate is one of the two
		cands := an.MethodValueCallees(ci)
		all := len(cands) > 0
		for _, f := range cands {
			if f != reg && f != unreg {
				all = false
			}
		}
		if all {
			cmdCalls = append(cmdCalls, cmdCall{ci, len(cands)})
		}
	}
	for _, cc := range cmdCalls {
		rc := cc.ci
		a0, _ := an.LoadedField(an.Strip(rc.Common().Args[0]))
		a1, _ := an.LoadedField(an.Strip(rc.Common().Args[1]))
		s, isC := an.ConstString(rc.Common().Args[1])
		if a0 != nil && a0.Name() == "topicName" && a1 != nil && a1.Name() == "name" {
			argOK += cc.n
		}
		if a0 != nil && a0.Name() == "name" && isC && s == "" {
			argOK += cc.n
		}
	}
	c.Check(argOK == 4, fn, "REGISTER/UNREGISTER name the right object", fn.Pos(), "", sprintf("only %d of the 4 REGISTER/UNREGISTER commands carry (topicName, channelName) / (topicName, \"\")", argOK))
	// each arm sends to every peer
	loops := an.NaturalLoops(fn)
	notifyF := c.P.Field("nsqd", "NSQD", "notifyChan")
	sendLoops := 0
	pingLoops := 0
	for _, cc := range an.CallsTo(fn, cmdFn) {
		l := an.LoopContaining(loops, cc.Block())
		if l == nil {
			continue
		}
		il, ok := an.AsIndexLoop(l)
		if !ok || il.Slice == nil {
			continue
		}
		onlyEx, _ := il.OnlyExhaustionExit()
		okEach, _ := loopDoesEach(fn, il, func(in ssa.Instruction, elems []ssa.Value) bool {
			return in == cc.(ssa.Instruction) && valueIn(recvArg(cc), elems)
		})
		if !(onlyEx && okEach && il.WholeOK) {
			continue
		}
		if an.OriginsAll(arg(cc, 0), func(o ssa.Value) bool { return an.CallResultOf(o, ping) != nil }) {
			pingLoops++
		} else if an.OriginsAny(arg(cc, 0), func(o ssa.Value) bool { return an.CallResultOf(o, reg) != nil || an.CallResultOf(o, unreg) != nil }) {
			sendLoops++
		}
	}
	c.Check(sendLoops >= 1, fn, "announcements reach every peer", fn.Pos(), "", "the REGISTER/UNREGISTER command is not sent to every lookup peer (an error on one peer must not stop the loop)")
	c.Check(pingLoops >= 1, fn, "every peer is pinged on the ticker", fn.Pos(), "", "the heartbeat arm does not PING every lookup peer: dead connections are never noticed")
	// the loop receives from notifyChan
	recv := false
	for _, sel := range an.Selects(fn) {
		for _, st := range sel.States {
			if st.Dir == types.RecvOnly && isLoadOfField(st.Chan, notifyF) {
				recv = true
			}
		}
	}
	c.Check(recv, fn, "lookup loop consumes notifications", fn.Pos(), "", "lookupLoop no longer receives from notifyChan")
}

func c16precreate(c *an.Ctx) {
	fn := c.Fn("nsqd", "(*NSQD).GetTopic")
	start := c.Fn("nsqd", "(*Topic).Start")
	getCh := c.Fn("nsqd", "(*Topic).GetChannel")
	gltc := c.P.Func("internal/clusterinfo", "(*ClusterInfo).GetLookupdTopicChannels")
	if fn == nil || start == nil || getCh == nil || gltc == nil {
		if gltc == nil {
			c.Anchor("clusterinfo.GetLookupdTopicChannels")
		}
		return
	}
	qcs := an.CallsTo(fn, gltc)
	c.Check(len(qcs) == 1, fn, "new topic asks lookupd for its channels", fn.Pos(), "", "GetTopic does not query GetLookupdTopicChannels for a newly created topic")
	if len(qcs) != 1 {
		return
	}
	qc := qcs[0]
	names := an.ResultN(qc.Value(), 0)
	// the loop over the returned names creates every non-ephemeral one
	var il *an.IndexLoop
	for _, l := range an.NaturalLoops(fn) {
		x, ok := an.AsIndexLoop(l)
		if ok && x.Slice != nil && valueIn(x.Slice, names) {
			il = x
		}
	}
	if il == nil {
		c.Bad(fn, "every known channel is created", qc.Pos(), "GetTopic does not range over the channel names returned by lookupd", nil)
		return
	}
	onlyEx, _ := il.OnlyExhaustionExit()
	var ephSkip []an.Edge
	for _, hc := range ephemeralSuffixCalls(fn) {
		for _, t := range an.BoolTests(hc) {
			ephSkip = append(ephSkip, t.True)
		}
	}
	elems := il.Elems()
	q := &an.PathQ{Fn: fn, StartEdges: []an.Edge{{From: il.Header, To: il.Body}},
		SinkEdge: func(e an.Edge, _ *an.PathState) bool { return e.To == il.Header },
		CutEdge:  func(e an.Edge, _ *an.PathState) bool { return an.EdgeIn(e, ephSkip) },
		Cut: func(in ssa.Instruction, _ *an.PathState) bool {
			if !isCallToOn(in, getCh, nil) {
				return false
			}
			return valueIn(arg(in.(ssa.CallInstruction), 0), elems)
		}}
	w, skip := q.Find()
	if !onlyEx || !il.WholeOK || skip {
		c.Bad(fn, "every known channel is created", qc.Pos(), "a non-ephemeral channel that lookupd knows for the topic can be left uncreated: it misses the topic's first messages", w)
	} else {
		c.OK(fn, "every known channel is created", qc.Pos(), "")
	}
	// the loop runs whatever the query's error says: with several lookupds the query returns the names the
	// reachable ones know together with a non-nil error
	{
		q := &an.PathQ{Fn: fn, StartAfter: []ssa.Instruction{qc.(ssa.Instruction)},
			Sink: func(in ssa.Instruction, _ *an.PathState) bool {
				return isCallToOn(in, start, nil) || an.IsReturn(in, nil)
			},
			CutEdge: func(e an.Edge, _ *an.PathState) bool { return e.To == il.Header }}
		w, f := q.Find()
		if f {
			c.Bad(fn, "pre-creation does not depend on the query's error", qc.Pos(), "after GetLookupdTopicChannels a path reaches Start()/return without entering the loop over the returned names (e.g. the loop sits in the `err == nil` branch): when one of several nsqlookupds is down the channels the others know are not pre-created and miss the topic's first messages", w)
		} else {
			c.OK(fn, "pre-creation does not depend on the query's error", qc.Pos(), "")
		}
	}
	// Start only after the query and the loop
	for _, sc := range an.CallsTo(fn, start) {
		q := &an.PathQ{Fn: fn, StartEntry: true, Sink: func(in ssa.Instruction, _ *an.PathState) bool { return in == sc.(ssa.Instruction) },
			Cut: func(in ssa.Instruction, _ *an.PathState) bool { return in == qc.(ssa.Instruction) },
			CutEdge: func(e an.Edge, _ *an.PathState) bool {
				// no lookupd configured: len(lookupdHTTPAddrs) > 0 is false
				for _, cmp := range an.CmpsOnEdge(e) {
					if cmp.If == nil || cmp.If.Block() != e.From {
						continue
					}
					oc, ok := cmp.Oriented(func(v ssa.Value) bool {
						a := lenArgOf(v)
						if a == nil {
							return false
						}
						call, ok := an.Strip(a).(*ssa.Call)
						if !ok {
							return false
						}
						f := an.StaticCallee(call)
						return f != nil && an.BaseName(f) == "lookupdHTTPAddrs"
					})
					if !ok {
						continue
					}
					if k, isC := an.ConstInt(oc.Y); isC && ((k == 0 && (oc.Op == token.LEQ || oc.Op == token.EQL)) || (k == 1 && oc.Op == token.LSS)) {
						return true
					}
				}
				return false
			}}
		w, f := q.Find()
		// and no path from Start back to GetChannel
		late := false
		for _, gc := range an.CallsTo(fn, getCh) {
			if an.Reaches(sc.(ssa.Instruction), gc.(ssa.Instruction)) {
				late = true
			}
		}
		if f || late {
			c.Bad(fn, "pump started after pre-creation", sc.Pos(), "the topic pump can be started before (or while) the channels known to lookupd are created", w)
		} else {
			c.OK(fn, "pump started after pre-creation", sc.Pos(), "")
		}
	}
}

func c16faults(c *an.Ctx) {
	outer := c.Fn("nsqd", "connectCallback")
	closeFn := c.Fn("nsqd", "(*lookupPeer).Close")
	if outer == nil || closeFn == nil {
		return
	}
	fn := returnedFunc(outer)
	if fn == nil {
		return
	}
	// E_INVALID reply => Close
	var invalidEdges []an.Edge
	an.Instrs(fn, func(in ssa.Instruction) {
		call, ok := in.(*ssa.Call)
		if !ok || !an.StdCallee(call, "bytes", "Equal") {
			return
		}
		for _, a := range call.Call.Args {
			if s, ok := an.ConstString(an.Strip(a)); ok && s == "E_INVALID" {
				for _, t := range an.BoolTests(call) {
					invalidEdges = append(invalidEdges, t.True)
				}
			}
		}
	})
	q := &an.PathQ{Fn: fn, StartEdges: invalidEdges, Sink: an.IsReturn, Cut: func(in ssa.Instruction, _ *an.PathState) bool { return isCallToOn(in, closeFn, nil) }}
	_, f := q.Find()
	c.Check(!f && len(invalidEdges) > 0, fn, "E_INVALID reply closes the peer", fn.Pos(), "", "an E_INVALID reply to IDENTIFY does not close the peer (nsqd keeps sending commands lookupd rejects)")
	// JSON failure => Close
	var jsonFail []an.Edge
	an.Instrs(fn, func(in ssa.Instruction) {
		if call, ok := in.(*ssa.Call); ok && an.StdCallee(call, "encoding/json", "Unmarshal") {
			_, fe := an.ErrEdges(call)
			jsonFail = append(jsonFail, fe...)
		}
	})
	q2 := &an.PathQ{Fn: fn, StartEdges: jsonFail, Sink: an.IsReturn, Cut: func(in ssa.Instruction, _ *an.PathState) bool { return isCallToOn(in, closeFn, nil) }}
	_, f2 := q2.Find()
	c.Check(!f2 && len(jsonFail) > 0, fn, "undecodable IDENTIFY reply closes the peer", fn.Pos(), "", "a garbage reply to IDENTIFY is not answered by closing the peer")
	// lookupdHTTPAddrs skips peers without broadcast address
	if la := c.Fn("nsqd", "(*NSQD).lookupdHTTPAddrs"); la != nil {
		good := false
		an.Instrs(la, func(in ssa.Instruction) {
			call, ok := isBuiltinCall(in, "append")
			if !ok {
				return
			}
			for _, cmp := range an.CmpsAt(call.Block()) {
				if a := lenArgOf(cmp.X); a != nil {
					if f, _ := an.LoadedField(an.Strip(a)); f != nil && f.Name() == "BroadcastAddress" && cmp.Op == token.GTR {
						good = true
					}
				}
			}
		})
		c.Check(good, la, "peers without a broadcast address are skipped", la.Pos(), "", "lookupdHTTPAddrs includes peers whose IDENTIFY reply is missing/incomplete: GetTopic then queries ':0'")
	}
}

func c16noiolock(c *an.Ctx) {
	la := c.P.Locks()
	classes := map[string]bool{"NSQD.RWMutex": true, "Topic.RWMutex": true, "Channel.RWMutex": true, "Channel.exitMutex": true}
	// network entry points
	isNet := func(f *ssa.Function) bool {
		if f == nil {
			return false
		}
		name := an.FnName(f)
		switch name {
		case "(*nsqd.lookupPeer).Command", "(*nsqd.lookupPeer).Connect", "(*internal/http_api.Client).GETV1", "(*internal/http_api.Client).POSTV1":
			return true
		}
		if f.Pkg != nil && f.Pkg.Pkg.Path() == "net" && strings.HasPrefix(f.Name(), "Dial") {
			return true
		}
		return false
	}
	// reaches-network summary over repo functions (not through go statements)
	memo := map[*ssa.Function]int{}
	var reaches func(f *ssa.Function, d int) bool
	reaches = func(f *ssa.Function, d int) bool {
		if isNet(f) {
			return true
		}
		if v, ok := memo[f]; ok {
			return v == 1
		}
		memo[f] = 0
		if la.Fns[f] == nil || d > 12 {
			return false
		}
		res := false
		// a function that starts goroutines and then waits for them blocks as long as they do
		waits := false
		an.Instrs(f, func(in ssa.Instruction) {
			if call, ok := in.(*ssa.Call); ok && an.StdCallee(call, "sync", "(*WaitGroup).Wait") {
				waits = true
			}
		})
		an.Instrs(f, func(in ssa.Instruction) {
			if res {
				return
			}
			ci, ok := in.(ssa.CallInstruction)
			if !ok {
				return
			}
			if g, isGo := in.(*ssa.Go); isGo {
				if waits {
					if gf := an.StaticCallee(g); gf != nil && reaches(gf, d+1) {
						res = true
					}
				}
				return
			}
			for _, cal := range la.Callees(ci) {
				if reaches(cal, d+1) {
					res = true
				}
			}
		})
		if res {
			memo[f] = 1
		}
		return res
	}
	n := 0
	for _, fn := range c.P.PkgFuncs("nsqd") {
		fl := la.Fns[fn]
		if fl == nil {
			continue
		}
		an.Instrs(fn, func(in ssa.Instruction) {
			ci, ok := in.(ssa.CallInstruction)
			if !ok {
				return
			}
			if _, isGo := in.(*ssa.Go); isGo {
				return
			}
			net := false
			for _, cal := range la.Callees(ci) {
				if reaches(cal, 0) {
					net = true
				}
			}
			if !net {
				return
			}
			n++
			_, may := fl.At(in)
			var held []string
			for _, cl := range may.Classes() {
				if classes[cl] {
					held = append(held, cl)
				}
			}
			c.Check(len(held) == 0, fn, "network round trip without registry locks: "+describeCall(ci), in.Pos(), "",
				"a lookupd round trip ("+describeCall(ci)+") is made while "+strings.Join(held, ",")+" may be held: a stalled or slow nsqlookupd then blocks every publisher/consumer/Exit that needs that lock")
		})
	}
	if n == 0 {
		c.Und(nil, "network call sites", token.NoPos, "no call site reaching the lookupd network functions found in package nsqd")
	}
}

// c16peerset: lookupLoop keeps two parallel locals, the peers and their addresses; `in(host, addrs)` decides
// whether a configured nsqlookupd still needs a peer. If the address list ever holds an address without a live
// peer, that nsqlookupd is never connected (or re-connected) again. Structural rule: both lists are built by
// paired appends (same block, addr element = the peer's address), each append extends the accumulator of its
// own innermost loop, and wherever the two lists merge they merge from the same places.
func c16peerset(c *an.Ctx) {
	fn := c.Fn("nsqd", "(*NSQD).lookupLoop")
	peerT := c.P.Named("nsqd", "lookupPeer")
	newPeer := c.P.Func("nsqd", "newLookupPeer")
	addrF := c.P.Field("nsqd", "lookupPeer", "addr")
	if fn == nil || peerT == nil || newPeer == nil || addrF == nil {
		return
	}
	kind := func(t types.Type) string {
		sl, ok := t.Underlying().(*types.Slice)
		if !ok {
			return ""
		}
		if pt, ok := sl.Elem().(*types.Pointer); ok && types.Identical(pt.Elem(), peerT) {
			return "peers"
		}
		if b, ok := sl.Elem().Underlying().(*types.Basic); ok && b.Kind() == types.String {
			return "addrs"
		}
		return ""
	}
	loops := an.NaturalLoops(fn)
	type app struct {
		call *ssa.Call
		elem ssa.Value
	}
	byBlock := map[*ssa.BasicBlock]map[string][]app{}
	an.Instrs(fn, func(in ssa.Instruction) {
		dc, ok := isBuiltinCall(in, "append")
		if !ok {
			return
		}
		k := kind(dc.Type())
		if k == "" {
			return
		}
		// append(base, elem) is compiled as append(base, slice-of-new-array): recover the single element
		var elem ssa.Value
		if len(dc.Call.Args) == 2 {
			if sl, ok := dc.Call.Args[1].(*ssa.Slice); ok {
				if al, ok := sl.X.(*ssa.Alloc); ok {
					for _, r := range an.Referrers(al) {
						if ia, ok := r.(*ssa.IndexAddr); ok {
							for _, rr := range an.Referrers(ia) {
								if st, ok := rr.(*ssa.Store); ok {
									elem = st.Val
								}
							}
						}
					}
				}
			}
		}
		if byBlock[in.Block()] == nil {
			byBlock[in.Block()] = map[string][]app{}
		}
		byBlock[in.Block()][k] = append(byBlock[in.Block()][k], app{dc, elem})
	})
	napp := 0
	for b, m := range byBlock {
		ps, as := m["peers"], m["addrs"]
		if len(ps) != 1 || len(as) != 1 {
			var pos token.Pos
			for _, x := range append(ps, as...) {
				pos = x.call.Pos()
			}
			c.Bad(fn, "peer and address appended together", pos, sprintf("block %d appends to one of the peer/address lists without the other: the address list no longer mirrors the peers, so a configured nsqlookupd is skipped (or connected twice) on the next (re)connect", b.Index), nil)
			continue
		}
		napp++
		pe, ae := ps[0].elem, as[0].elem
		good := false
		if pe != nil && ae != nil {
			// the peer handed on through a result variable (merged with the nil of the "already known" exit of a helper)
			if _, isPhi := an.Strip(pe).(*ssa.Phi); isPhi {
				var only ssa.Value
				n := 0
				an.OriginsAll(an.Strip(pe), func(o ssa.Value) bool {
					if k, ok := an.Strip(o).(*ssa.Const); ok && k.IsNil() {
						return true
					}
					only = o
					n++
					return true
				})
				if n == 1 {
					pe = only
				}
			}
			if call := an.CallResultOf(pe, newPeer); call != nil && an.SameValue(call.Call.Args[0], ae) {
				good = true
			}
			if f, base := an.LoadedField(an.Strip(ae)); f == addrF && an.SameValue(base, pe) {
				good = true
			}
		}
		c.Check(good, fn, "appended address is the appended peer's address", as[0].call.Pos(), "", "the address appended next to a peer is not that peer's address")
		for _, x := range []app{ps[0], as[0]} {
			l := an.LoopContaining(loops, b)
			phi, isPhi := x.call.Call.Args[0].(*ssa.Phi)
			own := false
			if l != nil && isPhi && phi.Block() == l.Header {
				// the append result flows back into that phi inside the loop
				seen := map[ssa.Value]bool{}
				var back func(v ssa.Value) bool
				back = func(v ssa.Value) bool {
					if v == ssa.Value(x.call) {
						return true
					}
					ph, ok := v.(*ssa.Phi)
					if !ok || seen[v] || !l.Blocks[ph.Block()] || (ph != phi && ph.Block() == l.Header) {
						return false
					}
					seen[v] = true
					for _, e := range ph.Edges {
						if back(e) {
							return true
						}
					}
					return false
				}
				for i, e := range phi.Edges {
					if l.Blocks[phi.Block().Preds[i]] && back(e) {
						own = true
					}
				}
			}
			c.Check(own, fn, "append extends its own loop's accumulator: "+kind(x.call.Type()), x.call.Pos(), "", "an append in lookupLoop extends a different list than the one it is assigned to (e.g. tmpAddrs = append(lookupAddrs, …)): removed peers' addresses survive a reconfiguration, and a nsqlookupd that is configured again later is never reconnected")
		}
	}
	c.Check(napp >= 2, fn, "paired appends located", fn.Pos(), "", "expected the connect loop and the reconfiguration loop to append to both lists")
	// merges: wherever a peers-phi and an addrs-phi share a block, their incoming values come from the same places
	shape := func(v ssa.Value) string {
		switch x := v.(type) {
		case *ssa.Const:
			if x.IsNil() {
				return "nil"
			}
		case *ssa.Phi:
			return sprintf("phi@%d", x.Block().Index)
		case *ssa.Call:
			return sprintf("call@%d", x.Block().Index)
		}
		return "other:" + v.Name()
	}
	nm := 0
	for _, b := range fn.Blocks {
		var pp, ap []*ssa.Phi
		for _, in := range b.Instrs {
			if ph, ok := in.(*ssa.Phi); ok {
				switch kind(ph.Type()) {
				case "peers":
					pp = append(pp, ph)
				case "addrs":
					ap = append(ap, ph)
				}
			}
		}
		if len(pp) == 0 && len(ap) == 0 {
			continue
		}
		if len(pp) != 1 || len(ap) != 1 {
			c.Bad(fn, "lists merge together", b.Instrs[0].Pos(), sprintf("block %d merges one of the peer/address lists without the other", b.Index), nil)
			continue
		}
		nm++
		good := true
		for i := range pp[0].Edges {
			if shape(pp[0].Edges[i]) != shape(ap[0].Edges[i]) {
				good = false
			}
		}
		c.Check(good, fn, sprintf("lists merge from the same places (merge #%d)", nm), pp[0].Pos(), "", "the peer list and the address list take their values from different places at a control-flow merge: they no longer describe the same set of nsqlookupds")
	}
}

// returnedFunc: the function a constructor of callbacks returns – its single closure, or the method behind a bound method
// value (`return (&connector{…}).onConnect`). nil when it returns anything else or several different functions.
func returnedFunc(outer *ssa.Function) *ssa.Function {
	var out *ssa.Function
	bad := false
	for _, r := range an.Returns(outer) {
		if len(r.Results) != 1 {
			return nil
		}
		for _, o := range an.Origins(r.Results[0]) {
			mc, ok := o.(*ssa.MakeClosure)
			if !ok {
				bad = true
				continue
			}
			f, _ := mc.Fn.(*ssa.Function)
			if m := an.BoundMethod(f); m != nil {
				f = m
			}
			if f == nil || (out != nil && out != f) {
				bad = true
				continue
			}
			out = f
		}
	}
	if bad {
		return nil
	}
	return out
}
