package rules

import (
	"fmt"
	"go/types"
	"os"
	"sort"
	"strings"

	"golang.org/x/tools/go/ssa"

	"nsqverif/an"
)

// Who-may-write baseline for the fields of the state-carrying structs (DESIGN.md §11.21). The pinned tree changes each field
// of Channel, Topic, NSQD, clientV2, Message … in a handful of functions; a change that starts writing one somewhere else
// (a second place that bumps a counter, resets a deadline, refreshes a liveness stamp, edits a registry map) has changed what
// the field means. Writes are: stores, atomic read-modify-writes, map updates and deletes on the field's map, and sends/closes
// are not. Writes to a struct that is being built (a fresh allocation) are construction, not mutation. Call sites are
// attributed to baseline functions exactly as in callers.go.
var fieldWritersTypes = []struct {
	pkg, typ string
	props    []string
}{
	{"nsqd", "Message", []string{"C01", "C02", "C07"}},
	{"nsqd", "Channel", []string{"C01", "C02", "C03", "C08", "C13"}},
	{"nsqd", "Topic", []string{"C01", "C03", "C08", "C12"}},
	{"nsqd", "NSQD", []string{"C05", "C06", "C08", "C16"}},
	{"nsqd", "clientV2", []string{"C03", "C09", "C11", "C13"}},
	{"nsqd", "guidFactory", []string{"C12"}},
	{"nsqd", "lookupPeer", []string{"C16"}},
	{"nsqlookupd", "RegistrationDB", []string{"C14", "C15"}},
	{"nsqlookupd", "PeerInfo", []string{"C14", "C15", "C16"}},
	{"nsqlookupd", "Producer", []string{"C14"}},
	{"nsqlookupd", "ClientV1", []string{"C14", "C15"}},
	{"apps/nsq_to_file", "FileLogger", []string{"C19"}},
	{"apps/nsq_to_http", "PublishHandler", []string{"C20"}},
	{"apps/nsq_to_nsq", "PublishHandler", []string{"C20"}},
	{"nsqadmin", "NSQAdmin", []string{"C17", "C18"}},
	{"nsqadmin", "httpServer", []string{"C17", "C18"}},
	{"internal/auth", "State", []string{"C11"}},
	{"nsqd", "Options", []string{"C03", "C04", "C09", "C10", "C11"}},
	{"nsqlookupd", "Options", []string{"C14"}},
	{"nsqadmin", "Options", []string{"C17"}},
}

// fieldWritersBaseline: "pkg.Type.field" -> the functions that write it on the pinned tree (generated with
// VERIF_GENFIELDWRITERS=1, then read).
var fieldWritersBaseline = map[string][]string{
	"nsqd.Message.Attempts":                                   {"(*nsqd.protocolV2).messagePump"},
	"nsqd.Message.clientID":                                   {"(*nsqd.Channel).StartInFlightTimeout"},
	"nsqd.Message.deliveryTS":                                 {"(*nsqd.Channel).StartInFlightTimeout"},
	"nsqd.Message.index":                                      {"(*nsqd.inFlightPqueue).Pop", "(*nsqd.inFlightPqueue).Push", "(*nsqd.inFlightPqueue).Remove", "(nsqd.inFlightPqueue).Swap"},
	"nsqd.Message.pri":                                        {"(*nsqd.Channel).StartInFlightTimeout", "(*nsqd.Channel).TouchMessage"},
	"nsqd.Channel.clients":                                    {"(*nsqd.Channel).AddClient", "(*nsqd.Channel).RemoveClient"},
	"nsqd.Channel.deferredMessages":                           {"(*nsqd.Channel).initPQ", "(*nsqd.Channel).popDeferredMessage", "(*nsqd.Channel).pushDeferredMessage"},
	"nsqd.Channel.deferredPQ":                                 {"(*nsqd.Channel).initPQ"},
	"nsqd.Channel.exitFlag":                                   {"(*nsqd.Channel).exit"},
	"nsqd.Channel.globalMsgCount":                             {"(*nsqd.protocolV2).messagePump"},
	"nsqd.Channel.inFlightMessages":                           {"(*nsqd.Channel).initPQ", "(*nsqd.Channel).popInFlightMessage", "(*nsqd.Channel).pushInFlightMessage"},
	"nsqd.Channel.inFlightPQ":                                 {"(*nsqd.Channel).initPQ"},
	"nsqd.Channel.messageCount":                               {"(*nsqd.Channel).PutMessage", "(*nsqd.Channel).PutMessageDeferred"},
	"nsqd.Channel.paused":                                     {"(*nsqd.Channel).doPause"},
	"nsqd.Channel.regionLocalMsgCount":                        {"(*nsqd.protocolV2).messagePump"},
	"nsqd.Channel.requeueCount":                               {"(*nsqd.Channel).RequeueMessage"},
	"nsqd.Channel.timeoutCount":                               {"(*nsqd.Channel).processInFlightQueue"},
	"nsqd.Channel.zoneLocalMsgCount":                          {"(*nsqd.protocolV2).messagePump"},
	"nsqd.Topic.channelMap":                                   {"(*nsqd.Topic).DeleteExistingChannel", "(*nsqd.Topic).exit", "(*nsqd.Topic).getOrCreateChannel"},
	"nsqd.Topic.exitFlag":                                     {"(*nsqd.Topic).exit"},
	"nsqd.Topic.messageBytes":                                 {"(*nsqd.Topic).PutMessage", "(*nsqd.Topic).PutMessages"},
	"nsqd.Topic.messageCount":                                 {"(*nsqd.Topic).PutMessage", "(*nsqd.Topic).PutMessages"},
	"nsqd.Topic.paused":                                       {"(*nsqd.Topic).doPause"},
	"nsqd.NSQD.clientIDSequence":                              {"(*nsqd.protocolV2).NewClient"},
	"nsqd.NSQD.errValue":                                      {"(*nsqd.NSQD).SetHealth"},
	"nsqd.NSQD.isExiting":                                     {"(*nsqd.NSQD).Exit"},
	"nsqd.NSQD.isLoading":                                     {"(*nsqd.NSQD).LoadMetadata"},
	"nsqd.NSQD.lookupPeers":                                   {"(*nsqd.NSQD).lookupLoop"},
	"nsqd.NSQD.opts":                                          {"(*nsqd.NSQD).swapOpts"},
	"nsqd.NSQD.poolSize":                                      {"(*nsqd.NSQD).resizePool"},
	"nsqd.NSQD.topicMap":                                      {"(*nsqd.NSQD).DeleteExistingTopic", "(*nsqd.NSQD).GetTopic"},
	"nsqd.clientV2.AuthSecret":                                {"(*nsqd.clientV2).Auth"},
	"nsqd.clientV2.AuthState":                                 {"(*nsqd.clientV2).QueryAuthd"},
	"nsqd.clientV2.Channel":                                   {"(*nsqd.protocolV2).SUB"},
	"nsqd.clientV2.ClientID":                                  {"(*nsqd.clientV2).Identify"},
	"nsqd.clientV2.Deflate":                                   {"(*nsqd.clientV2).UpgradeDeflate"},
	"nsqd.clientV2.FinishCount":                               {"(*nsqd.clientV2).FinishedMessage"},
	"nsqd.clientV2.HeartbeatInterval":                         {"(*nsqd.clientV2).SetHeartbeatInterval"},
	"nsqd.clientV2.Hostname":                                  {"(*nsqd.clientV2).Identify"},
	"nsqd.clientV2.InFlightCount":                             {"(*nsqd.clientV2).Empty", "(*nsqd.clientV2).FinishedMessage", "(*nsqd.clientV2).RequeuedMessage", "(*nsqd.clientV2).SendingMessage", "(*nsqd.clientV2).TimedOutMessage"},
	"nsqd.clientV2.MessageCount":                              {"(*nsqd.clientV2).SendingMessage"},
	"nsqd.clientV2.MsgTimeout":                                {"(*nsqd.clientV2).SetMsgTimeout"},
	"nsqd.clientV2.OutputBufferSize":                          {"(*nsqd.clientV2).SetOutputBuffer"},
	"nsqd.clientV2.OutputBufferTimeout":                       {"(*nsqd.clientV2).SetOutputBuffer"},
	"nsqd.clientV2.Reader":                                    {"(*nsqd.clientV2).UpgradeDeflate", "(*nsqd.clientV2).UpgradeSnappy", "(*nsqd.clientV2).UpgradeTLS"},
	"nsqd.clientV2.ReadyCount":                                {"(*nsqd.clientV2).SetReadyCount"},
	"nsqd.clientV2.RequeueCount":                              {"(*nsqd.clientV2).RequeuedMessage"},
	"nsqd.clientV2.SampleRate":                                {"(*nsqd.clientV2).SetSampleRate"},
	"nsqd.clientV2.Snappy":                                    {"(*nsqd.clientV2).UpgradeSnappy"},
	"nsqd.clientV2.State":                                     {"(*nsqd.clientV2).StartClose", "(*nsqd.protocolV2).SUB"},
	"nsqd.clientV2.TLS":                                       {"(*nsqd.clientV2).UpgradeTLS"},
	"nsqd.clientV2.TopologyRegion":                            {"(*nsqd.clientV2).Identify"},
	"nsqd.clientV2.TopologyZone":                              {"(*nsqd.clientV2).Identify"},
	"nsqd.clientV2.UserAgent":                                 {"(*nsqd.clientV2).Identify"},
	"nsqd.clientV2.Writer":                                    {"(*nsqd.clientV2).SetOutputBuffer", "(*nsqd.clientV2).UpgradeDeflate", "(*nsqd.clientV2).UpgradeSnappy", "(*nsqd.clientV2).UpgradeTLS"},
	"nsqd.clientV2.flateWriter":                               {"(*nsqd.clientV2).UpgradeDeflate"},
	"nsqd.clientV2.pubCounts":                                 {"(*nsqd.clientV2).PublishedMessage"},
	"nsqd.clientV2.tlsConn":                                   {"(*nsqd.clientV2).UpgradeTLS"},
	"nsqd.guidFactory.lastID":                                 {"(*nsqd.guidFactory).NewGUID"},
	"nsqd.guidFactory.lastTimestamp":                          {"(*nsqd.guidFactory).NewGUID"},
	"nsqd.guidFactory.sequence":                               {"(*nsqd.guidFactory).NewGUID"},
	"nsqd.lookupPeer.conn":                                    {"(*nsqd.lookupPeer).Connect"},
	"nsqd.lookupPeer.state":                                   {"(*nsqd.lookupPeer).Close", "(*nsqd.lookupPeer).Command"},
	"nsqlookupd.RegistrationDB.registrationMap":               {"(*nsqlookupd.RegistrationDB).AddProducer", "(*nsqlookupd.RegistrationDB).AddRegistration", "(*nsqlookupd.RegistrationDB).RemoveProducer", "(*nsqlookupd.RegistrationDB).RemoveRegistration"},
	"nsqlookupd.PeerInfo.lastUpdate":                          {"(*nsqlookupd.LookupProtocolV1).PING"},
	"nsqlookupd.Producer.tombstoned":                          {"(*nsqlookupd.Producer).Tombstone"},
	"nsqlookupd.Producer.tombstonedAt":                        {"(*nsqlookupd.Producer).Tombstone"},
	"nsqlookupd.ClientV1.peerInfo":                            {"(*nsqlookupd.LookupProtocolV1).IDENTIFY"},
	"apps/nsq_to_file.FileLogger.filename":                    {"(*apps/nsq_to_file.FileLogger).updateFile"},
	"apps/nsq_to_file.FileLogger.filesize":                    {"(*apps/nsq_to_file.FileLogger).Write", "(*apps/nsq_to_file.FileLogger).updateFile"},
	"apps/nsq_to_file.FileLogger.gzipWriter":                  {"(*apps/nsq_to_file.FileLogger).Sync", "(*apps/nsq_to_file.FileLogger).updateFile"},
	"apps/nsq_to_file.FileLogger.openTime":                    {"(*apps/nsq_to_file.FileLogger).updateFile"},
	"apps/nsq_to_file.FileLogger.out":                         {"(*apps/nsq_to_file.FileLogger).Close", "(*apps/nsq_to_file.FileLogger).updateFile"},
	"apps/nsq_to_file.FileLogger.rev":                         {"(*apps/nsq_to_file.FileLogger).updateFile"},
	"apps/nsq_to_file.FileLogger.writer":                      {"(*apps/nsq_to_file.FileLogger).Sync", "(*apps/nsq_to_file.FileLogger).updateFile"},
	"apps/nsq_to_http.PublishHandler.counter":                 {"(*apps/nsq_to_http.PublishHandler).HandleMessage"},
	"apps/nsq_to_nsq.PublishHandler.counter":                  {"(*apps/nsq_to_nsq.PublishHandler).HandleMessage"},
	"apps/nsq_to_nsq.PublishHandler.requireJSONNumber":        {"(*apps/nsq_to_nsq.PublishHandler).shouldPassMessage"},
	"apps/nsq_to_nsq.PublishHandler.requireJSONValueIsNumber": {"(*apps/nsq_to_nsq.PublishHandler).shouldPassMessage"},
	"apps/nsq_to_nsq.PublishHandler.requireJSONValueParsed":   {"(*apps/nsq_to_nsq.PublishHandler).shouldPassMessage"},
	"nsqadmin.NSQAdmin.opts":                                  {"(*nsqadmin.NSQAdmin).swapOpts"},
	"nsqd.Options.BroadcastHTTPPort":                          {"nsqd.New"},
	"nsqd.Options.BroadcastTCPPort":                           {"nsqd.New"},
	"nsqd.Options.Logger":                                     {"nsqd.New"},
	"nsqd.Options.StatsdPrefix":                               {"nsqd.New"},
	"nsqd.Options.TLSRequired":                                {"nsqd.New"},
	"nsqlookupd.Options.Logger":                               {"nsqlookupd.New"},
	"nsqadmin.Options.BasePath":                               {"nsqadmin.New"},
	"nsqadmin.Options.Logger":                                 {"nsqadmin.New"},
}

func init() {
	props := map[string]bool{}
	for _, t := range fieldWritersTypes {
		for _, p := range t.props {
			props[p] = true
		}
	}
	var ids []string
	for p := range props {
		ids = append(ids, p)
	}
	sort.Strings(ids)
	for _, p := range ids {
		p := p
		reg(p+".fieldwriters", "CALLS", "who-may-write baseline: the fields of the structs that carry this property's state are changed only by the functions that changed them on the pinned tree", 0, func(c *an.Ctx) { fieldwriters(c, p) })
		pi := Props[p]
		pi.Explanation += " (fieldwriters) the state fields behind this property keep their writers."
		Props[p] = pi
	}
	if os.Getenv("VERIF_GENFIELDWRITERS") != "" {
		reg("C01.genfieldwriters", "CALLS", "generator", 0, func(c *an.Ctx) {
			via := map[string][]string{}
			for _, t := range fieldWritersTypes {
				got := fieldWritersOf(c, t.pkg, t.typ)
				var keys []string
				for k := range got {
					keys = append(keys, k)
				}
				sort.Strings(keys)
				for _, k := range keys {
					var ws []string
					for w := range got[k] {
						ws = append(ws, w)
					}
					sort.Strings(ws)
					fmt.Fprintf(os.Stderr, "FW\t%q: {%s},\n", k, quoteList(ws))
					for _, w := range ws {
						if _, done := via[w]; done {
							continue
						}
						via[w] = nil
						for _, f := range c.P.RepoFuncs() {
							if an.FnName(f) != w {
								continue
							}
							seen := map[string]bool{}
							for u := range userFuncsOf(c, f) {
								for _, o := range ownersOf(c, u, 0) {
									if !seen[o] {
										seen[o] = true
										via[w] = append(via[w], o)
									}
								}
							}
							sort.Strings(via[w])
						}
					}
				}
				if nt := c.P.Named(t.pkg, t.typ); nt != nil {
					if st, ok := nt.Underlying().(*types.Struct); ok {
						for i := 0; i < st.NumFields(); i++ {
							fmt.Fprintf(os.Stderr, "KF\t%q: true,\n", t.pkg+"."+t.typ+"."+st.Field(i).Name())
						}
					}
				}
			}
			var vk []string
			for k := range via {
				vk = append(vk, k)
			}
			sort.Strings(vk)
			for _, k := range vk {
				if len(via[k]) > 0 {
					fmt.Fprintf(os.Stderr, "VIA\t%q: {%s},\n", k, quoteList(via[k]))
				}
			}
		})
	}
}

// fieldWritersOf: field key -> owner function -> a writing instruction.
func fieldWritersOf(c *an.Ctx, pkg, typ string) map[string]map[string]ssa.Instruction {
	nt := c.P.Named(pkg, typ)
	out := map[string]map[string]ssa.Instruction{}
	if nt == nil {
		return out
	}
	st, ok := nt.Underlying().(*types.Struct)
	if !ok {
		return out
	}
	fields := map[*types.Var]string{}
	for i := 0; i < st.NumFields(); i++ {
		fields[st.Field(i)] = pkg + "." + typ + "." + an.BaseFieldName(nt, st.Field(i))
	}
	note := func(key string, fn *ssa.Function, in ssa.Instruction) {
		for _, o := range ownersOf(c, fn, 0) {
			if out[key] == nil {
				out[key] = map[string]ssa.Instruction{}
			}
			out[key][o] = in
		}
	}
	for _, fn := range c.P.RepoFuncs() {
		an.Instrs(fn, func(in ssa.Instruction) {
			fa, ok := in.(*ssa.FieldAddr)
			if !ok {
				return
			}
			key, watched := fields[an.FieldOf(fa)]
			if !watched {
				return
			}
			if freshStruct(an.Strip(fa.X)) {
				return
			}
			for _, r := range an.Referrers(fa) {
				switch x := r.(type) {
				case *ssa.Store:
					if x.Addr == ssa.Value(fa) {
						note(key, fn, x)
					}
				case *ssa.Call:
					if cf := an.StaticCallee(x); cf != nil && cf.Pkg != nil && cf.Pkg.Pkg.Path() == "sync/atomic" && !strings.HasPrefix(cf.Name(), "Load") && len(x.Call.Args) > 0 && x.Call.Args[0] == ssa.Value(fa) {
						note(key, fn, x)
					}
				case *ssa.UnOp:
					for _, w := range mapWrites(x, 0) {
						note(key, fn, w)
					}
				}
			}
		})
	}
	return out
}

// mapWrites: the updates and deletes of the map m and of the maps stored in it (looked up, or met while ranging over it):
// a registry of registries (RegistrationDB.registrationMap) is changed through its inner maps.
func mapWrites(m ssa.Value, depth int) []ssa.Instruction {
	if _, ok := m.Type().Underlying().(*types.Map); !ok || depth > 2 {
		return nil
	}
	var out []ssa.Instruction
	var inner func(v ssa.Value)
	inner = func(v ssa.Value) {
		if _, ok := v.Type().Underlying().(*types.Map); ok {
			out = append(out, mapWrites(v, depth+1)...)
			return
		}
		if _, ok := v.Type().(*types.Tuple); ok {
			for _, r := range an.Referrers(v) {
				if ex, ok := r.(*ssa.Extract); ok {
					inner(ex)
				}
			}
		}
	}
	for _, r := range an.Referrers(m) {
		switch y := r.(type) {
		case *ssa.MapUpdate:
			if y.Map == m {
				out = append(out, y)
			}
		case *ssa.Call:
			if bi, ok := y.Call.Value.(*ssa.Builtin); ok && bi.Name() == "delete" && len(y.Call.Args) > 0 && y.Call.Args[0] == m {
				out = append(out, y)
			}
		case *ssa.Lookup:
			if y.X == m {
				inner(y)
			}
		case *ssa.Range:
			for _, rr := range an.Referrers(y) {
				if nx, ok := rr.(*ssa.Next); ok {
					inner(nx)
				}
			}
		}
	}
	return out
}

// freshStruct: v is a struct this function is still building – a fresh allocation, or what a constructor (a function
// that returns nothing but fresh allocations) just handed back.
func freshStruct(v ssa.Value) bool {
	switch x := v.(type) {
	case *ssa.Alloc:
		return true
	case *ssa.Call:
		cf := an.StaticCallee(x)
		if cf == nil || len(cf.Blocks) == 0 {
			return false
		}
		n := 0
		for _, b := range cf.Blocks {
			ret, ok := b.Instrs[len(b.Instrs)-1].(*ssa.Return)
			if !ok {
				continue
			}
			if len(ret.Results) != 1 {
				return false
			}
			if _, ok := an.Strip(ret.Results[0]).(*ssa.Alloc); !ok {
				return false
			}
			n++
		}
		return n > 0
	}
	return false
}

func fieldwriters(c *an.Ctx, prop string) {
	for _, t := range fieldWritersTypes {
		if !contains(t.props, prop) {
			continue
		}
		got := fieldWritersOf(c, t.pkg, t.typ)
		var keys []string
		for k := range got {
			keys = append(keys, k)
		}
		sort.Strings(keys)
		for _, k := range keys {
			allowed, known := fieldWritersBaseline[k]
			if !known {
				// a field the pinned tree never wrote outside construction (or a new field): every writer is new; a new field
				// has no meaning on the pinned tree to protect
				if nt := c.P.Named(t.pkg, t.typ); nt != nil && !fieldInBaseline(k) {
					continue
				}
			}
			var ws []string
			for w := range got[k] {
				ws = append(ws, w)
			}
			sort.Strings(ws)
			for _, w := range ws {
				ok := contains(allowed, w)
				if !ok {
					// a writer that was inlined into its callers and deleted hands its place to them
					// and one that is still there may be open-coded in a caller that used to go through it
					for _, a := range allowed {
						if contains(fieldWritersVia[a], w) {
							ok = true
						}
					}
				}
				in := got[k][w]
				c.Check(ok, in.Parent(), "writer of "+k[strings.Index(k, ".")+1:]+": "+w, in.Pos(), "",
					w+" writes "+k+", which on the pinned tree is written only by "+strings.Join(allowed, ", ")+": a second place that changes this state has not been checked against the clauses that rely on who changes it")
			}
		}
	}
}

// fieldWritersKnownFields: every "pkg.Type.field" of the pinned tree (written or not), so that a field added by a change is
// told apart from an old field that gained its first writer.
var fieldWritersKnownFields = map[string]bool{
	"apps/nsq_to_file.FileLogger.consumer":                    true,
	"apps/nsq_to_file.FileLogger.filename":                    true,
	"apps/nsq_to_file.FileLogger.filenameFormat":              true,
	"apps/nsq_to_file.FileLogger.filesize":                    true,
	"apps/nsq_to_file.FileLogger.gzipWriter":                  true,
	"apps/nsq_to_file.FileLogger.hupChan":                     true,
	"apps/nsq_to_file.FileLogger.logChan":                     true,
	"apps/nsq_to_file.FileLogger.logf":                        true,
	"apps/nsq_to_file.FileLogger.openTime":                    true,
	"apps/nsq_to_file.FileLogger.opts":                        true,
	"apps/nsq_to_file.FileLogger.out":                         true,
	"apps/nsq_to_file.FileLogger.rev":                         true,
	"apps/nsq_to_file.FileLogger.termChan":                    true,
	"apps/nsq_to_file.FileLogger.topic":                       true,
	"apps/nsq_to_file.FileLogger.writer":                      true,
	"apps/nsq_to_http.PublishHandler.Publisher":               true,
	"apps/nsq_to_http.PublishHandler.addresses":               true,
	"apps/nsq_to_http.PublishHandler.counter":                 true,
	"apps/nsq_to_http.PublishHandler.hostPool":                true,
	"apps/nsq_to_http.PublishHandler.mode":                    true,
	"apps/nsq_to_http.PublishHandler.perAddressStatus":        true,
	"apps/nsq_to_http.PublishHandler.timermetrics":            true,
	"apps/nsq_to_nsq.PublishHandler.addresses":                true,
	"apps/nsq_to_nsq.PublishHandler.counter":                  true,
	"apps/nsq_to_nsq.PublishHandler.hostPool":                 true,
	"apps/nsq_to_nsq.PublishHandler.mode":                     true,
	"apps/nsq_to_nsq.PublishHandler.perAddressStatus":         true,
	"apps/nsq_to_nsq.PublishHandler.producers":                true,
	"apps/nsq_to_nsq.PublishHandler.requireJSONNumber":        true,
	"apps/nsq_to_nsq.PublishHandler.requireJSONValueIsNumber": true,
	"apps/nsq_to_nsq.PublishHandler.requireJSONValueParsed":   true,
	"apps/nsq_to_nsq.PublishHandler.respChan":                 true,
	"apps/nsq_to_nsq.PublishHandler.timermetrics":             true,
	"internal/auth.State.Authorizations":                      true,
	"internal/auth.State.Expires":                             true,
	"internal/auth.State.Identity":                            true,
	"internal/auth.State.IdentityURL":                         true,
	"internal/auth.State.TTL":                                 true,
	"nsqadmin.NSQAdmin.RWMutex":                               true,
	"nsqadmin.NSQAdmin.graphiteURL":                           true,
	"nsqadmin.NSQAdmin.httpClientTLSConfig":                   true,
	"nsqadmin.NSQAdmin.httpListener":                          true,
	"nsqadmin.NSQAdmin.notifications":                         true,
	"nsqadmin.NSQAdmin.opts":                                  true,
	"nsqadmin.NSQAdmin.waitGroup":                             true,
	"nsqadmin.Options.ACLHTTPHeader":                          true,
	"nsqadmin.Options.AdminUsers":                             true,
	"nsqadmin.Options.AllowConfigFromCIDR":                    true,
	"nsqadmin.Options.BasePath":                               true,
	"nsqadmin.Options.DevStaticDir":                           true,
	"nsqadmin.Options.GraphiteURL":                            true,
	"nsqadmin.Options.HTTPAddress":                            true,
	"nsqadmin.Options.HTTPClientConnectTimeout":               true,
	"nsqadmin.Options.HTTPClientRequestTimeout":               true,
	"nsqadmin.Options.HTTPClientTLSCert":                      true,
	"nsqadmin.Options.HTTPClientTLSInsecureSkipVerify":        true,
	"nsqadmin.Options.HTTPClientTLSKey":                       true,
	"nsqadmin.Options.HTTPClientTLSRootCAFile":                true,
	"nsqadmin.Options.LogLevel":                               true,
	"nsqadmin.Options.LogPrefix":                              true,
	"nsqadmin.Options.Logger":                                 true,
	"nsqadmin.Options.NSQDHTTPAddresses":                      true,
	"nsqadmin.Options.NSQLookupdHTTPAddresses":                true,
	"nsqadmin.Options.NotificationHTTPEndpoint":               true,
	"nsqadmin.Options.ProxyGraphite":                          true,
	"nsqadmin.Options.StatsdCounterFormat":                    true,
	"nsqadmin.Options.StatsdGaugeFormat":                      true,
	"nsqadmin.Options.StatsdInterval":                         true,
	"nsqadmin.Options.StatsdPrefix":                           true,
	"nsqadmin.httpServer.basePath":                            true,
	"nsqadmin.httpServer.ci":                                  true,
	"nsqadmin.httpServer.client":                              true,
	"nsqadmin.httpServer.devStaticDir":                        true,
	"nsqadmin.httpServer.nsqadmin":                            true,
	"nsqadmin.httpServer.router":                              true,
	"nsqd.Channel.RWMutex":                                    true,
	"nsqd.Channel.backend":                                    true,
	"nsqd.Channel.clients":                                    true,
	"nsqd.Channel.deferredMessages":                           true,
	"nsqd.Channel.deferredMutex":                              true,
	"nsqd.Channel.deferredPQ":                                 true,
	"nsqd.Channel.deleteCallback":                             true,
	"nsqd.Channel.deleter":                                    true,
	"nsqd.Channel.e2eProcessingLatencyStream":                 true,
	"nsqd.Channel.ephemeral":                                  true,
	"nsqd.Channel.exitFlag":                                   true,
	"nsqd.Channel.exitMutex":                                  true,
	"nsqd.Channel.globalMsgCount":                             true,
	"nsqd.Channel.inFlightMessages":                           true,
	"nsqd.Channel.inFlightMutex":                              true,
	"nsqd.Channel.inFlightPQ":                                 true,
	"nsqd.Channel.memoryMsgChan":                              true,
	"nsqd.Channel.messageCount":                               true,
	"nsqd.Channel.name":                                       true,
	"nsqd.Channel.nsqd":                                       true,
	"nsqd.Channel.paused":                                     true,
	"nsqd.Channel.regionLocalMsgChan":                         true,
	"nsqd.Channel.regionLocalMsgCount":                        true,
	"nsqd.Channel.requeueCount":                               true,
	"nsqd.Channel.timeoutCount":                               true,
	"nsqd.Channel.topicName":                                  true,
	"nsqd.Channel.topologyAwareConsumption":                   true,
	"nsqd.Channel.zoneLocalMsgChan":                           true,
	"nsqd.Channel.zoneLocalMsgCount":                          true,
	"nsqd.Message.Attempts":                                   true,
	"nsqd.Message.Body":                                       true,
	"nsqd.Message.ID":                                         true,
	"nsqd.Message.Timestamp":                                  true,
	"nsqd.Message.clientID":                                   true,
	"nsqd.Message.deferred":                                   true,
	"nsqd.Message.deliveryTS":                                 true,
	"nsqd.Message.index":                                      true,
	"nsqd.Message.pri":                                        true,
	"nsqd.NSQD.RWMutex":                                       true,
	"nsqd.NSQD.ci":                                            true,
	"nsqd.NSQD.clientIDSequence":                              true,
	"nsqd.NSQD.clientTLSConfig":                               true,
	"nsqd.NSQD.ctx":                                           true,
	"nsqd.NSQD.ctxCancel":                                     true,
	"nsqd.NSQD.dl":                                            true,
	"nsqd.NSQD.errValue":                                      true,
	"nsqd.NSQD.exitChan":                                      true,
	"nsqd.NSQD.httpListener":                                  true,
	"nsqd.NSQD.httpsListener":                                 true,
	"nsqd.NSQD.isExiting":                                     true,
	"nsqd.NSQD.isLoading":                                     true,
	"nsqd.NSQD.lookupPeers":                                   true,
	"nsqd.NSQD.notifyChan":                                    true,
	"nsqd.NSQD.opts":                                          true,
	"nsqd.NSQD.optsNotificationChan":                          true,
	"nsqd.NSQD.poolSize":                                      true,
	"nsqd.NSQD.startTime":                                     true,
	"nsqd.NSQD.tcpListener":                                   true,
	"nsqd.NSQD.tcpServer":                                     true,
	"nsqd.NSQD.tlsConfig":                                     true,
	"nsqd.NSQD.topicMap":                                      true,
	"nsqd.NSQD.waitGroup":                                     true,
	"nsqd.Options.AuthHTTPAddresses":                          true,
	"nsqd.Options.AuthHTTPRequestMethod":                      true,
	"nsqd.Options.BroadcastAddress":                           true,
	"nsqd.Options.BroadcastHTTPPort":                          true,
	"nsqd.Options.BroadcastTCPPort":                           true,
	"nsqd.Options.ClientTimeout":                              true,
	"nsqd.Options.DataPath":                                   true,
	"nsqd.Options.DeflateEnabled":                             true,
	"nsqd.Options.E2EProcessingLatencyPercentiles":            true,
	"nsqd.Options.E2EProcessingLatencyWindowTime":             true,
	"nsqd.Options.Experiments":                                true,
	"nsqd.Options.HTTPAddress":                                true,
	"nsqd.Options.HTTPClientConnectTimeout":                   true,
	"nsqd.Options.HTTPClientRequestTimeout":                   true,
	"nsqd.Options.HTTPSAddress":                               true,
	"nsqd.Options.ID":                                         true,
	"nsqd.Options.LogLevel":                                   true,
	"nsqd.Options.LogPrefix":                                  true,
	"nsqd.Options.Logger":                                     true,
	"nsqd.Options.MaxBodySize":                                true,
	"nsqd.Options.MaxBytesPerFile":                            true,
	"nsqd.Options.MaxChannelConsumers":                        true,
	"nsqd.Options.MaxDeflateLevel":                            true,
	"nsqd.Options.MaxHeartbeatInterval":                       true,
	"nsqd.Options.MaxMsgSize":                                 true,
	"nsqd.Options.MaxMsgTimeout":                              true,
	"nsqd.Options.MaxOutputBufferSize":                        true,
	"nsqd.Options.MaxOutputBufferTimeout":                     true,
	"nsqd.Options.MaxRdyCount":                                true,
	"nsqd.Options.MaxReqTimeout":                              true,
	"nsqd.Options.MemQueueSize":                               true,
	"nsqd.Options.MinOutputBufferTimeout":                     true,
	"nsqd.Options.MsgTimeout":                                 true,
	"nsqd.Options.NSQLookupdTCPAddresses":                     true,
	"nsqd.Options.OutputBufferTimeout":                        true,
	"nsqd.Options.QueueScanDirtyPercent":                      true,
	"nsqd.Options.QueueScanInterval":                          true,
	"nsqd.Options.QueueScanRefreshInterval":                   true,
	"nsqd.Options.QueueScanSelectionCount":                    true,
	"nsqd.Options.QueueScanWorkerPoolMax":                     true,
	"nsqd.Options.SnappyEnabled":                              true,
	"nsqd.Options.StatsdAddress":                              true,
	"nsqd.Options.StatsdExcludeEphemeral":                     true,
	"nsqd.Options.StatsdInterval":                             true,
	"nsqd.Options.StatsdMemStats":                             true,
	"nsqd.Options.StatsdPrefix":                               true,
	"nsqd.Options.StatsdUDPPacketSize":                        true,
	"nsqd.Options.SyncEvery":                                  true,
	"nsqd.Options.SyncTimeout":                                true,
	"nsqd.Options.TCPAddress":                                 true,
	"nsqd.Options.TLSCert":                                    true,
	"nsqd.Options.TLSClientAuthPolicy":                        true,
	"nsqd.Options.TLSKey":                                     true,
	"nsqd.Options.TLSMinVersion":                              true,
	"nsqd.Options.TLSRequired":                                true,
	"nsqd.Options.TLSRootCAFile":                              true,
	"nsqd.Options.TopologyRegion":                             true,
	"nsqd.Options.TopologyZone":                               true,
	"nsqd.Topic.RWMutex":                                      true,
	"nsqd.Topic.backend":                                      true,
	"nsqd.Topic.channelMap":                                   true,
	"nsqd.Topic.channelUpdateChan":                            true,
	"nsqd.Topic.deleteCallback":                               true,
	"nsqd.Topic.deleter":                                      true,
	"nsqd.Topic.ephemeral":                                    true,
	"nsqd.Topic.exitChan":                                     true,
	"nsqd.Topic.exitFlag":                                     true,
	"nsqd.Topic.idFactory":                                    true,
	"nsqd.Topic.memoryMsgChan":                                true,
	"nsqd.Topic.messageBytes":                                 true,
	"nsqd.Topic.messageCount":                                 true,
	"nsqd.Topic.name":                                         true,
	"nsqd.Topic.nsqd":                                         true,
	"nsqd.Topic.pauseChan":                                    true,
	"nsqd.Topic.paused":                                       true,
	"nsqd.Topic.startChan":                                    true,
	"nsqd.Topic.waitGroup":                                    true,
	"nsqd.clientV2.AuthSecret":                                true,
	"nsqd.clientV2.AuthState":                                 true,
	"nsqd.clientV2.Channel":                                   true,
	"nsqd.clientV2.ClientID":                                  true,
	"nsqd.clientV2.Conn":                                      true,
	"nsqd.clientV2.ConnectTime":                               true,
	"nsqd.clientV2.Deflate":                                   true,
	"nsqd.clientV2.ExitChan":                                  true,
	"nsqd.clientV2.FinishCount":                               true,
	"nsqd.clientV2.GlobalMsgCount":                            true,
	"nsqd.clientV2.HeartbeatInterval":                         true,
	"nsqd.clientV2.Hostname":                                  true,
	"nsqd.clientV2.ID":                                        true,
	"nsqd.clientV2.IdentifyEventChan":                         true,
	"nsqd.clientV2.InFlightCount":                             true,
	"nsqd.clientV2.MessageCount":                              true,
	"nsqd.clientV2.MsgTimeout":                                true,
	"nsqd.clientV2.OutputBufferSize":                          true,
	"nsqd.clientV2.OutputBufferTimeout":                       true,
	"nsqd.clientV2.Reader":                                    true,
	"nsqd.clientV2.ReadyCount":                                true,
	"nsqd.clientV2.ReadyStateChan":                            true,
	"nsqd.clientV2.RegionLocalMsgCount":                       true,
	"nsqd.clientV2.RequeueCount":                              true,
	"nsqd.clientV2.SampleRate":                                true,
	"nsqd.clientV2.Snappy":                                    true,
	"nsqd.clientV2.State":                                     true,
	"nsqd.clientV2.SubEventChan":                              true,
	"nsqd.clientV2.TLS":                                       true,
	"nsqd.clientV2.TopologyRegion":                            true,
	"nsqd.clientV2.TopologyZone":                              true,
	"nsqd.clientV2.UserAgent":                                 true,
	"nsqd.clientV2.Writer":                                    true,
	"nsqd.clientV2.ZoneLocalMsgCount":                         true,
	"nsqd.clientV2.flateWriter":                               true,
	"nsqd.clientV2.lenBuf":                                    true,
	"nsqd.clientV2.lenSlice":                                  true,
	"nsqd.clientV2.metaLock":                                  true,
	"nsqd.clientV2.nsqd":                                      true,
	"nsqd.clientV2.pubCounts":                                 true,
	"nsqd.clientV2.tlsConn":                                   true,
	"nsqd.clientV2.writeLock":                                 true,
	"nsqd.guidFactory.Mutex":                                  true,
	"nsqd.guidFactory.lastID":                                 true,
	"nsqd.guidFactory.lastTimestamp":                          true,
	"nsqd.guidFactory.nodeID":                                 true,
	"nsqd.guidFactory.sequence":                               true,
	"nsqd.lookupPeer.Info":                                    true,
	"nsqd.lookupPeer.addr":                                    true,
	"nsqd.lookupPeer.conn":                                    true,
	"nsqd.lookupPeer.connectCallback":                         true,
	"nsqd.lookupPeer.logf":                                    true,
	"nsqd.lookupPeer.maxBodySize":                             true,
	"nsqd.lookupPeer.state":                                   true,
	"nsqlookupd.ClientV1.Conn":                                true,
	"nsqlookupd.ClientV1.peerInfo":                            true,
	"nsqlookupd.Options.BroadcastAddress":                     true,
	"nsqlookupd.Options.HTTPAddress":                          true,
	"nsqlookupd.Options.InactiveProducerTimeout":              true,
	"nsqlookupd.Options.LogLevel":                             true,
	"nsqlookupd.Options.LogPrefix":                            true,
	"nsqlookupd.Options.Logger":                               true,
	"nsqlookupd.Options.TCPAddress":                           true,
	"nsqlookupd.Options.TombstoneLifetime":                    true,
	"nsqlookupd.PeerInfo.BroadcastAddress":                    true,
	"nsqlookupd.PeerInfo.HTTPPort":                            true,
	"nsqlookupd.PeerInfo.Hostname":                            true,
	"nsqlookupd.PeerInfo.RemoteAddress":                       true,
	"nsqlookupd.PeerInfo.TCPPort":                             true,
	"nsqlookupd.PeerInfo.TopologyRegion":                      true,
	"nsqlookupd.PeerInfo.TopologyZone":                        true,
	"nsqlookupd.PeerInfo.Version":                             true,
	"nsqlookupd.PeerInfo.id":                                  true,
	"nsqlookupd.PeerInfo.lastUpdate":                          true,
	"nsqlookupd.Producer.peerInfo":                            true,
	"nsqlookupd.Producer.tombstoned":                          true,
	"nsqlookupd.Producer.tombstonedAt":                        true,
	"nsqlookupd.RegistrationDB.RWMutex":                       true,
	"nsqlookupd.RegistrationDB.registrationMap":               true,
}

func fieldInBaseline(key string) bool { return fieldWritersKnownFields[key] }

// fieldWritersVia: the callers, on the pinned tree, of the writer functions above.
var fieldWritersVia = map[string][]string{
	"(*apps/nsq_to_file.FileLogger).Close":                {"(*apps/nsq_to_file.FileLogger).router", "(*apps/nsq_to_file.FileLogger).updateFile"},
	"(*apps/nsq_to_file.FileLogger).Sync":                 {"(*apps/nsq_to_file.FileLogger).router"},
	"(*apps/nsq_to_file.FileLogger).Write":                {"(*apps/nsq_to_file.FileLogger).router", "(*internal/http_api.compressResponseWriter).Write", "(*internal/writers.SpreadWriter).Flush", "(*nsqd.Message).WriteTo", "internal/protocol.SendFramedResponse", "internal/protocol.SendResponse"},
	"(*apps/nsq_to_file.FileLogger).updateFile":           {"(*apps/nsq_to_file.FileLogger).router"},
	"(*apps/nsq_to_nsq.PublishHandler).HandleMessage":     {"(*apps/nsq_to_nsq.TopicHandler).HandleMessage"},
	"(*apps/nsq_to_nsq.PublishHandler).shouldPassMessage": {"(*apps/nsq_to_nsq.PublishHandler).HandleMessage"},
	"(*nsqadmin.NSQAdmin).swapOpts":                       {"(*nsqadmin.httpServer).doConfig", "nsqadmin.New"},
	"(*nsqd.Channel).AddClient":                           {"(*nsqd.protocolV2).SUB"},
	"(*nsqd.Channel).PutMessage":                          {"(*nsqd.Topic).messagePump"},
	"(*nsqd.Channel).PutMessageDeferred":                  {"(*nsqd.Topic).messagePump"},
	"(*nsqd.Channel).RemoveClient":                        {"(*nsqd.protocolV2).IOLoop", "(*nsqd.protocolV2).SUB"},
	"(*nsqd.Channel).RequeueMessage":                      {"(*nsqd.protocolV2).REQ"},
	"(*nsqd.Channel).StartInFlightTimeout":                {"(*nsqd.protocolV2).messagePump"},
	"(*nsqd.Channel).TouchMessage":                        {"(*nsqd.protocolV2).TOUCH"},
	"(*nsqd.Channel).doPause":                             {"(*nsqd.Channel).Pause", "(*nsqd.Channel).UnPause"},
	"(*nsqd.Channel).exit":                                {"(*nsqd.Channel).Close", "(*nsqd.Channel).Delete"},
	"(*nsqd.Channel).initPQ":                              {"(*nsqd.Channel).Empty", "nsqd.NewChannel"},
	"(*nsqd.Channel).popDeferredMessage":                  {"(*nsqd.Channel).processDeferredQueue"},
	"(*nsqd.Channel).popInFlightMessage":                  {"(*nsqd.Channel).FinishMessage", "(*nsqd.Channel).RequeueMessage", "(*nsqd.Channel).TouchMessage", "(*nsqd.Channel).processInFlightQueue"},
	"(*nsqd.Channel).processInFlightQueue":                {"(*nsqd.NSQD).queueScanWorker"},
	"(*nsqd.Channel).pushDeferredMessage":                 {"(*nsqd.Channel).StartDeferredTimeout"},
	"(*nsqd.Channel).pushInFlightMessage":                 {"(*nsqd.Channel).StartInFlightTimeout", "(*nsqd.Channel).TouchMessage"},
	"(*nsqd.NSQD).DeleteExistingTopic":                    {"(*nsqd.NSQD).GetTopic", "(*nsqd.httpServer).doDeleteTopic"},
	"(*nsqd.NSQD).Exit":                                   {"(*apps/nsqd.program).Stop"},
	"(*nsqd.NSQD).GetTopic":                               {"(*nsqd.NSQD).LoadMetadata", "(*nsqd.httpServer).getTopicFromQuery", "(*nsqd.protocolV2).DPUB", "(*nsqd.protocolV2).MPUB", "(*nsqd.protocolV2).PUB", "(*nsqd.protocolV2).SUB"},
	"(*nsqd.NSQD).LoadMetadata":                           {"(*apps/nsqd.program).Start"},
	"(*nsqd.NSQD).SetHealth":                              {"(*nsqd.Channel).put", "(*nsqd.Topic).put"},
	"(*nsqd.NSQD).resizePool":                             {"(*nsqd.NSQD).queueScanLoop"},
	"(*nsqd.NSQD).swapOpts":                               {"(*nsqd.httpServer).doConfig", "nsqd.New"},
	"(*nsqd.Topic).DeleteExistingChannel":                 {"(*nsqd.Topic).getOrCreateChannel", "(*nsqd.httpServer).doDeleteChannel"},
	"(*nsqd.Topic).PutMessage":                            {"(*nsqd.httpServer).doPUB", "(*nsqd.protocolV2).DPUB", "(*nsqd.protocolV2).PUB"},
	"(*nsqd.Topic).PutMessages":                           {"(*nsqd.httpServer).doMPUB", "(*nsqd.protocolV2).MPUB"},
	"(*nsqd.Topic).doPause":                               {"(*nsqd.Topic).Pause", "(*nsqd.Topic).UnPause"},
	"(*nsqd.Topic).exit":                                  {"(*nsqd.Topic).Close", "(*nsqd.Topic).Delete"},
	"(*nsqd.Topic).getOrCreateChannel":                    {"(*nsqd.Topic).GetChannel"},
	"(*nsqd.clientV2).Auth":                               {"(*nsqd.protocolV2).AUTH"},
	"(*nsqd.clientV2).Empty":                              {"(*nsqd.Channel).Empty"},
	"(*nsqd.clientV2).FinishedMessage":                    {"(*nsqd.protocolV2).FIN"},
	"(*nsqd.clientV2).Identify":                           {"(*nsqd.protocolV2).IDENTIFY"},
	"(*nsqd.clientV2).PublishedMessage":                   {"(*nsqd.protocolV2).DPUB", "(*nsqd.protocolV2).MPUB", "(*nsqd.protocolV2).PUB"},
	"(*nsqd.clientV2).QueryAuthd":                         {"(*nsqd.clientV2).Auth", "(*nsqd.clientV2).IsAuthorized"},
	"(*nsqd.clientV2).RequeuedMessage":                    {"(*nsqd.protocolV2).REQ"},
	"(*nsqd.clientV2).SendingMessage":                     {"(*nsqd.protocolV2).messagePump"},
	"(*nsqd.clientV2).SetHeartbeatInterval":               {"(*nsqd.clientV2).Identify"},
	"(*nsqd.clientV2).SetMsgTimeout":                      {"(*nsqd.clientV2).Identify"},
	"(*nsqd.clientV2).SetOutputBuffer":                    {"(*nsqd.clientV2).Identify"},
	"(*nsqd.clientV2).SetReadyCount":                      {"(*nsqd.clientV2).StartClose", "(*nsqd.protocolV2).RDY"},
	"(*nsqd.clientV2).SetSampleRate":                      {"(*nsqd.clientV2).Identify"},
	"(*nsqd.clientV2).StartClose":                         {"(*nsqd.protocolV2).CLS"},
	"(*nsqd.clientV2).TimedOutMessage":                    {"(*nsqd.Channel).processInFlightQueue"},
	"(*nsqd.clientV2).UpgradeDeflate":                     {"(*nsqd.protocolV2).IDENTIFY"},
	"(*nsqd.clientV2).UpgradeSnappy":                      {"(*nsqd.protocolV2).IDENTIFY"},
	"(*nsqd.clientV2).UpgradeTLS":                         {"(*nsqd.protocolV2).IDENTIFY"},
	"(*nsqd.guidFactory).NewGUID":                         {"(*nsqd.Topic).GenerateID"},
	"(*nsqd.inFlightPqueue).Pop":                          {"(*nsqd.inFlightPqueue).PeekAndShift"},
	"(*nsqd.inFlightPqueue).Push":                         {"(*nsqd.Channel).addToInFlightPQ"},
	"(*nsqd.inFlightPqueue).Remove":                       {"(*nsqd.Channel).removeFromInFlightPQ"},
	"(*nsqd.lookupPeer).Close":                            {"(*apps/nsq_to_http.GetPublisher).Publish", "(*apps/nsq_to_http.PostPublisher).Publish", "(*internal/http_api.Client).GETV1", "(*internal/http_api.Client).POSTV1", "(*nsqadmin.NSQAdmin).handleAdminActions", "(*nsqd.NSQD).lookupLoop", "(*nsqd.lookupPeer).Command", "(*nsqd.tcpServer).Close", "(*nsqd.tcpServer).Handle", "(*nsqlookupd.tcpServer).Close", "(*nsqlookupd.tcpServer).Handle", "nsqd.connectCallback"},
	"(*nsqd.lookupPeer).Command":                          {"(*nsqd.NSQD).lookupLoop", "nsqd.connectCallback"},
	"(*nsqd.lookupPeer).Connect":                          {"(*nsqd.lookupPeer).Command"},
	"(*nsqd.protocolV2).NewClient":                        {"(*nsqd.tcpServer).Handle", "(*nsqlookupd.tcpServer).Handle"},
	"(*nsqd.protocolV2).SUB":                              {"(*nsqd.protocolV2).Exec"},
	"(*nsqd.protocolV2).messagePump":                      {"(*nsqd.protocolV2).IOLoop"},
	"(*nsqlookupd.LookupProtocolV1).IDENTIFY":             {"(*nsqlookupd.LookupProtocolV1).Exec"},
	"(*nsqlookupd.LookupProtocolV1).PING":                 {"(*nsqlookupd.LookupProtocolV1).Exec"},
	"(*nsqlookupd.Producer).Tombstone":                    {"(*nsqlookupd.httpServer).doTombstoneTopicProducer"},
	"(*nsqlookupd.RegistrationDB).AddProducer":            {"(*nsqlookupd.LookupProtocolV1).IDENTIFY", "(*nsqlookupd.LookupProtocolV1).REGISTER"},
	"(*nsqlookupd.RegistrationDB).AddRegistration":        {"(*nsqlookupd.httpServer).doCreateChannel", "(*nsqlookupd.httpServer).doCreateTopic"},
	"(*nsqlookupd.RegistrationDB).RemoveProducer":         {"(*nsqlookupd.LookupProtocolV1).IOLoop", "(*nsqlookupd.LookupProtocolV1).UNREGISTER"},
	"(*nsqlookupd.RegistrationDB).RemoveRegistration":     {"(*nsqlookupd.LookupProtocolV1).UNREGISTER", "(*nsqlookupd.httpServer).doDeleteChannel", "(*nsqlookupd.httpServer).doDeleteTopic"},
	"(nsqd.inFlightPqueue).Swap":                          {"(*nsqd.inFlightPqueue).Pop", "(*nsqd.inFlightPqueue).Remove", "(*nsqd.inFlightPqueue).down", "(*nsqd.inFlightPqueue).up"},
	"nsqadmin.New":                                        {"(*apps/nsqadmin.program).Start"},
	"nsqd.New":                                            {"(*apps/nsqd.program).Init"},
	"nsqlookupd.New":                                      {"(*apps/nsqlookupd.program).Start"},
}
