package rules

import (
	"go/token"

	"golang.org/x/tools/go/ssa"

	"nsqverif/an"
)

func init() {
	Props["C15"] = PropInfo{
		Explanation: "Decides the crash surface and the refusal rules of nsqlookupd for every input: (wirelen) the IDENTIFY body allocation is bounded on both sides (a negative or huge size prefix cannot panic or exhaust the daemon); " +
			"(errtype) Exec returns only nil or *FatalClientErr, discharging the unchecked ChildErr assertion on the connection goroutine (no recover there); (dispatch) command table, unknown => fatal E_INVALID, fatal closes the connection; " +
			"(names) registration keys are built only from validated names, REGISTER/UNREGISTER require a prior IDENTIFY, a second IDENTIFY is fatal, peer info is stored only with all required fields; (params) parameter indexing is guarded; " +
			"(http) route table, handlers return only nil/http_api.Err, parser failures are 400 and missing registrations 404, /nodes indexes within bounds; (bystander) see C14.own.",
		NotDecided:  "liveness ('stop it answering others' beyond crash-freedom and lock discipline); JSON decoder internals.",
		Assumptions: []string{"strings.Split returns >= 1 element", "json.Unmarshal cannot set unexported fields (PeerInfo.id stays the connection's address)"},
	}
	reg("C15.wirelen", "GUARD", "IDENTIFY body allocation has dominating lower and upper bounds", 1, c15wirelen)
	reg("C15.errtype", "ETYPE", "lookupd Exec returns only nil/*FatalClientErr", 2, c15errtype)
	reg("C15.dispatch", "SHAPE", "lookupd command table; unknown => fatal E_INVALID; fatal errors close the connection; bad magic => E_BAD_PROTOCOL", 7, c15dispatch)
	reg("C15.names", "GUARD+ORIG", "registration keys from validated names; IDENTIFY first and once; peer info complete before it is stored", 8, c15names)
	reg("C15.identity", "ORIG", "a peer's registration id is the address of its own connection, never client-supplied data", 3, c15identity)
	reg("C15.params", "GUARD", "constant indices / slices of the parameter list are guarded by its length", 3, c15params)
	reg("C15.http", "ETYPE+GUARD", "lookupd HTTP: routes, handler error types, status classes, /nodes index bounds", 30, c15http)
}

func c15wirelen(c *an.Ctx) {
	n := wireLenCheck(c, c.P.PkgFuncs("nsqlookupd"))
	if n == 0 {
		c.Und(nil, "wire-sized allocation", token.NoPos, "no wire-sized allocation found in nsqlookupd (IDENTIFY body read changed?)")
	}
}

func c15errtype(c *an.Ctx) {
	exec := c.Fn("nsqlookupd", "(*LookupProtocolV1).Exec")
	ioloop := c.Fn("nsqlookupd", "(*LookupProtocolV1).IOLoop")
	if exec == nil || ioloop == nil {
		return
	}
	allowed := map[string]bool{"nil": true, "*internal/protocol.FatalClientErr": true, "*internal/protocol.ClientErr": true}
	errTypeCheck(c, exec, 1, allowed, "Exec error types", "IOLoop's unchecked err.(protocol.ChildErr) panics on the connection goroutine, which has no recover: nsqlookupd dies")
	an.Instrs(ioloop, func(in ssa.Instruction) {
		ta, ok := in.(*ssa.TypeAssert)
		if !ok || ta.CommaOk {
			return
		}
		if typeStrShort(ta.AssertedType) == "protocol.ChildErr" {
			fromExec := an.OriginsAll(ta.X, func(o ssa.Value) bool { return an.CallResultOf(o, exec) != nil })
			c.Check(fromExec, ioloop, "unchecked assertion to ChildErr applies to Exec's error", ta.Pos(), "", "the unchecked assertion is applied to a value that is not Exec's error")
		} else if typeStrShort(ta.AssertedType) == "*nsqlookupd.ClientV1" {
			c.OK(ioloop, "client assertion", ta.Pos(), "NewClient of the same protocol creates *ClientV1")
		}
	})
}

func c15dispatch(c *an.Ctx) {
	exec := c.Fn("nsqlookupd", "(*LookupProtocolV1).Exec")
	ioloop := c.Fn("nsqlookupd", "(*LookupProtocolV1).IOLoop")
	handle := c.Fn("nsqlookupd", "(*tcpServer).Handle")
	fatal := c.P.Func("internal/protocol", "NewFatalClientErr")
	if exec == nil || ioloop == nil || handle == nil || fatal == nil {
		return
	}
	// switch params[0] { case "PING": ... } lowers to string equality tests
	tbl := map[string]string{}
	an.Instrs(exec, func(in ssa.Instruction) {
		b, ok := in.(*ssa.BinOp)
		if !ok || b.Op != token.EQL {
			return
		}
		s, ok := an.ConstString(b.Y)
		if !ok {
			return
		}
		for _, t := range an.BoolTests(b) {
			tbl[s] = dispatchedFrom(exec, t.True)
		}
	})
	for _, cmd := range []string{"PING", "IDENTIFY", "REGISTER", "UNREGISTER"} {
		c.Check(tbl[cmd] == cmd, exec, "command "+cmd+" dispatches to its handler", exec.Pos(), "", sprintf("command %s is dispatched to %q", cmd, tbl[cmd]))
	}
	okFall := false
	for _, r := range an.Returns(exec) {
		// the error of a return, or – behind a single exit – each value merged into it
		for _, o := range append([]ssa.Value{errOperand(r)}, originsOrNone(errOperand(r))...) {
			if call := an.CallResultOf(o, fatal); call != nil {
				if code, _ := an.ConstString(call.Call.Args[1]); code == "E_INVALID" {
					if _, isSprintf := an.Strip(call.Call.Args[2]).(*ssa.Call); isSprintf {
						okFall = true
					}
				}
			}
		}
	}
	c.Check(okFall, exec, "unknown command => fatal E_INVALID", exec.Pos(), "", "an unknown command is not answered with the fatal E_INVALID")
	// IOLoop: fatal leaves
	loops := an.NaturalLoops(ioloop)
	var execCall ssa.CallInstruction
	for _, ci := range an.CallsTo(ioloop, exec) {
		execCall = ci
	}
	if execCall == nil {
		c.Bad(ioloop, "IOLoop executes commands", ioloop.Pos(), "IOLoop never calls Exec", nil)
		return
	}
	l := an.LoopContaining(loops, execCall.Block())
	found := fatalDecides(ioloop, l)
	c.Check(found, ioloop, "fatal error closes, non-fatal continues", execCall.Pos(), "", "IOLoop does not leave the loop exactly when Exec's error is a *FatalClientErr")
	// Handle: magic "  V1"
	v1ok := false
	magicIs := func(op token.Token) func(an.Fact) bool {
		return func(f an.Fact) bool {
			cmp, ok := f.AsCmp()
			if !ok || cmp.Op != op {
				return false
			}
			for _, v := range []ssa.Value{cmp.X, cmp.Y} {
				if s, ok := an.ConstString(v); ok && s == "  V1" {
					return true
				}
			}
			return false
		}
	}
	isV1 := edgesWhere(handle, magicIs(token.EQL))
	notV1 := edgesWhere(handle, magicIs(token.NEQ))
	if len(isV1) > 0 && len(notV1) > 0 {
		q := &an.PathQ{Fn: handle, StartEntry: true,
			Sink:    func(in ssa.Instruction, _ *an.PathState) bool { return isInvokeOn(in, "Protocol", "IOLoop", nil) },
			CutEdge: func(e an.Edge, _ *an.PathState) bool { return an.EdgeIn(e, isV1) }}
		if _, f := q.Find(); !f {
			q3 := &an.PathQ{Fn: handle, StartEdges: notV1, Sink: an.IsReturn, Cut: func(in ssa.Instruction, _ *an.PathState) bool {
				return isInvokeOn(in, "Conn", "Close", nil)
			}}
			if _, f3 := q3.Find(); !f3 {
				v1ok = true
			}
		}
	}
	c.Check(v1ok, handle, "bad magic => close without entering the protocol loop", handle.Pos(), "", "a connection with a magic other than \"  V1\" reaches the protocol loop or is not closed")
}

func c15names(c *an.Ctx) {
	gtc := c.Fn("nsqlookupd", "getTopicChan")
	vt := c.P.Func("internal/protocol", "IsValidTopicName")
	vc := c.P.Func("internal/protocol", "IsValidChannelName")
	fatal := c.P.Func("internal/protocol", "NewFatalClientErr")
	if gtc == nil || vt == nil || vc == nil || fatal == nil {
		return
	}
	// getTopicChan: success returns only validated names (channel: validated or empty) – per path, so that a single-exit
	// spelling (names blanked and err set, one return) is judged like the early-return one
	{
		okT, okC, w := namesValidatedOnPaths(gtc, vt, vc, true)
		if okT && okC {
			c.OK(gtc, "getTopicChan returns validated names", gtc.Pos(), "")
		} else {
			c.Bad(gtc, "getTopicChan returns validated names", gtc.Pos(), sprintf("getTopicChan can succeed with an unvalidated name (topic ok=%v, channel ok-or-empty=%v): arbitrary bytes become registration keys served to every client", okT, okC), w)
		}
	}
	peerF := c.P.Field("nsqlookupd", "ClientV1", "peerInfo")
	for _, cmd := range []string{"REGISTER", "UNREGISTER"} {
		fn := c.Fn("nsqlookupd", "(*LookupProtocolV1)."+cmd)
		if fn == nil {
			continue
		}
		// registry calls are cut by getTopicChan success and by peerInfo != nil
		var succ []an.Edge
		var names []ssa.Value
		for _, gc := range an.CallsTo(fn, gtc) {
			s, _ := an.ErrEdges(gc.Value())
			succ = append(succ, s...)
			names = append(names, an.ResultN(gc.Value(), 0)...)
			names = append(names, an.ResultN(gc.Value(), 1)...)
		}
		var identified []an.Edge
		an.Instrs(fn, func(in ssa.Instruction) {
			b, ok := in.(*ssa.BinOp)
			if ok && isLoadOfField(b.X, peerF) && an.IsNilConst(b.Y) {
				for _, t := range an.NilTests(b.X) {
					if t.If.Cond == ssa.Value(b) {
						identified = append(identified, t.NonNil)
					}
				}
			}
		})
		isDB := func(in ssa.Instruction) bool {
			ci, ok := in.(ssa.CallInstruction)
			if !ok {
				return false
			}
			f := an.StaticCallee(ci)
			return f != nil && f.Signature.Recv() != nil && typeStrShort(f.Signature.Recv().Type()) == "*nsqlookupd.RegistrationDB"
		}
		for _, set := range []struct {
			name  string
			edges []an.Edge
		}{{"names validated", succ}, {"client identified", identified}} {
			q := &an.PathQ{Fn: fn, StartEntry: true, Sink: func(in ssa.Instruction, _ *an.PathState) bool { return isDB(in) },
				CutEdge: func(e an.Edge, _ *an.PathState) bool { return an.EdgeIn(e, set.edges) }}
			w, f := q.Find()
			if f || len(set.edges) == 0 {
				c.Bad(fn, cmd+" touches the registry only after: "+set.name, fn.Pos(), cmd+" can reach the registration DB without: "+set.name+" (for an unidentified client, client.peerInfo is nil: nil dereference on the connection goroutine kills nsqlookupd)", w)
			} else {
				c.OK(fn, cmd+" touches the registry only after: "+set.name, fn.Pos(), "")
			}
		}
		// keys built from the validated names
		good := true
		an.Instrs(fn, func(in ssa.Instruction) {
			st, ok := in.(*ssa.Store)
			if !ok {
				return
			}
			fa, ok := st.Addr.(*ssa.FieldAddr)
			if !ok {
				return
			}
			if n := an.FName(an.FieldOf(fa)); n != "Key" && n != "SubKey" {
				return
			}
			if _, isC := an.ConstString(st.Val); isC {
				return
			}
			if !valueIn(st.Val, names) {
				good = false
			}
		})
		c.Check(good, fn, cmd+" keys are the validated names", fn.Pos(), "", "a Registration key is built from something other than getTopicChan's validated results")
	}
	// IDENTIFY
	if fn := c.Fn("nsqlookupd", "(*LookupProtocolV1).IDENTIFY"); fn != nil {
		// second IDENTIFY fatal: the edge peerInfo != nil returns fatal E_INVALID
		var again []an.Edge
		an.Instrs(fn, func(in ssa.Instruction) {
			b, ok := in.(*ssa.BinOp)
			if ok && isLoadOfField(b.X, peerF) && an.IsNilConst(b.Y) {
				for _, t := range an.NilTests(b.X) {
					if t.If.Cond == ssa.Value(b) {
						again = append(again, t.NonNil)
					}
				}
			}
		})
		ok, why, w := errReturnsFrom(fn, again, fatal, "E_INVALID")
		if ok && len(again) > 0 {
			c.OK(fn, "second IDENTIFY is fatal", fn.Pos(), "")
		} else {
			c.Bad(fn, "second IDENTIFY is fatal", fn.Pos(), "a repeated IDENTIFY is not refused with the fatal E_INVALID: "+why, w)
		}
		// store to client.peerInfo dominated by the four required-field tests
		an.Instrs(fn, func(in ssa.Instruction) {
			st, okS := in.(*ssa.Store)
			if !okS {
				return
			}
			fa, okF := st.Addr.(*ssa.FieldAddr)
			if !okF || an.FieldOf(fa) != peerF {
				return
			}
			need := map[string]bool{"BroadcastAddress": false, "TCPPort": false, "HTTPPort": false, "Version": false}
			for _, cmp := range an.CmpsAt(st.Block()) {
				if cmp.Op != token.NEQ {
					continue
				}
				if f, _ := an.LoadedField(an.Strip(cmp.X)); f != nil {
					if _, want := need[an.FName(f)]; want {
						need[an.FName(f)] = true
					}
				}
			}
			all := true
			for _, v := range need {
				all = all && v
			}
			c.Check(all, fn, "peer info stored only when complete", st.Pos(), "", sprintf("client.peerInfo is stored without all required fields being present (%v): /lookup then advertises producers without address or port", need))
			// and after JSON decoding succeeded
			var succ []an.Edge
			an.Instrs(fn, func(x ssa.Instruction) {
				if call, ok := x.(*ssa.Call); ok && an.StdCallee(call, "encoding/json", "Unmarshal") {
					s, _ := an.ErrEdges(call)
					succ = append(succ, s...)
				}
			})
			q := &an.PathQ{Fn: fn, StartEntry: true, Sink: func(x ssa.Instruction, _ *an.PathState) bool { return x == in },
				CutEdge: func(e an.Edge, _ *an.PathState) bool { return an.EdgeIn(e, succ) }}
			_, f := q.Find()
			c.Check(!f && len(succ) > 0, fn, "peer info stored only after the body decoded", st.Pos(), "", "client.peerInfo is stored although the IDENTIFY body did not decode")
		})
	}
}

func c15params(c *an.Ctx) {
	gtc := c.Fn("nsqlookupd", "getTopicChan")
	exec := c.Fn("nsqlookupd", "(*LookupProtocolV1).Exec")
	if gtc == nil || exec == nil {
		return
	}
	nonEmpty, whyNot := paramsNonEmpty(c, exec)
	for _, fn := range []*ssa.Function{gtc, exec} {
		params := fn.Params[len(fn.Params)-1]
		an.Instrs(fn, func(in ssa.Instruction) {
			switch x := in.(type) {
			case *ssa.IndexAddr:
				if an.Strip(x.X) != ssa.Value(params) {
					return
				}
				k, isC := an.ConstInt(x.Index)
				if !isC {
					return
				}
				construct := sprintf("params[%d] in range", k)
				if fn == exec && k == 0 && nonEmpty {
					c.OK(fn, construct, x.Pos(), "every caller passes strings.Split(_, non-empty sep), which returns >= 1 element")
					return
				}
				good := false
				for _, cmp := range an.CmpsAt(x.Block()) {
					oc, ok := cmp.Oriented(func(v ssa.Value) bool { a := lenArgOf(v); return a != nil && an.Strip(a) == ssa.Value(params) })
					if !ok {
						continue
					}
					kk, isC := an.ConstInt(oc.Y)
					if !isC {
						continue
					}
					switch oc.Op {
					case token.GEQ:
						good = good || kk >= k+1
					case token.GTR:
						good = good || kk >= k
					case token.NEQ:
						good = good || (kk == 0 && k == 0)
					}
				}
				why := ""
				if fn == exec && k == 0 {
					why = " (" + whyNot + ")"
				}
				c.Check(good, fn, construct, x.Pos(), "", sprintf("params[%d] is read without a dominating length test%s: a short or blank command line panics the connection goroutine (process-fatal)", k, why))
			case *ssa.Slice:
				if an.Strip(x.X) != ssa.Value(params) || x.Low == nil {
					return
				}
				k, isC := an.ConstInt(x.Low)
				if !isC {
					return
				}
				// params[1:] needs len >= 1 – guaranteed by the Split contract in Exec
				c.Check(fn == exec && k == 1 && (nonEmpty || lenAtLeast(x.Block(), params, 1)), fn, sprintf("params[%d:] in range", k), x.Pos(), "", sprintf("params[%d:] is sliced without a length guarantee %s", k, whyNot))
			}
		})
	}
}

var lookupdRoutes = map[string]string{
	"GET /ping": "pingHandler", "GET /info": "doInfo", "GET /debug": "doDebug", "GET /lookup": "doLookup", "GET /topics": "doTopics", "GET /channels": "doChannels", "GET /nodes": "doNodes",
	"POST /topic/create": "doCreateTopic", "POST /topic/delete": "doDeleteTopic", "POST /channel/create": "doCreateChannel", "POST /channel/delete": "doDeleteChannel", "POST /topic/tombstone": "doTombstoneTopicProducer",
}

func c15http(c *an.Ctx) {
	fn := c.Fn("nsqlookupd", "newHTTPServer")
	if fn == nil {
		return
	}
	rs := checkRouteTable(c, fn, lookupdRoutes, map[string]bool{"V1": true, "PlainText": true})
	checkRouterResponders(c, fn)
	handlerErrTypes(c, rs, "V1/PlainText's unchecked err.(Err) panics; the router answers 500 for what should be a 4xx")
	statusCheck(c, httpErrFuncs(c, rs, "nsqlookupd"), map[string][]int64{
		"TOPIC_NOT_FOUND":   {404},
		"CHANNEL_NOT_FOUND": {404},
	})
	// create endpoints validate names
	vt := c.P.Func("internal/protocol", "IsValidTopicName")
	gtca := c.P.Func("internal/http_api", "GetTopicChannelArgs")
	addReg := c.P.Func("nsqlookupd", "(*RegistrationDB).AddRegistration")
	for _, h := range []string{"doCreateTopic", "doCreateChannel"} {
		hf := c.Fn("nsqlookupd", "(*httpServer)."+h)
		if hf == nil || addReg == nil {
			continue
		}
		for _, ac := range an.CallsTo(hf, addReg) {
			good := false
			for _, f := range an.FactsAt(ac.Block()) {
				if call, ok := f.V.(*ssa.Call); ok && f.True && vt != nil && an.IsCallTo(call, vt) {
					good = true
				}
			}
			if gtca != nil {
				for _, gc := range an.CallsTo(hf, gtca) {
					succ, _ := an.ErrEdges(gc.Value())
					q := &an.PathQ{Fn: hf, StartEntry: true, Sink: func(in ssa.Instruction, _ *an.PathState) bool { return in == ac.(ssa.Instruction) },
						CutEdge: func(e an.Edge, _ *an.PathState) bool { return an.EdgeIn(e, succ) }}
					if _, f := q.Find(); !f && len(succ) > 0 {
						good = true
					}
				}
			}
			c.Check(good, hf, "admin create validates names", ac.Pos(), "", h+" adds a registration without validating the topic/channel name")
		}
	}
	// doNodes: tombstones[j] and nodes[i] within bounds
	if dn := c.Fn("nsqlookupd", "(*httpServer).doNodes"); dn != nil {
		loops := an.NaturalLoops(dn)
		an.Instrs(dn, func(in ssa.Instruction) {
			ia, ok := in.(*ssa.IndexAddr)
			if !ok {
				return
			}
			if _, isC := an.ConstInt(ia.Index); isC {
				return
			}
			ms, ok := an.Strip(ia.X).(*ssa.MakeSlice)
			if !ok {
				return // indexing the ranged slice itself
			}
			// index must be the range index of a loop over a slice S with make(len(S))
			good := false
			for _, l := range loops {
				il, ok := an.AsIndexLoop(l)
				if !ok || il.Slice == nil || il.Idx != ia.Index || !il.Blocks[ia.Block()] {
					continue
				}
				if a := lenArgOf(ms.Len); a != nil && an.SameValue(a, il.Slice) {
					good = true
				}
			}
			c.Check(good, dn, "index into a slice made with the ranged slice's length", ia.Pos(), "", "/nodes writes into a slice with an index that is not the range index of a slice of the same length: index out of range => 500")
		})
	}
}

// lenAtLeast: a dominating comparison implies len(v) >= n at block b.
func lenAtLeast(b *ssa.BasicBlock, v ssa.Value, n int64) bool {
	for _, cmp := range an.CmpsAt(b) {
		oc, ok := cmp.Oriented(func(x ssa.Value) bool { a := lenArgOf(x); return a != nil && an.Strip(a) == v })
		if !ok {
			continue
		}
		kk, isC := an.ConstInt(oc.Y)
		if !isC {
			continue
		}
		switch oc.Op {
		case token.GEQ:
			if kk >= n {
				return true
			}
		case token.GTR:
			if kk >= n-1 {
				return true
			}
		case token.NEQ:
			if kk == 0 && n == 1 {
				return true
			}
		case token.EQL:
			if kk >= n {
				return true
			}
		}
	}
	return false
}

// c15identity: PeerInfo.id keys every producer entry; it must come from the connection (RemoteAddr().String())
// and from nothing a client can put into the IDENTIFY body.
func c15identity(c *an.Ctx) {
	idF := c.P.Field("nsqlookupd", "PeerInfo", "id")
	if idF == nil {
		c.Anchor("nsqlookupd.PeerInfo.id")
		return
	}
	c.Check(!idF.Exported(), nil, "PeerInfo.id is not settable by encoding/json", idF.Pos(), "", "PeerInfo.id is exported: the IDENTIFY body can set the registration id, so a client can act on another connection's registrations")
	fromConn := func(v ssa.Value) bool {
		return an.OriginsAll(v, func(o ssa.Value) bool {
			call, ok := o.(*ssa.Call)
			if !ok || !call.Call.IsInvoke() || call.Call.Method.Name() != "String" {
				return false
			}
			return an.OriginsAll(call.Call.Value, func(a ssa.Value) bool {
				ac, ok := a.(*ssa.Call)
				if !ok {
					return false
				}
				if ac.Call.IsInvoke() {
					return ac.Call.Method.Name() == "RemoteAddr"
				}
				f := an.StaticCallee(ac)
				return f != nil && f.Name() == "RemoteAddr"
			})
		})
	}
	n := 0
	for _, fn := range c.P.PkgFuncs("nsqlookupd") {
		an.Instrs(fn, func(in ssa.Instruction) {
			st, ok := in.(*ssa.Store)
			if !ok {
				return
			}
			fa, ok := st.Addr.(*ssa.FieldAddr)
			if !ok || an.FieldOf(fa) != idF {
				return
			}
			n++
			c.Check(fromConn(st.Val), fn, "PeerInfo.id <- conn.RemoteAddr().String()", st.Pos(), "", "PeerInfo.id is assigned something other than the connection's RemoteAddr().String() (e.g. a field decoded from the IDENTIFY body): a client can claim another producer's id and UNREGISTER or replace its registrations")
		})
	}
	c.Check(n >= 1, nil, "PeerInfo.id assigned from the connection", idF.Pos(), "", "no assignment of PeerInfo.id found")
}

// namesValidatedOnPaths: every path of fn to a success return passes an edge on which vt (result 0) and vc (result 1) held –
// for the channel optionally the edge `== ""` – and what is validated is what is returned.
func namesValidatedOnPaths(fn, vt, vc *ssa.Function, emptyChanOK bool) (okT, okC bool, witness []string) {
	validated := func(pred *ssa.Function, emptyOK bool) func(e an.Edge, st *an.PathState) bool {
		return func(e an.Edge, st *an.PathState) bool {
			for _, f := range st.FactsOnEdge(e) {
				if call, ok := f.V.(*ssa.Call); ok && f.True && an.IsCallTo(call, pred) {
					return true
				}
				if cmp, ok := f.AsCmp(); ok && emptyOK && cmp.Op == token.EQL {
					if s, ok := an.ConstString(cmp.Y); ok && s == "" {
						return true
					}
				}
			}
			return false
		}
	}
	q1 := &an.PathQ{Fn: fn, StartEntry: true, AllAlias: true, Sink: sinkSuccessReturn, CutEdge: validated(vt, false)}
	w1, f1 := q1.Find()
	q2 := &an.PathQ{Fn: fn, StartEntry: true, AllAlias: true, Sink: sinkSuccessReturn, CutEdge: validated(vc, emptyChanOK)}
	w2, f2 := q2.Find()
	same := func(idx int, pred *ssa.Function) bool {
		for _, rc := range returnCases(fn, idx) {
			if _, isC := rc.val.(*ssa.Const); isC {
				continue
			}
			ok := false
			for _, vcall := range an.CallsTo(fn, pred) {
				if an.SameValue(vcall.Common().Args[0], rc.val) {
					ok = true
				}
				for _, o := range an.Origins(vcall.Common().Args[0]) {
					if o == rc.val || an.SameValue(o, rc.val) {
						ok = true
					}
				}
			}
			if !ok {
				return false
			}
		}
		return true
	}
	okT, okC = !f1 && same(0, vt), !f2 && same(1, vc)
	witness = w1
	if okT {
		witness = w2
	}
	return
}
